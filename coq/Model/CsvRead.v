(* Model/CsvRead.v — ReadCSV of /repo/internal/io/csv.go followed by qframe.New (qframe.ReadCSV in
   /repo/qframe.go), on top of the row sequence delivered by the fastcsv Reader.
   strconv.Atoi / ParseFloat / ParseBool are parameters (the harness ships per-case oracle tables).
   Executable definitions only. *)
From QF Require Import Base.Prelude Model.FastCsv Model.CsvSpec Model.CsvWrite.
Local Open Scope N_scope.

(* (* TODO-GEN *) literals of /repo/types/types.go (DataType constants Int, Float, Bool, String, Enum, None)
   and /repo/internal/ecolumn/column.go (maxCardinality) — not yet in Gen/GenConsts.v *)
Definition ty_int : bytes := [105; 110; 116].                        (* "int" *)
Definition ty_float : bytes := [102; 108; 111; 97; 116].             (* "float" *)
Definition ty_bool : bytes := [98; 111; 111; 108].                   (* "bool" *)
Definition ty_string : bytes := [115; 116; 114; 105; 110; 103].      (* "string" *)
Definition ty_enum : bytes := [101; 110; 117; 109].                  (* "enum" *)
Definition enum_max_cardinality : nat := 255.

Inductive dtype := DNone | DInt | DFloat | DBool | DString | DEnum | DUnknown.

Definition dtype_of (s : bytes) : dtype :=
  if is_nilb s then DNone
  else if bytes_eqb s ty_int then DInt
  else if bytes_eqb s ty_float then DFloat
  else if bytes_eqb s ty_bool then DBool
  else if bytes_eqb s ty_string then DString
  else if bytes_eqb s ty_enum then DEnum
  else DUnknown.

Record csv_conf := mkConf {
  cf_empty_null   : bool;
  cf_ignore_empty : bool;
  cf_delim        : N;
  cf_types        : list (bytes * bytes);        (* Types: column name -> type string (a Go map: keys unique) *)
  cf_enum_vals    : list (bytes * list bytes);   (* EnumVals *)
  cf_row_hint     : Z;                           (* RowCountHint: pre-sizing only, no effect on the result *)
  cf_headers      : list bytes;
  cf_rename_dup   : bool;
  cf_alias        : bytes                        (* MissingColumnNameAlias *)
}.

Fixpoint assoc {B} (k : bytes) (m : list (bytes * B)) : option B :=
  match m with
  | [] => None
  | (k', v) :: t => if bytes_eqb k k' then Some v else assoc k t
  end.

Definition assoc_del {B} (k : bytes) (m : list (bytes * B)) : list (bytes * B) :=
  filter (fun kv => negb (bytes_eqb k (fst kv))) m.

Fixpoint all_some {A} (l : list (option A)) : option (list A) :=
  match l with
  | [] => Some []
  | Some x :: t => match all_some t with Some r => Some (x :: r) | None => None end
  | None :: _ => None
  end.

Section Read.
Variable parse_int : bytes -> option Z.      (* strings.ParseInt = strconv.Atoi *)
Variable parse_float : bytes -> option N.    (* strings.ParseFloat = strconv.ParseFloat(s, 64), as bits; None on any error *)
Variable parse_bool : bytes -> option bool.  (* strings.ParseBool *)

(* ------------------------------------------------------------------ enum factory *)

(* valToEnum after NewFactory: for a value listed twice the later index wins; values added later are new *)
Fixpoint find_last (s : bytes) (vals : list bytes) (i : nat) (found : option nat) : option nat :=
  match vals with
  | [] => found
  | v :: t => find_last s t (S i) (if bytes_eqb s v then Some i else found)
  end.

(* for _, p := range pointers { AppendNil / AppendByteString } ; null rank = 255 *)
Fixpoint enum_fill (strict empty_null : bool) (vals : list bytes) (cells : list bytes) (ranks : list nat)
  : outcome (list bytes * list nat) :=
  match cells with
  | [] => Ok (vals, ranks)
  | c :: t =>
      if is_nilb c && empty_null then enum_fill strict empty_null vals t (ranks ++ [enum_max_cardinality])
      else
        match find_last c vals 0 None with
        | Some i => enum_fill strict empty_null vals t (ranks ++ [i])
        | None =>
            if strict then Fail
            else if Nat.leb enum_max_cardinality (length vals) then Fail
            else enum_fill strict empty_null (vals ++ [c]) t (ranks ++ [length vals])
        end
  end.

(* NewFactory rejects a declaration that lists a value twice *)
Fixpoint nodup_values (l : list bytes) : bool :=
  match l with
  | [] => true
  | x :: t => negb (existsb (bytes_eqb x) t) && nodup_values t
  end.

Definition enum_cell (vals : list bytes) (rank : nat) : outcome (option bytes) :=
  if Nat.eqb rank enum_max_cardinality then Ok None
  else do v <- idx vals rank; Ok (Some v).

(* ------------------------------------------------------------------ columnToData *)

Definition float_cell (c : bytes) : option N := if is_nilb c then Some nan_bits else parse_float c.

Definition string_cell (empty_null : bool) (c : bytes) : option bytes :=
  if is_nilb c && empty_null then None else Some c.

Definition column_to_data (empty_null : bool) (dt : dtype) (enum_vals : option (list bytes)) (cells : list bytes)
  : outcome column :=
  if is_nilb cells && match dt with DNone => true | _ => false end then Ok ColNone
  else
  let try_int := match dt with DInt | DNone => true | _ => false end in
  let try_float := match dt with DFloat | DNone => true | _ => false end in
  let try_bool := match dt with DBool | DNone => true | _ => false end in
  let ints := if try_int then all_some (map parse_int cells) else None in
  match ints, dt with
  | Some l, _ => Ok (ColInt l)
  | None, DInt => Fail
  | None, _ =>
      let floats := if try_float then all_some (map float_cell cells) else None in
      match floats, dt with
      | Some l, _ => Ok (ColFloat l)
      | None, DFloat => Fail
      | None, _ =>
          let bools := if try_bool then all_some (map parse_bool cells) else None in
          match bools, dt with
          | Some l, _ => Ok (ColBool l)
          | None, DBool => Fail
          | None, (DString | DNone) => Ok (ColString (map (string_cell empty_null) cells))
          | None, DEnum =>
              let values := match enum_vals with Some v => v | None => [] end in
              if Nat.ltb enum_max_cardinality (length values) then Fail
              else if negb (nodup_values values) then Fail
              else
                do vr <- enum_fill (Nat.ltb 0 (length values)) empty_null values cells [];
                do cs <- omap (enum_cell (fst vr)) (snd vr);
                Ok (ColEnum (fst vr) cs)
          | None, _ => Fail      (* unknown data type *)
          end
      end
  end.

(* ------------------------------------------------------------------ header post-processing *)

(* addAliasToMissingColumnNames *)
Definition add_alias (alias : bytes) (headers : list bytes) : list bytes :=
  map (fun h => if is_nilb h then alias else h) headers.

(* first loop of renameDuplicateColumns: name -> index of first occurrence *)
Fixpoint first_index_map (headers : list bytes) (i : nat) (m : list (bytes * nat)) : list (bytes * nat) :=
  match headers with
  | [] => m
  | h :: t => first_index_map t (S i) (match assoc h m with Some _ => m | None => m ++ [(h, i)] end)
  end.

(* the inner for loop: candidateName := headers[i] + fmt.Sprint(counter) *)
Fixpoint rename_candidate (fuel : nat) (h : bytes) (counter : nat) (m : list (bytes * nat)) : outcome bytes :=
  match fuel with
  | O => Panic
  | S f =>
      let cand := h ++ itoa (Z.of_nat counter) in
      match assoc cand m with
      | Some _ => rename_candidate f h (S counter) m
      | None => Ok cand
      end
  end.

(* second loop; [done] are the headers already processed (possibly renamed), in reverse order *)
Fixpoint rename_loop (headers : list bytes) (i : nat) (m : list (bytes * nat)) (done : list bytes)
  : outcome (list bytes) :=
  match headers with
  | [] => Ok (rev done)
  | h :: t =>
      match assoc h m with
      | Some index =>
          if negb (Nat.eqb i index) then
            do cand <- rename_candidate (S (length m)) h 0 m;
            rename_loop t (S i) ((cand, i) :: m) (cand :: done)
          else rename_loop t (S i) m (h :: done)
      | None => rename_loop t (S i) m (h :: done)
      end
  end.

Definition rename_duplicates (headers : list bytes) : outcome (list bytes) :=
  rename_loop headers 0 (first_index_map headers 0 []) [].

Fixpoint has_dup (l : list bytes) : bool :=
  match l with
  | [] => false
  | x :: t => existsb (bytes_eqb x) t || has_dup t
  end.

(* ------------------------------------------------------------------ the row loop *)

Definition is_empty_line (fields : list bytes) : bool :=
  match fields with [f] => is_nilb f | _ => false end.

(* colBytes/colPointers: every column collects its cells; one row is appended to all of them *)
Fixpoint append_row (cols : list (list bytes)) (fields : list bytes) : list (list bytes) :=
  match cols, fields with
  | c :: cs, f :: fs => (c ++ [f]) :: append_row cs fs
  | _, _ => []
  end.

Fixpoint body_loop (ignore_empty : bool) (ncols : nat) (rows : list (list bytes)) (cols : list (list bytes))
  : outcome (list (list bytes)) :=
  match rows with
  | [] => Ok cols
  | fields :: rest =>
      if negb (Nat.eqb (length fields) ncols) then
        if is_empty_line fields && ignore_empty then body_loop ignore_empty ncols rest cols
        else Fail
      else if is_empty_line fields && ignore_empty then body_loop ignore_empty ncols rest cols
      else body_loop ignore_empty ncols rest (append_row cols fields)
  end.

(* for i, header := range headers { columnToData(...) } with the EnumVals book-keeping *)
Fixpoint convert_cols (conf : csv_conf) (headers : list bytes) (cols : list (list bytes))
         (enum_vals : list (bytes * list bytes)) (acc : frame)
  : outcome (frame * list (bytes * list bytes)) :=
  match headers, cols with
  | h :: hs, cells :: cs =>
      let dt := match assoc h (cf_types conf) with Some s => dtype_of s | None => DNone end in
      (* conf.EnumVals[colName] is read and deleted only on the enum path *)
      let reaches_enum :=
        match dt with DEnum => true | _ => false end in
      do col <- column_to_data (cf_empty_null conf) dt (assoc h enum_vals) cells;
      convert_cols conf hs cs (if reaches_enum then assoc_del h enum_vals else enum_vals) (acc ++ [(h, col)])
  | _, _ => Ok (acc, enum_vals)
  end.

(* ------------------------------------------------------------------ qframe.New(data, ColumnOrder(columns...)) *)

(* qfstrings.CheckName *)
Definition is_quoted_name (s : bytes) : bool :=
  Nat.ltb 2 (length s)
  && match s, rev s with
     | a :: _, b :: _ => ((a =? 39) && (b =? 39)) || ((a =? 34) && (b =? 34))
     | _, _ => false
     end.

Definition check_name (s : bytes) : bool :=
  negb (is_nilb s) && negb (is_quoted_name s) && negb (match s with c :: _ => c =? 36 | [] => false end).

(* ------------------------------------------------------------------ ReadCSV *)

(* [rows], [failed]: what the loop  for r.Next() {...}  sees: every row for which Next returned true and
   whether r.Err() is non-nil afterwards.  A failing reader makes ReadCSV fail whatever was read. *)
Definition read_rows (conf : csv_conf) (rows : list (list bytes)) (failed : bool) : outcome frame :=
  if failed then Fail
  else
    do hb <- (if is_nilb (cf_headers conf)
              then match rows with
                   | [] => Fail                       (* r.Read() returns io.EOF *)
                   | h :: body => Ok (h, body)
                   end
              else Ok (cf_headers conf, rows));
    let '(headers, body) := hb in
    do cols <- body_loop (cf_ignore_empty conf) (length headers) body (map (fun _ => []) headers);
    let headers := if is_nilb (cf_alias conf) then headers else add_alias (cf_alias conf) headers in
    do headers <- (if cf_rename_dup conf then rename_duplicates headers else Ok headers);
    do r <- convert_cols conf headers cols (cf_enum_vals conf) [];
    let '(fr, enum_left) := r in
    if negb (is_nilb enum_left) then Fail          (* Enum values specified for non enum column *)
    else if has_dup headers then Fail              (* Duplicate columns detected *)
    else if negb (forallb check_name headers) then Fail   (* New: CheckName *)
    else Ok fr.

(* qframe.ReadCSV at the specification level: the rows are those the character machine denotes *)
Definition read_csv_spec (conf : csv_conf) (doc : bytes) : outcome frame :=
  read_rows conf (stream_scan (cf_delim conf) doc) false.

(* qframe.ReadCSV over the buffer-level scanner (NewReader's capacity) and a scheduled reader *)
Definition read_csv_buf (conf : csv_conf) (chunks : list bytes) (t : rterm) : outcome frame :=
  do r <- scan_default (cf_delim conf) chunks t;
  read_rows conf (fst r) (snd r).

End Read.

(* ------------------------------------------------------------------ C13: reading back what ToCSV wrote *)

Definition type_name (c : column) : bytes :=
  match c with
  | ColInt _ => ty_int | ColFloat _ => ty_float | ColBool _ => ty_bool
  | ColString _ => ty_string | ColEnum _ _ => ty_enum | ColNone => []
  end.

Definition col_no_cr (c : column) : bool :=
  match c with
  | ColString l | ColEnum _ l => forallb (fun o => match o with Some s => no_cr s | None => true end) l
  | _ => true
  end.

Definition col_in_int64 (c : column) : bool :=
  match c with ColInt l => forallb in_int64 l | _ => true end.

(* reading decision 13: a null enum cell comes back only if EmptyNull is set, or the empty string is a declared
   value, or the enum is not strict (no declared values) *)
Definition enum_side_ok (empty_null : bool) (c : column) : bool :=
  match c with
  | ColEnum vals l =>
      forallb (fun o => match o with
                        | Some s => is_nilb vals || existsb (bytes_eqb s) vals || (is_nilb s && empty_null)
                        | None => empty_null || is_nilb vals || existsb (bytes_eqb []) vals
                        end) l
      && Nat.leb (length vals) enum_max_cardinality
  | ColNone => false
  | _ => true
  end.

(* the frame as written (columns in output order): at least one column, valid distinct names without CR,
   no CR in strings, columns of one length *)
Definition rt_premises (empty_null : bool) (nrows : nat) (f : frame) : bool :=
  negb (is_nilb f)
  && forallb (fun nc => check_name (fst nc) && no_cr (fst nc) && col_no_cr (snd nc)
                        && col_in_int64 (snd nc)
                        && enum_side_ok empty_null (snd nc)
                        && Nat.eqb (col_len (snd nc)) nrows) f
  && negb (has_dup (map fst f)).

(* ReadCSV configuration that declares the types (and enum values) of the written frame *)
Definition read_conf_for (empty_null header : bool) (written : frame) : csv_conf :=
  mkConf empty_null false 44
         (map (fun nc => (fst nc, type_name (snd nc))) written)
         (flat_map (fun nc => match snd nc with ColEnum vals _ => [(fst nc, vals)] | _ => [] end) written)
         0%Z
         (if header then [] else map fst written)
         false [].
