(* Model/Sort.v — executable model of internal/sort/sorter.go (quickSort / doPivot / heapSort /
   insertionSort copied from the old Go standard library), of Sorter.Less, and of the
   Comparable(reverse, equalNull, nullLast) constructors with the per-type Compare methods
   (internal/template/column.go, internal/{i,f,b,s,e}column/column.go).

   Conventions.
   * The index slice is a [list nat]; every data[i] goes through [idx] (out of range = [Panic]),
     every Swap through [swap] (two [idx] reads, two [set_nth] writes).
   * Positions are [nat].  Go computes them on [int]; the only places where a Go value could be
     negative while the [nat] value is truncated to 0 are commented at the spot (they are either
     guarded by the loop condition in the same way or excluded by the range lemmas of
     Proofs/SortProofs.v: lo <= midlo, midhi <= hi, lo + 1 <= b ...).
   * while-like loops run on explicit fuel and answer [Panic] when it runs out; counted loops
     [for i := x; i < y; i++] whose bounds are not assigned in the body recurse on the trip count
     (and loops that count a variable down to 0 recurse on that variable itself).
   * the tail iteration [a = mhi] / [b = mlo] of quickSort's [for] loop is written as the recursive
     call it stands for (the Go comment says so itself: "i.e., quickSort(data, mhi, b)").
   No proofs in this file. *)
From Coq Require Import Sorting.Mergesort.
From QF Require Import Base.Prelude Gen.GenConsts.

(* ------------------------------------------------------------------ literals of sorter.go *)
(* from Gen/GenConsts.v (regenerated from /repo on every run), evaluated to nat numerals *)
Definition k_ins_max     : nat := Eval compute in N.to_nat c_qs_insertion_max.  (* b-a > 12 *)
Definition k_depth_zero  : nat := Eval compute in N.to_nat c_qs_depth_zero.     (* maxDepth == 0 *)
Definition k_qs_one      : nat := Eval compute in N.to_nat c_qs_one.            (* b-a > 1 *)
Definition k_gap_a       : nat := Eval compute in N.to_nat c_qs_gap_a.          (* i := a + 6 *)
Definition k_gap_b       : nat := Eval compute in N.to_nat c_qs_gap_b.          (* Less(i, i-6) *)
Definition k_gap_c       : nat := Eval compute in N.to_nat c_qs_gap_c.          (* Swap(i, i-6) *)
Definition k_md_zero     : nat := Eval compute in N.to_nat c_md_zero.           (* i > 0 *)
Definition k_md_shift    : nat := Eval compute in N.to_nat c_md_shift.          (* i >>= 1 *)
Definition k_md_mul      : nat := Eval compute in N.to_nat c_md_mul.            (* depth * 2 *)
Definition k_m_shift     : nat := Eval compute in N.to_nat c_dp_m_shift.        (* uint(lo+hi) >> 1 *)
Definition k_ninther_min : nat := Eval compute in N.to_nat c_dp_ninther_min.    (* hi-lo > 40 *)
Definition k_ninther_div : nat := Eval compute in N.to_nat c_dp_ninther_div.    (* (hi-lo)/8 *)
Definition k_two_a       : nat := Eval compute in N.to_nat c_dp_two_a.          (* lo+2*s *)
Definition k_one_a       : nat := Eval compute in N.to_nat c_dp_one_a.          (* hi-1 *)
Definition k_one_b       : nat := Eval compute in N.to_nat c_dp_one_b.          (* hi-1-s *)
Definition k_one_c       : nat := Eval compute in N.to_nat c_dp_one_c.          (* hi-1-2*s *)
Definition k_two_b       : nat := Eval compute in N.to_nat c_dp_two_b.          (* 2*s *)
Definition k_one_d       : nat := Eval compute in N.to_nat c_dp_one_d.          (* medianOfThree(lo, m, hi-1) *)
Definition k_one_e       : nat := Eval compute in N.to_nat c_dp_one_e.          (* a := lo+1 *)
Definition k_one_f       : nat := Eval compute in N.to_nat c_dp_one_f.          (* c := hi-1 *)
Definition k_one_g       : nat := Eval compute in N.to_nat c_dp_one_g.          (* Less(pivot, c-1) *)
Definition k_one_h       : nat := Eval compute in N.to_nat c_dp_one_h.          (* Swap(b, c-1) *)
Definition k_protect     : nat := Eval compute in N.to_nat c_dp_protect.        (* hi-c < 5 *)
Definition k_quarter     : nat := Eval compute in N.to_nat c_dp_quarter.        (* (hi-lo)/4 *)
Definition k_dups0       : nat := Eval compute in N.to_nat c_dp_dups0.          (* dups := 0 *)
Definition k_one_i       : nat := Eval compute in N.to_nat c_dp_one_i.          (* Less(pivot, hi-1) *)
Definition k_one_j       : nat := Eval compute in N.to_nat c_dp_one_j.          (* Swap(c, hi-1) *)
Definition k_one_k       : nat := Eval compute in N.to_nat c_dp_one_k.          (* Less(b-1, pivot) *)
Definition k_one_l       : nat := Eval compute in N.to_nat c_dp_one_l.          (* Swap(m, b-1) *)
Definition k_dups_min    : nat := Eval compute in N.to_nat c_dp_dups_min.       (* dups > 1 *)
Definition k_one_m       : nat := Eval compute in N.to_nat c_dp_one_m.          (* Less(b-1, pivot) in the protect loop *)
Definition k_one_n       : nat := Eval compute in N.to_nat c_dp_one_n.          (* Swap(a, b-1) *)
Definition k_one_o       : nat := Eval compute in N.to_nat c_dp_one_o.          (* Swap(pivot, b-1) *)
Definition k_one_p       : nat := Eval compute in N.to_nat c_dp_one_p.          (* return b-1 *)

(* literals of insertionSort, siftDown and heapSort (generated into Gen/GenConsts.v):
   (file internal/sort/sorter.go; functions insertionSort: "a + 1", "j-1", "j-1";
    siftDown: "2*root + 1" (2 and 1), "child+1 < hi", "first+child+1";
    heapSort: "lo := 0", "(hi - 1) / 2" (1 and 2), "i >= 0", "hi - 1", "i >= 0") *)
Definition k_is_one   : nat := Eval compute in N.to_nat c_is_one.      (* insertionSort: i := a + 1 *)
Definition k_is_prev  : nat := Eval compute in N.to_nat c_is_prev_a.   (* insertionSort: j-1 (both occurrences, see sort_literals_agree) *)
Definition k_sd_two   : nat := Eval compute in N.to_nat c_sd_two.      (* siftDown: 2*root *)
Definition k_sd_one_a : nat := Eval compute in N.to_nat c_sd_one_a.    (* siftDown: 2*root + 1 *)
Definition k_sd_one_b : nat := Eval compute in N.to_nat c_sd_one_b.    (* siftDown: child+1 < hi *)
Definition k_sd_one_c : nat := Eval compute in N.to_nat c_sd_one_c.    (* siftDown: first+child+1 *)
Definition k_hs_lo    : nat := Eval compute in N.to_nat c_hs_lo.       (* heapSort: lo := 0 *)
Definition k_hs_one_a : nat := Eval compute in N.to_nat c_hs_one_a.    (* heapSort: (hi - 1) / 2 *)
Definition k_hs_two   : nat := Eval compute in N.to_nat c_hs_two.      (* heapSort: (hi - 1) / 2 *)
Definition k_hs_one_b : nat := Eval compute in N.to_nat c_hs_one_b.    (* heapSort: i := hi - 1 *)
(* the literals the model merges or treats as loop bounds must have the values the transcription assumes *)
Definition sort_literals_agree : bool :=
  (c_is_prev_a =? c_is_prev_b)%N && (c_hs_zero_a =? 0)%N && (c_hs_zero_b =? 0)%N.

(* ------------------------------------------------------------------ Comparable *)
Inductive cmpres := LessThan | GreaterThan | Equal | NotEqual.

Definition cmpres_eqb (a b : cmpres) : bool :=
  match a, b with
  | LessThan, LessThan | GreaterThan, GreaterThan | Equal, Equal | NotEqual, NotEqual => true
  | _, _ => false
  end.

Record cmpcfg := {
  ltValue : cmpres;
  nullLtValue : cmpres;
  gtValue : cmpres;
  nullGtValue : cmpres;
  equalNullValue : cmpres }.

(* Column.Comparable(reverse, equalNull, nullLast): the literal, then the four-way swap, then the
   null swap, then equalNull — in the order of the Go code. *)
Definition mk_cmpcfg (reverse equalNull nullLast : bool) : cmpcfg :=
  let r0 := {| ltValue := LessThan; nullLtValue := LessThan;
               gtValue := GreaterThan; nullGtValue := GreaterThan;
               equalNullValue := NotEqual |} in
  let r1 := if reverse
            then {| ltValue := gtValue r0; nullLtValue := nullGtValue r0;
                    gtValue := ltValue r0; nullGtValue := nullLtValue r0;
                    equalNullValue := equalNullValue r0 |}
            else r0 in
  let r2 := if nullLast
            then {| ltValue := ltValue r1; nullLtValue := nullGtValue r1;
                    gtValue := gtValue r1; nullGtValue := nullLtValue r1;
                    equalNullValue := equalNullValue r1 |}
            else r1 in
  if equalNull
  then {| ltValue := ltValue r2; nullLtValue := nullLtValue r2;
          gtValue := gtValue r2; nullGtValue := nullGtValue r2;
          equalNullValue := Equal |}
  else r2.

(* scolumn / ecolumn Compare: null tests first, then the values.  [isnull i] and [vlt i j] speak
   about ROWS (positions in the column data); for int columns isnull = fun _ => false. *)
Definition compare_rows (cfg : cmpcfg) (isnull : nat -> bool) (vlt : nat -> nat -> bool)
           (i j : nat) : cmpres :=
  if isnull i || isnull j then
    if negb (isnull i) then nullGtValue cfg
    else if negb (isnull j) then nullLtValue cfg
    else equalNullValue cfg
  else if vlt i j then ltValue cfg
  else if vlt j i then gtValue cfg
  else Equal.

(* fcolumn Compare: x < y, x > y first, the NaN tests afterwards (same result as [compare_rows]
   when [vlt] is false as soon as a NaN takes part — lemma compare_rows_float_eq). *)
Definition compare_rows_float (cfg : cmpcfg) (isnan : nat -> bool) (vlt : nat -> nat -> bool)
           (i j : nat) : cmpres :=
  if vlt i j then ltValue cfg
  else if vlt j i then gtValue cfg
  else if isnan i || isnan j then
    if negb (isnan i) then nullGtValue cfg
    else if negb (isnan j) then nullLtValue cfg
    else equalNullValue cfg
  else Equal.

(* icolumn Compare *)
Definition compare_rows_int (cfg : cmpcfg) (vlt : nat -> nat -> bool) (i j : nat) : cmpres :=
  if vlt i j then ltValue cfg else if vlt j i then gtValue cfg else Equal.

(* bcolumn Compare: x == y -> Equal; x -> gtValue; else ltValue *)
Definition compare_rows_bool (cfg : cmpcfg) (v : nat -> bool) (i j : nat) : cmpres :=
  if Bool.eqb (v i) (v j) then Equal else if v i then gtValue cfg else ltValue cfg.

(* Sorter.Less on two row ids *)
Fixpoint less_keys (keys : list (nat -> nat -> cmpres)) (a b : nat) : bool :=
  match keys with
  | [] => false
  | k :: ks =>
      match k a b with
      | LessThan => true
      | GreaterThan => false
      | _ => less_keys ks a b
      end
  end.

(* ------------------------------------------------------------------ the order as property C03 words it *)
(* one key: the natural order [vlt] of the type on non-null rows, null smaller than every value
   (larger with NullLast), null-null a tie; Reverse inverts this complete order. *)
Definition key_lt_base (nullLast : bool) (isnull : nat -> bool) (vlt : nat -> nat -> bool)
           (a b : nat) : bool :=
  match isnull a, isnull b with
  | true, true => false
  | true, false => negb nullLast
  | false, true => nullLast
  | false, false => vlt a b
  end.

Definition key_lt_spec (reverse nullLast : bool) (isnull : nat -> bool) (vlt : nat -> nat -> bool)
           (a b : nat) : bool :=
  if reverse then key_lt_base nullLast isnull vlt b a else key_lt_base nullLast isnull vlt a b.

(* lexicographic comparison over the keys: smaller on the first key on which the rows differ *)
Fixpoint lex_lt_spec (keys : list (nat -> nat -> bool)) (a b : nat) : bool :=
  match keys with
  | [] => false
  | k :: ks => k a b || (negb (k b a) && lex_lt_spec ks a b)
  end.

(* ------------------------------------------------------------------ the sorter *)
Section Sorter.
  Variable lt : nat -> nat -> bool.   (* what Less answers for the two row ids in the compared slots *)

  (* data.Less(i, j): di, dj := s.index[i], s.index[j] *)
  Definition less (s : list nat) (i j : nat) : outcome bool :=
    do di <- idx s i; do dj <- idx s j; Ok (lt di dj).

  (* data.Swap(i, j) *)
  Definition swap (s : list nat) (i j : nat) : outcome (list nat) :=
    do di <- idx s i; do dj <- idx s j; Ok (set_nth (set_nth s i dj) j di).

  (* for j := i; j > a && data.Less(j, j-1); j-- { data.Swap(j, j-1) } — recursion on j itself *)
  Fixpoint ins_inner (a j : nat) (s : list nat) : outcome (list nat) :=
    match j with
    | O => Ok s                                   (* j > a is false *)
    | S j' =>
        if a <? j then
          do c <- less s j (j - k_is_prev);
          if c then do s' <- swap s j (j - k_is_prev); ins_inner a j' s' else Ok s
        else Ok s
    end.

  (* for i := a + 1; i < b; i++ — [k] iterations left, i is the current value *)
  Fixpoint ins_outer (k a i : nat) (s : list nat) : outcome (list nat) :=
    match k with
    | O => Ok s
    | S k' => do s' <- ins_inner a i s; ins_outer k' a (S i) s'
    end.

  Definition insertion_sort (a b : nat) (s : list nat) : outcome (list nat) :=
    ins_outer (b - (a + k_is_one)) a (a + k_is_one) s.

  (* siftDown(data, lo, hi, first); root := lo; for { ... } *)
  Fixpoint sift_down (fuel root hi first : nat) (s : list nat) : outcome (list nat) :=
    match fuel with
    | O => Panic
    | S f =>
        let child := k_sd_two * root + k_sd_one_a in
        if hi <=? child then Ok s                                     (* break *)
        else
          do c1 <- (if child + k_sd_one_b <? hi
                    then less s (first + child) (first + child + k_sd_one_c)
                    else Ok false);
          let child := if c1 then S child else child in
          do c2 <- less s (first + root) (first + child);
          if negb c2 then Ok s                                         (* return *)
          else do s' <- swap s (first + root) (first + child);
               sift_down f child hi first s'
    end.

  (* for i := (hi - 1) / 2; i >= 0; i-- { siftDown(data, i, hi, first) } — recursion on i+1 *)
  Fixpoint heap_build (k hi first : nat) (s : list nat) : outcome (list nat) :=
    match k with
    | O => Ok s
    | S i => do s' <- sift_down (S hi) i hi first s; heap_build i hi first s'
    end.

  (* for i := hi - 1; i >= 0; i-- { Swap(first, first+i); siftDown(data, lo, i, first) } *)
  Fixpoint heap_pop (k lo first : nat) (s : list nat) : outcome (list nat) :=
    match k with
    | O => Ok s
    | S i =>
        do s1 <- swap s first (first + i);
        do s2 <- sift_down (S i) lo i first s1;
        heap_pop i lo first s2
    end.

  (* (hi-1)/2 on Go ints is 0 for hi = 0 (truncation towards zero), as is the nat expression;
     the second loop starts at hi-1 = -1 for hi = 0 and does nothing: k = hi iterations. *)
  Definition heap_sort (a b : nat) (s : list nat) : outcome (list nat) :=
    let first := a in
    let lo := k_hs_lo in
    let hi := b - a in
    do s1 <- heap_build (S ((hi - k_hs_one_a) / k_hs_two)) hi first s;
    heap_pop (if k_hs_one_b <=? hi then S (hi - k_hs_one_b) else 0) lo first s1.

  Definition median_of_three (m1 m0 m2 : nat) (s : list nat) : outcome (list nat) :=
    do c1 <- less s m1 m0;
    do s1 <- (if c1 then swap s m1 m0 else Ok s);
    do c2 <- less s1 m2 m1;
    if c2 then
      do s2 <- swap s1 m2 m1;
      do c3 <- less s2 m1 m0;
      if c3 then swap s2 m1 m0 else Ok s2
    else Ok s1.

  (* for ; i < bound && test(i); i++ { } *)
  Fixpoint scan_up (fuel : nat) (test : nat -> outcome bool) (i bound : nat) : outcome nat :=
    match fuel with
    | O => Panic
    | S f =>
        if i <? bound then
          do r <- test i; if r then scan_up f test (S i) bound else Ok i
        else Ok i
    end.

  (* for ; bound < i && test(i); i-- { } — recursion on i itself *)
  Fixpoint scan_down (test : nat -> outcome bool) (i bound : nat) : outcome nat :=
    match i with
    | O => Ok i                                  (* bound < 0 is false *)
    | S i' =>
        if bound <? i then
          do r <- test i; if r then scan_down test i' bound else Ok i
        else Ok i
    end.

  (* the partition loop of doPivot:
       for { for ; b < c && !Less(pivot, b); b++ {}
             for ; b < c && Less(pivot, c-1); c-- {}
             if b >= c { break }
             Swap(b, c-1); b++; c-- } *)
  Fixpoint dp_main (fuel pivot b c : nat) (s : list nat) : outcome (nat * nat * list nat) :=
    match fuel with
    | O => Panic
    | S f =>
        do b <- scan_up (S c) (fun b => do r <- less s pivot b; Ok (negb r)) b c;
        do c <- scan_down (fun c => less s pivot (c - k_one_g)) c b;
        if c <=? b then Ok (b, c, s)
        else
          do s' <- swap s b (c - k_one_h);
          dp_main f pivot (S b) (c - 1) s'       (* c > b >= 0 here, so c-1 is exact *)
    end.

  (* the duplicate protection loop of doPivot:
       for { for ; a < b && !Less(b-1, pivot); b-- {}
             for ; a < b && Less(a, pivot); a++ {}
             if a >= b { break }
             Swap(a, b-1); a++; b-- } *)
  Fixpoint dp_protect (fuel pivot a b : nat) (s : list nat) : outcome (nat * nat * list nat) :=
    match fuel with
    | O => Panic
    | S f =>
        do b <- scan_down (fun b => do r <- less s (b - k_one_m) pivot; Ok (negb r)) b a;
        do a <- scan_up (S b) (fun a => less s a pivot) a b;
        if b <=? a then Ok (a, b, s)
        else
          do s' <- swap s a (b - k_one_n);
          dp_protect f pivot (S a) (b - 1) s'    (* b > a >= 0 here, so b-1 is exact *)
    end.

  (* doPivot, first block: Tukey's ninther for hi-lo > 40, then medianOfThree(lo, m, hi-1) *)
  Definition dp_choose_pivot (lo hi m : nat) (s : list nat) : outcome (list nat) :=
    do s <- (if k_ninther_min <? hi - lo then
               let sz := (hi - lo) / k_ninther_div in
               do s <- median_of_three lo (lo + sz) (lo + k_two_a * sz) s;
               do s <- median_of_three m (m - sz) (m + sz) s;
               median_of_three (hi - k_one_a) (hi - k_one_b - sz) (hi - k_one_c - k_two_b * sz) s
             else Ok s);
    median_of_three lo m (hi - k_one_d) s.

  (* doPivot, the block "Lets test some points for equality to pivot"; answers (protect, b, c) *)
  Definition dp_dups (lo hi m b c : nat) (s : list nat) : outcome (bool * nat * nat * list nat) :=
    let pivot := lo in
    let dups := k_dups0 in
    do r1 <- less s pivot (hi - k_one_i);
    do (c, dups, s) <- (if negb r1
                        then do s' <- swap s c (hi - k_one_j); Ok (S c, S dups, s')
                        else Ok (c, dups, s));
    do r2 <- less s (b - k_one_k) pivot;
    let '(b, dups) := if negb r2 then (b - 1, S dups) else (b, dups) in
    do r3 <- less s m pivot;
    do (b, dups, s) <- (if negb r3
                        then do s' <- swap s m (b - k_one_l); Ok (b - 1, S dups, s')
                        else Ok (b, dups, s));
    Ok (k_dups_min <? dups, b, c, s).

  Definition do_pivot (lo hi : nat) (s : list nat) : outcome (nat * nat * list nat) :=
    let m := (lo + hi) / 2 ^ k_m_shift in
    do s <- dp_choose_pivot lo hi m s;
    let pivot := lo in
    let a := lo + k_one_e in
    let c := hi - k_one_f in
    do a <- scan_up (S c) (fun a => less s a pivot) a c;
    let b := a in
    do (b, c, s) <- dp_main (S hi) pivot b c s;
    let protect := hi - c <? k_protect in
    do (protect, b, c, s) <-
       (if negb protect && (hi - c <? (hi - lo) / k_quarter)
        then dp_dups lo hi m b c s
        else Ok (protect, b, c, s));
    do (a, b, s) <- (if protect then dp_protect (S hi) pivot a b s else Ok (a, b, s));
    do s <- swap s pivot (b - k_one_o);
    Ok (b - k_one_p, c, s).

  (* Do ShellSort pass with gap 6: for i := a + 6; i < b; i++ — [k] iterations left *)
  Fixpoint shell_pass (k i : nat) (s : list nat) : outcome (list nat) :=
    match k with
    | O => Ok s
    | S k' =>
        do c <- less s i (i - k_gap_b);
        do s' <- (if c then swap s i (i - k_gap_c) else Ok s);
        shell_pass k' (S i) s'
    end.

  Fixpoint quick_sort (fuel a b maxDepth : nat) (s : list nat) : outcome (list nat) :=
    match fuel with
    | O => Panic
    | S f =>
        if k_ins_max <? b - a then
          if maxDepth =? k_depth_zero then heap_sort a b s
          else
            let maxDepth := maxDepth - 1 in
            do (mlo, mhi, s1) <- do_pivot a b s;
            if mlo - a <? b - mhi then
              do s2 <- quick_sort f a mlo maxDepth s1;
              quick_sort f mhi b maxDepth s2            (* a = mhi *)
            else
              do s2 <- quick_sort f mhi b maxDepth s1;
              quick_sort f a mlo maxDepth s2            (* b = mlo *)
        else if k_qs_one <? b - a then
          do s1 <- shell_pass (b - (a + k_gap_a)) (a + k_gap_a) s;
          insertion_sort a b s1
        else Ok s
    end.

  (* maxDepth(n): for i := n; i > 0; i >>= 1 { depth++ }; return depth * 2 *)
  Fixpoint max_depth_loop (fuel i depth : nat) : outcome nat :=
    match fuel with
    | O => Panic
    | S f => if k_md_zero <? i then max_depth_loop f (i / 2 ^ k_md_shift) (S depth) else Ok depth
    end.

  Definition max_depth (n : nat) : outcome nat :=
    do d <- max_depth_loop (S n) n 0; Ok (d * k_md_mul).

  (* Sorter.Sort() *)
  Definition sort_ids (ids : list nat) : outcome (list nat) :=
    let n := length ids in
    do d <- max_depth n;
    quick_sort (S n) 0 n d ids.
End Sorter.

(* ------------------------------------------------------------------ the verified checker *)
(* every adjacent pair (a, b) of the output has lt b a = false *)
Fixpoint adjacent_ok (lt : nat -> nat -> bool) (l : list nat) : bool :=
  match l with
  | [] => true
  | a :: l' => match l' with
               | [] => true
               | b :: _ => negb (lt b a) && adjacent_ok lt l'
               end
  end.

(* Permutation of two nat lists is decided by sorting both with the standard library's merge sort
   (Coq.Sorting.Mergesort.NatSort) and comparing the results. *)
Definition perm_b (a b : list nat) : bool :=
  list_eqb Nat.eqb (NatSort.sort a) (NatSort.sort b).

(* the property oracle of engine "sort" *)
Definition sorted_perm_b (lt : nat -> nat -> bool) (input output : list nat) : bool :=
  perm_b output input && adjacent_ok lt output.
