(* Model/Utf8.v — the parts of Go's unicode/utf8 (go1.23) that internal/strings relies on:
   DecodeRuneInString, EncodeRune, RuneLen, ValidString and the `for i, c := range s` iteration.
   Executable definitions only; lemmas are in Proofs/Utf8Proofs.v.  Bytes are N (< 256), runes that
   come out of decoding are N, runes that go into EncodeRune / RuneLen are Z (Go: int32, may be
   negative). *)
From QF Require Import Base.Prelude.
Local Open Scope N_scope.

Definition rune_error : N := 0xFFFD.      (* utf8.RuneError *)
Definition rune_self : N := 0x80.         (* utf8.RuneSelf *)
Definition max_rune : N := 0x10FFFF.      (* utf8.MaxRune *)
Definition surrogate_min : N := 0xD800.
Definition surrogate_max : N := 0xDFFF.
Definition utf_max : nat := 4.            (* utf8.UTFMax *)

(* utf8.first[256] + utf8.acceptRanges, written as ranges instead of a 256-entry table:
   as = ASCII, xx = invalid first byte, s1..s7 = (size, accepted range of the second byte). *)
Inductive first_class := FAscii | FInvalid | FMulti (sz : nat) (lo hi : N).

Definition first_info (b : N) : first_class :=
  if b <? 0x80 then FAscii
  else if b <? 0xC2 then FInvalid                  (* 0x80-0xC1 : xx *)
  else if b <? 0xE0 then FMulti 2 0x80 0xBF        (* 0xC2-0xDF : s1 *)
  else if b =? 0xE0 then FMulti 3 0xA0 0xBF        (* s2 *)
  else if b =? 0xED then FMulti 3 0x80 0x9F        (* s4 *)
  else if b <? 0xF0 then FMulti 3 0x80 0xBF        (* 0xE1-0xEC, 0xEE-0xEF : s3 *)
  else if b =? 0xF0 then FMulti 4 0x90 0xBF        (* s5 *)
  else if b <? 0xF4 then FMulti 4 0x80 0xBF        (* 0xF1-0xF3 : s6 *)
  else if b =? 0xF4 then FMulti 4 0x80 0x8F        (* s7 *)
  else FInvalid.                                   (* 0xF5-0xFF : xx *)

Definition in_range (lo hi b : N) : bool := (lo <=? b) && (b <=? hi).
Definition is_cont (b : N) : bool := in_range 0x80 0xBF b.     (* locb..hicb *)

(* func DecodeRuneInString(s string) (rune, int).
   A missing byte (Go: `n < sz`) and a byte outside its accepted range both give (RuneError, 1);
   the pattern matches on the tail play the role of the length test. *)
Definition decode_rune (s : bytes) : N * nat :=
  match s with
  | [] => (rune_error, 0%nat)
  | s0 :: t =>
      match first_info s0 with
      | FAscii => (s0, 1%nat)
      | FInvalid => (rune_error, 1%nat)
      | FMulti sz lo hi =>
          match t with
          | [] => (rune_error, 1%nat)
          | s1 :: t1 =>
              if negb (in_range lo hi s1) then (rune_error, 1%nat)
              else if (sz <=? 2)%nat then
                (N.lor (N.shiftl (N.land s0 0x1F) 6) (N.land s1 0x3F), 2%nat)
              else
                match t1 with
                | [] => (rune_error, 1%nat)
                | s2 :: t2 =>
                    if negb (is_cont s2) then (rune_error, 1%nat)
                    else if (sz <=? 3)%nat then
                      (N.lor (N.lor (N.shiftl (N.land s0 0x0F) 12) (N.shiftl (N.land s1 0x3F) 6))
                             (N.land s2 0x3F), 3%nat)
                    else
                      match t2 with
                      | [] => (rune_error, 1%nat)
                      | s3 :: _ =>
                          if negb (is_cont s3) then (rune_error, 1%nat)
                          else
                            (N.lor (N.lor (N.lor (N.shiftl (N.land s0 0x07) 18)
                                                 (N.shiftl (N.land s1 0x3F) 12))
                                          (N.shiftl (N.land s2 0x3F) 6))
                                   (N.land s3 0x3F), 4%nat)
                      end
                end
          end
      end
  end.

(* "this position does not start a well-formed sequence": what Go reports as (RuneError, 1) *)
Definition is_invalid (rw : N * nat) : bool := (fst rw =? rune_error) && (snd rw =? 1)%nat.

(* byte(x) conversion *)
Definition to_byte (x : N) : N := N.land x 0xFF.

(* func EncodeRune(p []byte, r rune) int — the bytes written (their number is the result).
   uint32(r) of a negative rune is > MaxRune and therefore encodes as RuneError, like surrogates. *)
Definition encode_rune (r : Z) : bytes :=
  let i := Z.to_N (r mod 4294967296)%Z in
  if i <=? 0x7F then [to_byte i]
  else if i <=? 0x7FF then
    [N.lor 0xC0 (to_byte (N.shiftr i 6)); N.lor 0x80 (N.land (to_byte i) 0x3F)]
  else
    let i' := if (max_rune <? i) || ((surrogate_min <=? i) && (i <=? surrogate_max))
              then rune_error else i in
    if (max_rune <? i) || ((surrogate_min <=? i) && (i <=? surrogate_max)) || (i <=? 0xFFFF) then
      [N.lor 0xE0 (to_byte (N.shiftr i' 12));
       N.lor 0x80 (N.land (to_byte (N.shiftr i' 6)) 0x3F);
       N.lor 0x80 (N.land (to_byte i') 0x3F)]
    else
      [N.lor 0xF0 (to_byte (N.shiftr i' 18));
       N.lor 0x80 (N.land (to_byte (N.shiftr i' 12)) 0x3F);
       N.lor 0x80 (N.land (to_byte (N.shiftr i' 6)) 0x3F);
       N.lor 0x80 (N.land (to_byte i') 0x3F)].

(* func RuneLen(r rune) int *)
Definition rune_len (r : Z) : Z :=
  (if r <? 0 then -1
   else if r <=? 0x7F then 1
   else if r <=? 0x7FF then 2
   else if (0xD800 <=? r) && (r <=? 0xDFFF) then -1
   else if r <=? 0xFFFF then 3
   else if r <=? 0x10FFFF then 4
   else -1)%Z.

(* `for i, c := range s`: the list of (byte offset, rune); an ill-formed position yields RuneError and
   advances one byte.  Structural recursion on the string: [skip] counts the remaining bytes of the
   sequence decoded last (so no fuel is needed and the function is total). *)
Fixpoint range_aux (s : bytes) (i : nat) (skip : nat) : list (nat * N) :=
  match s with
  | [] => []
  | _ :: t =>
      match skip with
      | S k => range_aux t (S i) k
      | O => let rw := decode_rune s in (i, fst rw) :: range_aux t (S i) (snd rw - 1)
      end
  end.
Definition range_string (s : bytes) : list (nat * N) := range_aux s 0 0.

(* []rune(s): the runes of the range loop; ill-formed bytes become U+FFFD one by one.  On well-formed
   input this is plain decoding. *)
Definition utf8_sanitize (s : bytes) : list N := map snd (range_string s).
Definition utf8_decode (s : bytes) : list N := utf8_sanitize s.

(* string(runes) *)
Definition utf8_encode (rs : list Z) : bytes := flat_map encode_rune rs.

(* func ValidString(s string) bool *)
Fixpoint valid_aux (s : bytes) (skip : nat) : bool :=
  match s with
  | [] => true
  | _ :: t =>
      match skip with
      | S k => valid_aux t k
      | O => let rw := decode_rune s in negb (is_invalid rw) && valid_aux t (snd rw - 1)
      end
  end.
Definition utf8_valid (s : bytes) : bool := valid_aux s 0.

Definition byte_ok (b : N) : bool := b <? 256.
Definition bytes_ok (s : bytes) : bool := forallb byte_ok s.
