(* Model/Kernel.v — meaning of the deep-embedded filter kernels that tools/qf2coq generates
   (Gen/GenKernels.v) from internal/*column/filters*.go and the custom filter loops of column.go. *)
From QF Require Import Base.Prelude Base.KernelSyntax Gen.GenConsts Model.Frame Model.Bits.
Local Open Scope N_scope.

(* dynamic values of kernel expressions *)
Inductive kval :=
| VZ (z : Z)                 (* int *)
| VF (b : N)                 (* float64 bits *)
| VB (b : bool)
| VS (s : option bytes)      (* the pair returned by stringAt: None = isNull (and then the string is "") *)
| VE (r : N)                 (* enumVal *)
| VBad.

Definition str_of (s : option bytes) : bytes := match s with Some b => b | None => [] end.

Record kenv := mkKenv {
  k_cell   : nat -> nat -> outcome kval;   (* source (0 = filtered column, 1 = argument column), physical position *)
  k_const  : kval;                         (* scalar comparatee *)
  k_inset  : kval -> bool;                 (* comp.Contains *)
  k_match  : bytes -> bool;                (* matcher.Matches *)
  k_bitset : bitset;                       (* bset *)
  k_fn     : list kval -> outcome bool     (* the user predicate; Panic if it is asked something the case did not record *)
}.

Definition cmp3 (op : comparison -> bool) (a b : kval) : outcome bool :=
  match a, b with
  | VZ x, VZ y => Ok (op (Z.compare x y))
  | VS x, VS y => Ok (op (bytes_cmp (str_of x) (str_of y)))
  | VE x, VE y => Ok (op (N.compare x y))
  | _, _ => Panic
  end.

Definition is_lt c := match c with Lt => true | _ => false end.
Definition is_le c := match c with Gt => false | _ => true end.
Definition is_gt c := match c with Gt => true | _ => false end.
Definition is_ge c := match c with Lt => false | _ => true end.
Definition is_eq c := match c with Eq => true | _ => false end.
Definition is_ne c := match c with Eq => false | _ => true end.

Definition kcompare (which : N) (a b : kval) : outcome bool :=
  match a, b with
  | VF x, VF y =>
      Ok (match which with
          | 0 => f_lt x y | 1 => f_le x y | 2 => f_lt y x | 3 => f_le y x
          | 4 => f_eq x y | _ => negb (f_eq x y)
          end)
  | VB x, VB y =>
      match which with
      | 4 => Ok (Bool.eqb x y) | 5 => Ok (negb (Bool.eqb x y)) | _ => Panic
      end
  | _, _ =>
      cmp3 (match which with 0 => is_lt | 1 => is_le | 2 => is_gt | 3 => is_ge | 4 => is_eq | _ => is_ne end) a b
  end.

Definition as_bool (v : kval) : outcome bool := match v with VB b => Ok b | _ => Panic end.

Fixpoint keval (env : kenv) (pos : nat) (e : kexpr) {struct e} : outcome kval :=
  let bin which a b :=
    do x <- keval env pos a; do y <- keval env pos b; do r <- kcompare which x y; Ok (VB r) in
  match e with
  | KCell n => k_cell env n pos
  | KConst => Ok (k_const env)
  | KLit z => Ok (VZ z)
  | KTrue => Ok (VB true)
  | KFalse => Ok (VB false)
  | KLt a b => bin 0 a b
  | KLe a b => bin 1 a b
  | KGt a b => bin 2 a b
  | KGe a b => bin 3 a b
  | KEq a b => bin 4 a b
  | KNe a b => bin 5 a b
  | KAnd a b =>
      (* Go's && : the right operand is only evaluated when the left one is true *)
      do x <- keval env pos a; do xb <- as_bool x;
      if xb then keval env pos b else Ok (VB false)
  | KOr a b =>
      do x <- keval env pos a; do xb <- as_bool x;
      if xb then Ok (VB true) else keval env pos b
  | KNot a => do x <- keval env pos a; do xb <- as_bool x; Ok (VB (negb xb))
  | KBitAnd a b =>
      do x <- keval env pos a; do y <- keval env pos b;
      match x, y with VZ p, VZ q => Ok (VZ (Z.land p q)) | _, _ => Panic end
  | KIsNaN a => do x <- keval env pos a; match x with VF b => Ok (VB (f_isnan b)) | _ => Panic end
  | KIsNull a =>
      do x <- keval env pos a;
      match x with
      | VS s => Ok (VB (match s with None => true | Some _ => false end))
      | VE r => Ok (VB (enum_is_null r))
      | _ => Panic
      end
  | KCompVal a =>
      do x <- keval env pos a;
      match x with
      | VE r => Ok (VZ (if enum_is_null r then (- Z.of_N c_compval_null)%Z else Z.of_N r))
      | _ => Panic
      end
  | KInSet a => do x <- keval env pos a; Ok (VB (k_inset env x))
  | KMatches a => do x <- keval env pos a; match x with VS s => Ok (VB (k_match env (str_of s))) | _ => Panic end
  | KBitsetIsSet a => do x <- keval env pos a; match x with VE r => Ok (VB (bitset_isset (k_bitset env) r)) | _ => Panic end
  | KCallFn args =>
      do vs <- (fix go (l : list kexpr) : outcome (list kval) :=
                  match l with
                  | [] => Ok []
                  | a :: l' => do v <- keval env pos a; do vs <- go l'; Ok (v :: vs)
                  end) args;
      do r <- k_fn env vs; Ok (VB r)
  | KBad => Panic
  end.

(* for i, x := range bIndex { if !x { bIndex[i] = e(index[i]) } } *)
Fixpoint guarded_loop (env : kenv) (c : option kexpr) (e : kexpr) (index : list nat) (b : list bool)
  : outcome (list bool) :=
  match b with
  | [] => Ok []
  | x :: b' =>
      match index with
      | [] => if x then (do r <- guarded_loop env c e [] b'; Ok (x :: r)) else Panic   (* index[i] out of range *)
      | p :: index' =>
          do r <- guarded_loop env c e index' b';
          if x then Ok (true :: r)
          else
            do go <- match c with
                     | None => Ok true
                     | Some ce => do v <- keval env p ce; as_bool v
                     end;
            if go then do v <- keval env p e; do vb <- as_bool v; Ok (vb :: r)
            else Ok (false :: r)
      end
  end.

(* the kernel named [fn] in the generated table (delegation target) *)
Fixpoint kernel_named (tbl : list (bytes * kernel)) (fn : bytes) : option kernel :=
  match tbl with
  | [] => None
  | (n, k) :: rest => if bytes_eqb n fn then Some k else kernel_named rest fn
  end.

(* run_kernel: [delegates] resolves KDelegate (one level: the Go code delegates like/ilike to regexFilter);
   the flag of a delegate selects the matcher, which the caller has already put in [env] *)
Definition run_kernel (delegates : bytes -> option kernel) (env : kenv) (k : kernel) (index : list nat) (b : list bool)
  : outcome (list bool) :=
  let direct k :=
    match k with
    | KNoOp => Ok b
    | KFill v => Ok (map (fun _ => v) b)
    | KGuarded _ e => guarded_loop env None e index b
    | KGuardedIf _ c e => guarded_loop env (Some c) e index b
    | KDelegate _ _ => Panic
    end in
  match k with
  | KDelegate fn _ => match delegates fn with Some k' => direct k' | None => Panic end
  | _ => direct k
  end.
