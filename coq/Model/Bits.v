(* Model/Bits.v — internal/strings/pointer.go (string pointer packing) and internal/ecolumn/bitset.go,
   with every constant taken from Gen/GenConsts.v (regenerated from the Go source on every run). *)
From QF Require Import Base.Prelude Gen.GenConsts.
Local Open Scope N_scope.

Definition u64 (x : N) : N := x mod 2^64.

(* func NewPointer(offset, length int, isNull bool) Pointer
     result := Pointer(offset<<28 | length); if isNull { result |= nullBit }
   offset and length are lengths of Go slices, hence non-negative. *)
Definition new_pointer (offset length : N) (isnull : bool) : N :=
  let r := u64 (N.lor (N.shiftl offset c_ptr_new_shift) length) in
  if isnull then N.lor r c_nullBit else r.

(* func (p Pointer) Offset() int { return int(p>>28) & 0x7FFFFFFFF } *)
Definition ptr_offset (p : N) : N := N.land (N.shiftr p c_ptr_off_shift) c_ptr_off_mask.
(* func (p Pointer) Len() int { return int(p) & 0xFFFFFFF } *)
Definition ptr_len (p : N) : N := N.land p c_ptr_len_mask.
(* func (p Pointer) IsNull() bool { return p&nullBit > 0 } *)
Definition ptr_isnull (p : N) : bool := c_ptr_null_cmp <? N.land p c_nullBit.

(* type bitset [4]uint64 *)
Definition bitset := list N.
Definition bitset_empty : bitset := [0; 0; 0; 0].

(* func (s *bitset) set(val enumVal) { s[val>>6] |= 1 << (val & 0x3F) }      (val : uint8) *)
Definition bitset_set (s : bitset) (v : N) : bitset :=
  let w := N.to_nat (N.shiftr v c_bitset_set_shift) in
  set_nth s w (N.lor (nth w s 0) (u64 (N.shiftl c_bitset_set_one (N.land v c_bitset_set_mask)))).

(* func (s *bitset) isSet(val enumVal) bool { return s[val>>6]&(1<<(val&0x3F)) > 0 } *)
Definition bitset_isset (s : bitset) (v : N) : bool :=
  let w := N.to_nat (N.shiftr v c_bitset_isset_shift) in
  c_bitset_isset_cmp <? N.land (nth w s 0) (u64 (N.shiftl c_bitset_isset_one (N.land v c_bitset_isset_mask))).
