(* Model/Frame.v — L0: the physical, pure model of a QFrame (qframe.go) and of its five column types.
   Executable definitions only.

   A column is its physical data array; a frame is the column slice, the row index (physical positions)
   and the error flag.  The by-name map of the Go struct is not stored: it always resolves a name to the
   LAST column of the slice with that name, and to that position (New: names are unique; Select: the map
   entry written last wins; setColumn: replaces the entry the map points to or appends).  The frameops
   engine observes both the slice and the map through the dump hook and checks this reading on every case. *)
From QF Require Import Base.Prelude Gen.GenConsts.
Local Open Scope N_scope.

(* ------------------------------------------------------------------ float64 as bit patterns *)

Definition f_abs_mask : N := 0x7FFFFFFFFFFFFFFF.
Definition f_inf_bits : N := 0x7FF0000000000000.
Definition f_isnan (b : N) : bool := f_inf_bits <? N.land b f_abs_mask.
(* sign-magnitude key: -0 and +0 both map to 0 *)
Definition f_key (b : N) : Z :=
  let m := Z.of_N (N.land b f_abs_mask) in if N.testbit b 63 then (- m)%Z else m.
Definition f_lt (a b : N) : bool := negb (f_isnan a) && negb (f_isnan b) && (f_key a <? f_key b)%Z.
Definition f_le (a b : N) : bool := negb (f_isnan a) && negb (f_isnan b) && (f_key a <=? f_key b)%Z.
Definition f_eq (a b : N) : bool := negb (f_isnan a) && negb (f_isnan b) && (f_key a =? f_key b)%Z.
Definition f_nan : N := 0x7FF8000000000001.   (* math.NaN() *)

(* ------------------------------------------------------------------ columns *)

Inductive ctype := TInt | TFloat | TBool | TString | TEnum.

Definition ctype_eqb (a b : ctype) : bool :=
  match a, b with
  | TInt, TInt | TFloat, TFloat | TBool, TBool | TString, TString | TEnum, TEnum => true
  | _, _ => false
  end.

Inductive coldata :=
| ICol (d : list Z)                                     (* icolumn: int (64 bit two's complement) *)
| FCol (d : list N)                                     (* fcolumn: float64 bit patterns *)
| BCol (d : list bool)                                  (* bcolumn *)
| SCol (d : list (option bytes))                        (* scolumn: None = null pointer bit set *)
| ECol (d : list N) (values : list bytes) (strict : bool).  (* ecolumn: uint8 ranks, c_nullValue = null *)

Definition col_type (c : coldata) : ctype :=
  match c with ICol _ => TInt | FCol _ => TFloat | BCol _ => TBool | SCol _ => TString | ECol _ _ _ => TEnum end.

Definition col_len (c : coldata) : nat :=
  match c with
  | ICol d => length d | FCol d => length d | BCol d => length d | SCol d => length d
  | ECol d _ _ => length d
  end.

(* function type used by Eval's context lookup: enum columns count as string *)
Definition col_ftype (c : coldata) : ctype :=
  match col_type c with TEnum => TString | t => t end.

(* A logical cell: what the typed views return. Enum cells are their string value. *)
Inductive cell :=
| CInt (z : Z) | CFloat (b : N) | CBool (b : bool) | CStr (s : option bytes) | CEnum (s : option bytes).

Definition enum_is_null (r : N) : bool := r =? c_nullValue.

(* c.values[v] *)
Definition enum_string (values : list bytes) (r : N) : outcome (option bytes) :=
  if enum_is_null r then Ok None else do s <- idx values (N.to_nat r); Ok (Some s).

Definition cell_at (c : coldata) (p : nat) : outcome cell :=
  match c with
  | ICol d => do z <- idx d p; Ok (CInt z)
  | FCol d => do b <- idx d p; Ok (CFloat b)
  | BCol d => do b <- idx d p; Ok (CBool b)
  | SCol d => do s <- idx d p; Ok (CStr s)
  | ECol d vs _ => do r <- idx d p; do s <- enum_string vs r; Ok (CEnum s)
  end.

(* ------------------------------------------------------------------ frames *)

Record frame := mkFrame {
  cols : list (bytes * coldata);     (* qf.columns, in slice order *)
  ix   : list nat;                   (* qf.index *)
  ferr : bool                        (* qf.Err != nil *)
}.

Definition with_err (f : frame) : frame := mkFrame (cols f) (ix f) true.
Definition with_ix (f : frame) (i : list nat) : frame := mkFrame (cols f) i (ferr f).

(* qf.columnsByName[name] : the last column with that name and its position *)
Fixpoint lookup_from (name : bytes) (cs : list (bytes * coldata)) (pos : nat) (acc : option (nat * coldata))
  : option (nat * coldata) :=
  match cs with
  | [] => acc
  | (n, c) :: rest => lookup_from name rest (S pos) (if bytes_eqb n name then Some (pos, c) else acc)
  end.
Definition lookup (f : frame) (name : bytes) : option (nat * coldata) := lookup_from name (cols f) 0%nat None.
Definition lookup_col (f : frame) (name : bytes) : option coldata := option_map snd (lookup f name).
Definition contains (f : frame) (name : bytes) : bool := match lookup f name with Some _ => true | None => false end.

Definition col_names (f : frame) : list bytes := map fst (cols f).

(* physical length of the columns: qf.columns[0].Len(), 0 without columns *)
Definition phys_len (f : frame) : nat :=
  match cols f with [] => 0%nat | (_, c) :: _ => col_len c end.

(* Len() : -1 when Err is set *)
Definition frame_len (f : frame) : Z := if ferr f then (-1)%Z else Z.of_nat (length (ix f)).

(* ------------------------------------------------------------------ the logical table (LA) *)

Record table := mkTable {
  tnames : list bytes;
  ttypes : list ctype;
  trows  : list (list cell)
}.

Definition row_at (f : frame) (p : nat) : outcome (list cell) := omap (fun nc => cell_at (snd nc) p) (cols f).

(* abs: every column read through the index *)
Definition abs (f : frame) : outcome table :=
  do rows <- omap (row_at f) (ix f);
  Ok (mkTable (col_names f) (map (fun nc => col_type (snd nc)) (cols f)) rows).

(* ------------------------------------------------------------------ cell equality used by Equals *)

Definition cell_eqb (a b : cell) : bool :=
  match a, b with
  | CInt x, CInt y => Z.eqb x y
  | CFloat x, CFloat y => f_eq x y || (f_isnan x && f_isnan y)
  | CBool x, CBool y => Bool.eqb x y
  | CStr x, CStr y => opt_bytes_eqb x y
  | CEnum x, CEnum y => opt_bytes_eqb x y
  | _, _ => false
  end.

(* exact comparison of observations: floats by bit pattern, all NaNs identified *)
Definition cell_obs_eqb (a b : cell) : bool :=
  match a, b with
  | CFloat x, CFloat y => (x =? y) || (f_isnan x && f_isnan y)
  | CInt x, CInt y => Z.eqb x y
  | CBool x, CBool y => Bool.eqb x y
  | CStr x, CStr y => opt_bytes_eqb x y
  | CEnum x, CEnum y => opt_bytes_eqb x y
  | _, _ => false
  end.

Definition table_obs_eqb (a b : table) : bool :=
  list_eqb bytes_eqb (tnames a) (tnames b) && list_eqb ctype_eqb (ttypes a) (ttypes b)
  && list_eqb (list_eqb cell_obs_eqb) (trows a) (trows b).

(* well-formedness: equal physical lengths, index in range, enum ranks valid *)
Definition enum_rank_ok (values : list bytes) (r : N) : bool :=
  enum_is_null r || (N.to_nat r <? length values)%nat.

Definition col_wf (c : coldata) : bool :=
  match c with
  | ECol d vs _ => forallb (enum_rank_ok vs) d && (length vs <=? N.to_nat c_maxCardinality)%nat
  | _ => true
  end.

Definition wf_frame (f : frame) : bool :=
  forallb (fun nc => Nat.eqb (col_len (snd nc)) (phys_len f) && col_wf (snd nc)) (cols f)
  && forallb (fun p => (p <? phys_len f)%nat) (ix f).
