(* Model/Sql.v — internal/io/sql/{stmt,types,column,reader,coerce}.go, config/sql/config.go and
   qframe.go ToSQL / ReadSQL / ReadSQLWithArgs.  Executable definitions only (proofs: Proofs/SqlProofs.v).

   What is NOT modelled (trusted base): database/sql itself — the conversion of the arguments of
   tx.Exec into driver values (int -> int64, *string -> string or NULL, bool, float64 unchanged) and
   the dispatch of Rows.Scan to Column.Scan with the driver's value unchanged.  strconv.ParseFloat
   and internal/math/float.Fixed (math.Pow, float -> int conversion) are parameters. *)
From Coq Require Import String Ascii.
From QF Require Import Base.Prelude Gen.GenConsts.
Local Open Scope N_scope.

(* ------------------------------------------------------------------ small string helpers *)

Definition str (s : string) : bytes := map N_of_ascii (list_ascii_of_string s).

(* TODO-GEN: the string literals of internal/io/sql/stmt.go, func Insert:
   "INSERT INTO ", " (", ",", ") VALUES (", "$%d" (the '$'), "?", ");" *)
Definition lit_insert_into : bytes := str "INSERT INTO ".
Definition lit_open : bytes := str " (".
Definition lit_comma : bytes := str ",".
Definition lit_values : bytes := str ") VALUES (".
Definition lit_dollar : bytes := str "$".
Definition lit_qmark : bytes := str "?".
Definition lit_close : bytes := str ");".

(* fmt.Sprintf("%d", n) for n >= 0 : decimal digits, most significant first *)
Fixpoint itoa_aux (fuel : nat) (n : N) (acc : bytes) : bytes :=
  match fuel with
  | O => acc
  | S fuel' =>
      let acc' := (48 + n mod 10) :: acc in
      if n <? 10 then acc' else itoa_aux fuel' (n / 10) acc'
  end.
Definition itoa (n : N) : bytes := itoa_aux (S (N.to_nat (N.log2 n))) n [].

(* bytes.Buffer.WriteRune: UTF-8 encoding of a rune (int32); invalid runes are written as U+FFFD *)
Definition utf8_encode (r : Z) : bytes :=
  if (r <? 0)%Z || (0x10FFFF <? r)%Z || ((0xD800 <=? r)%Z && (r <=? 0xDFFF)%Z) then [0xEF; 0xBF; 0xBD]
  else
    let n := Z.to_N r in
    if n <? 0x80 then [n]
    else if n <? 0x800 then [N.lor 0xC0 (N.shiftr n 6); N.lor 0x80 (N.land n 0x3F)]
    else if n <? 0x10000 then
      [N.lor 0xE0 (N.shiftr n 12); N.lor 0x80 (N.land (N.shiftr n 6) 0x3F); N.lor 0x80 (N.land n 0x3F)]
    else
      [N.lor 0xF0 (N.shiftr n 18); N.lor 0x80 (N.land (N.shiftr n 12) 0x3F);
       N.lor 0x80 (N.land (N.shiftr n 6) 0x3F); N.lor 0x80 (N.land n 0x3F)].

(* ------------------------------------------------------------------ configuration *)

Inductive coerce_kind := CoInt64ToBool | CoStringToFloat.

(* config/sql.Config = internal/io/sql.SQLConfig.  q_coerce = None is the nil CoerceMap; Some l is
   the map built by Coerce(pairs...) — a later pair for the same column replaces an earlier one.
   The function of a pair may be MISSING (None: the Go value nil, which is what config/sql.Coerce stores
   for a CoercePair whose Type is none of the constants, e.g. CoercePair{Column: name}). *)
Record sql_config := mkCfg {
  q_table : bytes;
  q_escape : Z;                 (* EscapeChar rune; 0 = none *)
  q_incr : bool;                (* Incrementing *)
  q_precision : Z;
  q_coerce : option (list (bytes * option coerce_kind))
}.

(* fn, ok := conf.CoerceMap[name]: None = no entry (ok false); Some None = an entry without function *)
Fixpoint coerce_find (m : list (bytes * option coerce_kind)) (name : bytes) : option (option coerce_kind) :=
  match m with
  | [] => None
  | (n, k) :: m' =>
      match coerce_find m' name with
      | Some k' => Some k'           (* the last pair wins *)
      | None => if bytes_eqb n name then Some k else None
      end
  end.

(* the function the entry for name carries, if any *)
Definition coerce_lookup (m : list (bytes * option coerce_kind)) (name : bytes) : option coerce_kind :=
  match coerce_find m name with Some (Some k) => Some k | _ => None end.

(* the entry of the configuration for a column name *)
Definition coerce_entry (conf : sql_config) (name : bytes) : option (option coerce_kind) :=
  match q_coerce conf with Some m => coerce_find m name | None => None end.

(* one of the names has an entry without function *)
Definition coerce_nil_hit (conf : sql_config) (names : list bytes) : bool :=
  existsb (fun name => match coerce_entry conf name with Some None => true | _ => false end) names.

(* ------------------------------------------------------------------ stmt.go *)

(* func escape(s string, char rune, buf *bytes.Buffer) *)
Definition escape (s : bytes) (char : Z) : bytes :=
  if (char =? 0)%Z then s else utf8_encode char ++ s ++ utf8_encode char.

(* for i, name := range colNames { escape(name, ...); if i+1 < len(colNames) { "," } } *)
Fixpoint insert_names (names : list bytes) (char : Z) (i len : nat) : bytes :=
  match names with
  | [] => []
  | name :: rest =>
      escape name char ++ (if Nat.ltb (i + 1) len then lit_comma else []) ++ insert_names rest char (S i) len
  end.

(* for i := range colNames { "$%d" (i+1) or "?"; if i+1 < len(colNames) { "," } } *)
Fixpoint insert_marks {A} (names : list A) (incr : bool) (i len : nat) : bytes :=
  match names with
  | [] => []
  | _ :: rest =>
      (if incr then lit_dollar ++ itoa (N.of_nat (i + 1)) else lit_qmark)
      ++ (if Nat.ltb (i + 1) len then lit_comma else []) ++ insert_marks rest incr (S i) len
  end.

(* func Insert(colNames []string, conf SQLConfig) string *)
Definition insert_text (names : list bytes) (conf : sql_config) : bytes :=
  lit_insert_into ++ escape (q_table conf) (q_escape conf) ++ lit_open
  ++ insert_names names (q_escape conf) 0 (length names)
  ++ lit_values
  ++ insert_marks names (q_incr conf) 0 (length names)
  ++ lit_close.

(* ------------------------------------------------------------------ frames and driver values *)

(* physical column data; floats are IEEE bit patterns; None = nil *string;
   enum = ranks (uint8, c_nullValue = null) + value table *)
Inductive coldata :=
| CInt (l : list Z)
| CFloat (l : list N)
| CBool (l : list bool)
| CStr (l : list (option bytes))
| CEnum (ranks : list N) (values : list bytes).

Record frame := mkFrame {
  fcols : list (bytes * coldata);   (* qf.columns, in order *)
  findex : list nat                 (* qf.index *)
}.

(* what a database/sql driver receives / delivers *)
Inductive dval :=
| DInt (z : Z)          (* int64 *)
| DFloat (b : N)        (* float64, bit pattern *)
| DBool (b : bool)
| DStr (s : bytes)      (* string *)
| DBytes (s : bytes)    (* []byte *)
| DNull                 (* nil *)
| DOther.               (* any other driver.Value (time.Time): not accepted by Column.Scan *)

(* types.go NewArgBuilder: c.View(ix).ItemAt(i) = data[ix[i]]; followed by database/sql's default
   argument conversion (nil *string -> NULL, *string -> string). *)
Definition cell_at (c : coldata) (p : nat) : outcome dval :=
  match c with
  | CInt l => do z <- idx l p; Ok (DInt z)
  | CFloat l => do b <- idx l p; Ok (DFloat b)
  | CBool l => do b <- idx l p; Ok (DBool b)
  | CStr l => do s <- idx l p; Ok (match s with Some s' => DStr s' | None => DNull end)
  | CEnum ranks values =>
      do r <- idx ranks p;
      if r =? c_nullValue then Ok DNull
      else do s <- idx values (N.to_nat r); Ok (DStr s)
  end.

Definition arg_builder (c : coldata) (ix : list nat) (i : nat) : outcome dval :=
  do p <- idx ix i; cell_at c p.

(* for j, b := range builders { args[j] = b(qf.index, i) } *)
Definition row_args (f : frame) (i : nat) : outcome (list dval) :=
  omap (fun c => arg_builder (snd c) (findex f) i) (fcols f).

Definition stmt := (bytes * list dval)%type.

Inductive status := SOk | SErr | SPanic.

(* for i := range qf.index { args...; _, err = tx.Exec(Insert(...), args...); if err != nil { return } }
   [exec_ok k] tells whether the driver accepts Exec number k.  The log holds every statement that
   reached the driver, the refused one included (it is the last one then). *)
Fixpoint to_sql_loop (f : frame) (conf : sql_config) (exec_ok : nat -> bool) (is : list nat)
  : list stmt * status :=
  match is with
  | [] => ([], SOk)
  | i :: is' =>
      match row_args f i with
      | Ok args =>
          let st := (insert_text (map fst (fcols f)) conf, args) in
          if exec_ok i then
            let (log, r) := to_sql_loop f conf exec_ok is' in (st :: log, r)
          else ([st], SErr)
      | Fail => ([], SErr)
      | Panic => ([], SPanic)
      end
  end.

(* func (qf QFrame) ToSQL (qf.Err == nil; every column type has an ArgBuilder) *)
Definition to_sql (f : frame) (conf : sql_config) (exec_ok : nat -> bool) : list stmt * status :=
  to_sql_loop f conf exec_ok (seq 0 (length (findex f))).

(* ------------------------------------------------------------------ column.go *)

Inductive ckind := KInvalid | KInt | KFloat | KString | KBool.          (* reflect.Kind *)
Inductive pkind := PNil | PInts | PFloats | PBools | PStrings.          (* which slice ptr points to *)

Record column := mkCol {
  c_kind : ckind;
  c_nulls : nat;
  c_ptr : pkind;
  c_ints : list Z;
  c_floats : list N;
  c_bools : list bool;
  c_strs : list (option bytes);
  c_coerce : option coerce_kind;
  c_prec : Z
}.

Definition new_column (prec : Z) (co : option coerce_kind) : column :=
  mkCol KInvalid 0 PNil [] [] [] [] co prec.

Definition nan_bits : N := 0x7FF8000000000001.     (* math.NaN() *)

Definition with_ints (c : column) l := mkCol (c_kind c) (c_nulls c) (c_ptr c) l (c_floats c) (c_bools c) (c_strs c) (c_coerce c) (c_prec c).
Definition with_floats (c : column) l := mkCol (c_kind c) (c_nulls c) (c_ptr c) (c_ints c) l (c_bools c) (c_strs c) (c_coerce c) (c_prec c).
Definition with_bools (c : column) l := mkCol (c_kind c) (c_nulls c) (c_ptr c) (c_ints c) (c_floats c) l (c_strs c) (c_coerce c) (c_prec c).
Definition with_strs (c : column) l := mkCol (c_kind c) (c_nulls c) (c_ptr c) (c_ints c) (c_floats c) (c_bools c) l (c_coerce c) (c_prec c).
Definition with_kind (c : column) k p n := mkCol k n p (c_ints c) (c_floats c) (c_bools c) (c_strs c) (c_coerce c) (c_prec c).

Definition is_pnil (p : pkind) : bool := match p with PNil => true | _ => false end.

(* func (c *Column) Null() error *)
Definition col_null (c : column) : outcome column :=
  match c_kind c with
  | KInvalid => Ok (with_kind c (c_kind c) (c_ptr c) (S (c_nulls c)))
  | KFloat => Ok (with_floats c (c_floats c ++ [nan_bits]))
  | KString => Ok (with_strs c (c_strs c ++ [None]))
  | _ => Fail
  end.

(* func (c *Column) Int(i int) *)
Definition col_int (c : column) (i : Z) : column :=
  let c1 := if is_pnil (c_ptr c) then with_kind c KInt PInts (c_nulls c) else c in
  with_ints c1 (c_ints c1 ++ [i]).

Section WithFloatFunctions.
  (* internal/math/float.Fixed(f, precision) on bit patterns, and strconv.ParseFloat(s, 64) *)
  Variable fixed : N -> Z -> N.
  Variable parse_float : bytes -> option N.

  (* func (c *Column) Float(f float64) *)
  Definition col_float (c : column) (f : N) : column :=
    let c1 :=
      if is_pnil (c_ptr c) then
        let c' := with_kind c KFloat PFloats (c_nulls c) in
        if Nat.ltb 0 (c_nulls c')
        then with_kind (with_floats c' (c_floats c' ++ repeat nan_bits (c_nulls c'))) KFloat PFloats 0%nat
        else c'
      else c in
    let f' := if (0 <? c_prec c1)%Z then fixed f (c_prec c1) else f in
    with_floats c1 (c_floats c1 ++ [f']).

  (* func (c *Column) String(s string) *)
  Definition col_string (c : column) (s : bytes) : column :=
    let c1 :=
      if is_pnil (c_ptr c) then
        let c' := with_kind c KString PStrings (c_nulls c) in
        if Nat.ltb 0 (c_nulls c')
        then with_kind (with_strs c' (c_strs c' ++ repeat None (c_nulls c'))) KString PStrings 0%nat
        else c'
      else c in
    with_strs c1 (c_strs c1 ++ [Some s]).

  (* func (c *Column) Bool(b bool) *)
  Definition col_bool (c : column) (b : bool) : column :=
    let c1 := if is_pnil (c_ptr c) then with_kind c KBool PBools (c_nulls c) else c in
    with_bools c1 (c_bools c1 ++ [b]).

  (* coerce.go.  A NULL (t == nil) is handled first: `if t == nil { return c.Null() }`. *)
  Definition coerce_scan (k : coerce_kind) (c : column) (t : dval) : outcome column :=
    match k, t with
    | CoInt64ToBool, DInt v => Ok (col_bool c (negb (v =? 0)%Z))
    | CoStringToFloat, DStr s =>
        match parse_float s with
        | Some f => Ok (col_float c f)
        | None => Fail
        end
    | _, DNull => col_null c
    | _, _ => Fail
    end.

  (* func (c *Column) Scan(t interface{}) error *)
  Definition col_scan (c : column) (t : dval) : outcome column :=
    match c_coerce c with
    | Some k => coerce_scan k c t
    | None =>
        match t with
        | DBool v => Ok (col_bool c v)
        | DStr s => Ok (col_string c s)
        | DInt v => Ok (col_int c v)
        | DBytes s => Ok (col_string c s)
        | DFloat v => Ok (col_float c v)
        | DNull => col_null c
        | DOther => Fail
        end
    end.

  (* func (c *Column) Data() interface{} : None = nil interface *)
  Definition col_data (c : column) : option coldata :=
    match c_ptr c with
    | PNil => None
    | PInts => Some (CInt (c_ints c))
    | PFloats => Some (CFloat (c_floats c))
    | PBools => Some (CBool (c_bools c))
    | PStrings => Some (CStr (c_strs c))
    end.

  (* ---------------------------------------------------------------- reader.go *)

  (* A result set as the driver delivers it.  [rs_fail] is the fault model of the driver (C15):
     rs_fail = Some k : Rows.Next reports a driver error instead of delivering row k (k = number of
     rows: instead of the end of the result set). *)
  Record result_set := mkRS {
    rs_names : list bytes;
    rs_rows : list (list dval)
  }.

  (* rows.Scan(columns...): database/sql compares the counts, then calls Scan of each destination
     in order and stops at the first error. *)
  Fixpoint scan_row (cols : list column) (vals : list dval) : outcome (list column) :=
    match cols, vals with
    | [], [] => Ok []
    | c :: cs, v :: vs => do c' <- col_scan c v; do cs' <- scan_row cs vs; Ok (c' :: cs')
    | _, _ => Fail         (* sql: expected %d destination arguments in Scan, not %d *)
    end.

  (* the columns the allocation loop builds when it runs to its end: precision and the function of the entry *)
  Definition alloc_plain (names : list bytes) (conf : sql_config) : list column :=
    map (fun name =>
           new_column (q_precision conf)
                      (match q_coerce conf with
                       | Some m => coerce_lookup m name
                       | None => None
                       end)) names.

  (* for _, name := range names { col := &Column{precision}; if conf.CoerceMap != nil { fn, ok := map[name];
       if ok { if fn == nil { return nil, colNames, error }; col.coerce = fn(col) } }; columns = append(columns, col) }
     An entry without function for a column of the result set is an error; an entry for an absent column is
     never looked at. *)
  Fixpoint alloc_columns (names : list bytes) (conf : sql_config) : outcome (list column) :=
    match names with
    | [] => Ok []
    | name :: rest =>
        match coerce_entry conf name with
        | Some None => Fail
        | e =>
            do cs <- alloc_columns rest conf;
            Ok (new_column (q_precision conf) (match e with Some (Some k) => Some k | _ => None end) :: cs)
        end
    end.

  (* The "ensure any column in the coercion map exists" block AS WRITTEN:
       for name := range conf.CoerceMap { for _, colName := range colNames { ... } }
     runs while colNames is still nil (colNames = names is assigned after the block), so the inner loop
     body is never executed and the block never reports anything.  [coerce_check] transcribes the block
     for an arbitrary colNames; ReadSQL calls it with []. *)
  Definition coerce_check_inner (name : bytes) (colNames : list bytes) : bool (* true = "continue checkMap" or loop ends *) :=
    match colNames with
    | [] => true
    | cn :: _ => if bytes_eqb name cn then true else false    (* return error at the first colName that differs *)
    end.
  Definition coerce_check (m : list (bytes * option coerce_kind)) (colNames : list bytes) : bool :=
    forallb (fun p => coerce_check_inner (fst p) colNames) m.

  (* One iteration of  for rows.Next() { ... }.  State: (columns, colNames); columns == nil is [] *)
  Definition read_row (conf : sql_config) (names : list bytes) (st : list column * list bytes) (row : list dval)
    : outcome (list column * list bytes) :=
    let '(columns, colNames) := st in
    do st1 <-
      (match columns with
       | [] =>
           do cols <- alloc_columns names conf;
           if (match q_coerce conf with Some m => coerce_check m colNames | None => true end)
           then Ok (cols, names) else Fail
       | _ => Ok (columns, colNames)
       end);
    let '(columns1, colNames1) := st1 in
    do cols' <- scan_row columns1 row;
    Ok (cols', colNames1).

  (* [fail_at] = Some k: Rows.Next returns false with Rows.Err() != nil when asked for row k *)
  Fixpoint read_rows (conf : sql_config) (names : list bytes) (fail_at : option nat) (k : nat)
           (st : list column * list bytes) (rows : list (list dval)) : outcome (list column * list bytes) :=
    if (match fail_at with Some j => Nat.eqb j k | None => false end) then Fail   (* if err := rows.Err() *)
    else
      match rows with
      | [] => Ok st
      | row :: rest =>
          do st' <- read_row conf names st row;
          read_rows conf names fail_at (S k) st' rest
      end.

  (* result := map[string]DataSlice{}; for i, column := range columns { result[colNames[i]] = column.Data() }
     as an association list in which a later binding of the same name replaces the earlier one *)
  Fixpoint map_set {V} (m : list (bytes * V)) (k : bytes) (v : V) : list (bytes * V) :=
    match m with
    | [] => [(k, v)]
    | (k', v') :: m' => if bytes_eqb k k' then (k, v) :: m' else (k', v') :: map_set m' k v
    end.
  Fixpoint map_get {V} (m : list (bytes * V)) (k : bytes) : option V :=
    match m with
    | [] => None
    | (k', v') :: m' => if bytes_eqb k k' then Some v' else map_get m' k
    end.

  Fixpoint result_map (columns : list column) (colNames : list bytes) (i : nat)
           (acc : list (bytes * option coldata)) : outcome (list (bytes * option coldata)) :=
    match columns with
    | [] => Ok acc
    | c :: cs => do n <- idx colNames i; result_map cs colNames (S i) (map_set acc n (col_data c))
    end.

  (* internal/io/sql.ReadSQL *)
  Definition io_read_sql (conf : sql_config) (rs : result_set) (fail_at : option nat)
    : outcome (list (bytes * option coldata) * list bytes) :=
    do st <- read_rows conf (rs_names rs) fail_at 0 ([], []) (rs_rows rs);
    let '(columns, colNames) := st in
    do m <- result_map columns colNames 0 [];
    Ok (m, colNames).

  (* ---------------------------------------------------------------- qframe.New as used by ReadSQL *)

  (* internal/strings.CheckName *)
  Definition is_quoted (s : bytes) : bool :=
    Nat.ltb 2 (length s) &&
    (((hd 0 s =? 39) && (last s 0 =? 39)) || ((hd 0 s =? 34) && (last s 0 =? 34))).
  Definition check_name (s : bytes) : bool :=
    negb (Nat.eqb (length s) 0) && negb (is_quoted s) && negb (hd 0 s =? 36).

  Definition coldata_len (d : coldata) : nat :=
    match d with
    | CInt l => length l | CFloat l => length l | CBool l => length l | CStr l => length l
    | CEnum r _ => length r
    end.

  (* the loop  for i, name := range config.ColumnOrder  of New: createColumn rejects the nil interface
     ("unknown column data type"), every column must have the length of the first one *)
  Fixpoint new_columns (order : list bytes) (data : list (bytes * option coldata)) (i : nat) (firstLen : nat)
    : outcome (list (bytes * coldata)) :=
    match order with
    | [] => Ok []
    | name :: rest =>
        match map_get data name with
        | None => Fail                       (* cannot happen after the existence check *)
        | Some None => Fail                  (* createColumn: unknown column data type *)
        | Some (Some d) =>
            let cur := coldata_len d in
            let first := if Nat.eqb i 0 then cur else firstLen in
            if negb (Nat.eqb first cur) then Fail
            else do cs <- new_columns rest data (S i) first; Ok ((name, d) :: cs)
        end
    end.

  (* qframe.New(data, newqf.ColumnOrder(columns...)); the result is (columns in order, number of rows).
     With an empty order New derives the order from the (then also empty) map. *)
  Definition qframe_new (data : list (bytes * option coldata)) (order : list bytes)
    : outcome (list (bytes * coldata)) :=
    if negb (forallb (fun p => check_name (fst p)) data) then Fail
    else if negb (Nat.eqb (length order) (length data)) then Fail
    else if negb (forallb (fun n => match map_get data n with Some _ => true | None => false end) order) then Fail
    else new_columns order data 0 0.

  (* SQL driver faults in front of the row loop *)
  Record sql_faults := mkFaults {
    sf_prepare : bool;          (* tx.Prepare fails *)
    sf_query : bool;            (* stmt.Query fails *)
    sf_row : option nat         (* Rows.Next fails at row k *)
  }.
  Definition no_faults := mkFaults false false None.

  (* qframe.ReadSQLWithArgs *)
  Definition read_sql (conf : sql_config) (rs : result_set) (flt : sql_faults) : outcome (list (bytes * coldata)) :=
    if sf_prepare flt then Fail
    else if sf_query flt then Fail
    else
      do r <- io_read_sql conf rs (sf_row flt);
      let '(data, columns) := r in
      qframe_new data columns.

End WithFloatFunctions.

(* ------------------------------------------------------------------ the store of the round trip *)

(* the rows a recording database holds after the statements of a log: one row per statement, the
   arguments as they arrived; the result set it answers a query with carries the frame's column names *)
Definition store_of (names : list bytes) (log : list stmt) : result_set :=
  mkRS names (map snd log).
