(* Model/TableSpec.v — LA: the operations of the property statements on the logical table
   (names, types, rows of cells); no index, no physical layout.  These are the property oracles of the
   frameops engine and the right-hand sides of the representation-independence theorems. *)
From QF Require Import Base.Prelude Model.Frame Model.Filter Model.Ops.
Local Open Scope N_scope.

(* position of the column a name resolves to: the last one with that name *)
Fixpoint last_pos_from (name : bytes) (names : list bytes) (pos : nat) (acc : option nat) : option nat :=
  match names with
  | [] => acc
  | n :: rest => last_pos_from name rest (S pos) (if bytes_eqb n name then Some pos else acc)
  end.
Definition tpos (t : table) (name : bytes) : option nat := last_pos_from name (tnames t) 0%nat None.

(* rows a .. b-1 *)
Definition tslice (t : table) (a b : nat) : table :=
  mkTable (tnames t) (ttypes t) (firstn (b - a) (skipn a (trows t))).

(* exactly the requested columns in the requested order *)
Fixpoint tpositions (t : table) (ns : list bytes) : option (list nat) :=
  match ns with
  | [] => Some []
  | n :: rest => match tpos t n, tpositions t rest with Some p, Some ps => Some (p :: ps) | _, _ => None end
  end.

Definition tselect (t : table) (names : list bytes) : option table :=
  match names with
  | [] => Some (mkTable [] [] [])            (* a frame without columns has no rows *)
  | _ =>
      match tpositions t names with
      | None => None
      | Some ps =>
          Some (mkTable names (map (fun p => nth p (ttypes t) TInt) ps)
                        (map (fun row => map (fun p => nth p row (CInt 0)) ps) (trows t)))
      end
  end.

(* replace the column in its position if present, else append it last *)
Definition tset_col (t : table) (name : bytes) (ty : ctype) (cells : list cell) : table :=
  match tpos t name with
  | Some p =>
      mkTable (tnames t) (set_nth (ttypes t) p ty)
              (map (fun rc => set_nth (fst rc) p (snd rc)) (combine (trows t) cells))
  | None =>
      mkTable (tnames t ++ [name]) (ttypes t ++ [ty])
              (map (fun rc => fst rc ++ [snd rc]) (combine (trows t) cells))
  end.

Definition tcolumn (t : table) (name : bytes) : option (ctype * list cell) :=
  match tpos t name with
  | Some p => Some (nth p (ttypes t) TInt, map (fun row => nth p row (CInt 0)) (trows t))
  | None => None
  end.

Definition ftype_of (t : ctype) : ctype := match t with TEnum => TString | x => x end.

(* one instruction of Apply, row-wise: None = the instruction is invalid (Err), Some None = open *)
Definition tapply_instr (t : table) (i : instr) : option (option table) :=
  if negb (check_name (idst i)) &&
     negb (match ifn i with F0ColName src => bytes_eqb src (idst i) | _ => false end) then
    (* an illegal destination name is rejected (unless the instruction fails earlier, also an error) *)
    None
  else if empty_name (isrc1 i) then
    match ifn i with
    | F0Stream ty vals =>
        if (length vals <? length (trows t))%nat then Some None
        else Some (Some (tset_col t (idst i) ty (firstn (length (trows t)) vals)))
    | F0Const c =>
        let ty := match c with CInt _ => TInt | CFloat _ => TFloat | CBool _ => TBool | _ => TString end in
        Some (Some (tset_col t (idst i) ty (map (fun _ => c) (trows t))))
    | F0ColName src =>
        match tcolumn t src with
        | Some (ty, cells) => if bytes_eqb src (idst i) then Some (Some t) else Some (Some (tset_col t (idst i) ty cells))
        | None => None
        end
    | _ => None
    end
  else if empty_name (isrc2 i) then
    match tcolumn t (isrc1 i), ifn i with
    | Some (ty, cells), F1 tin tout tbl =>
        if ctype_eqb (ftype_of ty) tin && negb (ctype_eqb tout TEnum) then
          match omap (tbl1 tbl) cells with
          | Ok out => Some (Some (tset_col t (idst i) tout out))
          | _ => Some None
          end
        else None
    | Some _, FBuiltin _ => Some None
    | _, _ => None
    end
  else
    match tcolumn t (isrc1 i), tcolumn t (isrc2 i), ifn i with
    | Some (ty1, c1), Some (ty2, c2), F2 ty tbl =>
        if ctype_eqb ty1 ty2 && ctype_eqb (ftype_of ty1) ty then
          match omap (fun xy => tbl2 tbl (fst xy) (snd xy)) (combine c1 c2) with
          | Ok out => Some (Some (tset_col t (idst i) ty out))
          | _ => Some None
          end
        else None
    | _, _, _ => None
    end.

(* cell-wise equality of two tables as Equals defines it *)
Definition tequal (a b : table) : bool :=
  list_eqb bytes_eqb (tnames a) (tnames b) && list_eqb ctype_eqb (ttypes a) (ttypes b)
  && list_eqb (list_eqb cell_eqb) (trows a) (trows b).
