(* Model/Observe.v — the observers of a QFrame at L0 (property C09): the typed views of qframe_gen.go /
   internal/template/column.go / internal/scolumn/view.go / internal/ecolumn/view.go, the frame as the
   engines read it (column names, column types, one typed view per name), and the frame-level entry
   points of ToCSV (Model/CsvWrite.v) and ToJSON (Model/Json.v), which take pre-read cells.
   Executable definitions only; the lemmas are in Proofs/ObserveProofs.v.

   Names: Model.Frame and Model.CsvSpec both define [frame], [col_len], [frame_len]; the physical frame
   is always written [Frame.frame] here, the observed typed table [CsvSpec.frame]. *)
From QF Require Import Base.Prelude Gen.GenConsts Model.Frame Model.Filter Model.Ops.
From QF Require Import Model.CsvSpec Model.CsvWrite Model.Json.
Local Open Scope N_scope.

(* ------------------------------------------------------------------ typed views *)

(* View{data: c.data, index: ix} (template), View{column: c, index: ix} (scolumn, ecolumn) *)
Record view := mkView { v_col : coldata; v_index : list nat }.

(* func (qf QFrame) IntView/FloatView/BoolView/StringView/EnumView(colName): the by-name map, then the
   type assertion, then col.View(qf.index).  qf.Err is not consulted. *)
Definition get_view (f : Frame.frame) (t : ctype) (name : bytes) : outcome view :=
  match lookup_col f name with
  | None => Fail
  | Some c => if ctype_eqb (col_type c) t then Ok (mkView c (ix f)) else Fail
  end.

(* func (v View) Len() int { return len(v.index) } *)
Definition view_len (v : view) : Z := Z.of_nat (length (v_index v)).

(* func (v View) ItemAt(i int) T { return v.data[v.index[i]] }; scolumn: stringToPtr(stringAt(index[i]));
   ecolumn: stringPtrAt(index[i]).  A negative or too large i, or an index entry outside the data, panics. *)
Definition view_item (v : view) (i : Z) : outcome cell :=
  if (i <? 0)%Z then Panic
  else do p <- idx (v_index v) (Z.to_nat i); cell_at (v_col v) p.

(* func (v View) Slice() []T : for i, j := range v.index { result[i] = v.data[j] } *)
Definition view_slice (v : view) : outcome (list cell) := omap (cell_at (v_col v)) (v_index v).

(* the same, addressed by frame, column type and column name *)
Definition frame_view_len (f : Frame.frame) (t : ctype) (name : bytes) : outcome Z :=
  do v <- get_view f t name; Ok (view_len v).
Definition frame_view_item (f : Frame.frame) (t : ctype) (name : bytes) (i : Z) : outcome cell :=
  do v <- get_view f t name; view_item v i.
Definition frame_view_slice (f : Frame.frame) (t : ctype) (name : bytes) : outcome (list cell) :=
  do v <- get_view f t name; view_slice v.

(* reading a view item by item: for j := 0; j < v.Len(); j++ { v.ItemAt(j) } (how the engines read) *)
Definition view_items (v : view) : outcome (list cell) :=
  omap (fun j => view_item v (Z.of_nat j)) (seq 0 (length (v_index v))).

(* ------------------------------------------------------------------ the frame as observed through the views *)

(* the Go slice a typed view returns, as a typed column of Model/CsvSpec.v; a cell of another type cannot
   come out of a typed view (Panic marks the impossible case) *)
Definition typed_column (t : ctype) (vals : list bytes) (cs : list cell) : outcome CsvSpec.column :=
  match t with
  | TInt => do d <- omap (fun c => match c with CInt z => Ok z | _ => Panic end) cs; Ok (ColInt d)
  | TFloat => do d <- omap (fun c => match c with CFloat z => Ok z | _ => Panic end) cs; Ok (ColFloat d)
  | TBool => do d <- omap (fun c => match c with CBool z => Ok z | _ => Panic end) cs; Ok (ColBool d)
  | TString => do d <- omap (fun c => match c with CStr z => Ok z | _ => Panic end) cs; Ok (ColString d)
  | TEnum => do d <- omap (fun c => match c with CEnum z => Ok z | _ => Panic end) cs; Ok (ColEnum vals d)
  end.

Definition enum_values (c : coldata) : list bytes := match c with ECol _ vs _ => vs | _ => [] end.

(* one column: the view of the given type by NAME (the harness reads qf.ColumnTypes()[i] and then the
   view of that type for qf.ColumnNames()[i]) *)
Definition observe_named (f : Frame.frame) (t : ctype) (name : bytes) : outcome CsvSpec.column :=
  do v <- get_view f t name;
  do cs <- view_items v;
  typed_column t (enum_values (v_col v)) cs.

(* ColumnNames(), ColumnTypes(), one view per name *)
Definition observe_frame (f : Frame.frame) : outcome CsvSpec.frame :=
  omap (fun nc => do c <- observe_named f (col_type (snd nc)) (fst nc); Ok (fst nc, c)) (cols f).

(* ------------------------------------------------------------------ what the serializers write per cell *)

Section Render.
Variable format_float : N -> bytes.    (* strconv.FormatFloat(x, 'f', -1, 64) on the bit pattern *)
Variable append_float : N -> bytes.    (* ryu.AppendFloat64f(nil, x) on the bit pattern (Model/Ryu.v: ryu_text) *)

(* col.StringAt(i, "") : the field ToCSV hands to the csv.Writer (before quoting) *)
Definition csv_cell (c : cell) : bytes :=
  match c with
  | CInt z => itoa z
  | CFloat x => if is_nan_bits x then [] else format_float x
  | CBool b => format_bool b
  | CStr s => opt_str s
  | CEnum s => opt_str s
  end.

Definition str_null : bytes := bs 4 0x6E756C6C.

(* col.AppendByteStringAt(buf, i) : the value ToJSON writes (relative to the buffer it appends to) *)
Definition json_cell (c : cell) : outcome bytes :=
  match c with
  | CInt z => Ok (itoa z)                                    (* strconv.AppendInt(buf, x, 10) *)
  | CFloat x => Ok (if f_isnan x then str_null else append_float x)
  | CBool b => Ok (format_bool b)                            (* strconv.AppendBool *)
  | CStr None | CEnum None => Ok str_null
  | CStr (Some s) | CEnum (Some s) => append_quoted_string [] s
  end.

(* func (qf QFrame) ToCSV for a frame without Err and a writer that never fails: the records handed to the
   csv.Writer and the bytes; the cells are those of the frame as observed through the views *)
Definition frame_to_csv_records (f : Frame.frame) (conf : to_conf) : outcome (list (list bytes)) :=
  do o <- observe_frame f; to_csv_records format_float o conf.
Definition frame_to_csv (f : Frame.frame) (conf : to_conf) : outcome bytes :=
  do o <- observe_frame f; to_csv format_float o conf.

(* func (qf QFrame) ToJSON: for i, ix := range qf.index { for j, col := range qf.columns {
   name ':' col.AppendByteStringAt(buf, ix) ',' } } : the list of Write calls *)
Definition json_rows (f : Frame.frame) : outcome (list (list bytes)) :=
  omap (fun p => omap (fun nc => do x <- cell_at (snd nc) p; json_cell x) (cols f)) (ix f).
Definition frame_to_json_writes (f : Frame.frame) : outcome (list bytes) :=
  do rows <- json_rows f; to_json_writes (col_names f) rows.
Definition frame_to_json (f : Frame.frame) : outcome bytes :=
  do rows <- json_rows f; to_json (col_names f) rows.

End Render.

(* ------------------------------------------------------------------ New from the observed values *)

(* the Go value handed to New for a column whose view returned [cs]: []int, []float64, []bool, []*string *)
Definition newdata_of_cells (t : ctype) (cs : list cell) : outcome newdata :=
  match t with
  | TInt => do d <- omap (fun c => match c with CInt z => Ok z | _ => Panic end) cs; Ok (DInts d)
  | TFloat => do d <- omap (fun c => match c with CFloat z => Ok z | _ => Panic end) cs; Ok (DFloats d)
  | TBool => do d <- omap (fun c => match c with CBool z => Ok z | _ => Panic end) cs; Ok (DBools d)
  | TString => do d <- omap (fun c => match c with CStr z => Ok z | _ => Panic end) cs; Ok (DStrPtrs d)
  | TEnum => do d <- omap (fun c => match c with CEnum z => Ok z | _ => Panic end) cs; Ok (DStrPtrs d)
  end.

(* data map: name -> the slice of the typed view of that name *)
Definition rebuild_data (f : Frame.frame) : outcome (list (bytes * newdata)) :=
  omap (fun nc => do cs <- frame_view_slice f (col_type (snd nc)) (fst nc);
                  do d <- newdata_of_cells (col_type (snd nc)) cs; Ok (fst nc, d)) (cols f).

(* Enums(...): every enum column with the value list of the original column *)
Definition rebuild_enums (f : Frame.frame) : list (bytes * list bytes) :=
  flat_map (fun nc => match snd nc with ECol _ vs _ => [(fst nc, vs)] | _ => [] end) (cols f).

(* New(data, ColumnOrder(names...), Enums(enums)) from what the views of [f] return *)
Definition rebuild (f : Frame.frame) : outcome Frame.frame :=
  do data <- rebuild_data f; new_frame data (col_names f) (rebuild_enums f).
