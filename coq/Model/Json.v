(* Model/Json.v — internal/strings/serialize.go (AppendQuotedString), convert.go (QuotedBytes), the
   record assembly of qframe.go func ToJSON, and — second half, clearly separated — the SPECIFICATION
   side: a reader for RFC 8259 strings / RFC 3629 UTF-8 and a small reader for the documents ToJSON
   writes.  Executable definitions only; lemmas are in Proofs/JsonProofs.v. *)
From QF Require Import Base.Prelude Model.Utf8.
Local Open Scope N_scope.

(* ================================================================== implementation model *)

(* TODO-GEN internal/strings/serialize.go, const chars = "0123456789abcdef" *)
Definition c_chars : bytes := bs 16 0x30313233343536373839616263646566.
(* TODO-GEN internal/strings/serialize.go, AppendQuotedString: the string literals backslash-t, -r, -n,
   backslash-backslash, backslash-quote, \u00, \ufffd, \u202, the byte tests for backslash, the
   quotation mark and 0x20, and the rune tests U+2028, U+2029 *)
Definition c_esc_t : bytes := [0x5C; 0x74].
Definition c_esc_r : bytes := [0x5C; 0x72].
Definition c_esc_n : bytes := [0x5C; 0x6E].
Definition c_esc_bs : bytes := [0x5C; 0x5C].
Definition c_esc_quote : bytes := [0x5C; 0x22].
Definition c_esc_u00 : bytes := [0x5C; 0x75; 0x30; 0x30].
Definition c_esc_ufffd : bytes := [0x5C; 0x75; 0x66; 0x66; 0x66; 0x64].
Definition c_esc_u202 : bytes := [0x5C; 0x75; 0x32; 0x30; 0x32].
Definition c_quote : N := 0x22.
Definition c_backslash : N := 0x5C.
Definition c_space : N := 0x20.
Definition c_ls : N := 0x2028.
Definition c_ps : N := 0x2029.

(* c != backslash && c != quotation mark && c >= 0x20 && c < utf8.RuneSelf *)
Definition aqs_plain (c : N) : bool :=
  negb (c =? c_backslash) && negb (c =? c_quote) && (c_space <=? c) && (c <? rune_self).

(* the switch of the "single-width character, need to escape" branch *)
Definition aqs_escape (c : N) : outcome bytes :=
  if c =? 0x09 then Ok c_esc_t
  else if c =? 0x0D then Ok c_esc_r
  else if c =? 0x0A then Ok c_esc_n
  else if c =? c_backslash then Ok c_esc_bs
  else if c =? c_quote then Ok c_esc_quote
  else
    do h <- idx c_chars (N.to_nat (N.shiftr c 4));
    do l <- idx c_chars (N.to_nat (N.land c 0xF));
    Ok (c_esc_u00 ++ [h] ++ [l]).

(* The loop `for i := 0; i < len(str); { ... }`.  State: [buf] the output buffer, [pend] = str[p:i]
   (bytes seen but not yet copied), [rest] = str[i:].  `buf = append(buf, str[p:i]...)` followed by
   `p = i` is [buf ++ pend] with an empty new [pend].  Every iteration consumes at least one byte, so
   fuel = len(str) suffices; running out of fuel is reported as Panic. *)
Fixpoint aqs_loop (fuel : nat) (buf pend rest : bytes) : outcome bytes :=
  match rest with
  | [] => Ok (buf ++ pend ++ [c_quote])      (* buf = append(buf, str[p:]...); then the closing quote *)
  | c :: t =>
      match fuel with
      | O => Panic
      | S f =>
          if aqs_plain c then aqs_loop f buf (pend ++ [c]) t
          else if c <? rune_self then
            do e <- aqs_escape c;
            aqs_loop f (buf ++ pend ++ e) [] t
          else
            let rw := decode_rune rest in
            let r := fst rw in
            let w := snd rw in
            if (r =? rune_error) && (w =? 1)%nat then
              aqs_loop f (buf ++ pend ++ c_esc_ufffd) [] t
            else if (r =? c_ls) || (r =? c_ps) then
              do h <- idx c_chars (N.to_nat (N.land r 0xF));
              aqs_loop f (buf ++ pend ++ c_esc_u202 ++ [h]) [] (skipn w rest)
            else
              aqs_loop f buf (pend ++ firstn w rest) (skipn w rest)
      end
  end.

(* func AppendQuotedString(buf []byte, str string) []byte *)
Definition append_quoted_string (buf str : bytes) : outcome bytes :=
  aqs_loop (length str) (buf ++ [c_quote]) [] str.

(* func QuotedBytes(s string) []byte { return AppendQuotedString(make([]byte, 0, len(s)+2), s) } *)
Definition quoted_bytes (s : bytes) : outcome bytes := append_quoted_string [] s.

(* ------------------------------------------------------------------ qframe.go func ToJSON
   The frame is given as the column names and, per row (in index order), the bytes that
   col.AppendByteStringAt appends for each column.  The result is the list of Write calls. *)
Definition c_lbracket : N := 0x5B.
Definition c_rbracket : N := 0x5D.
Definition c_lbrace : N := 0x7B.
Definition c_rbrace : N := 0x7D.
Definition c_comma : N := 0x2C.
Definition c_colon : N := 0x3A.

(* for j, col := range qf.columns { name; ':'; cell; ',' } *)
Fixpoint tojson_cols (buf : bytes) (qnames : list bytes) (cells : list bytes) : bytes :=
  match qnames, cells with
  | q :: qs, c :: cs => tojson_cols (buf ++ q ++ [c_colon] ++ c ++ [c_comma]) qs cs
  | _, _ => buf
  end.

Definition last_index (b : bytes) : nat := (length b - 1)%nat.

Definition tojson_row (i : nat) (qnames : list bytes) (cells : list bytes) : outcome bytes :=
  let b0 := if (0 <? i)%nat then [c_comma] else [] in
  let b1 := b0 ++ [c_lbrace] in
  let b2 := tojson_cols b1 qnames cells in
  do l <- idx b2 (last_index b2);                        (* jsonBuf[len(jsonBuf)-1] *)
  let b3 := if l =? c_comma then firstn (last_index b2) b2 else b2 in
  Ok (b3 ++ [c_rbrace]).

Fixpoint tojson_rows (i : nat) (qnames : list bytes) (rows : list (list bytes)) : outcome (list bytes) :=
  match rows with
  | [] => Ok []
  | r :: rs =>
      do w <- tojson_row i qnames r;
      do ws <- tojson_rows (S i) qnames rs;
      Ok (w :: ws)
  end.

Definition to_json_writes (names : list bytes) (rows : list (list bytes)) : outcome (list bytes) :=
  do qnames <- omap quoted_bytes names;
  do ws <- tojson_rows 0 qnames rows;
  Ok ([[c_lbracket]] ++ ws ++ [[c_rbracket]]).

Definition to_json (names : list bytes) (rows : list (list bytes)) : outcome bytes :=
  do ws <- to_json_writes names rows; Ok (concat ws).

(* ================================================================== specification side *)

(* ------------------------------------------------------------------ RFC 3629, section 4:
     UTF8-1 = %x00-7F                                UTF8-tail = %x80-BF
     UTF8-2 = %xC2-DF UTF8-tail
     UTF8-3 = %xE0 %xA0-BF UTF8-tail / %xE1-EC 2( UTF8-tail ) / %xED %x80-9F UTF8-tail / %xEE-EF 2( UTF8-tail )
     UTF8-4 = %xF0 %x90-BF 2( UTF8-tail ) / %xF1-F3 3( UTF8-tail ) / %xF4 %x80-8F 2( UTF8-tail )
   [rfc3629_char s] reads one character: its scalar value and the remaining bytes. *)
Definition tail_bits (b : N) : N := b - 0x80.
Definition rng (lo hi b : N) : bool := (lo <=? b) && (b <=? hi).
Definition utail (b : N) : bool := rng 0x80 0xBF b.

Definition rfc3629_char (s : bytes) : option (N * bytes) :=
  match s with
  | [] => None
  | a :: t =>
      if rng 0x00 0x7F a then Some (a, t)
      else if rng 0xC2 0xDF a then
        match t with
        | b :: t' => if utail b then Some ((a - 0xC0) * 64 + tail_bits b, t') else None
        | _ => None
        end
      else if rng 0xE0 0xEF a then
        match t with
        | b :: c :: t' =>
            if (if a =? 0xE0 then rng 0xA0 0xBF b else if a =? 0xED then rng 0x80 0x9F b else utail b)
               && utail c
            then Some ((a - 0xE0) * 4096 + tail_bits b * 64 + tail_bits c, t') else None
        | _ => None
        end
      else if rng 0xF0 0xF4 a then
        match t with
        | b :: c :: d :: t' =>
            if (if a =? 0xF0 then rng 0x90 0xBF b else if a =? 0xF4 then rng 0x80 0x8F b else utail b)
               && utail c && utail d
            then Some ((a - 0xF0) * 262144 + tail_bits b * 4096 + tail_bits c * 64 + tail_bits d, t')
            else None
        | _ => None
        end
      else None
  end.

(* ------------------------------------------------------------------ RFC 8259, section 7 (strings)
     string = quotation-mark *char quotation-mark
     char = unescaped / escape ( %x22 / %x5C / %x2F / %x62 / %x66 / %x6E / %x72 / %x74 / %x75 4HEXDIG )
     unescaped = %x20-21 / %x23-5B / %x5D-10FFFF
   The reader returns the code points denoted.  \uD800-\uDBFF must be followed by \uDC00-\uDFFF (one
   code point, section 7 last paragraph); a lone surrogate escape is rejected (stricter than the
   grammar, hence acceptance here implies acceptance by the RFC). *)
Definition hex_val (c : N) : option N :=
  if rng 0x30 0x39 c then Some (c - 0x30)
  else if rng 0x41 0x46 c then Some (c - 0x41 + 10)
  else if rng 0x61 0x66 c then Some (c - 0x61 + 10)
  else None.

Definition hex4 (s : bytes) : option (N * bytes) :=
  match s with
  | a :: b :: c :: d :: t =>
      match hex_val a, hex_val b, hex_val c, hex_val d with
      | Some x, Some y, Some z, Some w => Some (x * 4096 + y * 256 + z * 16 + w, t)
      | _, _, _, _ => None
      end
  | _ => None
  end.

Definition simple_escape (e : N) : option N :=
  if e =? 0x22 then Some 0x22          (* quotation mark *)
  else if e =? 0x5C then Some 0x5C     (* \\ *)
  else if e =? 0x2F then Some 0x2F     (* \/ *)
  else if e =? 0x62 then Some 0x08     (* \b *)
  else if e =? 0x66 then Some 0x0C     (* \f *)
  else if e =? 0x6E then Some 0x0A     (* \n *)
  else if e =? 0x72 then Some 0x0D     (* \r *)
  else if e =? 0x74 then Some 0x09     (* \t *)
  else None.

Definition ocons {A B} (v : A) (x : option (list A * B)) : option (list A * B) :=
  match x with Some (l, r) => Some (v :: l, r) | None => None end.

(* the characters after the opening quotation mark, up to and including the closing one *)
Fixpoint json_chars (fuel : nat) (s : bytes) : option (list N * bytes) :=
  match fuel with
  | O => None
  | S f =>
      match s with
      | [] => None
      | c :: t =>
          if c =? 0x22 then Some ([], t)
          else if c =? 0x5C then
            match t with
            | [] => None
            | e :: t1 =>
                if e =? 0x75 then
                  match hex4 t1 with
                  | None => None
                  | Some (u, t2) =>
                      if rng 0xD800 0xDBFF u then
                        match t2 with
                        | 0x5C :: 0x75 :: t3 =>
                            match hex4 t3 with
                            | Some (l, t4) =>
                                if rng 0xDC00 0xDFFF l
                                then ocons (0x10000 + (u - 0xD800) * 1024 + (l - 0xDC00)) (json_chars f t4)
                                else None
                            | None => None
                            end
                        | _ => None
                        end
                      else if rng 0xDC00 0xDFFF u then None
                      else ocons u (json_chars f t2)
                  end
                else
                  match simple_escape e with
                  | Some v => ocons v (json_chars f t1)
                  | None => None
                  end
            end
          else if c <? 0x20 then None
          else
            match rfc3629_char s with
            | Some (r, t') => ocons r (json_chars f t')
            | None => None
            end
      end
  end.

(* one more unit of fuel than bytes: every step consumes at least one byte *)
Definition json_parse_string (s : bytes) : option (list N * bytes) :=
  match s with
  | 0x22 :: t => json_chars (S (length t)) t
  | _ => None
  end.

(* ------------------------------------------------------------------ RFC 8259, the documents ToJSON writes
   JSON-text = begin-array [ object *( value-separator object ) ] end-array          (no whitespace)
   object    = begin-object [ member *( value-separator member ) ] end-object
   member    = string name-separator value
   value     = false / null / true / number / string
   number    = [ minus ] int [ frac ] [ exp ]      int = zero / ( digit1-9 *DIGIT )
   frac      = decimal-point 1*DIGIT               exp = e [ minus / plus ] 1*DIGIT
   A number is kept as its text (an opaque token that satisfies the grammar). *)
Inductive jtoken :=
| JNull
| JBool (b : bool)
| JNum (text : bytes)
| JStr (cps : list N).

Definition is_digit (c : N) : bool := rng 0x30 0x39 c.
Definition is_numchar (c : N) : bool :=
  is_digit c || (c =? 0x2D) || (c =? 0x2B) || (c =? 0x2E) || (c =? 0x65) || (c =? 0x45).

Fixpoint skip_digits (s : bytes) : bytes :=
  match s with
  | c :: t => if is_digit c then skip_digits t else s
  | [] => []
  end.

(* exp, or nothing *)
Definition num_after_frac (s : bytes) : bool :=
  match s with
  | [] => true
  | e :: t =>
      ((e =? 0x65) || (e =? 0x45)) &&
      let t' := match t with
                | c :: t1 => if (c =? 0x2D) || (c =? 0x2B) then t1 else t
                | [] => t
                end in
      match t' with
      | c :: t2 => is_digit c && match skip_digits t2 with [] => true | _ => false end
      | [] => false
      end
  end.

(* frac, or nothing; then exp *)
Definition num_after_int (s : bytes) : bool :=
  match s with
  | 0x2E :: c :: t => is_digit c && num_after_frac (skip_digits t)
  | 0x2E :: [] => false
  | _ => num_after_frac s
  end.

Definition json_number (s : bytes) : bool :=
  forallb is_numchar s &&
  let s1 := match s with 0x2D :: t => t | _ => s end in
  match s1 with
  | c :: t =>
      if c =? 0x30 then num_after_int t
      else if rng 0x31 0x39 c then num_after_int (skip_digits t)
      else false
  | [] => false
  end.

(* longest prefix of number characters *)
Fixpoint span_num (s : bytes) : bytes * bytes :=
  match s with
  | c :: t => if is_numchar c then let r := span_num t in (c :: fst r, snd r) else ([], s)
  | [] => ([], [])
  end.

Definition parse_value (s : bytes) : option (jtoken * bytes) :=
  match s with
  | 0x22 :: _ =>
      match json_parse_string s with
      | Some (cps, rest) => Some (JStr cps, rest)
      | None => None
      end
  | 0x6E :: 0x75 :: 0x6C :: 0x6C :: rest => Some (JNull, rest)
  | 0x74 :: 0x72 :: 0x75 :: 0x65 :: rest => Some (JBool true, rest)
  | 0x66 :: 0x61 :: 0x6C :: 0x73 :: 0x65 :: rest => Some (JBool false, rest)
  | _ =>
      let r := span_num s in
      if json_number (fst r) then Some (JNum (fst r), snd r) else None
  end.

Definition jmember := (list N * jtoken)%type.

(* members after begin-object (at least one), up to and including end-object *)
Fixpoint parse_members (fuel : nat) (s : bytes) : option (list jmember * bytes) :=
  match fuel with
  | O => None
  | S f =>
      match json_parse_string s with
      | Some (k, 0x3A :: s1) =>
          match parse_value s1 with
          | Some (v, 0x2C :: s2) => ocons (k, v) (parse_members f s2)
          | Some (v, 0x7D :: s2) => Some ([(k, v)], s2)
          | _ => None
          end
      | _ => None
      end
  end.

Definition parse_object (s : bytes) : option (list jmember * bytes) :=
  match s with
  | 0x7B :: 0x7D :: r => Some ([], r)
  | 0x7B :: r => parse_members (length r) r
  | _ => None
  end.

(* objects after begin-array (at least one), up to and including end-array, nothing after it *)
Fixpoint parse_objects (fuel : nat) (s : bytes) : option (list (list jmember)) :=
  match fuel with
  | O => None
  | S f =>
      match parse_object s with
      | Some (o, 0x2C :: r) =>
          match parse_objects f r with Some os => Some (o :: os) | None => None end
      | Some (o, [0x5D]) => Some [o]
      | _ => None
      end
  end.

Definition parse_doc (s : bytes) : option (list (list jmember)) :=
  match s with
  | [0x5B; 0x5D] => Some []
  | 0x5B :: r => parse_objects (length r) r
  | _ => None
  end.
