(* Model/SqlSpec.v — the specification-level reading of a SQL result set (property C19): what the
   property demands of ReadSQL for EVERY configuration (coercion map, Precision).  Executable
   definitions only; they are (a) the property oracle of engine "sql" (Corr/IOCorr.v, code 2) and
   (b) the right-hand sides of the theorems of Proofs/SqlProofs.v / Proofs/SqlProofs2.v
   (C19_read, C19_read_coerced, C19_coercion_error, C19_read_must_fail).

   Nothing here mentions the scanner state (sql.Column): a column is described by the list of driver
   values the result set holds for it.

   float.Fixed and strconv.ParseFloat are NOT modelled: they are the arguments
   [fixed : N -> Z -> N] (Fixed on bit patterns) and [pf : bytes -> option N] (ParseFloat, None = error). *)
From Coq Require Import String.
From QF Require Import Base.Prelude Model.Sql.
Local Open Scope N_scope.

(* ------------------------------------------------------------------ columns of driver values *)

Fixpoint opt_all {A} (l : list (option A)) : option (list A) :=
  match l with
  | [] => Some []
  | Some x :: r => option_map (cons x) (opt_all r)
  | None :: _ => None
  end.

Definition spec_is_null (v : dval) : bool := match v with DNull => true | _ => false end.

(* the column a homogeneous list of driver values denotes (None: outside the property's quantifier:
   mixed types, NULL in an int/bool column, no non-NULL value, unsupported type) *)
Definition spec_column (vals : list dval) : option coldata :=
  match find (fun v => negb (spec_is_null v)) vals with
  | Some (DInt _) =>
      option_map CInt (opt_all (map (fun v => match v with DInt z => Some z | _ => None end) vals))
  | Some (DBool _) =>
      option_map CBool (opt_all (map (fun v => match v with DBool z => Some z | _ => None end) vals))
  | Some (DFloat _) =>
      option_map CFloat (opt_all (map (fun v => match v with DFloat z => Some z | DNull => Some nan_bits | _ => None end) vals))
  | Some (DStr _) | Some (DBytes _) =>
      option_map CStr (opt_all (map (fun v => match v with
                                               | DStr z => Some (Some z) | DBytes z => Some (Some z)
                                               | DNull => Some None | _ => None end) vals))
  | _ => None
  end.

(* column j of a list of rows *)
Definition column_vals (rows : list (list dval)) (j : nat) : list dval :=
  map (fun r => nth j r DNull) rows.

Fixpoint nodupb (l : list bytes) : bool :=
  match l with
  | [] => true
  | x :: r => negb (existsb (bytes_eqb x) r) && nodupb r
  end.

(* ------------------------------------------------------------------ coercion and precision *)

(* float.Fixed applied to a driver value when Precision > 0 *)
Definition fix_val (fixed : N -> Z -> N) (prec : Z) (v : dval) : dval :=
  match v with
  | DFloat x => DFloat (if (0 <? prec)%Z then fixed x prec else x)
  | _ => v
  end.

(* the values of one column after coercion [g] (None = the coercion reports an error) and rounding;
   a NULL never reaches the coercion *)
Definition prep_val (g : dval -> option dval) (fixed : N -> Z -> N) (prec : Z) (v : dval) : option dval :=
  match v with
  | DNull => Some DNull
  | _ => option_map (fix_val fixed prec) (g v)
  end.
Definition prep (g : dval -> option dval) (fixed : N -> Z -> N) (prec : Z) (vals : list dval)
  : option (list dval) :=
  opt_all (map (prep_val g fixed prec) vals).

(* the coercion function the configuration binds to a column name (None also for an entry WITHOUT function:
   such an entry makes the read fail when its column is in the result set — coerce_nil_hit of Model/Sql.v,
   demanded by spec_read_must_fail below) *)
Definition co_of (conf : sql_config) (name : bytes) : option coerce_kind :=
  match q_coerce conf with Some m => coerce_lookup m name | None => None end.

(* a NULL after the value that fixed the column's type as int or bool: Column.Null reports an error.
   (NULLs BEFORE the first value of such a column are outside the property: the code drops them.) *)
Fixpoint null_after_int_or_bool (vals : list dval) : bool :=
  match vals with
  | [] => false
  | DNull :: rest => null_after_int_or_bool rest
  | DInt _ :: rest | DBool _ :: rest => existsb spec_is_null rest
  | _ :: _ => false
  end.

Section Spec.
  Variable fixed : N -> Z -> N.
  Variable pf : bytes -> option N.

  (* the two shipped coercions as functions on driver values *)
  Definition coerce_fn (k : coerce_kind) (v : dval) : option dval :=
    match k, v with
    | CoInt64ToBool, DInt z => Some (DBool (negb (z =? 0)%Z))
    | CoStringToFloat, DStr s => option_map DFloat (pf s)
    | _, _ => None
    end.

  Definition g_co (co : option coerce_kind) : dval -> option dval :=
    match co with Some k => coerce_fn k | None => Some end.

  Definition g_of (conf : sql_config) (name : bytes) : dval -> option dval := g_co (co_of conf name).

  (* the frame the property demands for a result set read with configuration conf: the values of column
     j first go through the coercion configured for its name and through float.Fixed; then every column
     must be of one SQL type, NULLs only in float / text columns (NaN / null string; leading ones
     back-filled), at least one non-NULL value; distinct admissible names; at least one row.
     None: outside the quantifier, or the read must fail (spec_read_must_fail tells) *)
  Definition spec_read_gen (conf : sql_config) (names : list bytes) (rows : list (list dval))
    : option (list (bytes * coldata)) :=
    if negb (forallb (fun r => Nat.eqb (length r) (length names)) rows) then None
    else if negb (nodupb names && forallb check_name names) then None
    else if Nat.eqb (length rows) 0 then None
    else if coerce_nil_hit conf names then None        (* an entry without function: the read must fail *)
    else option_map (combine names)
           (opt_all (map (fun j =>
                            match prep (g_of conf (nth j names [])) fixed (q_precision conf) (column_vals rows j) with
                            | Some vals' => spec_column vals'
                            | None => None
                            end) (seq 0 (length names)))).

  (* column j makes the read fail: its coercion reports an error on a non-NULL value, or, after
     coercion, a NULL follows the value that made it an int / bool column *)
  Definition col_must_fail (conf : sql_config) (name : bytes) (vals : list dval) : bool :=
    match prep (g_of conf name) fixed (q_precision conf) vals with
    | None => true
    | Some vals' => null_after_int_or_bool vals'
    end.

  (* ReadSQL must report an error (and must not return a frame, and must not panic): a result set with at
     least one row one of whose columns is bound, in the coercion map, to an entry WITHOUT function (an
     invalid argument: config/sql.Coerce with a CoercePair whose Type is none of the constants), or a
     well-formed result set (every row has one value per column) with a column that makes the read fail *)
  Definition spec_read_must_fail (conf : sql_config) (names : list bytes) (rows : list (list dval)) : bool :=
    (negb (Nat.eqb (length rows) 0) && coerce_nil_hit conf names)
    || (forallb (fun r => Nat.eqb (length r) (length names)) rows
        && existsb (fun j => col_must_fail conf (nth j names []) (column_vals rows j)) (seq 0 (length names))).
End Spec.
