(* Model/CsvWrite.v — qframe.ToCSV (/repo/qframe.go) on top of encoding/csv.Writer.Write
   (Go 1.23, /usr/lib/go-1.23/src/encoding/csv/writer.go; Comma = ',', UseCRLF = false, the bufio.Writer
   in between only batches the bytes: for a writer that never fails the output is the concatenation of
   what is written), the cell formatting of the column types (StringAt(i, "")) and concrete decimal
   integer formatting/parsing (strconv.FormatInt / strconv.Atoi, base 10, 64 bit) and strconv.ParseBool.
   format_float (strconv.FormatFloat(x, 'f', -1, 64)) is a parameter.
   Executable definitions only. *)
From QF Require Import Base.Prelude Model.CsvSpec.
Local Open Scope N_scope.

(* ------------------------------------------------------------------ strconv.FormatInt(x, 10) *)

Fixpoint udigits (fuel : nat) (n : N) (acc : bytes) : bytes :=
  match fuel with
  | O => acc
  | S f =>
      let acc' := (48 + n mod 10) :: acc in
      if n / 10 =? 0 then acc' else udigits f (n / 10) acc'
  end.

Definition utoa (n : N) : bytes := udigits (S (N.size_nat n)) n [].

Definition itoa (z : Z) : bytes :=
  match z with
  | Z0 => [48]
  | Zpos p => utoa (Npos p)
  | Zneg p => 45 :: utoa (Npos p)
  end.

(* ------------------------------------------------------------------ strconv.Atoi *)

Definition is_digit (c : N) : bool := (48 <=? c) && (c <=? 57).

Fixpoint digits_val (s : bytes) (acc : N) : option N :=
  match s with
  | [] => Some acc
  | c :: t => if is_digit c then digits_val t (acc * 10 + (c - 48)) else None
  end.

Definition in_int64 (z : Z) : bool := ((- two63 <=? z) && (z <? two63))%Z.

(* optional sign, at least one decimal digit, nothing else; out of range is an error *)
Definition atoi (s : bytes) : option Z :=
  let '(neg, ds) := match s with
                    | 43 :: t => (false, t)
                    | 45 :: t => (true, t)
                    | _ => (false, s)
                    end in
  match ds with
  | [] => None
  | _ =>
      match digits_val ds 0 with
      | None => None
      | Some n =>
          let z := if neg then (- Z.of_N n)%Z else Z.of_N n in
          if in_int64 z then Some z else None
      end
  end.

(* ------------------------------------------------------------------ strconv.FormatBool / ParseBool *)

Definition str_true : bytes := [116; 114; 117; 101].          (* "true" *)
Definition str_false : bytes := [102; 97; 108; 115; 101].     (* "false" *)

Definition format_bool (b : bool) : bytes := if b then str_true else str_false.

Definition atob (s : bytes) : option bool :=
  if existsb (bytes_eqb s) [[49]; [116]; [84]; [84; 82; 85; 69]; str_true; [84; 114; 117; 101]] then Some true
  else if existsb (bytes_eqb s) [[48]; [102]; [70]; [70; 65; 76; 83; 69]; str_false; [70; 97; 108; 115; 101]]
       then Some false
       else None.

(* ------------------------------------------------------------------ encoding/csv Writer *)

(* unicode.IsSpace(r1) for r1, _ := utf8.DecodeRuneInString(field): every white space rune has exactly one
   valid UTF-8 encoding, and DecodeRune returns that rune exactly when the field starts with it
   (Go 1.23 unicode tables: White_Space = U+0009-000D, 0020, 0085, 00A0, 1680, 2000-200A, 2028, 2029,
   202F, 205F, 3000). *)
Fixpoint has_prefix (p s : bytes) : bool :=
  match p, s with
  | [], _ => true
  | x :: p', y :: s' => (x =? y) && has_prefix p' s'
  | _ :: _, [] => false
  end.

Definition first_rune_space (f : bytes) : bool :=
  match f with
  | [] => false
  | c :: _ =>
      ((9 <=? c) && (c <=? 13)) || (c =? 32)
      || has_prefix [0xC2; 0x85] f || has_prefix [0xC2; 0xA0] f
      || has_prefix [0xE1; 0x9A; 0x80] f
      || (has_prefix [0xE2; 0x80] f
          && match f with
             | _ :: _ :: c3 :: _ => ((0x80 <=? c3) && (c3 <=? 0x8A)) || (c3 =? 0xA8) || (c3 =? 0xA9) || (c3 =? 0xAF)
             | _ => false
             end)
      || has_prefix [0xE2; 0x81; 0x9F] f
      || has_prefix [0xE3; 0x80; 0x80] f
  end.

(* func (w *Writer) fieldNeedsQuotes(field string) bool, for Comma < utf8.RuneSelf *)
Definition field_needs_quotes (comma : N) (f : bytes) : bool :=
  if is_nilb f then false
  else if bytes_eqb f [92; 46] then true     (* `\.` *)
  else if existsb (fun c => (c =? 10) || (c =? 13) || (c =? 34) || (c =? comma)) f then true
  else first_rune_space f.

(* the body of the quoted branch, byte by byte: a quote is doubled; CR is dropped and LF becomes CRLF only
   with UseCRLF *)
Fixpoint write_quoted_body (use_crlf : bool) (f : bytes) : bytes :=
  match f with
  | [] => []
  | c :: t =>
      (if c =? 34 then [34; 34]
       else if c =? 13 then (if use_crlf then [] else [13])
       else if c =? 10 then (if use_crlf then [13; 10] else [10])
       else [c]) ++ write_quoted_body use_crlf t
  end.

Definition write_field (comma : N) (use_crlf : bool) (f : bytes) : bytes :=
  if field_needs_quotes comma f then 34 :: write_quoted_body use_crlf f ++ [34] else f.

Fixpoint write_fields (comma : N) (use_crlf : bool) (n : nat) (rec : list bytes) : bytes :=
  match rec with
  | [] => []
  | f :: t => (if Nat.ltb 0 n then [comma] else []) ++ write_field comma use_crlf f
              ++ write_fields comma use_crlf (S n) t
  end.

(* func (w *Writer) Write(record []string) error *)
Definition writer_write (comma : N) (use_crlf : bool) (rec : list bytes) : bytes :=
  write_fields comma use_crlf 0 rec ++ (if use_crlf then [13; 10] else [10]).

(* ------------------------------------------------------------------ ToCSV *)

Section ToCsv.
Variable format_float : N -> bytes.    (* strconv.FormatFloat(x, 'f', -1, 64) on the bit pattern *)

Definition opt_str (s : option bytes) : bytes := match s with Some b => b | None => [] end.

(* the strings of a column's cells: col.StringAt(i, "") *)
Definition col_strings (c : column) : list bytes :=
  match c with
  | ColInt l => map itoa l
  | ColFloat l => map (fun x => if is_nan_bits x then [] else format_float x) l
  | ColBool l => map format_bool l
  | ColString l => map opt_str l
  | ColEnum _ l => map opt_str l
  | ColNone => []
  end.

Fixpoint find_col (name : bytes) (f : frame) : option (bytes * column) :=
  match f with
  | [] => None
  | (n, c) :: t => if bytes_eqb n name then Some (n, c) else find_col name t
  end.

Record to_conf := mkToConf {
  tc_header  : bool;
  tc_columns : option (list bytes)     (* csv.Columns(order); None: not given *)
}.

Definition frame_len (f : frame) : nat :=
  match f with [] => 0%nat | (_, c) :: _ => col_len c end.

(* the columns in output order, or the error of the Columns checks *)
Definition iter_cols (f : frame) (conf : to_conf) : outcome frame :=
  match tc_columns conf with
  | None => Ok f
  | Some order =>
      if negb (Nat.eqb (length order) (length f)) then Fail
      else omap (fun name => match find_col name f with Some nc => Ok nc | None => Fail end) order
  end.

(* row i of the record list: every column's string at i (Go would panic on a short column) *)
Definition record_at (cols : list (list bytes)) (i : nat) : outcome (list bytes) :=
  omap (fun strs => idx strs i) cols.

Definition to_csv_records (f : frame) (conf : to_conf) : outcome (list (list bytes)) :=
  do cols <- iter_cols f conf;
  let header := map fst cols in
  let strs := map (fun nc => col_strings (snd nc)) cols in
  do body <- omap (record_at strs) (seq 0 (frame_len f));
  Ok (if tc_header conf then header :: body else body).

(* func (qf QFrame) ToCSV(writer, confFuncs...) for a frame without Err and a writer that never fails *)
Definition to_csv (f : frame) (conf : to_conf) : outcome bytes :=
  do recs <- to_csv_records f conf;
  Ok (concat (map (writer_write 44 false) recs)).

End ToCsv.
