(* Model/HeapOps.v — the qframe operations at the heap level: their ALLOCATION AND WRITE STRUCTURE.
   Granularity: index arrays, bool masks, column-header slices, by-name maps, column data arrays,
   per-group slices, grouper tables, aggregation buffer, matcher buffer.
   The row-wise computations (comparisons, predicates, hashes, user callbacks) are parameters or
   Call nodes: what matters here is which locations are allocated, read and written.
   Sources: qframe.go, filter.go, grouper.go, internal/index/index.go, internal/sort/sorter.go,
   internal/grouper/grouper.go, internal/template/column.go, internal/scolumn/column.go,
   internal/ecolumn/column.go, internal/strings/match.go.
   A Go panic (index out of range, nil dereference) is the outcome [Panic]; [Fail] is used only
   internally for "leave the loop and return qf.withErr(...)". *)
From QF Require Import Base.Prelude Model.Heap.

(* ---------------------------------------------------------------- frames and groupers (struct VALUES) *)
Record qframe := mkQF { q_cols : slice;            (* columns       []namedColumn          *)
                        q_map : option loc;        (* columnsByName map[string]namedColumn (None = nil map) *)
                        q_idx : slice;             (* index         index.Int              *)
                        q_err : bool }.            (* Err != nil                           *)
Record grouper := mkG { g_indices : slice;         (* indices []index.Int *)
                        g_grouped : list bytes;
                        g_cols : slice;
                        g_map : option loc;
                        g_err : bool }.

Definition zero_frame : qframe := mkQF nil_slice None nil_slice false.
Definition err_frame : qframe := mkQF nil_slice None nil_slice true.       (* QFrame{Err: err} *)
(* withErr / withIndex build a new struct value: no heap action (qframe.go:63-69) *)
Definition with_err (qf : qframe) : qframe := mkQF (q_cols qf) (q_map qf) (q_idx qf) true.
Definition with_index (qf : qframe) (ix : slice) : qframe := mkQF (q_cols qf) (q_map qf) ix (q_err qf).

Definition by_name_m (m : option loc) (k : bytes) : prog (option col) :=
  match m with None => Ret None | Some l => map_lookup l k end.
Definition by_name (qf : qframe) (k : bytes) : prog (option col) := by_name_m (q_map qf) k.

(* column types *)
Definition ty_int : N := 0.  Definition ty_float : N := 1.  Definition ty_bool : N := 2.
Definition ty_string : N := 3.  Definition ty_enum : N := 4.

Definition col_data (c : col) : slice := hd nil_slice (c_parts c).
Definition col_len (c : col) : nat := s_len (col_data c).
Definition row (z : Z) : nat := Z.to_nat z.

(* what the column code reads in order to evaluate physical row r: element r of the first part
   (data / pointers / enum ranks) and the other parts as a whole (string blob / enum value table) *)
Definition col_cell (c : col) (r : Z) : prog (outcome (list val)) :=
  match c_parts c with
  | [] => Ret (Ok [])
  | d :: rest =>
      let? v := slice_get d (row r) in
      let* others := for_each rest (fun p acc => let* vs := slice_read p in Ret (acc ++ vs)) [] in
      Ret (Ok (v :: others))
  end.

Definition cols_cell (cs : list col) (r : Z) : prog (outcome (list (list val))) :=
  for_eachO cs (fun c acc => let? x := col_cell c r in Ret (Ok (acc ++ [x]))) [].

Definition opt_cell (oc : option col) (r : Z) : prog (outcome (list val)) :=
  match oc with Some c => col_cell c r | None => Ret (Ok []) end.

(* ---------------------------------------------------------------- internal/index *)
(* NewBool *)
Definition new_bool (n : nat) : prog slice := make_slice n n (VB false).

(* NewAscending *)
Definition new_ascending (n : nat) : prog slice :=
  let* s := make_slice n n (VZ 0) in
  let* _ := slice_write_list s 0 (map (fun i => VZ (Z.of_nat i)) (seq 0 n)) in
  Ret s.

(* Int.Copy *)
Definition index_copy (ix : slice) : prog slice :=
  let* n := make_slice (s_len ix) (s_len ix) (VZ 0) in
  let* _ := slice_copy san_z n ix in
  Ret n.

Definition count_true (bs : list bool) : nat := length (filter (fun b => b) bs).

(* Int.Filter(bIx) *)
Definition index_filter (ix b : slice) : prog (outcome slice) :=
  let* bs := read_bs b in
  let* res := make_slice 0 (count_true bs) (VZ 0) in
  for_eachO (combine (seq 0 (length bs)) bs)
            (fun ib r => if snd ib
                         then let? x := get_z ix (fst ib) in lift (slice_append r (VZ x))
                         else Ret (Ok r)) res.

(* ---------------------------------------------------------------- leaf filters: QFrame.filter *)
Record leaf := mkLeaf {
  lf_col : bytes;
  lf_arg : option bytes;        (* the argument is a column name *)
  lf_inverse : bool;
  lf_inv_builtin : bool;        (* filter.Inverse has an entry that is used directly *)
  lf_promote : N;               (* 1: the int column, 2: the int argument column is converted to a
                                   temporary float column (fcolumn.New(ic.FloatSlice())) *)
  lf_bad : bool;                (* Column.Filter returns an error *)
  lf_buf : bool;                (* case-insensitive like: the matcher owns a buffer (match.go:118) *)
  lf_need : Z -> nat;           (* bytes ToUpper needs for row r (0: nothing is written) *)
  lf_call : option fnid;        (* custom filter function *)
  lf_pred : Z -> list val -> list val -> bool;    (* built-in predicate: row, cell, argument cell *)
  lf_pred_inv : Z -> list val -> list val -> bool (* the predicate of the comparator filter.Inverse maps to *)
}.

(* strings.ToUpper(&m.buf, s): writes into the buffer when it is large enough, else replaces it *)
Definition matcher_touch (buf : slice) (need : nat) : prog slice :=
  if (need =? 0)%nat then Ret buf
  else if (need <=? s_len buf)%nat then let* _ := slice_set buf 0 (VZ 0) in Ret buf
  else let* nb := make_slice need need (VZ 0) in
       let* _ := slice_set nb 0 (VZ 0) in Ret nb.

(* Column.Filter(index, comparator, comparatee, bIndex):
   for i, x := range bIndex { if !x { bIndex[i] = pred(data[index[i]]) } } *)
Definition col_filter (f : leaf) (use_inv : bool) (c : col) (argc : option col) (ix b : slice) : prog (outcome unit) :=
  if lf_bad f then Ret Fail else
  let* buf0 := (if lf_buf f then make_slice 10 10 (VZ 0) else Ret nil_slice) in
  let? _ := for_eachO (seq 0 (s_len b))
      (fun i buf =>
         let? x := get_b b i in
         if (x : bool) then Ret (Ok buf) else
         let? r := get_z ix i in
         let? cell := col_cell c r in
         let? acell := opt_cell argc r in
         let* buf' := matcher_touch buf (lf_need f r) in
         let* res := match lf_call f with
                     | Some fn => Call fn (cell ++ acell) (fun v => Ret (as_b v))
                     | None => Ret (if use_inv then lf_pred_inv f r cell acell else lf_pred f r cell acell)
                     end in
         let? _ := slice_set b i (VB res) in
         Ret (Ok buf')) buf0 in
  Ret (Ok tt).

(* fcolumn.New(ic.FloatSlice()): a fresh float array *)
Definition promote (c : col) : prog col :=
  let* vs := read_zs (col_data c) in
  let* d := slice_lit (map VZ vs) in
  Ret (mkCol (c_name c) (c_pos c) ty_float [d]).

Definition leaf_step (qf : qframe) (b : slice) (f : leaf) : prog (outcome unit) :=
  let n := s_len (q_idx qf) in
  let* oc := by_name qf (lf_col f) in
  match oc with
  | None => Ret Fail
  | Some s =>
      let? argc := match lf_arg f with
                   | None => Ret (Ok None)
                   | Some an => let* oa := by_name qf an in
                                Ret (match oa with None => Fail | Some a => Ok (Some a) end)
                   end in
      let* s' := (if (lf_promote f =? 1)%N then promote s else Ret s) in
      let* argc' := match argc with
                    | Some a => if (lf_promote f =? 2)%N then let* a' := promote a in Ret (Some a')
                                else Ret (Some a)
                    | None => Ret None
                    end in
      if (lf_inverse f && negb (lf_inv_builtin f))%bool then
        let* invb := new_bool n in
        let? _ := col_filter f false s' argc' (q_idx qf) invb in
        for_eachO (seq 0 (s_len b))
                  (fun i _ => let? x := get_b b i in
                              if (x : bool) then Ret (Ok tt)
                              else let? y := get_b invb i in slice_set b i (VB (negb y))) tt
      else col_filter f (lf_inverse f) s' argc' (q_idx qf) b
  end.

Definition qf_filter (fs : list leaf) (qf : qframe) : prog (outcome qframe) :=
  if q_err qf then Ret (Ok qf) else
  let* b := new_bool (s_len (q_idx qf)) in
  let* r := for_eachO fs (fun f _ => leaf_step qf b f) tt in
  match r with
  | Ok _ => let? ix := index_filter (q_idx qf) b in Ret (Ok (with_index qf ix))
  | Fail => Ret (Ok (with_err qf))
  | Panic => Ret Panic
  end.

(* ---------------------------------------------------------------- filter.go: And / Or / Not *)
Inductive clause :=
| CLeaf (f : leaf)
| CAnd (err : bool) (cs : list clause)
| COr (err : bool) (cs : list clause)
| CNot (err : bool) (c : clause)
| CNull.

Definition step2 (cond : bool) (other : slice) (j : nat) (ix : Z) : prog (outcome (bool * nat)) :=
  if cond then
    let? x := get_z other j in
    Ret (Ok (if (x =? ix)%Z then (true, S j) else (false, j)))
  else Ret (Ok (false, j)).

(* orFrames(original, lhs, rhs) *)
Definition or_frames (orig : qframe) (lhs : option qframe) (rhs : qframe) : prog (outcome qframe) :=
  match lhs with
  | None => Ret (Ok rhs)
  | Some l =>
      if q_err l then Ret (Ok l) else if q_err rhs then Ret (Ok rhs) else
      let* res := make_slice 0 (Nat.max (s_len (q_idx l)) (s_len (q_idx rhs))) (VZ 0) in
      let* oix := read_zs (q_idx orig) in
      let? st := for_eachO oix
         (fun ix st =>
            let '(r, li, ri) := st in
            let? f1 := step2 (li <? s_len (q_idx l))%nat (q_idx l) li ix in
            let? f2 := step2 (ri <? s_len (q_idx rhs))%nat (q_idx rhs) ri ix in
            if (fst f1 || fst f2)%bool
            then let* r' := slice_append r (VZ ix) in Ret (Ok (r', snd f1, snd f2))
            else Ret (Ok (r, snd f1, snd f2))) (res, 0, 0) in
      Ret (Ok (with_index orig (fst (fst st))))
  end.

(* A deliberately WRONG orFrames: the result is appended to lhs.index instead of a fresh slice (used to
   show that the obligation has teeth: lhs may be the receiver itself, e.g. after a Null clause) *)
Definition or_frames_bad (orig lhs rhs : qframe) : prog (outcome qframe) :=
  let* oix := read_zs (q_idx rhs) in
  let* r := slice_append_list (q_idx lhs) (map VZ oix) in
  Ret (Ok (with_index orig r)).

(* the tail of NotClause.filter *)
Definition not_index (qf nq : qframe) : prog (outcome qframe) :=
  let* new := make_slice 0 (s_len (q_idx qf) - s_len (q_idx nq)) (VZ 0) in
  let* oix := read_zs (q_idx qf) in
  let? st := for_eachO oix
     (fun ix st =>
        let '(r, j) := st in
        let? f := step2 (j <? s_len (q_idx nq))%nat (q_idx nq) j ix in
        if fst f then Ret (Ok (r, snd f))
        else let* r' := slice_append r (VZ ix) in Ret (Ok (r', snd f))) (new, 0) in
  Ret (Ok (with_index qf (fst st))).

Definition toggle (f : leaf) : leaf :=
  mkLeaf (lf_col f) (lf_arg f) (negb (lf_inverse f)) (lf_inv_builtin f) (lf_promote f) (lf_bad f)
         (lf_buf f) (lf_need f) (lf_call f) (lf_pred f) (lf_pred_inv f).

Definition flush_or (qf : qframe) (filters : list leaf) (acc : option qframe) : prog (outcome (option qframe)) :=
  match filters with
  | [] => Ret (Ok acc)
  | _ => let? nq := qf_filter filters qf in
         let? r := or_frames qf acc nq in Ret (Ok (Some r))
  end.

Fixpoint clause_filter (c : clause) (qf : qframe) {struct c} : prog (outcome qframe) :=
  match c with
  | CLeaf f => qf_filter [f] qf
  | CNull => Ret (Ok qf)
  | CAnd err cs =>
      if q_err qf then Ret (Ok qf) else if err then Ret (Ok (with_err qf)) else
      (fix go (cs : list clause) (cur : qframe) {struct cs} : prog (outcome qframe) :=
         match cs with
         | [] => Ret (Ok cur)
         | c1 :: r => let? n := clause_filter c1 cur in go r n
         end) cs qf
  | COr err cs =>
      if q_err qf then Ret (Ok qf) else if err then Ret (Ok (with_err qf)) else
      (fix go (cs : list clause) (filters : list leaf) (acc : option qframe) {struct cs}
         : prog (outcome qframe) :=
         match cs with
         | [] => let? acc1 := flush_or qf filters acc in
                 Ret (match acc1 with Some r => Ok r | None => Panic end)     (* return *filteredQf *)
         | c1 :: r =>
             match c1 with
             | CLeaf f => go r (filters ++ [f]) acc
             | _ => let? acc1 := flush_or qf filters acc in
                    let? nq := clause_filter c1 qf in
                    let? acc2 := or_frames qf acc1 nq in
                    go r [] (Some acc2)
             end
         end) cs [] None
  | CNot err c1 =>
      if q_err qf then Ret (Ok qf) else if err then Ret (Ok (with_err qf)) else
      match c1 with
      | CLeaf f => qf_filter [toggle f] qf
      | _ => let? nq := clause_filter c1 qf in
             if q_err nq then Ret (Ok nq) else not_index qf nq
      end
  end.

(* QFrame.Filter *)
Definition op_filter (c : clause) (qf : qframe) : prog (outcome qframe) :=
  if q_err qf then Ret (Ok qf) else clause_filter c qf.

(* ---------------------------------------------------------------- Sort *)
(* Any in-place comparison sort over s.index is a script of Less and Swap calls; the scripts are
   arbitrary (the quickSort / heapSort / insertionSort of internal/sort is one of them). *)
Inductive sscript :=
| SDone
| SLess (i j : nat) (k : bool -> sscript)
| SSwap (i j : nat) (k : sscript).

Definition sort_less := Z -> Z -> list (list val) -> list (list val) -> bool.

Fixpoint run_sorter (ix : slice) (cols : list col) (less : sort_less) (sc : sscript) : prog (outcome unit) :=
  match sc with
  | SDone => Ret (Ok tt)
  | SLess i j k =>                                   (* Sorter.Less: index[i], index[j], column data *)
      let? di := get_z ix i in
      let? dj := get_z ix j in
      let? ci := cols_cell cols di in
      let? cj := cols_cell cols dj in
      run_sorter ix cols less (k (less di dj ci cj))
  | SSwap i j k =>                                   (* Sorter.Swap writes s.index in place *)
      let? a := get_z ix i in
      let? b := get_z ix j in
      let? _ := slice_set ix i (VZ b) in
      let? _ := slice_set ix j (VZ a) in
      run_sorter ix cols less k
  end.

(* insertion sort as a script (used to execute the model) *)
Fixpoint ins_inner (j : nat) (rest : sscript) : sscript :=
  match j with
  | O => rest
  | S j' => SLess (S j') j' (fun b => if b then SSwap (S j') j' (ins_inner j' rest) else rest)
  end.
Fixpoint ins_from (i fuel : nat) : sscript :=
  match fuel with
  | O => SDone
  | S f => ins_inner i (ins_from (S i) f)
  end.
Definition insertion_script (n : nat) : sscript := ins_from 1 (n - 1).

Definition lookup_cols (m : option loc) (names : list bytes) : prog (outcome (list col)) :=
  for_eachO names (fun nm acc => let* oc := by_name_m m nm in
                                 Ret (match oc with None => Fail | Some c => Ok (acc ++ [c]) end)) [].

Definition op_sort (names : list bytes) (less : sort_less) (script : nat -> sscript) (qf : qframe)
  : prog (outcome qframe) :=
  if q_err qf then Ret (Ok qf) else
  match names with
  | [] => Ret (Ok qf)
  | _ =>
      let* r := lookup_cols (q_map qf) names in
      match r with
      | Fail => Ret (Ok (with_err qf))
      | Panic => Ret Panic
      | Ok cols =>
          let* nix := index_copy (q_idx qf) in               (* qf.index.Copy() *)
          let? _ := run_sorter nix cols less (script (s_len nix)) in
          Ret (Ok (with_index qf nix))
      end
  end.

(* A deliberately WRONG Sort: the index copy is forgotten (used to show that the obligation has teeth) *)
Definition op_sort_nocopy (names : list bytes) (less : sort_less) (script : nat -> sscript) (qf : qframe)
  : prog (outcome qframe) :=
  let* r := lookup_cols (q_map qf) names in
  match r with
  | Ok cols => let? _ := run_sorter (q_idx qf) cols less (script (s_len (q_idx qf))) in Ret (Ok qf)
  | _ => Ret (Ok (with_err qf))
  end.

(* ---------------------------------------------------------------- Slice / Select / Drop / setColumn / Copy *)
Definition op_slice (a b : Z) (qf : qframe) : outcome qframe :=
  if q_err qf then Ok qf else
  if (a <? 0)%Z then Ok (with_err qf) else
  if (b <? a)%Z then Ok (with_err qf) else
  if (Z.of_nat (s_len (q_idx qf)) <? b)%Z then Ok (with_err qf) else
  do s <- subslice (q_idx qf) (Z.to_nat a) (Z.to_nat b); Ok (with_index qf s).

Definition check_columns (m : option loc) (names : list bytes) : prog bool :=
  for_each names (fun nm ok => let* oc := by_name_m m nm in
                               Ret (match oc with None => false | Some _ => ok end)) true.

Definition set_pos (c : col) (i : nat) : col := mkCol (c_name c) i (c_ty c) (c_parts c).
Definition set_name (c : col) (n : bytes) : col := mkCol n (c_pos c) (c_ty c) (c_parts c).

Definition op_select (names : list bytes) (qf : qframe) : prog (outcome qframe) :=
  if q_err qf then Ret (Ok qf) else
  let* ok := check_columns (q_map qf) names in
  if negb ok then Ret (Ok (with_err qf)) else
  match names with
  | [] => Ret (Ok zero_frame)
  | _ =>
      let n := length names in
      let* nm := map_make in
      let* nc := make_slice n n (VCol (mkCol [] 0 0 [])) in
      let? _ := for_eachO (combine (seq 0 n) names)
         (fun ic _ => let* oc := by_name qf (snd ic) in
                      let s := set_pos (match oc with Some c => c | None => mkCol [] 0 0 [] end) (fst ic) in
                      let* _ := map_store nm (snd ic) s in
                      slice_set nc (fst ic) (VCol s)) tt in
      Ret (Ok (mkQF nc (Some nm) (q_idx qf) false))
  end.

Definition op_drop (names : list bytes) (qf : qframe) : prog (outcome qframe) :=
  if q_err qf then Ret (Ok qf) else
  match names with
  | [] => Ret (Ok qf)
  | _ => let* cs := read_cols (q_cols qf) in
         let keep := filter (fun c => negb (existsb (bytes_eqb (c_name c)) names)) cs in
         op_select (map c_name keep) qf
  end.

(* setColumn: copies the header slice and the map before writing (qframe.go:702-728) *)
Definition set_column (name_ok : bool) (name : bytes) (ty : N) (parts : list slice) (qf : qframe)
  : prog (outcome qframe) :=
  if negb name_ok then Ret (Ok (with_err qf)) else
  let* ex := by_name qf name in
  let n := s_len (q_cols qf) in
  let pos := match ex with Some c => c_pos c | None => n end in
  let cnt := match ex with Some _ => n | None => S n end in
  let* nc := make_slice cnt cnt (VCol (mkCol [] 0 0 [])) in
  let* nm := map_make in
  let* _ := slice_copy san_col nc (q_cols qf) in
  let* kv := match q_map qf with Some m => map_read m | None => Ret [] end in
  let* _ := for_each kv (fun e _ => map_store nm (fst e) (snd e)) tt in
  let news := mkCol name pos ty parts in
  let* _ := map_store nm name news in
  let? _ := slice_set nc pos (VCol news) in
  Ret (Ok (mkQF nc (Some nm) (q_idx qf) (q_err qf))).

Definition op_copy (name_ok : bool) (dst src : bytes) (qf : qframe) : prog (outcome qframe) :=
  if q_err qf then Ret (Ok qf) else
  let* oc := by_name qf src in
  match oc with
  | None => Ret (Ok (with_err qf))
  | Some c => if bytes_eqb dst src then Ret (Ok qf)
              else set_column name_ok dst (c_ty c) (c_parts c) qf
  end.

(* ---------------------------------------------------------------- Apply *)
Inductive fnkind :=
| FnCall (fn : fnid) (rty : N)      (* a function (user supplied or built-in): called once per index entry *)
| FnConst (rty : N)                 (* apply0 with a constant: New*Const *)
| FnRowNum                          (* WithRowNums: closure with a private counter *)
| FnColName (src : bytes)           (* apply0 with a types.ColumnName: Copy *)
| FnUpperS (need : Z -> nat) (up : Z -> list val -> list Z)   (* string column "ToUpper" *)
| FnUpperE (merged : list val -> bool)                        (* enum column "ToUpper" *)
| FnBad.

Record instr := mkInstr { i_fn : fnkind; i_dst : bytes; i_src1 : option bytes; i_src2 : option bytes;
                          i_name_ok : bool }.

Definition zero_of (rty : N) : val :=
  if (rty =? ty_bool)%N then VB false else if (rty =? ty_string)%N then VNil else VZ 0.

Definition str_bytes (v : val) : list val :=
  match v with VStr b => map (fun x => VZ (Z.of_N x)) b | _ => [] end.
Definition str_ptr (v : val) : val :=
  match v with VStr b => VZ (Z.of_nat (length b)) | _ => VZ (-1) end.

(* icolumn.New(t) etc. keep the slice; scolumn.New([]*string) builds pointers + blob *)
Definition wrap_result (rty : N) (tmp : slice) : prog (N * list slice) :=
  if (rty =? ty_string)%N then
    let* vs := slice_read tmp in
    let* ptrs := slice_lit (map str_ptr vs) in
    let* blob := slice_lit (flat_map str_bytes vs) in
    Ret (ty_string, [ptrs; blob])
  else Ret (rty, [tmp]).

Definition apply_loop (fn : fnid) (rty : N) (n : nat) (srcs : list col) (qf : qframe) : prog (outcome slice) :=
  let* res := make_slice n n (zero_of rty) in
  let* ixs := read_zs (q_idx qf) in
  let? _ := for_eachO ixs
     (fun i _ => let? cells := cols_cell srcs i in
                 Call fn (concat cells) (fun v => slice_set res (row i) v)) tt in
  Ret (Ok res).

Definition first_col_len (qf : qframe) : prog (outcome nat) :=
  if (s_len (q_cols qf) =? 0)%nat then Ret (Ok 0)
  else let? c := get_col (q_cols qf) 0 in Ret (Ok (col_len c)).

Definition apply0 (a : instr) (qf : qframe) : prog (outcome qframe) :=
  if q_err qf then Ret (Ok qf) else
  let? n := first_col_len qf in
  match i_fn a with
  | FnCall fn rty =>
      let? tmp := apply_loop fn rty n [] qf in
      let* w := wrap_result rty tmp in
      set_column (i_name_ok a) (i_dst a) (fst w) (snd w) qf
  | FnRowNum =>
      let* res := make_slice n n (VZ 0) in
      let* ixs := read_zs (q_idx qf) in
      let? _ := for_eachO (combine (seq 0 (length ixs)) ixs)
                          (fun ki _ => slice_set res (row (snd ki)) (VZ (Z.of_nat (fst ki)))) tt in
      set_column (i_name_ok a) (i_dst a) ty_int [res] qf
  | FnConst rty =>
      let* tmp := make_slice n n (zero_of rty) in
      let* w := wrap_result rty tmp in
      set_column (i_name_ok a) (i_dst a) (fst w) (snd w) qf
  | FnColName src => op_copy (i_name_ok a) (i_dst a) src qf
  | _ => Ret (Ok (with_err qf))
  end.

(* scolumn.toUpper *)
Definition upper_s (need : Z -> nat) (up : Z -> list val -> list Z) (c : col) (qf : qframe)
  : prog (outcome (N * list slice)) :=
  if (col_len c =? 0)%nat then Ret (Ok (c_ty c, c_parts c)) else
  let* ptrs := make_slice (col_len c) (col_len c) (VZ 0) in
  let* data := make_slice 0 (col_len c) (VZ 0) in
  let* sb := make_slice 16 16 (VZ 0) in
  let* ixs := read_zs (q_idx qf) in
  let? st := for_eachO ixs
     (fun i st =>
        let? cell := col_cell c i in
        let* sb' := matcher_touch (snd st) (need i) in
        let u := up i cell in
        let? _ := slice_set ptrs (row i) (VZ (Z.of_nat (length u))) in
        let* d' := slice_append_list (fst st) (map VZ u) in
        Ret (Ok (d', sb'))) (data, sb) in
  Ret (Ok (ty_string, [ptrs; fst st])).

(* ecolumn.toUpper: the value table is rebuilt; data is SHARED when no two values merge *)
Definition upper_e (merged : list val -> bool) (c : col) : prog (outcome (N * list slice)) :=
  match c_parts c with
  | [data; values] =>
      let* vs := slice_read values in
      let* nv := make_slice 0 (length vs) VNil in
      let* o2n := make_slice (length vs) (length vs) (VZ 0) in
      let? nv' := for_eachO (combine (seq 0 (length vs)) vs)
          (fun iv nv => let? _ := slice_set o2n (fst iv) (VZ 0) in
                        lift (slice_append nv (scalar (snd iv)))) nv in
      if merged vs then
        let* ds := read_zs data in
        let* nd := slice_lit (map VZ ds) in
        Ret (Ok (ty_enum, [nd; nv']))
      else Ret (Ok (ty_enum, [data; nv']))
  | _ => Ret Panic
  end.

Definition apply1 (a : instr) (src : bytes) (qf : qframe) : prog (outcome qframe) :=
  if q_err qf then Ret (Ok qf) else
  let* oc := by_name qf src in
  match oc with
  | None => Ret (Ok (with_err qf))
  | Some c =>
      match i_fn a with
      | FnCall fn rty =>
          let? tmp := apply_loop fn rty (col_len c) [c] qf in
          let* w := wrap_result rty tmp in
          set_column (i_name_ok a) (i_dst a) (fst w) (snd w) qf
      | FnUpperS need up =>
          let? w := upper_s need up c qf in
          set_column (i_name_ok a) (i_dst a) (fst w) (snd w) qf
      | FnUpperE merged =>
          let? w := upper_e merged c in
          set_column (i_name_ok a) (i_dst a) (fst w) (snd w) qf
      | _ => Ret (Ok (with_err qf))
      end
  end.

Definition apply2 (a : instr) (src1 src2 : bytes) (qf : qframe) : prog (outcome qframe) :=
  if q_err qf then Ret (Ok qf) else
  let* oc1 := by_name qf src1 in
  match oc1 with
  | None => Ret (Ok (with_err qf))
  | Some c1 =>
      let* oc2 := by_name qf src2 in
      match oc2 with
      | None => Ret (Ok (with_err qf))
      | Some c2 =>
          match i_fn a with
          | FnCall fn rty =>
              let? tmp := apply_loop fn rty (col_len c1) [c1; c2] qf in
              let* w := wrap_result rty tmp in
              set_column (i_name_ok a) (i_dst a) (fst w) (snd w) qf
          | _ => Ret (Ok (with_err qf))
          end
      end
  end.

Definition apply_instr (a : instr) (qf : qframe) : prog (outcome qframe) :=
  match i_src1 a, i_src2 a with
  | None, _ => apply0 a qf
  | Some s1, None => apply1 a s1 qf
  | Some s1, Some s2 => apply2 a s1 s2 qf
  end.

Definition op_apply (instrs : list instr) (qf : qframe) : prog (outcome qframe) :=
  for_eachO instrs (fun a cur => apply_instr a cur) qf.

Definition op_with_row_nums (name_ok : bool) (name : bytes) (qf : qframe) : prog (outcome qframe) :=
  op_apply [mkInstr FnRowNum name None None name_ok] qf.

(* FilteredApply: struct copy `newQf := qf; newQf.index = filteredQf.index`, Apply, then
   `newQf.index = qf.index` - assignments to a LOCAL struct value, no heap action *)
Definition op_filtered_apply (c : clause) (instrs : list instr) (qf : qframe) : prog (outcome qframe) :=
  let? fq := op_filter c qf in
  if q_err fq then Ret (Ok fq) else
  let? nq := op_apply instrs (with_index qf (q_idx fq)) in
  Ret (Ok (with_index nq (q_idx qf))).

(* Eval: expression execution is a sequence of single-instruction Applies and Drops on temporary
   columns, followed by Copy(dst, col) and possibly Drop(col) *)
Inductive estep := EApply (a : instr) | EDrop (names : list bytes) | EErr.

Definition op_eval (steps : list estep) (name_ok : bool) (dst colname : bytes) (drop_tmp : bool) (qf : qframe)
  : prog (outcome qframe) :=
  if q_err qf then Ret (Ok qf) else
  let? r := for_eachO steps
     (fun st cur => match st with
                    | EApply a => op_apply [a] cur
                    | EDrop names => op_drop names cur
                    | EErr => Ret (Ok (if q_err cur then cur else with_err cur))
                    end) qf in
  let? r2 := op_copy name_ok dst colname r in
  if drop_tmp then op_drop [colname] r2 else Ret (Ok r2).

(* ---------------------------------------------------------------- internal/grouper *)
Record gparams := mkGP {
  gp_hash : Z -> list (list val) -> Z;                               (* table.hash *)
  gp_eq : Z -> Z -> list (list val) -> list (list val) -> bool       (* equals(comparables, i, j) *)
}.

Definition empty_entry : val := VEnt None 0 0 false.

Record gtable := mkGT { gt_entries : slice; gt_count : nat }.

(* linear probing from [pos]; returns the slot for row i: (position, entry) *)
Fixpoint probe (gp : gparams) (cols : list col) (ents : slice) (i : Z) (ci : list (list val)) (h : Z)
         (pos fuel : nat) : prog (outcome (nat * val)) :=
  match fuel with
  | O => Ret Panic
  | S f =>
      let? e := slice_get ents pos in
      match e with
      | VEnt ix eh first occ =>
          if negb occ then Ret (Ok (pos, e)) else
          let? cf := cols_cell cols first in
          if ((eh =? h)%Z && gp_eq gp i first ci cf)%bool then Ret (Ok (pos, e))
          else probe gp cols ents i ci h (if (S pos <? s_len ents)%nat then S pos else 0) f
      | _ => Ret Panic
      end
  end.

(* the relocation loop of table.grow: first free slot from [pos] *)
Fixpoint table_place (ne : slice) (n : nat) (e : val) (pos fuel : nat) : prog (outcome unit) :=
  match fuel with
  | O => Ret Panic
  | S f => let? x := slice_get ne pos in
           match x with
           | VEnt _ _ _ false => slice_set ne pos e
           | _ => table_place ne n e (if (S pos <? n)%nat then S pos else 0) f
           end
  end.

(* table.grow: a new entries array; every entry (with its per-group slice) is moved over *)
Definition grow_table (ents : slice) : prog (outcome slice) :=
  let n := 2 * s_len ents in
  let* ne := make_slice n n empty_entry in
  let* es := slice_read ents in
  let? _ := for_eachO es
     (fun e _ =>
        match e with
        | VEnt ix eh first occ => table_place ne n e (Z.to_nat (eh mod Z.of_nat (Nat.max n 1))) n
        | _ => Ret Panic
        end) tt in
  Ret (Ok ne).

(* table.insertEntry(i) *)
Definition insert_entry (gp : gparams) (cols : list col) (collect : bool) (i : Z) (t : gtable)
  : prog (outcome gtable) :=
  let? ents := (if (s_len (gt_entries t) <? 2 * gt_count t)%nat       (* loadFactor > 0.5 *)
                then grow_table (gt_entries t) else Ret (Ok (gt_entries t))) in
  let? ci := cols_cell cols i in
  let h := gp_hash gp i ci in
  let n := s_len ents in
  let? slot := probe gp cols ents i ci h (Z.to_nat (h mod Z.of_nat (Nat.max n 1))) n in
  match snd slot with
  | VEnt ix eh first occ =>
      if negb occ then
        let? _ := slice_set ents (fst slot) (VEnt ix h i true) in
        Ret (Ok (mkGT ents (S (gt_count t))))
      else if collect then
        match ix with
        | None =>                                         (* index.Int{dstEntry.firstPos, i} *)
            let* s := slice_lit [VZ first; VZ i] in
            let? _ := slice_set ents (fst slot) (VEnt (Some s) eh first occ) in
            Ret (Ok (mkGT ents (gt_count t)))
        | Some s =>                                       (* dstEntry.ix = append(dstEntry.ix, i) *)
            let* s' := slice_append s (VZ i) in
            let? _ := slice_set ents (fst slot) (VEnt (Some s') eh first occ) in
            Ret (Ok (mkGT ents (gt_count t)))
        end
      else Ret (Ok (mkGT ents (gt_count t)))
  | _ => Ret Panic
  end.

Definition initial_size (n : nat) : nat := Nat.max 8 (2 ^ (Nat.log2 (n / 4) + (if (n / 4 =? 0)%nat then 0 else 1))).

(* groupIndex *)
Definition group_index (gp : gparams) (cols : list col) (collect : bool) (ix : slice) : prog (outcome gtable) :=
  let sz := initial_size (s_len ix) in
  let* ents := make_slice sz sz empty_entry in
  let* ixs := read_zs ix in
  for_eachO ixs (fun i t => insert_entry gp cols collect i t) (mkGT ents 0).

(* grouper.Distinct *)
Definition grouper_distinct (gp : gparams) (cols : list col) (ix : slice) : prog (outcome slice) :=
  let? t := group_index gp cols false ix in
  let* res := make_slice 0 (gt_count t) (VZ 0) in
  let* es := slice_read (gt_entries t) in
  lift (for_each es (fun e r => match e with
                                | VEnt _ _ first true => slice_append r (VZ first)
                                | _ => Ret r
                                end) res).

(* grouper.GroupBy *)
Definition grouper_group_by (gp : gparams) (cols : list col) (ix : slice) : prog (outcome slice) :=
  let? t := group_index gp cols true ix in
  let* res := make_slice 0 (gt_count t) (VSl nil_slice) in
  let* es := slice_read (gt_entries t) in
  lift (for_each es (fun e r => match e with
                                | VEnt None _ first true =>
                                    let* s := slice_lit [VZ first] in slice_append r (VSl s)
                                | VEnt (Some s) _ _ true => slice_append r (VSl s)
                                | _ => Ret r
                                end) res).

Definition columns_or_all (names : list bytes) (qf : qframe) : prog (list bytes) :=
  match names with
  | [] => let* cs := read_cols (q_cols qf) in Ret (map c_name cs)
  | _ => Ret names
  end.

Definition op_distinct (gp : gparams) (names : list bytes) (qf : qframe) : prog (outcome qframe) :=
  if q_err qf then Ret (Ok qf) else
  if (s_len (q_idx qf) =? 0)%nat then Ret (Ok qf) else
  let* ok := check_columns (q_map qf) names in
  if negb ok then Ret (Ok (with_err qf)) else
  let* all := columns_or_all names qf in
  let* r := lookup_cols (q_map qf) all in
  match r with
  | Ok cols => let? nix := grouper_distinct gp cols (q_idx qf) in Ret (Ok (with_index qf nix))
  | _ => Ret Panic                                   (* qf.columnsByName[...] of a missing key: zero column *)
  end.

Definition op_group_by (gp : gparams) (names : list bytes) (qf : qframe) : prog (outcome grouper) :=
  if q_err qf then Ret (Ok (mkG nil_slice [] nil_slice None true)) else
  let* ok := check_columns (q_map qf) names in
  if negb ok then Ret (Ok (mkG nil_slice [] nil_slice None true)) else
  let g := mkG nil_slice names (q_cols qf) (q_map qf) false in
  if (s_len (q_idx qf) =? 0)%nat then Ret (Ok g) else
  match names with
  | [] => let* s := slice_lit [VSl (q_idx qf)] in       (* []index.Int{qf.index}: SHARES the frame's index *)
          Ret (Ok (mkG s names (q_cols qf) (q_map qf) false))
  | _ =>
      let* r := lookup_cols (q_map qf) names in
      match r with
      | Ok cols => let? ind := grouper_group_by gp cols (q_idx qf) in
                   Ret (Ok (mkG ind names (q_cols qf) (q_map qf) false))
      | _ => Ret Panic
      end
  end.

(* ---------------------------------------------------------------- Grouper.Aggregate / QFrames *)
(* Column.Subset(index): fresh data (string: fresh pointers and blob; enum: values shared) *)
Definition col_subset (c : col) (ix : slice) : prog (outcome col) :=
  let* ixs := read_zs ix in
  let? cells := for_eachO ixs (fun i acc => let? x := col_cell c i in
                                            Ret (Ok (acc ++ [scalar (hd VNil x)]))) [] in
  let* d := slice_lit cells in
  match c_parts c with
  | [_; p2] => if (c_ty c =? ty_string)%N
               then let* vs := slice_read p2 in
                    let* blob := slice_lit (map san_z vs) in
                    Ret (Ok (mkCol (c_name c) (c_pos c) (c_ty c) [d; blob]))
               else Ret (Ok (mkCol (c_name c) (c_pos c) (c_ty c) [d; p2]))
  | _ => Ret (Ok (mkCol (c_name c) (c_pos c) (c_ty c) [d]))
  end.

Record agg := mkAgg { a_count : bool;            (* Fn == "count" *)
                      a_fn : option fnid;        (* None: the function is not defined for the column -> error *)
                      a_rty : N;
                      a_col : bytes; a_as : bytes }.

(* Column.Aggregate with the reusable buffer of subsetWithBuf (template/column.go:155) *)
Definition col_aggregate (c : col) (fn : fnid) (rty : N) (groups : list slice) : prog (outcome slice) :=
  let* data := make_slice 0 (length groups) (zero_of rty) in
  let? st := for_eachO groups
     (fun g st =>
        let '(d, buf) := st in
        let* buf1 := (if (s_cap buf <? s_len g)%nat then make_slice 0 (s_len g) (VZ 0) else Ret buf) in
        let b0 := mkSlice (s_base buf1) (s_off buf1) 0 (s_cap buf1) in        (* buf[:0] *)
        let* gix := read_zs g in
        let? sub := for_eachO gix (fun i b => let? x := col_cell c i in
                                              lift (slice_append b (scalar (hd VNil x)))) b0 in
        let* vs := slice_read sub in
        let* d' := Call fn vs (fun v => slice_append d v) in
        Ret (Ok (d', buf1))) (data, nil_slice) in
  Ret (Ok (fst st)).

Definition op_aggregate (aggs : list agg) (g : grouper) : prog (outcome qframe) :=
  if g_err g then Ret (Ok err_frame) else
  let* groups := read_slices (g_indices g) in
  let ng := length groups in
  let* fe := make_slice ng ng (VZ 0) in
  let? _ := for_eachO (combine (seq 0 ng) groups)
                      (fun ig _ => let? x := get_z (snd ig) 0 in slice_set fe (fst ig) (VZ x)) tt in
  let* nm := map_make in
  let* nc0 := make_slice 0 (length (g_grouped g) + length aggs) (VCol (mkCol [] 0 0 [])) in
  let? nc1 := for_eachO (combine (seq 0 (length (g_grouped g))) (g_grouped g))
     (fun ic nc => let* oc := by_name_m (g_map g) (snd ic) in
                   let c := match oc with Some c => c | None => mkCol [] 0 0 [] end in
                   let? c' := col_subset (set_pos c (fst ic)) fe in
                   let* _ := map_store nm (snd ic) c' in
                   lift (slice_append nc (VCol c'))) nc0 in
  let* r := for_eachO aggs
     (fun a nc =>
        let* oc := by_name_m (g_map g) (a_col a) in
        match oc with
        | None => Ret Fail
        | Some c =>
            let name := match a_as a with [] => a_col a | n => n end in
            let* dup := map_lookup nm name in
            match dup with
            | Some _ => Ret Fail
            | None =>
                let? c' :=
                   (if a_count a then
                      let* counts := slice_lit (map (fun s => VZ (Z.of_nat (s_len s))) groups) in
                      Ret (Ok (mkCol name (s_len nc) ty_int [counts]))
                    else match a_fn a with
                         | None => Ret Fail
                         | Some fn => let? d := col_aggregate c fn (a_rty a) groups in
                                      let* w := wrap_result (a_rty a) d in
                                      Ret (Ok (mkCol name (s_len nc) (fst w) (snd w)))
                         end) in
                let* _ := map_store nm name c' in
                lift (slice_append nc (VCol c'))
            end
        end) nc1 in
  match r with
  | Ok nc => let* ix := new_ascending ng in Ret (Ok (mkQF nc (Some nm) ix false))
  | Fail => Ret (Ok err_frame)
  | Panic => Ret Panic
  end.

(* Grouper.QFrames: a fresh []QFrame whose elements share the grouper's headers and group indices *)
Definition op_qframes (g : grouper) : prog (outcome (list qframe)) :=
  if g_err g then Ret Fail else
  let* groups := read_slices (g_indices g) in
  let* _ := slice_lit (map VSl groups) in
  Ret (Ok (map (fun s => mkQF (g_cols g) (g_map g) s false) groups)).

(* ---------------------------------------------------------------- views and read-only operations *)
(* XView(name): {data, index} - a struct value, no heap action beyond the map lookup *)
Definition op_view (name : bytes) (qf : qframe) : prog (outcome (col * slice)) :=
  let* oc := by_name qf name in
  Ret (match oc with Some c => Ok (c, q_idx qf) | None => Fail end).

(* View.ItemAt(i) = data[index[i]] *)
Definition view_item_at (v : col * slice) (i : nat) : prog (outcome (list val)) :=
  let? r := get_z (snd v) i in col_cell (fst v) r.

(* View.Slice(): a fresh copy *)
Definition view_slice (v : col * slice) : prog (outcome slice) :=
  let* res := make_slice (s_len (snd v)) (s_len (snd v)) VNil in
  let* ixs := read_zs (snd v) in
  let? _ := for_eachO (combine (seq 0 (length ixs)) ixs)
     (fun ki _ => let? x := col_cell (fst v) (snd ki) in
                  slice_set res (fst ki) (scalar (hd VNil x))) tt in
  Ret (Ok res).

(* every cell of the frame through the index, column by column *)
Definition read_cells (cols : slice) (ix : slice) : prog (outcome (list (col * list (list val)))) :=
  let* cs := read_cols cols in
  let* ixs := read_zs ix in
  for_eachO cs (fun c acc =>
     let? cells := for_eachO ixs (fun i a => let? x := col_cell c i in Ret (Ok (a ++ [x]))) [] in
     Ret (Ok (acc ++ [(c, cells)]))) [].

(* ToCSV / ToJSON / String: read headers, index and cells; the output goes to the caller's writer /
   a private string builder.  (String also fills private row / width slices.) *)
Definition op_serialize (qf : qframe) : prog (outcome (list (col * list (list val)))) :=
  if q_err qf then Ret Fail else
  let* row_buf := make_slice (s_len (q_cols qf)) (s_len (q_cols qf)) VNil in
  let? r := read_cells (q_cols qf) (q_idx qf) in
  let? _ := for_eachO (seq 0 (length r)) (fun j _ => slice_set row_buf j (VStr [])) tt in
  Ret (Ok r).

(* Equals: reads both frames *)
Definition op_equals (eqf : list (col * list (list val)) -> list (col * list (list val)) -> bool)
           (qf other : qframe) : prog (outcome bool) :=
  if negb (s_len (q_idx qf) =? s_len (q_idx other))%nat then Ret (Ok false) else
  if negb (s_len (q_cols qf) =? s_len (q_cols other))%nat then Ret (Ok false) else
  let? a := read_cells (q_cols qf) (q_idx qf) in
  let? b := read_cells (q_cols other) (q_idx other) in
  Ret (Ok (eqf a b)).

(* ---------------------------------------------------------------- what an observer sees (C01) *)
(* Len, column names, order and types, every cell through the index (with the string blob / enum
   value table the cell is decoded with), Err *)
Record observation := mkObs { ob_len : Z; ob_cols : list (bytes * N); ob_cells : outcome (list (list (list val)));
                              ob_err : bool }.

Definition observe_frame (qf : qframe) : prog observation :=
  let* r := read_cells (q_cols qf) (q_idx qf) in
  let* cs := read_cols (q_cols qf) in
  Ret (mkObs (if q_err qf then (-1)%Z else Z.of_nat (s_len (q_idx qf)))
             (map (fun c => (c_name c, c_ty c)) cs)
             (match r with Ok l => Ok (map snd l) | Fail => Fail | Panic => Panic end)
             (q_err qf)).

(* a grouper is observed through QFrames() *)
Definition observe_grouper (g : grouper) : prog (list observation) :=
  if g_err g then Ret [] else
  let* groups := read_slices (g_indices g) in
  for_each groups (fun s acc => let* o := observe_frame (mkQF (g_cols g) (g_map g) s false) in
                                Ret (acc ++ [o])) [].

(* ---------------------------------------------------------------- histories (C01) and multisets (C11) *)
(* the members of the growing family: frames and groupers (views are struct values over the same
   storage as their frame and are observed through it) *)
Inductive member := MemF (q : qframe) | MemG (g : grouper).

(* the operations of the quantifier of C01 / C11; the row-wise computations are parameters *)
Inductive lop :=
| LSlice (a b : Z)
| LSort (names : list bytes) (less : sort_less) (script : nat -> sscript)
| LFilter (c : clause)
| LCopy (name_ok : bool) (dst src : bytes)
| LSelect (names : list bytes)
| LDrop (names : list bytes)
| LApply (is : list instr)
| LRowNums (name_ok : bool) (name : bytes)
| LFApply (c : clause) (is : list instr)
| LEval (steps : list estep) (name_ok : bool) (dst colname : bytes) (drop : bool)
| LDistinct (gp : gparams) (names : list bytes)
| LGroupBy (gp : gparams) (names : list bytes)
| LAggregate (aggs : list agg)
| LQFrames
| LViewItemAt (name : bytes) (i : nat)          (* XView(name).ItemAt(i) *)
| LViewSlice (name : bytes)                      (* XView(name).Slice() *)
| LSerialize                                     (* ToCSV / ToJSON / String *)
| LEquals (eqf : list (col * list (list val)) -> list (col * list (list val)) -> bool).

Definition as_frame (m : member) : qframe := match m with MemF q => q | MemG _ => err_frame end.

(* the program of one operation: receiver, second argument (Equals only); result = the new members *)
Definition lop_prog (op : lop) (recv other : member) : prog (outcome (list member)) :=
  let one (p : prog (outcome qframe)) := let? q := p in Ret (Ok [MemF q]) in
  let none {A} (p : prog (outcome A)) := let* _ := p in Ret (Ok (@nil member)) in
  match recv, op with
  | MemF q, LSlice a b => Ret (do q' <- op_slice a b q; Ok [MemF q'])
  | MemF q, LSort names less script => one (op_sort names less script q)
  | MemF q, LFilter c => one (op_filter c q)
  | MemF q, LCopy ok d s => one (op_copy ok d s q)
  | MemF q, LSelect ns => one (op_select ns q)
  | MemF q, LDrop ns => one (op_drop ns q)
  | MemF q, LApply is => one (op_apply is q)
  | MemF q, LRowNums ok n => one (op_with_row_nums ok n q)
  | MemF q, LFApply c is => one (op_filtered_apply c is q)
  | MemF q, LEval steps ok dst cn drop => one (op_eval steps ok dst cn drop q)
  | MemF q, LDistinct gp ns => one (op_distinct gp ns q)
  | MemF q, LGroupBy gp ns => let? g := op_group_by gp ns q in Ret (Ok [MemG g])
  | MemG g, LAggregate aggs => one (op_aggregate aggs g)
  | MemG g, LQFrames => let* r := op_qframes g in
                        Ret (Ok (match r with Ok fs => map MemF fs | _ => [] end))
  | MemF q, LViewItemAt name i => none (let? v := op_view name q in view_item_at v i)
  | MemF q, LViewSlice name => none (let? v := op_view name q in view_slice v)
  | MemF q, LSerialize => none (op_serialize q)
  | MemF q, LEquals eqf => none (op_equals eqf q (as_frame other))
  | _, _ => Ret (Ok [])
  end.

Definition observe_member (m : member) : prog (list observation) :=
  match m with
  | MemF q => let* o := observe_frame q in Ret [o]
  | MemG g => observe_grouper g
  end.

Section History.
  Variable env : fnid -> list val -> val.

  (* the observer is a read-only program; [tobs] only names the allocations it does not make *)
  Definition observe (tobs : nat) (st : store) (m : member) : list observation :=
    fst (fst (run env tobs (observe_member m) 0 st)).

  (* one step of a history: operation [op] applied to members number r and r2 of the family;
     the step runs as thread t (fresh name space) *)
  Definition history_step (t : nat) (st : store) (fam : list member) (h : nat * nat * lop)
    : store * list member :=
    let '(r, r2, op) := h in
    match nth_error fam r, nth_error fam r2 with
    | Some recv, Some other =>
        let '(res, _, st') := run env t (lop_prog op recv other) 0 st in
        (st', fam ++ match res with Ok news => news | _ => [] end)
    | _, _ => (st, fam)
    end.

  (* the states after 0, 1, 2, ... steps *)
  Fixpoint history_states (h : list (nat * nat * lop)) (t : nat) (st : store) (fam : list member)
    : list (store * list member) :=
    (st, fam) :: match h with
                 | [] => []
                 | x :: r => let '(st', fam') := history_step t st fam x in history_states r (S t) st' fam'
                 end.
End History.

(* ================================================================ wave 2 additions (p-C01) *)
(* ---------------------------------------------------------------- deliberately WRONG variants (negative examples of C01) *)
(* A setColumn WITHOUT the copy of qframe.go:742-744: a new column is appended to the receiver's
   header slice (in place when cap > len: every frame sharing the header array sees or loses it),
   an existing column is overwritten in the receiver's header slice. *)
Definition set_column_nocopy (name_ok : bool) (name : bytes) (ty : N) (parts : list slice) (qf : qframe)
  : prog (outcome qframe) :=
  if negb name_ok then Ret (Ok (with_err qf)) else
  let* ex := by_name qf name in
  let n := s_len (q_cols qf) in
  let pos := match ex with Some c => c_pos c | None => n end in
  let news := mkCol name pos ty parts in
  let? nc := match ex with
             | Some _ => let? _ := slice_set (q_cols qf) pos (VCol news) in Ret (Ok (q_cols qf))
             | None => lift (slice_append (q_cols qf) (VCol news))
             end in
  let* nm := map_make in
  let* kv := match q_map qf with Some m => map_read m | None => Ret [] end in
  let* _ := for_each kv (fun e _ => map_store nm (fst e) (snd e)) tt in
  let* _ := map_store nm name news in
  Ret (Ok (mkQF nc (Some nm) (q_idx qf) (q_err qf))).

(* An Aggregate whose aggregation orders every group THROUGH the group's index slice (an in-place sort
   of ix instead of a sort of the subset copy), then proceeds like Aggregate. *)
Definition op_aggregate_sorting (less : sort_less) (script : nat -> sscript) (aggs : list agg) (g : grouper)
  : prog (outcome qframe) :=
  if g_err g then Ret (Ok err_frame) else
  let* groups := read_slices (g_indices g) in
  let? _ := for_eachO groups (fun s _ => run_sorter s [] less (script (s_len s))) tt in
  op_aggregate aggs g.

(* ---------------------------------------------------------------- abstraction to the L0 model (C01 refinement) *)
(* abs1: a frame REFERENCE (struct value of slice headers) read in a store as an L0 frame of
   Model/Frame.v: the header slice gives the columns in order, the index slice the row index.
   The L1 level does not interpret cell values; how the storage arrays of a column decode to L0 column
   data is a DECODER (type tag, contents of the storage arrays -> coldata) over which the refinement
   theorems of Proofs/HeapRefine.v quantify; [dec_std] is the decoder of the encoding used by
   [wrap_result] (string: lengths / -1 for null + byte blob; enum: ranks + value table, and - since
   the L1 column has no such field - never "strict"). *)
From QF Require Model.Frame Model.Sort.

Definition seg_of (st : store) (s : slice) : list val := slice_seg s (read_loc st (s_base s)).
Definition abs_ix (st : store) (s : slice) : list nat := map (fun v => row (as_z v)) (seg_of st s).
Definition hdr_of (st : store) (s : slice) : list col := map as_col (seg_of st s).

Definition decoder := N -> list (list val) -> option Frame.coldata.
Definition abs_col (dec : decoder) (st : store) (c : col) : option Frame.coldata :=
  dec (c_ty c) (map (seg_of st) (c_parts c)).

Fixpoint abs_cols (dec : decoder) (st : store) (cs : list col) : option (list (bytes * Frame.coldata)) :=
  match cs with
  | [] => Some []
  | c :: r => match abs_col dec st c, abs_cols dec st r with
              | Some d, Some ds => Some ((c_name c, d) :: ds)
              | _, _ => None
              end
  end.

Definition abs1 (dec : decoder) (st : store) (qf : qframe) : option Frame.frame :=
  match abs_cols dec st (hdr_of st (q_cols qf)) with
  | Some cs => Some (Frame.mkFrame cs (abs_ix st (q_idx qf)) (q_err qf))
  | None => None
  end.

Definition val_n (v : val) : N := Z.to_N (as_z v).
Definition val_bytes (v : val) : bytes := match v with VStr b => b | _ => [] end.
Fixpoint dec_strings (ptrs blob : list val) : list (option bytes) :=
  match ptrs with
  | [] => []
  | p :: r => if (as_z p <? 0)%Z then None :: dec_strings r blob
              else Some (map val_n (firstn (Z.to_nat (as_z p)) blob)) :: dec_strings r (skipn (Z.to_nat (as_z p)) blob)
  end.
Definition dec_std : decoder := fun ty parts =>
  match parts with
  | [d] => if (ty =? ty_int)%N then Some (Frame.ICol (map as_z d))
           else if (ty =? ty_float)%N then Some (Frame.FCol (map val_n d))
           else if (ty =? ty_bool)%N then Some (Frame.BCol (map as_b d))
           else None
  | [d; x] => if (ty =? ty_string)%N then Some (Frame.SCol (dec_strings d x))
              else if (ty =? ty_enum)%N then Some (Frame.ECol (map val_n d) (map val_bytes x) false)
              else None
  | _ => None
  end.

(* the content of the by-name map of a frame reference (what map_read returns) *)
Definition map_of (st : store) (m : option loc) : list (bytes * col) :=
  match m with
  | Some l => match read_loc st l with VMap kv :: _ => kv | _ => [] end
  | None => []
  end.

(* A sorter script read at L0: Less and Swap of Model/Sort.v over the index as a list of row ids.
   ([run_sorter] is the same script over the index ARRAY of the heap.) *)
Fixpoint script_run (lt : nat -> nat -> bool) (sc : sscript) (s : list nat) : outcome (list nat) :=
  match sc with
  | SDone => Ok s
  | SLess i j k => do b <- Sort.less lt s i j; script_run lt (k b) s
  | SSwap i j k => do s' <- Sort.swap s i j; script_run lt k s'
  end.

(* what Sorter.Less reads for row r: the cells of the sort columns (pure reading of [cols_cell]) *)
Definition cell_val (st : store) (c : col) (r : Z) : outcome (list val) :=
  match c_parts c with
  | [] => Ok []
  | d :: rest =>
      if (row r <? s_len d)%nat
      then do v <- idx (read_loc st (s_base d)) (s_off d + row r);
           Ok (v :: flat_map (seg_of st) rest)
      else Panic
  end.
Definition cells_val (st : store) (cs : list col) (r : Z) : outcome (list (list val)) :=
  omap (fun c => cell_val st c r) cs.

(* ---------------------------------------------------------------- executable well-formedness of a frame reference *)
(* ref_ok_b st qf = true implies the premise [ref_ok] of the refinement theorems for EVERY decoder
   (Proofs/HeapRefine.v, ref_ok_b_sound): the slices lie inside their arrays, the map's keys are
   distinct, and for every name the by-name map holds exactly the LAST header column with that name,
   with pos = its position in the header slice.  Meant to be evaluated on every member of a replayed
   history (it is false e.g. for a header entry whose pos field is not its position). *)
Definition slice_eqb (a b : slice) : bool :=
  (loc_eqb (s_base a) (s_base b) && (s_off a =? s_off b)%nat && (s_len a =? s_len b)%nat && (s_cap a =? s_cap b)%nat)%bool.
Definition col_eqb (a b : col) : bool :=
  (bytes_eqb (c_name a) (c_name b) && (c_pos a =? c_pos b)%nat && (c_ty a =? c_ty b)%N
   && list_eqb slice_eqb (c_parts a) (c_parts b))%bool.
Definition in_bounds_b (st : store) (s : slice) : bool :=
  ((s_len s <=? s_cap s)%nat && (s_off s + s_cap s <=? length (read_loc st (s_base s)))%nat)%bool.
Fixpoint hdr_last (name : bytes) (hs : list col) : option (nat * col) :=
  match hs with
  | [] => None
  | h :: r => match hdr_last name r with
              | Some (i, c) => Some (S i, c)
              | None => if bytes_eqb (c_name h) name then Some (0, h) else None
              end
  end.
Fixpoint nodup_keys (ks : list bytes) : bool :=
  match ks with
  | [] => true
  | k :: r => (negb (existsb (bytes_eqb k) r) && nodup_keys r)%bool
  end.
Definition ref_ok_b (st : store) (qf : qframe) : bool :=
  let hs := hdr_of st (q_cols qf) in
  let kv := map_of st (q_map qf) in
  (in_bounds_b st (q_cols qf) && in_bounds_b st (q_idx qf)
   && forallb (fun c => forallb (in_bounds_b st) (c_parts c)) hs
   && nodup_keys (map fst kv)
   && forallb (fun e => forallb (in_bounds_b st) (c_parts (snd e))) kv
   && match q_map qf with Some l => in_dom st l | None => true end
   && forallb (fun nm => match map_get kv nm, hdr_last nm hs with
                         | None, None => true
                         | Some c, Some (p, h) => col_eqb c h && (c_pos c =? p)%nat && bytes_eqb (c_name c) nm
                         | _, _ => false
                         end) (map c_name hs ++ map fst kv))%bool.
