(* Model/Ops.v — the column-changing and projecting operations of qframe.go at L0:
   Slice, Select, Drop, Copy, setColumn, apply0/1/2, Apply, FilteredApply, WithRowNums, Equals, New, views.
   User functions are finite tables recorded by the harness (what matters for the properties is WHICH cells
   reach the function and WHERE its results go). *)
From QF Require Import Base.Prelude Gen.GenConsts Gen.GenTables Model.Frame Model.Filter.
Local Open Scope N_scope.

(* ------------------------------------------------------------------ names (internal/strings/name.go) *)

Definition has_prefix1 (s : bytes) (c : N) : bool := match s with x :: _ => x =? c | [] => false end.
Definition has_suffix1 (s : bytes) (c : N) : bool := match rev s with x :: _ => x =? c | [] => false end.
Definition is_quoted (s : bytes) : bool :=
  (2 <? length s)%nat && ((has_prefix1 s 39 && has_suffix1 s 39) || (has_prefix1 s 34 && has_suffix1 s 34)).
(* CheckName: true = legal *)
Definition check_name (s : bytes) : bool :=
  negb (Nat.eqb (length s) 0) && negb (is_quoted s) && negb (has_prefix1 s 36).

(* ------------------------------------------------------------------ Slice / Select / Drop / Copy *)

Definition slice (f : frame) (start stop : Z) : frame :=
  if ferr f then f
  else if (start <? 0)%Z then with_err f
  else if (stop <? start)%Z then with_err f
  else if (Z.of_nat (length (ix f)) <? stop)%Z then with_err f
  else with_ix f (firstn (Z.to_nat (stop - start)) (skipn (Z.to_nat start) (ix f))).

Definition select (f : frame) (names : list bytes) : frame :=
  if ferr f then f
  else if negb (forallb (contains f) names) then with_err f
  else match names with
       | [] => mkFrame [] [] false
       | _ => mkFrame (flat_map (fun n => match lookup_col f n with Some c => [(n, c)] | None => [] end) names)
                      (ix f) false
       end.

Definition drop (f : frame) (names : list bytes) : frame :=
  if ferr f then f
  else match names with
       | [] => f
       | _ => select f (filter (fun n => negb (existsb (bytes_eqb n) names)) (col_names f))
       end.

Definition set_column (f : frame) (name : bytes) (c : coldata) : frame :=
  if negb (check_name name) then with_err f
  else match lookup f name with
       | Some (pos, _) => mkFrame (set_nth (cols f) pos (name, c)) (ix f) (ferr f)
       | None => mkFrame (cols f ++ [(name, c)]) (ix f) (ferr f)
       end.

Definition copy (f : frame) (dst src : bytes) : frame :=
  if ferr f then f
  else match lookup_col f src with
       | None => with_err f
       | Some c => if bytes_eqb dst src then f else set_column f dst c
       end.

(* ------------------------------------------------------------------ Apply *)

Inductive afn :=
| F0Stream (t : ctype) (vals : list cell)             (* func() T : the results in call order *)
| F0Const (c : cell)                                  (* int, float64, bool, string pointer or string constant *)
| F0ColName (n : bytes)                               (* types.ColumnName: copy *)
| F1 (tin tout : ctype) (tbl : list (cell * cell))    (* func(T) U *)
| F2 (t : ctype) (tbl : list (cell * cell * cell))    (* func(T, T) T *)
| FBuiltin (name : bytes)                             (* built in function name *)
| FOther.

Record instr := mkInstr { ifn : afn; idst : bytes; isrc1 : bytes; isrc2 : bytes }.

Definition zero_cell (t : ctype) : cell :=
  match t with
  | TInt => CInt 0 | TFloat => CFloat 0 | TBool => CBool false | TString => CStr None | TEnum => CEnum None
  end.

Definition cell_type_ok (t : ctype) (c : cell) : bool :=
  match t, c with
  | TInt, CInt _ | TFloat, CFloat _ | TBool, CBool _ | TString, CStr _ => true
  | _, _ => false
  end.

(* build a column of type t from a list of cells (icolumn.New etc.); Panic on a cell of another type *)
Definition col_of_cells (t : ctype) (cs : list cell) : outcome coldata :=
  match t with
  | TInt => do d <- omap (fun c => match c with CInt z => Ok z | _ => Panic end) cs; Ok (ICol d)
  | TFloat => do d <- omap (fun c => match c with CFloat z => Ok z | _ => Panic end) cs; Ok (FCol d)
  | TBool => do d <- omap (fun c => match c with CBool z => Ok z | _ => Panic end) cs; Ok (BCol d)
  | TString => do d <- omap (fun c => match c with CStr z => Ok z | _ => Panic end) cs; Ok (SCol d)
  | TEnum => Panic
  end.

(* result array of the physical length: zero everywhere, position index[k] := k-th produced value.
   `for _, i := range ix { result[i] = ... }` : an index entry beyond the array panics *)
Fixpoint scatter (base : list cell) (index : list nat) (vals : list cell) : outcome (list cell) :=
  match index with
  | [] => Ok base
  | p :: index' =>
      match vals with
      | [] => Panic
      | v :: vals' =>
          if (p <? length base)%nat then scatter (set_nth base p v) index' vals' else Panic
      end
  end.

Definition cell_in_eqb (a b : cell) : bool := kval_eqb (cell_kval a) (cell_kval b).

Definition tbl1 (tbl : list (cell * cell)) (x : cell) : outcome cell :=
  match find (fun e => cell_in_eqb (fst e) x) tbl with Some e => Ok (snd e) | None => Panic end.
Definition tbl2 (tbl : list (cell * cell * cell)) (x y : cell) : outcome cell :=
  match find (fun e => cell_in_eqb (fst (fst e)) x && cell_in_eqb (snd (fst e)) y) tbl with
  | Some e => Ok (snd e) | None => Panic end.

(* built in "ToUpper": the upper casing itself is an oracle table (modelled in Model/Match.v) *)
Definition upper_table := list (bytes * bytes).
Definition upper_of (ut : upper_table) (s : bytes) : outcome bytes :=
  match assocb s ut with Some u => Ok u | None => Panic end.

Definition name_ToUpper : bytes := bs 7 0x546f5570706572.

(* scolumn.toUpper *)
Definition s_to_upper (ut : upper_table) (d : list (option bytes)) (index : list nat) : outcome coldata :=
  match d with
  | [] => Ok (SCol d)        (* len(source.pointers) == 0: the source itself *)
  | _ =>
      (* pointers[i] for i outside the index stay the zero Pointer: offset 0, length 0, not null = "" *)
      do vals <- omap (fun p => do s <- idx d p;
                                match s with
                                | None => Ok (CStr None)
                                | Some b => do u <- upper_of ut b; Ok (CStr (Some u))
                                end) index;
      do cells <- scatter (map (fun _ => CStr (Some [])) d) index vals;
      col_of_cells TString cells
  end.

(* ecolumn.toUpper: values upper cased, equal results merged, ranks remapped when something was merged *)
Definition e_to_upper (ut : upper_table) (d : list N) (values : list bytes) : outcome coldata :=
  do ups <- omap (upper_of ut) values;
  let '(newvals, old2new, merged) :=
    fold_left (fun '(nv, o2n, mg) u =>
                 match find_value nv u 0 with
                 | Some r => (nv, o2n ++ [r], true)
                 | None => (nv ++ [u], o2n ++ [N.of_nat (length nv)], mg)
                 end) ups ([], [], false) in
  if merged then
    do nd <- omap (fun r => if enum_is_null r then Ok r else idx old2new (N.to_nat r)) d;
    Ok (ECol nd newvals false)
  else Ok (ECol d newvals false).

(* Column.Apply1 *)
Definition col_apply1 (ut : upper_table) (c : coldata) (fn : afn) (index : list nat) : outcome coldata :=
  match fn with
  | F1 tin tout tbl =>
      if ctype_eqb (col_ftype c) tin && negb (ctype_eqb tout TEnum) then
        do vals <- omap (fun p => do x <- cell_at c p; tbl1 tbl x) index;
        do cells <- scatter (repeat (zero_cell tout) (col_len c)) index vals;
        col_of_cells tout cells
      else Fail
  | FBuiltin name =>
      match c with
      | SCol d => match assocb name t_s_apply with
                  | Some _ => if bytes_eqb name name_ToUpper then s_to_upper ut d index else Panic
                  | None => Fail end
      | ECol d vs _ => match assocb name t_e_apply with
                       | Some _ => if bytes_eqb name name_ToUpper then e_to_upper ut d vs else Panic
                       | None => Fail end
      | _ => Fail
      end
  | _ => Fail
  end.

(* Column.Apply2 : the result has the type of the receiver, except enum x enum -> string *)
Definition col_apply2 (c c2 : coldata) (fn : afn) (index : list nat) : outcome coldata :=
  if negb (ctype_eqb (col_type c) (col_type c2)) then Fail
  else
    match fn with
    | F2 t tbl =>
        if ctype_eqb (col_ftype c) t then
          do vals <- omap (fun p => do x <- cell_at c p; do y <- cell_at c2 p; tbl2 tbl x y) index;
          do cells <- scatter (repeat (zero_cell t) (col_len c)) index vals;
          col_of_cells t cells
        else Fail
    | _ => Fail
    end.

Definition const_col (c : cell) (n : nat) : outcome coldata :=
  match c with
  | CInt z => Ok (ICol (repeat z n))
  | CFloat b => Ok (FCol (repeat b n))
  | CBool b => Ok (BCol (repeat b n))
  | CStr s => Ok (SCol (repeat s n))
  | CEnum _ => Panic
  end.

Definition empty_name (s : bytes) : bool := Nat.eqb (length s) 0.

Definition const_type (c : cell) : option ctype :=
  match c with
  | CInt _ => Some TInt | CFloat _ => Some TFloat | CBool _ => Some TBool | CStr _ => Some TString | CEnum _ => None
  end.

Definition apply0 (f : frame) (fn : afn) (dst : bytes) : outcome frame :=
  if ferr f then Ok f
  else
    let n := phys_len f in
    match fn with
    | F0Stream t vals =>
        if ctype_eqb t TEnum then Panic else
        do cells <- scatter (repeat (zero_cell t) n) (ix f) vals;
        do c <- col_of_cells t cells; Ok (set_column f dst c)
    | F0Const c =>
        (* a constant column when the frame covers all rows of its columns; otherwise (FilteredApply, or a frame
           that was filtered/sliced before) the constant only reaches the rows of the frame, as for func() T *)
        if Nat.eqb (length (ix f)) n then do col <- const_col c n; Ok (set_column f dst col)
        else
          match const_type c with
          | None => Panic
          | Some t =>
              do cells <- scatter (repeat (zero_cell t) n) (ix f) (repeat c (length (ix f)));
              do col <- col_of_cells t cells; Ok (set_column f dst col)
          end
    | F0ColName src => Ok (copy f dst src)
    | _ => Ok (with_err f)
    end.

Definition apply1 (ut : upper_table) (f : frame) (fn : afn) (dst src : bytes) : outcome frame :=
  if ferr f then Ok f
  else match lookup_col f src with
       | None => Ok (with_err f)
       | Some c =>
           match col_apply1 ut c fn (ix f) with
           | Ok r => Ok (set_column f dst r)
           | Fail => Ok (with_err f)
           | Panic => Panic
           end
       end.

Definition apply2 (f : frame) (fn : afn) (dst src1 src2 : bytes) : outcome frame :=
  if ferr f then Ok f
  else match lookup_col f src1, lookup_col f src2 with
       | Some c1, Some c2 =>
           match col_apply2 c1 c2 fn (ix f) with
           | Ok r => Ok (set_column f dst r)
           | Fail => Ok (with_err f)
           | Panic => Panic
           end
       | _, _ => Ok (with_err f)
       end.

Definition apply_instr (ut : upper_table) (f : frame) (i : instr) : outcome frame :=
  if empty_name (isrc1 i) then apply0 f (ifn i) (idst i)
  else if empty_name (isrc2 i) then apply1 ut f (ifn i) (idst i) (isrc1 i)
  else apply2 f (ifn i) (idst i) (isrc1 i) (isrc2 i).

Definition apply (ut : upper_table) (f : frame) (is : list instr) : outcome frame :=
  ofold (apply_instr ut) is f.

(* FilteredApply: apply on the filtered index, then put the original index back *)
Definition filtered_apply (mt : matcher_table) (ut : upper_table) (f : frame) (c : clause) (is : list instr) : outcome frame :=
  do ff <- frame_filter mt f c;
  if ferr ff then Ok ff
  else
    do r <- apply ut (with_ix f (ix ff)) is;
    Ok (with_ix r (ix f)).

(* WithRowNums: the k-th call of the closure returns k *)
Definition with_row_nums (f : frame) (name : bytes) : outcome frame :=
  apply [] f [mkInstr (F0Stream TInt (map (fun k => CInt (Z.of_nat k)) (seq 0 (length (ix f))))) name [] []].

(* ------------------------------------------------------------------ Equals *)

Definition col_equals (c : coldata) (index : list nat) (o : coldata) (oindex : list nat) : outcome bool :=
  if negb (ctype_eqb (col_type c) (col_type o)) then Ok false
  else
    (fix go (a b : list nat) : outcome bool :=
       match a with
       | [] => Ok true
       | p :: a' =>
           match b with
           | [] => Panic
           | q :: b' =>
               do x <- cell_at c p; do y <- cell_at o q;
               if cell_eqb x y then go a' b' else Ok false
           end
       end) index oindex.

Definition equals (f g : frame) : outcome bool :=
  if negb (Nat.eqb (length (ix f)) (length (ix g))) then Ok false
  else if negb (Nat.eqb (length (cols f)) (length (cols g))) then Ok false
  else
    (fix go (a b : list (bytes * coldata)) : outcome bool :=
       match a, b with
       | (n, c) :: a', (m, o) :: b' =>
           if negb (bytes_eqb n m) then Ok false
           else do e <- col_equals c (ix f) o (ix g); if e then go a' b' else Ok false
       | _, _ => Ok true
       end) (cols f) (cols g).

(* ------------------------------------------------------------------ New *)

Inductive newdata :=
| DInts (d : list Z) | DFloats (d : list N) | DBools (d : list bool)
| DStrPtrs (d : list (option bytes)) | DStrings (d : list bytes)
| DConstInt (v : Z) (count : Z) | DConstFloat (v : N) (count : Z) | DConstBool (v : bool) (count : Z)
| DConstStr (v : option bytes) (count : Z)
| DOther.

(* sort.Strings: byte-wise order, by insertion *)
Fixpoint insert_sorted (s : bytes) (l : list bytes) : list bytes :=
  match l with
  | [] => [s]
  | x :: rest => match bytes_cmp s x with Gt => x :: insert_sorted s rest | _ => s :: l end
  end.
Definition sort_names (l : list bytes) : list bytes := fold_right insert_sorted [] l.

(* valToEnum[v] = enumVal(i) for i, v := range values : for a value listed twice the LAST position wins *)
Definition find_value_last (values : list bytes) (s : bytes) : option N :=
  fold_left (fun acc iv => if bytes_eqb (snd iv) s then Some (fst iv) else acc)
            (combine (map N.of_nat (seq 0 (length values))) values) None.

(* one iteration of ecolumn.New's loop: AppendNil / AppendString on the factory state (values, ranks) *)
Definition enum_step (strict : bool) (st : list bytes * list N) (s : option bytes) : outcome (list bytes * list N) :=
  let '(vals, acc) := st in
  match s with
  | None => Ok (vals, acc ++ [c_nullValue])
  | Some b =>
      match find_value_last vals b with
      | Some rk => Ok (vals, acc ++ [rk])
      | None =>
          if strict then Fail
          else if (N.to_nat c_maxCardinality <=? length vals)%nat then Fail
          else Ok (vals ++ [b], acc ++ [N.of_nat (length vals)])
      end
  end.

(* NewFactory rejects a declaration that lists a value twice *)
Fixpoint nodup_bytes (l : list bytes) : bool :=
  match l with
  | [] => true
  | x :: t => negb (existsb (bytes_eqb x) t) && nodup_bytes t
  end.

(* enum factory (ecolumn.New): ranks in order of first occurrence unless values are declared *)
Definition enum_new (data : list (option bytes)) (values : list bytes) : outcome coldata :=
  if (N.to_nat c_maxCardinality <? length values)%nat then Fail
  else if negb (nodup_bytes values) then Fail
  else
    let strict := negb (Nat.eqb (length values) 0) in
    do r <- ofold (enum_step strict) data (values, []);
    Ok (ECol (snd r) (fst r) strict).

(* ecolumn.NewConst: the value is resolved once (even when count = 0), then repeated *)
Definition enum_new_const (v : option bytes) (n : nat) (values : list bytes) : outcome coldata :=
  if (N.to_nat c_maxCardinality <? length values)%nat then Fail
  else if negb (nodup_bytes values) then Fail
  else
    let strict := negb (Nat.eqb (length values) 0) in
    match v with
    | None => Ok (ECol (repeat c_nullValue n) values strict)
    | Some b =>
        match find_value_last values b with
        | Some r => Ok (ECol (repeat r n) values strict)
        | None =>
            if strict then Fail
            else if (N.to_nat c_maxCardinality <=? length values)%nat then Fail
            else Ok (ECol (repeat (N.of_nat (length values)) n) (values ++ [b]) strict)
        end
    end.

Definition create_column (d : newdata) (enum : option (list bytes)) : outcome coldata :=
  let neg c := (c <? 0)%Z in
  match d with
  | DConstInt _ c | DConstFloat _ c | DConstBool _ c | DConstStr _ c => if neg c then Fail else
      match d with
      | DConstInt v c => Ok (ICol (repeat v (Z.to_nat c)))
      | DConstFloat v c => Ok (FCol (repeat v (Z.to_nat c)))
      | DConstBool v c => Ok (BCol (repeat v (Z.to_nat c)))
      | DConstStr v c =>
          match enum with
          | Some vals => enum_new_const v (Z.to_nat c) vals
          | None => Ok (SCol (repeat v (Z.to_nat c)))
          end
      | _ => Panic
      end
  | DInts x => Ok (ICol x)
  | DFloats x => Ok (FCol x)
  | DBools x => Ok (BCol x)
  | DStrPtrs x => match enum with Some vals => enum_new x vals | None => Ok (SCol x) end
  | DStrings x => match enum with Some vals => enum_new (map Some x) vals | None => Ok (SCol (map Some x)) end
  | DOther => Fail
  end.

Definition is_string_data (d : newdata) : bool :=
  match d with DStrPtrs _ | DStrings _ | DConstStr _ _ => true | _ => false end.

(* New(data, ColumnOrder(order), Enums(enums)); the data map has unique keys *)
Definition new_frame (data : list (bytes * newdata)) (order : list bytes) (enums : list (bytes * list bytes)) : outcome frame :=
  let errf := mkFrame [] [] true in
  if negb (forallb (fun kv => check_name (fst kv)) data) then Ok errf
  else
    let order' := match order with [] => sort_names (map fst data) | _ => order end in
    if negb (Nat.eqb (length order') (length data)) then Ok errf
    else if negb (forallb (fun n => match assocb n data with Some _ => true | None => false end) order') then Ok errf
    else if negb (nodup_bytes order') then Ok errf
    else
      let step (st : list (bytes * coldata) * nat * list bytes) (n : bytes)
        : outcome (list (bytes * coldata) * nat * list bytes) :=
        let '(acc, first, used) := st in
        match assocb n data with
        | None => Panic
        | Some d =>
            (* config.EnumColumns[name] is deleted once used: a name repeated in the order finds it gone *)
            let en := if is_string_data d && negb (existsb (bytes_eqb n) used) then assocb n enums else None in
            do c <- create_column d en;
            let used' := match en with Some _ => n :: used | None => used end in
            let first' := match acc with [] => col_len c | _ => first end in
            if Nat.eqb first' (col_len c) then Ok (acc ++ [(n, c)], first', used') else Fail
        end in
      match ofold step order' ([], 0%nat, []) with
      | Ok (cs, len, used) =>
          if negb (forallb (fun kv => existsb (bytes_eqb (fst kv)) used) enums) then Ok errf
          else Ok (mkFrame cs (seq 0 len) false)
      | Fail => Ok errf
      | Panic => Panic
      end.
