(* Model/Grouper.v — the open-addressing hash table of internal/grouper/grouper.go
   (tableEntry, table, grow, hash, insertEntry, newTable, equals, calculateInitialSizeExp, groupIndex,
   GroupBy, Distinct) used by QFrame.GroupBy and QFrame.Distinct, the per-type Hash/Compare methods of
   internal/{i,f,b,s,e}column/column.go, and the specification predicates / boolean checkers of C04, C05.
   Executable definitions only; the proofs are in Proofs/Grouper*.v.

   The table never looks inside a row id: it only calls equals(comparables, i, j) and hash(i).  The model
   is therefore polymorphic in the type A of row ids; [group_ids]/[distinct_ids] are the instances at
   A = nat that the rest of the development uses, the correspondence engine runs the instance at A = N.

   Trusted reading of the Go code (not provable inside Coq):
   * table.loadFactor is a float64.  It is only ever assigned float64(groupCount)/float64(len(entries))
     and loadFactor/growthFactor, where len(entries) is a power of two <= 2^32 and groupCount < 2^32.
     Both operations are then exact in binary64 (division of an integer < 2^53 by a power of two, no
     underflow), and so is the comparison with 0.5.  The model keeps the load factor as the exact
     fraction lf_num/lf_den over N and compares by cross-multiplication.
   * integer.Pow2(e) = int(math.Pow(2, e)) is exactly 2^e for the exponents that occur (3..62).
   * uint32/uint64 arithmetic is modelled by explicit [mod 2^32]; row ids are uint32 in Go. *)
From QF Require Import Base.Prelude Gen.GenConsts.
Local Open Scope N_scope.

Definition u32 (x : N) : N := x mod 2^32.

(* type tableEntry struct { ix index.Int; hash uint32; firstPos uint32; occupied bool }
   An unoccupied slot is [None].  ix = [] models the nil slice (ix is never an empty non-nil slice). *)
Record entry (A : Type) := mkEntry { ehash : N; first : A; ix : list A }.
Arguments mkEntry {A}.
Arguments ehash {A}.
Arguments first {A}.
Arguments ix {A}.

(* type table struct { entries; comparables; stats; loadFactor; groupCount; collectIx }
   comparables/collectIx are parameters of the functions below; stats are the three counters. *)
Record table (A : Type) := mkTable {
  entries : list (option (entry A));
  lf_num : N; lf_den : N;            (* loadFactor = lf_num / lf_den, exactly *)
  group_count : N;
  reloc_count : N; reloc_coll : N; insert_coll : N   (* stats.RelocationCount/RelocationCollisions/InsertCollisions *)
}.
Arguments mkTable {A}.
Arguments entries {A}.
Arguments lf_num {A}.
Arguments lf_den {A}.
Arguments group_count {A}.
Arguments reloc_count {A}.
Arguments reloc_coll {A}.
Arguments insert_coll {A}.

Section Grouper.
Context {A : Type}.
Variable eqb : A -> A -> bool.   (* eqb i j  models  equals(t.comparables, i, j) *)
Variable hash : A -> N.          (* hash i   models  the uint64 fold of c.Hash(i, .) before the uint32 cast *)

(* The two probing loops of the Go code

     grow:        for pos := e.hash & bitMask; ; pos = (pos + 1) & bitMask {
                     if !newEntries[pos].occupied { newEntries[pos] = e; break }
                     t.stats.RelocationCollisions++ }
     insertEntry: for pos := startPos; dstEntry == nil; pos = (pos + 1) & bitMask {
                     e := &t.entries[pos]
                     if !e.occupied || e.hash == hashSum && equals(t.comparables, i, e.firstPos) { dstEntry = e }
                     else { t.stats.InsertCollisions++ } }

   are the same loop up to the test made on an occupied slot ([stop]): never for grow, hash and key
   equality for insertEntry.  Both are unbounded in Go; the model gives them [fuel] = table length and
   answers Panic when it runs out (Proofs: never happens).  Returns the slot found and the collision
   counter.  pos + 1 cannot overflow (pos < len <= 2^32, uint64 in insertEntry; in grow it is a uint32
   but the mask is < 2^32, so masking the wrapped and the unwrapped sum gives the same result). *)
Fixpoint probe (stop : entry A -> bool) (fuel : nat) (es : list (option (entry A)))
         (mask pos coll : N) : outcome (nat * N) :=
  match fuel with
  | O => Panic
  | S f =>
      do s <- idx es (N.to_nat pos);
      match s with
      | None => Ok (N.to_nat pos, coll)
      | Some e =>
          if stop e then Ok (N.to_nat pos, coll)
          else probe stop f es mask (N.land (pos + 1) mask) (coll + 1)
      end
  end.

(* The zero tableEntry of an unoccupied slot has hash 0; grow's range loop does not skip it: it probes
   from slot 0 and copies the zero entry over an unoccupied slot (no visible change but the counter). *)
Definition slot_hash (s : option (entry A)) : N :=
  match s with Some e => ehash e | None => 0 end.

Definition grow_step (fuel : nat) (mask : N) (st : outcome (list (option (entry A)) * N))
           (s : option (entry A)) : outcome (list (option (entry A)) * N) :=
  do nc <- st;
  do pc <- probe (fun _ => false) fuel (fst nc) mask (N.land (slot_hash s) mask) (snd nc);
  Ok (set_nth (fst nc) (fst pc) s, snd pc).

(* func (t *table) grow()
     newLen := uint32(growthFactor * len(t.entries)); newEntries := make([]tableEntry, newLen)
     bitMask := newLen - 1                                   (uint32 arithmetic)
     for _, e := range t.entries { ...probe... }
     t.stats.RelocationCount++; t.entries = newEntries; t.loadFactor = t.loadFactor / growthFactor *)
Definition grow (t : table A) : outcome (table A) :=
  let new_len := u32 (c_growthFactor * N.of_nat (length (entries t))) in
  let mask := u32 (new_len + (2^32 - 1)) in
  do nc <- fold_left (grow_step (N.to_nat new_len) mask) (entries t)
                     (Ok (repeat None (N.to_nat new_len), reloc_coll t));
  Ok (mkTable (fst nc) (lf_num t) (lf_den t * c_growthFactor) (group_count t)
              (reloc_count t + 1) (snd nc) (insert_coll t)).

(* the members of a group as GroupBy reports them: index.Int{e.firstPos} when e.ix == nil, else e.ix *)
Definition members (e : entry A) : list A :=
  match ix e with [] => [first e] | _ :: _ => ix e end.

(* func (t *table) insertEntry(i uint32) *)
Definition insert_entry (collect : bool) (t0 : table A) (i : A) : outcome (table A) :=
  (* if t.loadFactor > maxLoadFactor { t.grow() } *)
  do t <- (if c_maxLoadFactor_num * lf_den t0 <? lf_num t0 * c_maxLoadFactor_den then grow t0 else Ok t0);
  let h := u32 (hash i) in                       (* hashSum := t.hash(i)  : uint32(hashVal) *)
  let len := length (entries t) in
  let mask := N.pred (N.of_nat len) in           (* bitMask := uint64(len(t.entries) - 1) ; len >= 1 *)
  (* e.hash == hashSum && equals(t.comparables, i, e.firstPos), written with [if] because && is strict
     under vm_compute *)
  do pc <- probe (fun e => if ehash e =? h then eqb i (first e) else false)
                 len (entries t) mask (N.land h mask) (insert_coll t);
  let pos := fst pc in
  do s <- idx (entries t) pos;
  match s with
  | None =>
      (* Eden entry: hash, firstPos, occupied; groupCount++; loadFactor = groupCount / len *)
      let gc := u32 (group_count t + 1) in
      Ok (mkTable (set_nth (entries t) pos (Some (mkEntry h i []))) gc (N.of_nat len) gc
                  (reloc_count t) (reloc_coll t) (snd pc))
  | Some e =>
      if collect then
        (* if dstEntry.ix == nil { ix = {firstPos, i} } else { ix = append(ix, i) } *)
        let ix' := match ix e with [] => [first e; i] | _ :: _ => ix e ++ [i] end in
        Ok (mkTable (set_nth (entries t) pos (Some (mkEntry (ehash e) (first e) ix')))
                    (lf_num t) (lf_den t) (group_count t) (reloc_count t) (reloc_coll t) (snd pc))
      else
        Ok (mkTable (entries t) (lf_num t) (lf_den t) (group_count t)
                    (reloc_count t) (reloc_coll t) (snd pc))
  end.

(* func calculateInitialSizeExp(ixLen int) int { fitSize := uint64(ixLen) / 4; return Max(bits.Len64(fitSize), 3) } *)
Definition calculate_initial_size_exp (n : N) : N :=
  N.max (N.size (n / c_grouper_fit_div)) c_grouper_min_exp.

(* func newTable(sizeExp, ...) : entries = make([]tableEntry, Pow2(sizeExp)); loadFactor = 0; groupCount = 0 *)
Definition new_table (e : N) : table A :=
  mkTable (repeat None (N.to_nat (2 ^ e))) 0 1 0 0 0 0.

Fixpoint insert_all (collect : bool) (t : table A) (ids : list A) : outcome (table A) :=
  match ids with
  | [] => Ok t
  | i :: r => do t' <- insert_entry collect t i; insert_all collect t' r
  end.

(* func groupIndex(ix, comparables, collectIx) *)
Definition group_index (collect : bool) (ids : list A) : outcome (table A) :=
  insert_all collect (new_table (calculate_initial_size_exp (N.of_nat (length ids)))) ids.

(* the occupied entries in slot order *)
Definition occ (es : list (option (entry A))) : list (entry A) :=
  flat_map (fun s => match s with Some e => [e] | None => [] end) es.

(* func GroupBy(ix, comparables) ([]index.Int, GroupStats) *)
Definition group_ids_gen (ids : list A) : outcome (list (list A)) :=
  do t <- group_index true ids; Ok (map members (occ (entries t))).

(* func Distinct(ix, comparables) index.Int *)
Definition distinct_ids_gen (ids : list A) : outcome (list A) :=
  do t <- group_index false ids; Ok (map first (occ (entries t))).

(* GroupStats of GroupBy: (RelocationCount, RelocationCollisions, InsertCollisions, GroupCount) and the
   load factor as the fraction (num, den). *)
Definition group_stats_gen (collect : bool) (ids : list A) : outcome (N * N * N * N * (N * N)) :=
  do t <- group_index collect ids;
  Ok (reloc_count t, reloc_coll t, insert_coll t, group_count t, (lf_num t, lf_den t)).

End Grouper.

(* The names used by the rest of the development (row ids as positions). *)
Definition group_ids (eqb : nat -> nat -> bool) (hash : nat -> N) (ids : list nat)
  : outcome (list (list nat)) := group_ids_gen eqb hash ids.
Definition distinct_ids (eqb : nat -> nat -> bool) (hash : nat -> N) (ids : list nat)
  : outcome (list nat) := distinct_ids_gen eqb hash ids.

(* ------------------------------------------------------------------------------------------------
   Specification predicates of C04 / C05 (over the same parameters) *)

Inductive subseq {A : Type} : list A -> list A -> Prop :=
| subseq_nil : subseq [] []
| subseq_skip x l1 l2 : subseq l1 l2 -> subseq l1 (x :: l2)
| subseq_take x l1 l2 : subseq l1 l2 -> subseq (x :: l1) (x :: l2).

Definition same_group {A : Type} (gs : list (list A)) (i j : A) : Prop :=
  exists g, In g gs /\ In i g /\ In j g.

(* eqb is a partial equivalence on the ids (symmetric and transitive; a null-keyed row under
   Null(false) is not related to itself) *)
Definition per_on {A : Type} (eqb : A -> A -> bool) (ids : list A) : Prop :=
  (forall a b, In a ids -> In b ids -> eqb a b = true -> eqb b a = true) /\
  (forall a b c, In a ids -> In b ids -> In c ids -> eqb a b = true -> eqb b c = true -> eqb a c = true).

Definition hash_respects {A : Type} (eqb : A -> A -> bool) (hash : A -> N) (ids : list A) : Prop :=
  forall a b, In a ids -> In b ids -> eqb a b = true -> hash a = hash b.

Definition partition_ok {A : Type} (eqb : A -> A -> bool) (ids : list A) (gs : list (list A)) : Prop :=
  Permutation (concat gs) ids /\
  (forall g, In g gs -> g <> [] /\ subseq g ids) /\
  (forall i j, In i ids -> In j ids -> (same_group gs i j <-> i = j \/ eqb i j = true)).

Definition distinct_ok {A : Type} (eqb : A -> A -> bool) (ids : list A) (d : list A) : Prop :=
  NoDup d /\ incl d ids /\
  (forall i j, In i d -> In j d -> i <> j -> eqb i j = false) /\
  (forall i, In i ids -> In i d \/ exists j, In j d /\ eqb i j = true).

(* ------------------------------------------------------------------------------------------------
   Boolean checkers (the property oracle applied to what the implementation returned).
   [aeq] decides equality of row ids. *)
Section Checkers.
Context {A : Type}.
Variable aeq : A -> A -> bool.
Variable eqb : A -> A -> bool.

(* remove x from the front of the first group that starts with x *)
Fixpoint pop_head (x : A) (gs : list (list A)) : option (list (list A)) :=
  match gs with
  | [] => None
  | [] :: rest => option_map (cons []) (pop_head x rest)
  | (y :: g) :: rest =>
      if aeq x y then Some (g :: rest) else option_map (cons (y :: g)) (pop_head x rest)
  end.

(* ids is an interleaving of the groups: walking ids, every id is the next unread element of a group *)
Fixpoint unmerge (ids : list A) (gs : list (list A)) : bool :=
  match ids with
  | [] => forallb (fun g => match g with [] => true | _ => false end) gs
  | x :: ids' => match pop_head x gs with None => false | Some gs' => unmerge ids' gs' end
  end.

(* non-empty, and every later member is equal (in the sense of equals(i, firstPos)) to the first *)
Definition group_rel_b (g : list A) : bool :=
  match g with [] => false | x :: r => forallb (fun y => eqb y x) r end.

Fixpoint apart_b (hs : list A) : bool :=
  match hs with
  | [] => true
  | h :: r => forallb (fun k => negb (eqb h k)) r && apart_b r
  end.

Definition heads (gs : list (list A)) : list A :=
  flat_map (fun g => match g with x :: _ => [x] | [] => [] end) gs.

Definition partition_b (ids : list A) (gs : list (list A)) : bool :=
  unmerge ids gs && forallb group_rel_b gs && apart_b (heads gs).

(* (written with [if] instead of ||/&& : boolean operators are strict under vm_compute) *)
Fixpoint mem_b (x : A) (l : list A) : bool :=
  match l with [] => false | y :: r => if aeq x y then true else mem_b x r end.

Fixpoint related_b (i : A) (l : list A) : bool :=
  match l with [] => false | j :: r => if eqb i j then true else related_b i r end.

Fixpoint nodup_b (l : list A) : bool :=
  match l with [] => true | x :: r => negb (mem_b x r) && nodup_b r end.

Definition distinct_b (ids : list A) (d : list A) : bool :=
  nodup_b d && forallb (fun x => mem_b x ids) d && apart_b d &&
  forallb (fun i => if mem_b i d then true else related_b i d) ids.

End Checkers.

(* ------------------------------------------------------------------------------------------------
   Per-type Compare / Hash of the key columns (internal/*column/column.go), memhash abstract.

   A key cell:  int (the int64 value), float (the 64 bit pattern), bool, string (None = null),
   enum (the rank byte; 255 = null). *)
Inductive cell :=
| CInt (z : Z)
| CFloat (bits : N)
| CBool (b : bool)
| CStr (s : option bytes)
| CEnum (rank : N).

(* the [n] little-endian bytes of v: the Go code reinterprets the address of the 8-byte value as a
   byte array (unsafe.Pointer cast), which on a little-endian machine reads these bytes *)
Fixpoint le_bytes (n : nat) (v : N) : bytes :=
  match n with O => [] | S n' => N.land v 255 :: le_bytes n' (N.shiftr v 8) end.

(* float64 bit patterns *)
Definition f_exp (b : N) : N := N.land (N.shiftr b 52) 2047.
Definition f_frac (b : N) : N := N.land b 0xFFFFFFFFFFFFF.          (* 2^52 - 1 *)
Definition f_sign (b : N) : bool := N.testbit b 63.
Definition f_isnan (b : N) : bool := (f_exp b =? 2047) && negb (f_frac b =? 0).
(* IEEE order of two non-NaN doubles = order of the sign-magnitude integers (both zeros are 0) *)
Definition f_key (b : N) : Z :=
  let m := Z.of_N (N.land b 0x7FFFFFFFFFFFFFFF) in if f_sign b then (- m)%Z else m.   (* 2^63 - 1 *)

(* TODO-GEN: math.NaN() = Float64frombits(uvnan), uvnan = 0x7FF8000000000001 (GOROOT/src/math/bits.go);
   c_enum_null is c_nullValue of GenConsts. *)
Definition c_uvnan : N := 0x7FF8000000000001.

(* Compare(i, j) == column.Equal, with equalNullValue = Equal iff [nulleq] (groupby.Null(true)).
     icolumn: !(x < y) && !(x > y)
     fcolumn: !(x < y) && !(x > y) && (if either is NaN: both NaN && equalNull)
     bcolumn: x == y
     scolumn: if either null: both null && equalNull; else bytes.Compare == 0
     ecolumn: if either null: both null && equalNull; else x == y *)
Definition cell_equal (nulleq : bool) (a b : cell) : bool :=
  match a, b with
  | CInt x, CInt y => negb (x <? y)%Z && negb (y <? x)%Z
  | CFloat x, CFloat y =>
      if f_isnan x || f_isnan y then f_isnan x && f_isnan y && nulleq
      else negb (f_key x <? f_key y)%Z && negb (f_key y <? f_key x)%Z
  | CBool x, CBool y => Bool.eqb x y
  | CStr None, CStr None => nulleq
  | CStr (Some x), CStr (Some y) => match bytes_cmp x y with Eq => true | _ => false end
  | CEnum x, CEnum y =>
      if (x =? c_nullValue) || (y =? c_nullValue) then (x =? c_nullValue) && (y =? c_nullValue) && nulleq
      else negb (x <? y) && negb (y <? x)
  | _, _ => false
  end.

(* the bytes handed to hash.HashBytes by Hash(i, seed); None = "return rand.Uint64()" *)
Definition hash_input (nulleq : bool) (c : cell) : option bytes :=
  match c with
  | CInt z => Some (le_bytes 8 (Z.to_N (z mod two64)))
  | CFloat b =>
      if f_isnan b then (if nulleq then Some (le_bytes 8 c_uvnan) else None)
      else if (f_key b =? 0)%Z then Some (le_bytes 8 0)      (* f == 0  =>  f = 0 *)
      else Some (le_bytes 8 b)
  | CBool b => Some [if b then 1 else 0]
  | CStr None => if nulleq then Some [0] else None
  | CStr (Some s) => Some s
  | CEnum r => Some [r]
  end.

(* equals(comparables, i, j) over the key cells of two rows (returns at the first column that differs) *)
Fixpoint key_equal (nulleq : bool) (a b : list cell) : bool :=
  match a, b with
  | [], [] => true
  | x :: a', y :: b' => if cell_equal nulleq x y then key_equal nulleq a' b' else false
  | _, _ => false
  end.

(* t.hash(i) before the uint32 cast: hashVal = c.Hash(i, hashVal) over the comparables, starting from 0.
   [memhash] is an arbitrary function of (bytes, seed); [rnd col] is the value rand.Uint64() returned for
   this row in key column number [col] (an arbitrary value per call). *)
Fixpoint key_hash_from (memhash : bytes -> N -> N) (nulleq : bool) (rnd : nat -> N)
         (col : nat) (seed : N) (cs : list cell) : N :=
  match cs with
  | [] => seed
  | c :: r =>
      let v := match hash_input nulleq c with Some b => memhash b seed | None => rnd col end in
      key_hash_from memhash nulleq rnd (S col) v r
  end.
Definition key_hash (memhash : bytes -> N -> N) (nulleq : bool) (rnd : nat -> N) (cs : list cell) : N :=
  key_hash_from memhash nulleq rnd 0%nat 0 cs.
