(* Model/FilterSpec.v — the row-wise reading of property C02, independent of masks, kernels,
   batching and index merging: for one row (physical position p) and a clause, does the row satisfy it?
     Some (Some b)  the statement determines the answer b
     Some None      the statement leaves it open (derived enums vs. unknown constants, negative bit masks)
     None           the clause is invalid for this frame: Filter must report an error *)
From QF Require Import Base.Prelude Gen.GenConsts Model.Frame Model.Filter.
Local Open Scope N_scope.

Inductive cop := OLt | OLe | OGt | OGe | OEq | ONe.

Definition cop_of (s : bytes) : option cop :=
  if bytes_eqb s (bs 1 0x3c) then Some OLt
  else if bytes_eqb s (bs 2 0x3c3d) then Some OLe
  else if bytes_eqb s (bs 1 0x3e) then Some OGt
  else if bytes_eqb s (bs 2 0x3e3d) then Some OGe
  else if bytes_eqb s (bs 1 0x3d) then Some OEq
  else if bytes_eqb s (bs 2 0x213d) then Some ONe
  else None.

Definition ord_sat (op : cop) (c : comparison) : bool :=
  match op, c with
  | OLt, Lt | OLe, Lt | OLe, Eq | OGt, Gt | OGe, Gt | OGe, Eq | OEq, Eq | ONe, Lt | ONe, Gt => true
  | _, _ => false
  end.

Definition is_ne_op (op : cop) : bool := match op with ONe => true | _ => false end.
Definition is_eqne (op : cop) : bool := match op with OEq | ONe => true | _ => false end.

(* null / NaN makes every comparison false except != which is true *)
Definition null_answer (op : cop) : bool := is_ne_op op.

Definition f_compare (a b : N) : comparison := Z.compare (f_key a) (f_key b).

Definition cmp_int (op : cop) (a b : Z) : bool := ord_sat op (Z.compare a b).
Definition cmp_float (op : cop) (a b : N) : bool :=
  if f_isnan a || f_isnan b then null_answer op else ord_sat op (f_compare a b).
Definition cmp_str (op : cop) (a b : option bytes) : bool :=
  match a, b with
  | Some x, Some y => ord_sat op (bytes_cmp x y)
  | _, _ => null_answer op
  end.
Definition cmp_rank (op : cop) (a b : option N) : bool :=
  match a, b with
  | Some x, Some y => ord_sat op (N.compare x y)
  | _, _ => null_answer op
  end.

Definition name_isnull : bytes := bs 6 0x69736e756c6c.
Definition name_isnotnull : bytes := bs 9 0x69736e6f746e756c6c.
Definition name_in : bytes := bs 2 0x696e.
Definition name_any_bits : bytes := bs 8 0x616e795f62697473.
Definition name_all_bits : bytes := bs 8 0x616c6c5f62697473.

Definition det (b : bool) : option (option bool) := Some (Some b).
Definition open_ : option (option bool) := Some None.
Definition invalid : option (option bool) := None.

Definition null_test (cmp : bytes) (isnull : bool) : option (option bool) :=
  if bytes_eqb cmp name_isnull then det isnull
  else if bytes_eqb cmp name_isnotnull then det (negb isnull)
  else invalid.

Definition rank_of (values : list bytes) (s : option bytes) : option N :=
  match s with Some b => find_value values b 0 | None => None end.

Definition like_sat (mt : matcher_table) (cmp : bytes) (pat : bytes) (s : option bytes) : option (option bool) :=
  match is_like cmp with
  | None => invalid
  | Some cs =>
      match find_matcher mt pat cs with
      | Some (Some m) => det (match s with Some b => m b | None => false end)   (* nulls never match *)
      | Some None => invalid                                                     (* the pattern does not compile *)
      | None => open_
      end
  end.

(* the built in comparators, by column type of the filtered column *)
Definition builtin_sat (mt : matcher_table) (f : frame) (c : coldata) (cmp : bytes) (a : farg) (p : nat)
  : outcome (option (option bool)) :=
  do x <- cell_at c p;
  match c, x with
  | ICol _, CInt v =>
      match a with
      | AInt _ | AFloat _ _ =>
          let k := match a with AInt z => z | AFloat _ t => t | _ => 0%Z end in
          Ok (match cop_of cmp with
              | Some op => det (cmp_int op v k)
              | None =>
                  if bytes_eqb cmp name_any_bits then (if (k <? 0)%Z then open_ else det (negb (Z.land v k =? 0)%Z))
                  else if bytes_eqb cmp name_all_bits then det (Z.land v k =? k)%Z
                  else invalid
              end)
      | AInts _ | AFloats _ | AIfaces _ =>
          Ok (match int_set a with
              | Some s => if bytes_eqb cmp name_in then det (existsb (Z.eqb v) s) else invalid
              | None => invalid
              end)
      | AColName n =>
          match lookup_col f n with
          | Some (ICol d2) => do w <- idx d2 p; Ok (match cop_of cmp with Some op => det (cmp_int op v w) | None => invalid end)
          | Some (FCol d2) => do w <- idx d2 p; Ok (match cop_of cmp with Some op => det (cmp_float op (i2f v) w) | None => invalid end)
          | _ => Ok invalid
          end
      | ANil => Ok (null_test cmp false)
      | _ => Ok invalid
      end
  | FCol _, CFloat v =>
      match a with
      | AFloat k _ =>
          Ok (if f_isnan k then invalid
              else match cop_of cmp with Some op => det (cmp_float op v k) | None => invalid end)
      | AColName n =>
          match lookup_col f n with
          | Some (FCol d2) => do w <- idx d2 p; Ok (match cop_of cmp with Some op => det (cmp_float op v w) | None => invalid end)
          | Some (ICol d2) => do w <- idx d2 p; Ok (match cop_of cmp with Some op => det (cmp_float op v (i2f w)) | None => invalid end)
          | _ => Ok invalid
          end
      | ANil => Ok (null_test cmp (f_isnan v))
      | _ => Ok invalid
      end
  | BCol _, CBool v =>
      match a with
      | ABool k =>
          Ok (match cop_of cmp with
              | Some OEq => det (Bool.eqb v k) | Some ONe => det (negb (Bool.eqb v k)) | _ => invalid end)
      | AColName n =>
          match lookup_col f n with
          | Some (BCol d2) =>
              do w <- idx d2 p;
              Ok (match cop_of cmp with
                  | Some OEq => det (Bool.eqb v w) | Some ONe => det (negb (Bool.eqb v w)) | _ => invalid end)
          | _ => Ok invalid
          end
      | _ => Ok invalid
      end
  | SCol _, CStr v =>
      match norm_strs a with
      | AStr k =>
          Ok (match cop_of cmp with
              | Some op => det (cmp_str op v (Some k))
              | None => like_sat mt cmp k v
              end)
      | AStrs l =>
          Ok (if bytes_eqb cmp name_in
              then det (match v with Some s => existsb (bytes_eqb s) l | None => false end) else invalid)
      | AColName n =>
          match lookup_col f n with
          | Some (SCol d2) => do w <- idx d2 p; Ok (match cop_of cmp with Some op => det (cmp_str op v w) | None => invalid end)
          | _ => Ok invalid
          end
      | ANil => Ok (null_test cmp (match v with None => true | Some _ => false end))
      | _ => Ok invalid
      end
  | ECol d values strict, CEnum v =>
      match norm_strs a with
      | AStr k =>
          Ok (match cop_of cmp with
              | Some op =>
                  match find_value values k 0 with
                  | Some r => det (cmp_rank op (rank_of values v) (Some r))
                  | None => if strict then invalid
                            else if is_eqne op then det (cmp_str op v (Some k)) else open_
                  end
              | None => like_sat mt cmp k v
              end)
      | AStrs l =>
          Ok (if bytes_eqb cmp name_in
              then det (match v with Some s => existsb (bytes_eqb s) l | None => false end) else invalid)
      | AColName n =>
          match lookup_col f n with
          | Some (ECol d2 v2 _) =>
              do w <- cell_at (ECol d2 v2 false) p;
              Ok (if equal_types values (length d) v2 (length d2)
                  then match cop_of cmp, w with
                       | Some op, CEnum ws => det (cmp_rank op (rank_of values v) (rank_of values ws))
                       | _, _ => invalid
                       end
                  else invalid)
          | _ => Ok invalid
          end
      | ANil => Ok (null_test cmp (match v with None => true | Some _ => false end))
      | _ => Ok invalid
      end
  | _, _ => Panic
  end.

Definition cell_key_eqb (a b : cell) : bool := kval_eqb (cell_kval a) (cell_kval b).

(* one leaf on one row *)
Definition leaf_sat (mt : matcher_table) (f : frame) (l : leaf) (p : nat) : outcome (option (option bool)) :=
  match lookup_col f (lcol l) with
  | None => Ok invalid
  | Some c =>
      do r <-
         match lcmp l with
         | CmpName s =>
             match larg l with
             | AColName n => match lookup_col f n with None => Ok invalid | Some _ => builtin_sat mt f c s (larg l) p end
             | _ => builtin_sat mt f c s (larg l) p
             end
         | CmpFn1 t tbl =>
             (* the predicate decides by its return value *)
             match larg l with
             | AColName n =>
                 (* an argument column must exist and (int/float) may change the type the predicate sees *)
                 match lookup_col f n with
                 | None => Ok invalid
                 | Some c2 =>
                     let c' := match c, c2 with ICol d, FCol _ => FCol (float_slice d) | _, _ => c end in
                     if fn_type_ok c' t then
                       do x <- cell_at c' p;
                       Ok (match find (fun e => cell_key_eqb (fst e) x) tbl with Some e => det (snd e) | None => open_ end)
                     else Ok invalid
                 end
             | _ =>
                 if fn_type_ok c t then
                   do x <- cell_at c p;
                   Ok (match find (fun e => cell_key_eqb (fst e) x) tbl with Some e => det (snd e) | None => open_ end)
                 else Ok invalid
             end
         | CmpFn2 t tbl =>
             match larg l with
             | AColName n =>
                 match lookup_col f n with
                 | None => Ok invalid
                 | Some c2 =>
                     let '(c', c2') := match c, c2 with
                                       | ICol d, FCol _ => (FCol (float_slice d), c2)
                                       | FCol _, ICol d2 => (c, FCol (float_slice d2))
                                       | _, _ => (c, c2)
                                       end in
                     if fn_type_ok c' t && ctype_eqb (col_type c') (col_type c2') then
                       do x <- cell_at c' p; do y <- cell_at c2' p;
                       Ok (match find (fun e => cell_key_eqb (fst (fst e)) x && cell_key_eqb (snd (fst e)) y) tbl with
                           | Some e => det (snd e) | None => open_ end)
                     else Ok invalid
                 end
             | _ => Ok invalid
             end
         | CmpOther => Ok invalid
         end;
      (* Filter.Inverse = the logical complement *)
      Ok (match r with
          | Some (Some b) => Some (Some (xorb b (linv l)))
          | other => other
          end)
  end.

Definition and3 (a b : option (option bool)) : option (option bool) :=
  match a, b with
  | None, _ | _, None => None
  | Some (Some false), _ | _, Some (Some false) => Some (Some false)
  | Some (Some true), Some (Some true) => Some (Some true)
  | _, _ => Some None
  end.
Definition or3 (a b : option (option bool)) : option (option bool) :=
  match a, b with
  | None, _ | _, None => None
  | Some (Some true), _ | _, Some (Some true) => Some (Some true)
  | Some (Some false), Some (Some false) => Some (Some false)
  | _, _ => Some None
  end.
Definition not3 (a : option (option bool)) : option (option bool) :=
  match a with Some (Some b) => Some (Some (negb b)) | other => other end.

(* And = all, Or = any, Not = complement, Null = every row; empty And/Or are invalid *)
Fixpoint clause_sat (mt : matcher_table) (f : frame) (c : clause) (p : nat) {struct c} : outcome (option (option bool)) :=
  match c with
  | CLeaf l => leaf_sat mt f l p
  | CNull => Ok (det true)
  | CNot c' => do r <- clause_sat mt f c' p; Ok (not3 r)
  | CAnd cs =>
      match cs with
      | [] => Ok invalid
      | _ => (fix go (cs : list clause) : outcome (option (option bool)) :=
                match cs with
                | [] => Ok (det true)
                | c' :: rest => do a <- clause_sat mt f c' p; do b <- go rest; Ok (and3 a b)
                end) cs
      end
  | COr cs =>
      match cs with
      | [] => Ok invalid
      | _ => (fix go (cs : list clause) : outcome (option (option bool)) :=
                match cs with
                | [] => Ok (det false)
                | c' :: rest => do a <- clause_sat mt f c' p; do b <- go rest; Ok (or3 a b)
                end) cs
      end
  end.

Inductive filter_verdict :=
| VRows (rows : list nat)   (* exactly these rows, in this order *)
| VError                    (* Filter must set Err *)
| VOpen                     (* the statement leaves at least one row open *)
| VFault.                   (* a cell could not be read: the frame is not well formed *)

(* the specification of Filter on a frame without error: evaluate the clause on every row of the frame.
   Validity is a property of clause and schema; a frame without rows still rejects invalid clauses
   only as far as the code can notice them, so zero-row frames are judged on one virtual row by the engine. *)
Definition filter_spec (mt : matcher_table) (f : frame) (c : clause) : filter_verdict :=
  (fix go (index : list nat) (acc : list nat) (opened : bool) : filter_verdict :=
     match index with
     | [] => if opened then VOpen else VRows (rev acc)
     | p :: rest =>
         match clause_sat mt f c p with
         | Ok None => VError
         | Ok (Some None) => go rest acc true
         | Ok (Some (Some true)) => go rest (p :: acc) opened
         | Ok (Some (Some false)) => go rest acc opened
         | _ => VFault
         end
     end) (ix f) [] false.
