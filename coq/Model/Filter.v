(* Model/Filter.v — QFrame.filter (qframe.go), the per-type Column.Filter dispatchers
   (internal/*column/column.go: Filter, filterBuiltIn, filterCustom1/2) and the clause tree
   (filter.go: And / Or with leaf batching and orFrames / Not / Null).
   The loop kernels and the comparator tables come from Gen (regenerated from the Go source). *)
From QF Require Import Base.Prelude Base.KernelSyntax Gen.GenConsts Gen.GenTables Gen.GenKernels.
From QF Require Import Model.Frame Model.Bits Model.Kernel.
Local Open Scope N_scope.

(* ------------------------------------------------------------------ arguments and comparators *)

Inductive farg :=
| AInt (z : Z)
| AFloat (b : N) (trunc : Z)        (* a float64 and int(f) as Go computes it (conversion = oracle datum) *)
| ABool (b : bool)
| AStr (s : bytes)
| AInts (l : list Z)
| AFloats (l : list (N * Z))
| AStrs (l : list bytes)
| AIfaces (l : list farg)           (* []interface{} *)
| AColName (n : bytes)              (* types.ColumnName *)
| ANil
| AOther.                           (* a value of any other Go type *)

Inductive fcmp :=
| CmpName (s : bytes)                                   (* built in comparator *)
| CmpFn1 (t : ctype) (tbl : list (cell * bool))         (* func(T) bool; T = int, float, bool or string pointer *)
| CmpFn2 (t : ctype) (tbl : list (cell * cell * bool))  (* func(T, T) bool *)
| CmpOther.                                             (* anything else *)

Record leaf := mkLeaf { lcol : bytes; lcmp : fcmp; larg : farg; linv : bool }.

Inductive clause :=
| CLeaf (l : leaf)
| CAnd (cs : list clause)
| COr (cs : list clause)
| CNot (c : clause)
| CNull.

(* like / ilike matchers are an oracle: per (pattern, caseSensitive) either a compile error (None)
   or the answers for the strings of the case.  (The matcher itself is modelled in Model/Match.v.) *)
Definition matcher_table := list ((bytes * bool) * option (list (bytes * bool))).

Fixpoint assocb {A} (k : bytes) (t : list (bytes * A)) : option A :=
  match t with
  | [] => None
  | (n, v) :: rest => if bytes_eqb n k then Some v else assocb k rest
  end.

Definition find_matcher (mt : matcher_table) (pat : bytes) (cs : bool) : option (option (bytes -> bool)) :=
  (fix go (t : matcher_table) :=
     match t with
     | [] => None
     | ((p, c), ans) :: rest =>
         if bytes_eqb p pat && Bool.eqb c cs
         then Some (option_map (fun tbl s => match assocb s tbl with Some r => r | None => false end) ans)
         else go rest
     end) mt.

(* resolved argument: constants stay as they are, a column name has become the column *)
Inductive rarg := RConst (a : farg) | RCol (c : coldata).

(* ------------------------------------------------------------------ helpers *)

Definition dot : bytes := [46].
Definition kname (letter : N) (fn : bytes) : bytes := letter :: dot ++ fn.
Definition delegates (letter : N) (fn : bytes) : option kernel := kernel_named g_kernels (kname letter fn).

Definition cell_kval (c : cell) : kval :=
  match c with
  | CInt z => VZ z | CFloat b => VF b | CBool b => VB b | CStr s => VS s | CEnum s => VS s
  end.

Definition kval_eqb (a b : kval) : bool :=
  match a, b with
  | VZ x, VZ y => Z.eqb x y
  | VF x, VF y => N.eqb x y
  | VB x, VB y => Bool.eqb x y
  | VS x, VS y => opt_bytes_eqb x y
  | VE x, VE y => N.eqb x y
  | _, _ => false
  end.

(* physical cell of a column as kernel value: enum columns give ranks to the built in kernels *)
Definition raw_kval (c : coldata) (p : nat) : outcome kval :=
  match c with
  | ICol d => do z <- idx d p; Ok (VZ z)
  | FCol d => do b <- idx d p; Ok (VF b)
  | BCol d => do b <- idx d p; Ok (VB b)
  | SCol d => do s <- idx d p; Ok (VS s)
  | ECol d _ _ => do r <- idx d p; Ok (VE r)
  end.

(* what a custom predicate receives: for enum columns the string pointer (stringPtrAt) *)
Definition ptr_kval (c : coldata) (p : nat) : outcome kval :=
  do x <- cell_at c p; Ok (cell_kval x).

Definition no_fn (_ : list kval) : outcome bool := Panic.

Definition base_env (x : coldata) (y : option coldata) (k : kval) : kenv :=
  mkKenv (fun n p => match n with
                     | O => raw_kval x p
                     | _ => match y with Some c => raw_kval c p | None => Panic end
                     end)
         k (fun _ => false) (fun _ => false) bitset_empty no_fn.

Definition run (letter : N) (fname : bytes) (env : kenv) (index : list nat) (b : list bool) : outcome (list bool) :=
  match kernel_named g_kernels (kname letter fname) with
  | Some k => run_kernel (delegates letter) env k index b
  | None => Panic      (* a table names a function that is not a recognised kernel *)
  end.

(* run the kernel that table [t] lists for comparator [cmp]; Fail (= error return) when not listed *)
Definition run_tbl (t : list (bytes * bytes)) (letter : N) (cmp : bytes) (env : kenv) index b :=
  match assocb cmp t with
  | Some fname => run letter fname env index b
  | None => Fail
  end.

Definition L_i : N := 105. Definition L_f : N := 102. Definition L_b : N := 98.
Definition L_s : N := 115. Definition L_e : N := 101.

(* ------------------------------------------------------------------ icolumn *)

(* intComp *)
Definition int_comp (a : farg) : option Z :=
  match a with AInt z => Some z | AFloat _ t => Some t | _ => None end.

(* interfaceSliceToIntSlice / newIntSet *)
Fixpoint iface_ints (l : list farg) : option (list Z) :=
  match l with
  | [] => Some []
  | a :: l' =>
      match a, iface_ints l' with
      | AInt z, Some r => Some (z :: r)
      | AFloat _ t, Some r => Some (t :: r)
      | _, _ => None
      end
  end.
Definition int_set (a : farg) : option (list Z) :=
  match a with
  | AInts l => Some l
  | AFloats l => Some (map snd l)
  | AIfaces l => iface_ints l
  | _ => None
  end.

Definition i_filter_builtin (d : list Z) index (cmp : bytes) (a : rarg) b : outcome (list bool) :=
  let x := ICol d in
  match a with
  | RConst c =>
      match int_comp c with
      | Some z => run_tbl t_i_filter1 L_i cmp (base_env x None (VZ z)) index b
      | None =>
          match int_set c with
          | Some s =>
              let env := base_env x None VBad in
              run_tbl t_i_filterN L_i cmp
                      (mkKenv (k_cell env) VBad (fun v => existsb (kval_eqb v) (map VZ s)) (k_match env) (k_bitset env) (k_fn env))
                      index b
          | None =>
              match c with
              | ANil => run_tbl t_i_filter0 L_i cmp (base_env x None VBad) index b
              | _ => Fail
              end
          end
      end
  | RCol (ICol d2) => run_tbl t_i_filter2 L_i cmp (base_env x (Some (ICol d2)) VBad) index b
  | RCol _ => Fail
  end.

(* ------------------------------------------------------------------ fcolumn *)

Definition f_filter_builtin (d : list N) index (cmp : bytes) (a : rarg) b : outcome (list bool) :=
  let x := FCol d in
  match a with
  | RConst (AFloat v _) =>
      if f_isnan v then Fail
      else run_tbl t_f_filter1 L_f cmp (base_env x None (VF v)) index b
  | RCol (FCol d2) => run_tbl t_f_filter2 L_f cmp (base_env x (Some (FCol d2)) VBad) index b
  | RConst ANil => run_tbl t_f_filter0 L_f cmp (base_env x None VBad) index b
  | _ => Fail
  end.

(* ------------------------------------------------------------------ bcolumn *)

Definition b_filter_builtin (d : list bool) index (cmp : bytes) (a : rarg) b : outcome (list bool) :=
  let x := BCol d in
  match a with
  | RConst (ABool v) => run_tbl t_b_filter1 L_b cmp (base_env x None (VB v)) index b
  | RCol (BCol d2) => run_tbl t_b_filter2 L_b cmp (base_env x (Some (BCol d2)) VBad) index b
  | _ => Fail
  end.

(* ------------------------------------------------------------------ scolumn *)

(* qfstrings.InterfaceSliceToStringSlice *)
Fixpoint iface_strs (l : list farg) : option (list bytes) :=
  match l with
  | [] => Some []
  | AStr s :: l' => match iface_strs l' with Some r => Some (s :: r) | None => None end
  | _ :: _ => None
  end.
Definition norm_strs (a : farg) : farg :=
  match a with
  | AIfaces l => match iface_strs l with Some r => AStrs r | None => a end
  | _ => a
  end.

Definition is_like (cmp : bytes) : option bool :=   (* Some caseSensitive *)
  if bytes_eqb cmp (bs 4 0x6c696b65) then Some true
  else if bytes_eqb cmp (bs 5 0x696c696b65) then Some false
  else None.

Definition str_set_env (env : kenv) (s : list bytes) : kenv :=
  mkKenv (k_cell env) (k_const env)
         (fun v => match v with VS x => existsb (bytes_eqb (str_of x)) s | _ => false end)
         (k_match env) (k_bitset env) (k_fn env).

Definition s_filter_builtin (mt : matcher_table) (d : list (option bytes)) index (cmp : bytes) (a : rarg) b
  : outcome (list bool) :=
  let x := SCol d in
  match a with
  | RConst c =>
      match norm_strs c with
      | AStr s =>
          match assocb cmp t_s_filter1 with
          | None => Fail
          | Some fname =>
              let env := base_env x None (VS (Some s)) in
              match kernel_named g_kernels (kname L_s fname) with
              | Some (KDelegate _ flag) =>
                  (* like / ilike -> regexFilter: NewMatcher first, its error is the filter's error *)
                  match find_matcher mt s flag with
                  | Some (Some m) =>
                      run L_s fname (mkKenv (k_cell env) (k_const env) (k_inset env) m (k_bitset env) (k_fn env)) index b
                  | Some None => Fail
                  | None => Panic     (* the case did not record this matcher *)
                  end
              | _ => run L_s fname env index b
              end
          end
      | AStrs l => run_tbl t_s_filterN L_s cmp (str_set_env (base_env x None VBad) l) index b
      | ANil => run_tbl t_s_filter0 L_s cmp (base_env x None VBad) index b
      | _ => Fail
      end
  | RCol (SCol d2) => run_tbl t_s_filter2 L_s cmp (base_env x (Some (SCol d2)) VBad) index b
  | RCol _ => Fail
  end.

(* ------------------------------------------------------------------ ecolumn *)

Fixpoint find_value (values : list bytes) (s : bytes) (i : N) : option N :=
  match values with
  | [] => None
  | v :: rest => if bytes_eqb v s then Some i else find_value rest s (i + 1)
  end.

(* for i, v := range values { if pred(v) { bset.set(enumVal(i)) } } *)
Definition bitset_of (values : list bytes) (pred : bytes -> bool) : bitset :=
  snd (fold_left (fun '(i, s) v => (i + 1, if pred v then bitset_set s (i mod 256) else s)) values (0, bitset_empty)).

Definition with_bitset (env : kenv) (s : bitset) : kenv :=
  mkKenv (k_cell env) (k_const env) (k_inset env) (k_match env) s (k_fn env).

Definition neq_name : bytes := bs 2 0x213d.
Definition fname_filterWithBitset : bytes := bs 16 0x66696c74657257697468426974736574.

(* equalTypes *)
Definition equal_types (v1 : list bytes) (n1 : nat) (v2 : list bytes) (n2 : nat) : bool :=
  Nat.eqb (length v1) (length v2) && Nat.eqb n1 n2 && list_eqb bytes_eqb v1 v2.

Definition e_filter_builtin (mt : matcher_table) (d : list N) (values : list bytes) (strict : bool)
           index (cmp : bytes) (a : rarg) b : outcome (list bool) :=
  let x := ECol d values strict in
  match a with
  | RConst c =>
      match norm_strs c with
      | AStr s =>
          match assocb cmp t_e_filter1 with
          | Some fname =>
              match find_value values s 0 with
              | Some r => run L_e fname (base_env x None (VE r)) index b
              | None =>
                  if strict then Fail
                  else if bytes_eqb cmp neq_name then Ok (map (fun _ => true) b)
                  else Ok b
              end
          | None =>
              match assocb cmp t_e_filterLike with
              | Some fname =>
                  (* like / ilike : filterLike(comp, values, caseSensitive) then filterWithBitset *)
                  match is_like fname with
                  | None => Panic
                  | Some flag =>
                      match find_matcher mt s flag with
                      | Some (Some m) =>
                          run L_e fname_filterWithBitset (with_bitset (base_env x None VBad) (bitset_of values m)) index b
                      | Some None => Fail
                      | None => Panic
                      end
                  end
              | None => Fail
              end
          end
      | AStrs l =>
          match assocb cmp t_e_filterN with
          | Some _ =>
              run L_e fname_filterWithBitset
                  (with_bitset (base_env x None VBad) (bitset_of values (fun v => existsb (bytes_eqb v) l))) index b
          | None => Fail
          end
      | ANil => run_tbl t_e_filter0 L_e cmp (base_env x None VBad) index b
      | _ => Fail
      end
  | RCol (ECol d2 v2 _) =>
      if equal_types values (length d) v2 (length d2)
      then run_tbl t_e_filter2 L_e cmp (base_env x (Some (ECol d2 v2 false)) VBad) index b
      else Fail
  | RCol _ => Fail
  end.

(* ------------------------------------------------------------------ custom predicates *)

Definition fn1_env (c : coldata) (tbl : list (cell * bool)) : kenv :=
  mkKenv (fun n p => match n with O => ptr_kval c p | _ => Panic end) VBad (fun _ => false) (fun _ => false) bitset_empty
         (fun args =>
            match args with
            | [v] => match find (fun e => kval_eqb (cell_kval (fst e)) v) tbl with
                     | Some e => Ok (snd e) | None => Panic end
            | _ => Panic
            end).

Definition fn2_env (c c2 : coldata) (tbl : list (cell * cell * bool)) : kenv :=
  mkKenv (fun n p => match n with O => ptr_kval c p | _ => ptr_kval c2 p end) VBad (fun _ => false) (fun _ => false) bitset_empty
         (fun args =>
            match args with
            | [v; w] => match find (fun e => kval_eqb (cell_kval (fst (fst e))) v && kval_eqb (cell_kval (snd (fst e))) w) tbl with
                        | Some e => Ok (snd e) | None => Panic end
            | _ => Panic
            end).

Definition letter_of (c : coldata) : N :=
  match c with ICol _ => L_i | FCol _ => L_f | BCol _ => L_b | SCol _ => L_s | ECol _ _ _ => L_e end.

Definition fname_custom1 : bytes := bs 13 0x66696c746572437573746f6d31.
Definition fname_custom2 : bytes := bs 13 0x66696c746572437573746f6d32.

(* the Go type switch `case func(T) bool` : T must be the column's element type (string pointer for string and enum) *)
Definition fn_type_ok (c : coldata) (t : ctype) : bool := ctype_eqb (col_ftype c) t.

(* Column.Filter *)
Definition col_filter (mt : matcher_table) (c : coldata) index (cmp : fcmp) (a : rarg) b : outcome (list bool) :=
  match cmp with
  | CmpName s =>
      match c with
      | ICol d => i_filter_builtin d index s a b
      | FCol d => f_filter_builtin d index s a b
      | BCol d => b_filter_builtin d index s a b
      | SCol d => s_filter_builtin mt d index s a b
      | ECol d vs st => e_filter_builtin mt d vs st index s a b
      end
  | CmpFn1 t tbl =>
      if fn_type_ok c t then run (letter_of c) fname_custom1 (fn1_env c tbl) index b else Fail
  | CmpFn2 t tbl =>
      if fn_type_ok c t then
        match a with
        | RCol c2 => if ctype_eqb (col_type c) (col_type c2)
                     then run (letter_of c) fname_custom2 (fn2_env c c2 tbl) index b
                     else Fail
        | RConst _ => Fail
        end
      else Fail
  | CmpOther => Fail
  end.

(* ------------------------------------------------------------------ QFrame.filter *)

(* float64(int64): round to nearest even *)
Definition i2f (z : Z) : N :=
  if (z =? 0)%Z then 0
  else
    let sign := if (z <? 0)%Z then N.shiftl 1 63 else 0 in
    let m := Z.to_N (Z.abs z) in
    let l := N.log2 m in
    let '(mant, e) :=
      if l <=? 52 then (N.shiftl m (52 - l), l)
      else
        let sh := l - 52 in
        let q := N.shiftr m sh in
        let r := N.land m (N.ones sh) in
        let half := N.shiftl 1 (sh - 1) in
        let q' := if (half <? r) || ((r =? half) && N.odd q) then q + 1 else q in
        if q' =? N.shiftl 1 53 then (N.shiftl 1 52, l + 1) else (q', l) in
    N.lor sign (N.lor (N.shiftl (e + 1023) 52) (N.land mant (N.ones 52))).

(* ic.FloatSlice() *)
Definition float_slice (d : list Z) : list N := map i2f d.

Definition is_order_comparator (s : bytes) : bool :=
  bytes_eqb s (bs 1 0x3c) || bytes_eqb s (bs 2 0x3c3d) || bytes_eqb s (bs 1 0x3e) || bytes_eqb s (bs 2 0x3e3d).

(* one iteration of the loop over the leaves in QFrame.filter; b is the shared mask *)
Definition filter_leaf (mt : matcher_table) (f : frame) (l : leaf) (b : list bool) : outcome (list bool) :=
  match lookup_col f (lcol l) with
  | None => Fail
  | Some s =>
      do sa <- match larg l with
               | AColName n =>
                   match lookup_col f n with
                   | None => Fail
                   | Some argc =>
                       match s, argc with
                       | ICol d, FCol _ => Ok (FCol (float_slice d), RCol argc)
                       | FCol _, ICol d2 => Ok (s, RCol (FCol (float_slice d2)))
                       | _, _ => Ok (s, RCol argc)
                       end
                   end
               | a => Ok (s, RConst a)
               end;
      let '(s', a) := sa in
      if linv l then
        let shortcut :=
          match lcmp l with
          | CmpName sc =>
              if is_order_comparator sc then None
              else match assocb sc t_filter_inverse with
                   | Some inv =>
                       match col_filter mt s' (ix f) (CmpName inv) a b with
                       | Ok r => Some (Ok r)
                       | Panic => Some Panic
                       | Fail => None        (* "assume inverse not implemented in case of error" *)
                       end
                   | None => None
                   end
          | _ => None
          end in
        match shortcut with
        | Some r => r
        | None =>
            do inv <- col_filter mt s' (ix f) (lcmp l) a (map (fun _ => false) b);
            Ok (map (fun xy : bool * bool => if fst xy then true else negb (snd xy)) (combine b inv))
        end
      else col_filter mt s' (ix f) (lcmp l) a b
  end.

(* ix.Filter(bIx) *)
Fixpoint index_filter (index : list nat) (b : list bool) : outcome (list nat) :=
  match b with
  | [] => Ok []
  | x :: b' =>
      match index with
      | [] => if x then Panic else index_filter [] b'
      | p :: index' => do r <- index_filter index' b'; Ok (if x then p :: r else r)
      end
  end.

Definition ofold {A B} (f : B -> A -> outcome B) (l : list A) (init : B) : outcome B :=
  fold_left (fun acc x => do a <- acc; f a x) l (Ok init).

(* func (qf QFrame) filter(filters ...filter.Filter) QFrame *)
Definition filter_leaves (mt : matcher_table) (f : frame) (ls : list leaf) : outcome frame :=
  if ferr f then Ok f
  else
    match ofold (fun b l => filter_leaf mt f l b) ls (map (fun _ => false) (ix f)) with
    | Ok b => do i <- index_filter (ix f) b; Ok (with_ix f i)
    | Fail => Ok (with_err f)
    | Panic => Panic
    end.

(* ------------------------------------------------------------------ clauses *)

Fixpoint clause_err (c : clause) : bool :=
  match c with
  | CLeaf _ => false
  | CAnd cs => match cs with [] => true | _ => existsb clause_err cs end
  | COr cs => match cs with [] => true | _ => existsb clause_err cs end
  | CNot c' => clause_err c'
  | CNull => false
  end.

(* orFrames: merge two sub-indexes of the original index, keeping the original order *)
Fixpoint or_merge (orig l r : list nat) : list nat :=
  match orig with
  | [] => []
  | p :: orig' =>
      let '(foundl, l') := match l with x :: l' => if Nat.eqb x p then (true, l') else (false, l) | [] => (false, l) end in
      let '(foundr, r') := match r with x :: r' => if Nat.eqb x p then (true, r') else (false, r) | [] => (false, r) end in
      if foundl || foundr then p :: or_merge orig' l' r' else or_merge orig' l' r'
  end.

Definition or_frames (orig : frame) (lhs : option frame) (rhs : frame) : frame :=
  match lhs with
  | None => rhs
  | Some l =>
      if ferr l then l
      else if ferr rhs then rhs
      else with_ix orig (or_merge (ix orig) (ix l) (ix rhs))
  end.

(* NotClause: the rows of qf that are not in newQf *)
Fixpoint not_merge (orig sub : list nat) : list nat :=
  match orig with
  | [] => []
  | p :: orig' =>
      match sub with
      | x :: sub' => if Nat.eqb x p then not_merge orig' sub' else p :: not_merge orig' sub
      | [] => p :: not_merge orig' sub
      end
  end.

Definition invert_leaf (l : leaf) : leaf := mkLeaf (lcol l) (lcmp l) (larg l) (negb (linv l)).

Section ClauseFilter.
  Variable mt : matcher_table.

  Section Loops.
  (* the recursive call is a section variable so that it stays outside the fixpoints below
     (which lets the termination checker see through them, as it does for List.map) *)
  Variable cf : clause -> frame -> outcome frame.

  (* the loop of AndClause.filter: every sub-clause filters the result of the previous one *)
  Fixpoint and_loop (cs : list clause) (g : frame) : outcome frame :=
    match cs with
    | [] => Ok g
    | c' :: rest => do g' <- cf c' g; and_loop rest g'
    end.

  (* the loop of OrClause.filter: consecutive leaves are batched into one call of qf.filter (shared mask),
     every other sub-clause is evaluated on the original frame; results are merged by orFrames *)
  Fixpoint or_loop (f : frame) (cs : list clause)
           (pending : list leaf) (acc : option frame) : outcome frame :=
    let flush (acc : option frame) : outcome (option frame) :=
      match pending with
      | [] => Ok acc
      | _ => do nf <- filter_leaves mt f (rev pending); Ok (Some (or_frames f acc nf))
      end in
    match cs with
    | [] =>
        do acc' <- flush acc;
        match acc' with Some r => Ok r | None => Panic end   (* nil pointer dereference *)
    | CLeaf l :: rest => or_loop f rest (l :: pending) acc
    | c' :: rest =>
        do acc' <- flush acc;
        do nf <- cf c' f;
        or_loop f rest [] (Some (or_frames f acc' nf))
    end.
  End Loops.

  Fixpoint clause_filter (c : clause) (f : frame) {struct c} : outcome frame :=
    match c with
    | CLeaf l => filter_leaves mt f [l]
    | CNull => Ok f
    | CAnd cs =>
        if ferr f then Ok f
        else if clause_err c then Ok (with_err f)
        else and_loop (fun c' g => clause_filter c' g) cs f
    | COr cs =>
        if ferr f then Ok f
        else if clause_err c then Ok (with_err f)
        else or_loop (fun c' g => clause_filter c' g) f cs [] None
    | CNot c' =>
        if ferr f then Ok f
        else if clause_err c then Ok (with_err f)
        else
          match c' with
          | CLeaf l => filter_leaves mt f [invert_leaf l]
          | _ =>
              do nf <- clause_filter c' f;
              if ferr nf then Ok nf
              else Ok (with_ix f (not_merge (ix f) (ix nf)))
          end
    end.
End ClauseFilter.

(* QFrame.Filter *)
Definition frame_filter (mt : matcher_table) (f : frame) (c : clause) : outcome frame :=
  if ferr f then Ok f else clause_filter mt c f.
