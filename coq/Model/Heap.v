(* Model/Heap.v — L1, the heap level (DESIGN 2.2).
   Needed because C01 (persistence) and C11 (concurrent use) are ABOUT sharing and in-place
   writes, which a pure functional model makes vacuously true.

   * locations are named by their allocator: loc = (tid, k); thread t's k-th allocation is (t,k)
     in every schedule; locations that exist before the program starts are whatever is in the
     domain of the initial store (by convention under tid 0);
   * one location holds one Go backing array (or one map, as an association list in a 1-cell array);
   * a program is a free monad over Alloc / Read / Write / Call;
   * [run] is the sequential semantics, [run_tr] the instrumented one (faults on a write to a
     location the program did not allocate itself, on any access to a location that is neither
     pre-existing nor own, and on an allocator result that is not fresh);
   * Go slices {base, off, len, cap} with get / set / append / sub-slice / copy / make defined
     through the actions, with Go's semantics (append writes in place when len < cap).
   Executable definitions only; the proofs are in Proofs/HeapProofs.v. *)
From QF Require Import Base.Prelude.

Notation tid := nat (only parsing).
Definition loc := (nat * nat)%type.
Definition loc_eqb (a b : loc) : bool := ((fst a =? fst b)%nat && (snd a =? snd b)%nat)%bool.

Fixpoint mem_loc (l : loc) (ls : list loc) : bool :=
  match ls with
  | [] => false
  | x :: r => if loc_eqb l x then true else mem_loc l r
  end.

(* a Go slice header *)
Record slice := mkSlice { s_base : loc; s_off : nat; s_len : nat; s_cap : nat }.
Definition nil_slice : slice := mkSlice (0, 0) 0 0 0.

(* qframe.namedColumn: name, pos and the column struct, whose fields are slices
   (int/float/bool: data | string: pointers, blob | enum: data, values) *)
Record col := mkCol { c_name : bytes; c_pos : nat; c_ty : N; c_parts : list slice }.

(* what one array cell can hold *)
Inductive val :=
| VNil
| VZ (z : Z)                                   (* int / uint32 index entry / float bits / enum rank / byte *)
| VB (b : bool)
| VStr (s : bytes)
| VSl (s : slice)                              (* a slice stored in memory ([]index.Int element) *)
| VCol (c : col)
| VEnt (ix : option slice) (hash : Z) (first : Z) (occ : bool)   (* grouper.tableEntry *)
| VMap (m : list (bytes * col)).               (* the content of a Go map[string]namedColumn (one cell) *)

Definition arr := list val.
Definition fnid := N.

Definition is_scalar (v : val) : bool :=
  match v with VNil | VZ _ | VB _ | VStr _ => true | _ => false end.
(* Go's type system: a callback returns int / float64 / bool / *string, never a qframe-internal slice *)
Definition scalar (v : val) : val := if is_scalar v then v else VNil.

(* ---------------------------------------------------------------- store *)
Definition store := list (loc * arr).

Fixpoint lookup (s : store) (l : loc) : option arr :=
  match s with
  | [] => None
  | (l', a) :: r => if loc_eqb l l' then Some a else lookup r l
  end.

Fixpoint update (s : store) (l : loc) (a : arr) : store :=
  match s with
  | [] => [(l, a)]
  | (l', a') :: r => if loc_eqb l l' then (l, a) :: r else (l', a') :: update r l a
  end.

Definition in_dom (s : store) (l : loc) : bool :=
  match lookup s l with Some _ => true | None => false end.

Definition read_loc (s : store) (l : loc) : arr :=
  match lookup s l with Some a => a | None => [] end.

Definition write_loc (s : store) (l : loc) (i : nat) (v : val) : store :=
  match lookup s l with Some a => update s l (set_nth a i v) | None => s end.

(* ---------------------------------------------------------------- programs *)
Inductive prog (A : Type) : Type :=
| Ret (a : A)
| Alloc (init : arr) (k : loc -> prog A)            (* make / composite literal / map literal *)
| Read (l : loc) (k : arr -> prog A)
| Write (l : loc) (i : nat) (v : val) (k : prog A)  (* data[i] = v, Swap, copy, m[key] = v *)
| Call (fn : fnid) (args : list val) (k : val -> prog A).   (* user callback; does not touch the store *)
Arguments Ret {A} a.
Arguments Alloc {A} init k.
Arguments Read {A} l k.
Arguments Write {A} l i v k.
Arguments Call {A} fn args k.

Fixpoint bind {A B} (p : prog A) (f : A -> prog B) : prog B :=
  match p with
  | Ret a => f a
  | Alloc init k => Alloc init (fun l => bind (k l) f)
  | Read l k => Read l (fun a => bind (k a) f)
  | Write l i v k => Write l i v (bind k f)
  | Call fn args k => Call fn args (fun v => bind (k v) f)
  end.

Notation "'let*' x := e 'in' k" := (bind e (fun x => k))
  (at level 200, x pattern, e at level 100, k at level 200, right associativity).

(* panics travel as values: prog (outcome A) *)
Definition bindO {A B} (p : prog (outcome A)) (f : A -> prog (outcome B)) : prog (outcome B) :=
  bind p (fun o => match o with Ok a => f a | Fail => Ret Fail | Panic => Ret Panic end).
Notation "'let?' x := e 'in' k" := (bindO e (fun x => k))
  (at level 200, x pattern, e at level 100, k at level 200, right associativity).

Definition lift {A} (p : prog A) : prog (outcome A) := bind p (fun a => Ret (Ok a)).
Definition retO {A} (o : outcome A) : prog (outcome A) := Ret o.

Section Run.
  (* the user callbacks: pure functions of their arguments (reading decision 9) *)
  Variable env : fnid -> list val -> val.

  (* sequential semantics of thread [t] whose next allocation is (t,n) *)
  Fixpoint run {A} (t : tid) (p : prog A) (n : nat) (s : store) : A * nat * store :=
    match p with
    | Ret a => (a, n, s)
    | Alloc init k => run t (k (t, n)) (S n) (update s (t, n) init)
    | Read l k => run t (k (read_loc s l)) n s
    | Write l i v k => run t k n (write_loc s l i v)
    | Call fn args k => run t (k (scalar (env fn args))) n s
    end.

  (* instrumented semantics: [pre] = the pre-existing locations, [own] = allocated by the program *)
  Fixpoint run_tr_aux {A} (pre : loc -> bool) (t : tid) (p : prog A) (n : nat) (own : list loc) (s : store)
    : option (A * nat * store * list loc) :=
    match p with
    | Ret a => Some (a, n, s, own)
    | Alloc init k =>
        let l := (t, n) in
        if pre l || mem_loc l own then None
        else run_tr_aux pre t (k l) (S n) (l :: own) (update s l init)
    | Read l k =>
        if pre l || mem_loc l own then run_tr_aux pre t (k (read_loc s l)) n own s else None
    | Write l i v k =>
        if mem_loc l own then run_tr_aux pre t k n own (write_loc s l i v) else None
    | Call fn args k => run_tr_aux pre t (k (scalar (env fn args))) n own s
    end.

  Definition run_tr {A} (t : tid) (p : prog A) (n : nat) (s : store) :=
    run_tr_aux (in_dom s) t p n [] s.
End Run.

(* ---------------------------------------------------------------- Go slices *)
Definition slice_seg (s : slice) (a : arr) : list val := firstn (s_len s) (skipn (s_off s) a).

Definition make_slice (n c : nat) (zero : val) : prog slice :=
  Alloc (repeat zero c) (fun l => Ret (mkSlice l 0 n c)).

(* composite literal / conversion of a known list: []T{...} *)
Definition slice_lit (vs : list val) : prog slice :=
  Alloc vs (fun l => Ret (mkSlice l 0 (length vs) (length vs))).

(* s[i] *)
Definition slice_get (s : slice) (i : nat) : prog (outcome val) :=
  if (i <? s_len s)%nat then Read (s_base s) (fun a => Ret (idx a (s_off s + i))) else Ret Panic.

(* s[i] = v *)
Definition slice_set (s : slice) (i : nat) (v : val) : prog (outcome unit) :=
  if (i <? s_len s)%nat then Write (s_base s) (s_off s + i) v (Ret (Ok tt)) else Ret Panic.

(* for _, x := range s : the elements (one read of the backing array; nothing is read when len = 0) *)
Definition slice_read (s : slice) : prog (list val) :=
  if (s_len s =? 0)%nat then Ret [] else Read (s_base s) (fun a => Ret (slice_seg s a)).

(* s[a:b]  (b may exceed len up to cap; base and spare capacity are kept) *)
Definition subslice (s : slice) (a b : nat) : outcome slice :=
  if ((a <=? b)%nat && (b <=? s_cap s)%nat)%bool
  then Ok (mkSlice (s_base s) (s_off s + a) (b - a) (s_cap s - a)) else Panic.

(* growth of append when the capacity is exhausted (Go doubles small slices and then rounds up to a
   size class; the exact figure is not observable through qframe and is not compared) *)
Definition grow_cap (c need : nat) : nat := Nat.max need (2 * c).

(* append(s, v) *)
Definition slice_append (s : slice) (v : val) : prog slice :=
  if (s_len s <? s_cap s)%nat then
    Write (s_base s) (s_off s + s_len s) v (Ret (mkSlice (s_base s) (s_off s) (S (s_len s)) (s_cap s)))
  else
    let c := grow_cap (s_cap s) (S (s_len s)) in
    let fresh old := Alloc (old ++ v :: repeat VNil (c - S (s_len s)))
                           (fun l => Ret (mkSlice l 0 (S (s_len s)) c)) in
    if (s_len s =? 0)%nat then fresh [] else Read (s_base s) (fun a => fresh (slice_seg s a)).

Fixpoint slice_append_list (s : slice) (vs : list val) : prog slice :=
  match vs with
  | [] => Ret s
  | v :: r => bind (slice_append s v) (fun s' => slice_append_list s' r)
  end.

(* dst[i], dst[i+1], ... = vs  (element writes; stops at len dst) *)
Fixpoint slice_write_list (dst : slice) (i : nat) (vs : list val) : prog unit :=
  match vs with
  | [] => Ret tt
  | v :: r => if (i <? s_len dst)%nat
              then Write (s_base dst) (s_off dst + i) v (slice_write_list dst (S i) r)
              else Ret tt
  end.

(* Go is statically typed: what is read out of a []uint32 is a number, out of a []namedColumn a
   namedColumn, out of a []index.Int a slice.  The typed accessors make that explicit. *)
Definition as_z (v : val) : Z := match v with VZ z => z | _ => 0%Z end.
Definition as_b (v : val) : bool := match v with VB b => b | _ => false end.
Definition as_col (v : val) : col := match v with VCol c => c | _ => mkCol [] 0 0 [] end.
Definition as_slice (v : val) : slice := match v with VSl s => s | _ => nil_slice end.
Definition san_z (v : val) : val := VZ (as_z v).
Definition san_col (v : val) : val := VCol (as_col v).

Definition get_z (s : slice) (i : nat) : prog (outcome Z) :=
  bind (slice_get s i) (fun o => Ret (match o with Ok v => Ok (as_z v) | Fail => Fail | Panic => Panic end)).
Definition get_b (s : slice) (i : nat) : prog (outcome bool) :=
  bind (slice_get s i) (fun o => Ret (match o with Ok v => Ok (as_b v) | Fail => Fail | Panic => Panic end)).
Definition get_col (s : slice) (i : nat) : prog (outcome col) :=
  bind (slice_get s i) (fun o => Ret (match o with Ok v => Ok (as_col v) | Fail => Fail | Panic => Panic end)).
Definition read_zs (s : slice) : prog (list Z) := bind (slice_read s) (fun vs => Ret (map as_z vs)).
Definition read_bs (s : slice) : prog (list bool) := bind (slice_read s) (fun vs => Ret (map as_b vs)).
Definition read_cols (s : slice) : prog (list col) := bind (slice_read s) (fun vs => Ret (map as_col vs)).
Definition read_slices (s : slice) : prog (list slice) := bind (slice_read s) (fun vs => Ret (map as_slice vs)).

(* copy(dst, src) for element type T; [san] is the identity on values of type T *)
Definition slice_copy (san : val -> val) (dst src : slice) : prog unit :=
  bind (slice_read src) (fun vs => slice_write_list dst 0 (map san vs)).

(* ---------------------------------------------------------------- Go maps: one cell *)
Fixpoint map_get (m : list (bytes * col)) (k : bytes) : option col :=
  match m with
  | [] => None
  | (k', v) :: r => if bytes_eqb k k' then Some v else map_get r k
  end.

Fixpoint map_put (m : list (bytes * col)) (k : bytes) (v : col) : list (bytes * col) :=
  match m with
  | [] => [(k, v)]
  | (k', v') :: r => if bytes_eqb k k' then (k, v) :: r else (k', v') :: map_put r k v
  end.

Definition map_make : prog loc := Alloc [VMap []] (fun l => Ret l).

Definition map_read (m : loc) : prog (list (bytes * col)) :=
  Read m (fun a => Ret (match a with VMap kv :: _ => kv | _ => [] end)).

(* v, ok := m[k] *)
Definition map_lookup (m : loc) (k : bytes) : prog (option col) :=
  bind (map_read m) (fun kv => Ret (map_get kv k)).

(* m[k] = v : read-modify-write of the map's cell *)
Definition map_store (m : loc) (k : bytes) (v : col) : prog unit :=
  bind (map_read m) (fun kv => Write m 0 (VMap (map_put kv k v)) (Ret tt)).

(* ---------------------------------------------------------------- loops *)
Fixpoint for_each {X S} (xs : list X) (body : X -> S -> prog S) (s : S) : prog S :=
  match xs with
  | [] => Ret s
  | x :: r => bind (body x s) (fun s' => for_each r body s')
  end.

(* loop with early exit through the outcome monad *)
Fixpoint for_eachO {X S} (xs : list X) (body : X -> S -> prog (outcome S)) (s : S) : prog (outcome S) :=
  match xs with
  | [] => Ret (Ok s)
  | x :: r => bindO (body x s) (fun s' => for_eachO r body s')
  end.
