(* Model/Ryu.v — internal/ryu/{ryu.go,ryu64.go,tables.go}: AppendFloat64f and everything below it.
   Executable definitions only.  uint64/uint32 values are N (wrapped with u64/u32 wherever Go wraps),
   int32/int values are Z (wrapped with i32 where Go computes in int32).  Tables come from Gen/GenRyu.v,
   named constants from Gen/GenConsts.v.  A failed assert, an index outside a table or outside a slice
   and an exhausted loop fuel (= the Go loop would not terminate) are all [Panic].

   Second half of the file: the specification-level functions used by the theorems and by the property
   oracle of the engine ([positional], [render_f], [parse_f], [shortest_b]). *)
From QF Require Import Base.Prelude Gen.GenConsts Gen.GenRyu.
Local Open Scope N_scope.

(* ------------------------------------------------------------------ machine integers *)
Definition two64N : N := 18446744073709551616.
Definition two32N : N := 4294967296.
Definition u64 (x : N) : N := x mod two64N.
Definition u32 (x : N) : N := x mod two32N.
Definition u8 (x : N) : N := x mod 256.
Definition i32 (z : Z) : Z := ((z + 2147483648) mod 4294967296 - 2147483648)%Z.
(* a - b on uint64 / uint32 (b already in range) *)
Definition sub64 (a b : N) : N := u64 (a + two64N - b).
Definition sub32 (a b : N) : N := u32 (a + two32N - b).
(* conversions: uint64(int32) and uint(int32) sign-extend; uint32(int32) reinterprets; int32(uint32) *)
Definition u64_of_Z (z : Z) : N := Z.to_N (z mod 18446744073709551616)%Z.
Definition u32_of_Z (z : Z) : N := Z.to_N (z mod 4294967296)%Z.
Definition i32_of_N (x : N) : Z := i32 (Z.of_N x).
(* x << c and x >> c on uint64 with an unsigned count: counts >= 64 give 0 *)
Definition shl64 (x c : N) : N := if c <? 64 then u64 (N.shiftl x c) else 0.
Definition shr64 (x c : N) : N := if c <? 64 then N.shiftr x c else 0.
Definition b2n (b : bool) : N := if b then 1 else 0.

Definition assert_ (b : bool) : outcome unit := if b then Ok tt else Panic.

(* table look-ups: index of type uint32 / int32 *)
Definition idxN {A} (l : list A) (i : N) : outcome A :=
  if i <? N.of_nat (length l) then idx l (N.to_nat i) else Panic.
Definition idxZ {A} (l : list A) (i : Z) : outcome A :=
  if (i <? 0)%Z then Panic else idxN l (Z.to_N i).

(* TODO-GEN: literals of internal/ryu that Gen/GenConsts.v does not carry yet
   (ryu64.go decimalLen64: 1233, 12; float64ToDecimal: q <= 21, q <= 1, q < 63, e2 > 3, -e2 > 1;
    pow5Factor64: 5; removal loops: 10, 100, 50, 5, 4; appendF/appendSpecialf: the byte literals). *)
Definition c_declen_mul : Z := 1233%Z.
Definition c_declen_shift : Z := 12%Z.
Definition c_q_pos_small : N := 21.
Definition c_q_neg_small : N := 1.
Definition c_q_neg_max : N := 63.
Definition c_e2_pos_cut : Z := 3%Z.
Definition c_e2_neg_cut : Z := 1%Z.
Definition ch_0 : N := 48.     (* '0' *)
Definition ch_dot : N := 46.   (* '.' *)
Definition ch_minus : N := 45. (* '-' *)
Definition s_NaN : bytes := [78; 97; 78].
Definition s_pInf : bytes := [43; 73; 110; 102].
Definition s_mInf : bytes := [45; 73; 110; 102].

(* ------------------------------------------------------------------ ryu.go *)

(* func log10Pow2(e int32) uint32 { assert(e >= 0); assert(e <= 1650); return (uint32(e) * 78913) >> 18 } *)
Definition log10Pow2 (e : Z) : outcome N :=
  do _ <- assert_ (Z.of_N c_l10p2_min <=? e)%Z;
  do _ <- assert_ (e <=? Z.of_N c_l10p2_max)%Z;
  Ok (N.shiftr (u32 (u32_of_Z e * c_l10p2_mul)) c_l10p2_shift).

(* func log10Pow5(e int32) uint32 { ...; return (uint32(e) * 732923) >> 20 } *)
Definition log10Pow5 (e : Z) : outcome N :=
  do _ <- assert_ (Z.of_N c_l10p5_min <=? e)%Z;
  do _ <- assert_ (e <=? Z.of_N c_l10p5_max)%Z;
  Ok (N.shiftr (u32 (u32_of_Z e * c_l10p5_mul)) c_l10p5_shift).

(* func pow5Bits(e int32) int32 { ...; return int32((uint32(e)*1217359)>>19 + 1) } *)
Definition pow5Bits (e : Z) : outcome Z :=
  do _ <- assert_ (Z.of_N c_p5b_min <=? e)%Z;
  do _ <- assert_ (e <=? Z.of_N c_p5b_max)%Z;
  Ok (i32_of_N (u32 (N.shiftr (u32 (u32_of_Z e * c_p5b_mul)) c_p5b_shift + c_p5b_add))).

(* ------------------------------------------------------------------ ryu64.go: arithmetic helpers *)

(* func decimalLen64(u uint64) int {
     log2 := 64 - bits.LeadingZeros64(u) - 1
     t := (log2 + 1) * 1233 >> 12
     return t - boolToInt(u < powersOf10[t]) + 1 }
   64 - LeadingZeros64(u) is the bit length of u (0 for u = 0) = N.size u. *)
Definition decimalLen64 (u : N) : outcome Z :=
  let log2 := (Z.of_N (N.size u) - 1)%Z in
  let t := Z.shiftr ((log2 + 1) * c_declen_mul) c_declen_shift in
  do p <- idxZ g_powersOf10 t;
  Ok (t - Z.of_N (b2n (u <? p)%N) + 1)%Z.

(* func shiftRight128(v uint128, shift int32) uint64 {
     assert(shift < 64); return (v.hi << uint64(64-shift)) | (v.lo >> uint(shift)) } *)
Definition shiftRight128 (v : N * N) (shift : Z) : outcome N :=
  let '(lo, hi) := v in
  do _ <- assert_ (shift <? 64)%Z;
  Ok (N.lor (shl64 hi (u64_of_Z (i32 (64 - shift)))) (shr64 lo (u64_of_Z shift))).

(* func mulShift64(m uint64, mul uint128, shift int32) uint64 {
     hihi, hilo := bits.Mul64(m, mul.hi); lohi, _ := bits.Mul64(m, mul.lo)
     sum := uint128{hi: hihi, lo: lohi + hilo}; if sum.lo < lohi { sum.hi++ }
     return shiftRight128(sum, shift-64) } *)
Definition mulShift64 (m : N) (mul : N * N) (shift : Z) : outcome N :=
  let '(lo, hi) := mul in
  let p1 := m * hi in
  let hihi := p1 / two64N in
  let hilo := p1 mod two64N in
  let lohi := (m * lo) / two64N in
  let slo := u64 (lohi + hilo) in
  let shi := if slo <? lohi then u64 (hihi + 1) else hihi in
  shiftRight128 (slo, shi) (i32 (shift - 64)).

(* func pow5Factor64(v uint64) uint32 { for n := uint32(0); ; n++ { q, r := v/5, v%5; if r != 0 { return n }; v = q } }
   The Go loop does not terminate for v = 0; the model runs out of fuel there (64 > log5 2^64). *)
Fixpoint pow5Factor64_aux (fuel : nat) (v n : N) : outcome N :=
  match fuel with
  | O => Panic
  | S f => if v mod 5 =? 0 then pow5Factor64_aux f (v / 5) (u32 (n + 1)) else Ok n
  end.
Definition pow5Factor64 (v : N) : outcome N := pow5Factor64_aux 64 v 0.

(* func multipleOfPowerOfFive64(v uint64, p uint32) bool { return pow5Factor64(v) >= p } *)
Definition multipleOfPowerOfFive64 (v p : N) : outcome bool :=
  do n <- pow5Factor64 v; Ok (p <=? n).

(* bits.TrailingZeros64 (64 for 0) *)
Fixpoint ptz (p : positive) : N :=
  match p with xO p' => 1 + ptz p' | _ => 0 end.
Definition tz64 (v : N) : N := match v with 0 => 64 | Npos p => ptz p end.
(* func multipleOfPowerOfTwo64(v uint64, p uint32) bool { return uint32(bits.TrailingZeros64(v)) >= p } *)
Definition multipleOfPowerOfTwo64 (v p : N) : bool := p <=? tz64 v.

(* ------------------------------------------------------------------ float64ToDecimalExactInt *)

(* for d.m%10 == 0 { d.m /= 10; d.e++ }   (does not terminate for d.m = 0) *)
Fixpoint strip10 (fuel : nat) (m : N) (e : Z) : outcome (N * Z) :=
  match fuel with
  | O => Panic
  | S f => if m mod 10 =? 0 then strip10 f (m / 10) (i32 (e + 1)) else Ok (m, e)
  end.

(* func float64ToDecimalExactInt(mant, exp uint64) (d dec64, ok bool) {
     e := exp - bias64; if e > mantBits64 { return d, false }
     shift := mantBits64 - e; mant |= 1 << mantBits64; d.m = mant >> shift
     if d.m<<shift != mant { return d, false }
     for d.m%10 == 0 { d.m /= 10; d.e++ }; return d, true } *)
Definition float64ToDecimalExactInt (mant exp : N) : outcome (option (N * Z)) :=
  let e := sub64 exp c_bias64 in
  if c_mantBits64 <? e then Ok None else
  let shift := sub64 c_mantBits64 e in
  let mant' := N.lor mant (shl64 1 c_mantBits64) in
  let m := shr64 mant' shift in
  if negb (shl64 m shift =? mant') then Ok None else
  do d <- strip10 20 m 0%Z; Ok (Some d).

(* ------------------------------------------------------------------ float64ToDecimal *)

Record step3 := { s_vr : N; s_vp : N; s_vm : N; s_e10 : Z; s_vmTZ : bool; s_vrTZ : bool }.

(* Steps 2 and 3.  Returns also acceptBounds. *)
Definition f2d_step3 (mant exp : N) : outcome (step3 * bool) :=
  let bias := Z.of_N c_bias64 in
  let mb := Z.of_N c_mantBits64 in
  let '(e2, m2) :=
    if exp =? 0 then (i32 (1 - bias - mb - 2), mant)
    else (i32 (i32_of_N exp - bias - mb - 2), N.lor (shl64 1 c_mantBits64) mant) in
  let even := N.land m2 1 =? 0 in
  let acceptBounds := even in
  let mv := u64 (4 * m2) in
  let mmShift := b2n (negb (mant =? 0) || (exp <=? 1)) in
  let mp := u64 (mv + 2) in
  let mm := sub64 (sub64 mv 1) mmShift in
  if (0 <=? e2)%Z then
    do l <- log10Pow2 e2;
    let q := sub32 l (b2n (c_e2_pos_cut <? e2)%Z) in
    let e10 := i32_of_N q in
    do pb <- pow5Bits (i32_of_N q);
    let k := i32 (i32 (Z.of_N c_pow5InvNumBits64 + pb) - 1) in
    let i := i32 (i32 (i32 (- e2) + i32_of_N q) + k) in
    do mul <- idxN g_pow5InvSplit64 q;
    do vr <- mulShift64 mv mul i;
    do vp <- mulShift64 mp mul i;
    do vm <- mulShift64 mm mul i;
    if q <=? c_q_pos_small then
      if mv mod 5 =? 0 then
        do t <- multipleOfPowerOfFive64 mv q;
        Ok ({| s_vr := vr; s_vp := vp; s_vm := vm; s_e10 := e10; s_vmTZ := false; s_vrTZ := t |}, acceptBounds)
      else if acceptBounds then
        do t <- multipleOfPowerOfFive64 mm q;
        Ok ({| s_vr := vr; s_vp := vp; s_vm := vm; s_e10 := e10; s_vmTZ := t; s_vrTZ := false |}, acceptBounds)
      else
        do t <- multipleOfPowerOfFive64 mp q;
        Ok ({| s_vr := vr; s_vp := if t then sub64 vp 1 else vp; s_vm := vm; s_e10 := e10;
               s_vmTZ := false; s_vrTZ := false |}, acceptBounds)
    else
      Ok ({| s_vr := vr; s_vp := vp; s_vm := vm; s_e10 := e10; s_vmTZ := false; s_vrTZ := false |}, acceptBounds)
  else
    let ne2 := i32 (- e2) in
    do l <- log10Pow5 ne2;
    let q := sub32 l (b2n (c_e2_neg_cut <? ne2)%Z) in
    let e10 := i32 (i32_of_N q + e2) in
    let i := i32 (ne2 - i32_of_N q) in
    do pb <- pow5Bits i;
    let k := i32 (pb - Z.of_N c_pow5NumBits64) in
    let j := i32 (i32_of_N q - k) in
    do mul <- idxZ g_pow5Split64 i;
    do vr <- mulShift64 mv mul j;
    do vp <- mulShift64 mp mul j;
    do vm <- mulShift64 mm mul j;
    if q <=? c_q_neg_small then
      if acceptBounds then
        Ok ({| s_vr := vr; s_vp := vp; s_vm := vm; s_e10 := e10; s_vmTZ := (mmShift =? 1); s_vrTZ := true |},
            acceptBounds)
      else
        Ok ({| s_vr := vr; s_vp := sub64 vp 1; s_vm := vm; s_e10 := e10; s_vmTZ := false; s_vrTZ := true |},
            acceptBounds)
    else if q <? c_q_neg_max then
      Ok ({| s_vr := vr; s_vp := vp; s_vm := vm; s_e10 := e10; s_vmTZ := false;
             s_vrTZ := multipleOfPowerOfTwo64 mv (sub32 q 1) |}, acceptBounds)
    else
      Ok ({| s_vr := vr; s_vp := vp; s_vm := vm; s_e10 := e10; s_vmTZ := false; s_vrTZ := false |}, acceptBounds).

(* Step 4, general case, first loop:
     for { vpDiv10 := vp / 10; vmDiv10 := vm / 10; if vpDiv10 <= vmDiv10 { break } ... removed++ } *)
Record gstate := { g_vr : N; g_vp : N; g_vm : N; g_vmTZ : bool; g_vrTZ : bool; g_last : N; g_removed : Z }.

Fixpoint gen_loop1 (fuel : nat) (s : gstate) : outcome gstate :=
  match fuel with
  | O => Panic
  | S f =>
      let vpDiv10 := g_vp s / 10 in
      let vmDiv10 := g_vm s / 10 in
      if vpDiv10 <=? vmDiv10 then Ok s
      else gen_loop1 f {| g_vr := g_vr s / 10; g_vp := vpDiv10; g_vm := vmDiv10;
                          g_vmTZ := g_vmTZ s && (g_vm s mod 10 =? 0);
                          g_vrTZ := g_vrTZ s && (g_last s =? 0);
                          g_last := u8 (g_vr s mod 10);
                          g_removed := i32 (g_removed s + 1) |}
  end.

(* second loop: for { vmDiv10 := vm / 10; vmMod10 := vm % 10; if vmMod10 != 0 { break } ... removed++ }
   (does not terminate for vm = 0) *)
Fixpoint gen_loop2 (fuel : nat) (s : gstate) : outcome gstate :=
  match fuel with
  | O => Panic
  | S f =>
      if negb (g_vm s mod 10 =? 0) then Ok s
      else gen_loop2 f {| g_vr := g_vr s / 10; g_vp := g_vp s / 10; g_vm := g_vm s / 10;
                          g_vmTZ := g_vmTZ s;
                          g_vrTZ := g_vrTZ s && (g_last s =? 0);
                          g_last := u8 (g_vr s mod 10);
                          g_removed := i32 (g_removed s + 1) |}
  end.

(* common case: for vp/100 > vm/100 { roundUp = vr%100 >= 50; vr /= 100; vp /= 100; vm /= 100; removed += 2 } *)
Record cstate := { c_vr : N; c_vp : N; c_vm : N; c_roundUp : bool; c_removed : Z }.

Fixpoint com_loop100 (fuel : nat) (s : cstate) : outcome cstate :=
  match fuel with
  | O => Panic
  | S f =>
      if c_vm s / 100 <? c_vp s / 100 then
        com_loop100 f {| c_vr := c_vr s / 100; c_vp := c_vp s / 100; c_vm := c_vm s / 100;
                         c_roundUp := 50 <=? c_vr s mod 100; c_removed := i32 (c_removed s + 2) |}
      else Ok s
  end.

(* for vp/10 > vm/10 { roundUp = vr%10 >= 5; vr /= 10; vp /= 10; vm /= 10; removed++ } *)
Fixpoint com_loop10 (fuel : nat) (s : cstate) : outcome cstate :=
  match fuel with
  | O => Panic
  | S f =>
      if c_vm s / 10 <? c_vp s / 10 then
        com_loop10 f {| c_vr := c_vr s / 10; c_vp := c_vp s / 10; c_vm := c_vm s / 10;
                        c_roundUp := 5 <=? c_vr s mod 10; c_removed := i32 (c_removed s + 1) |}
      else Ok s
  end.

(* fuel: every iteration divides vp < 2^64 by at least 10 and the loops stop at vp = 0 (first loops) *)
Definition loop_fuel : nat := 24.

Definition f2d_step4 (st : step3) (acceptBounds : bool) : outcome (N * Z) :=
  if s_vmTZ st || s_vrTZ st then
    do s1 <- gen_loop1 loop_fuel {| g_vr := s_vr st; g_vp := s_vp st; g_vm := s_vm st;
                                    g_vmTZ := s_vmTZ st; g_vrTZ := s_vrTZ st; g_last := 0; g_removed := 0%Z |};
    do s2 <- (if g_vmTZ s1 then gen_loop2 loop_fuel s1 else Ok s1);
    let last := if g_vrTZ s2 && (g_last s2 =? 5) && (g_vr s2 mod 2 =? 0) then 4 else g_last s2 in
    let out := if ((g_vr s2 =? g_vm s2) && (negb acceptBounds || negb (g_vmTZ s2))) || (5 <=? last)
               then u64 (g_vr s2 + 1) else g_vr s2 in
    Ok (out, i32 (s_e10 st + g_removed s2))
  else
    do s1 <- com_loop100 loop_fuel {| c_vr := s_vr st; c_vp := s_vp st; c_vm := s_vm st;
                                      c_roundUp := false; c_removed := 0%Z |};
    do s2 <- com_loop10 loop_fuel s1;
    let out := u64 (c_vr s2 + b2n ((c_vr s2 =? c_vm s2) || c_roundUp s2)) in
    Ok (out, i32 (s_e10 st + c_removed s2)).

Definition float64ToDecimal (mant exp : N) : outcome (N * Z) :=
  do r <- f2d_step3 mant exp;
  f2d_step4 (fst r) (snd r).

(* ------------------------------------------------------------------ buffers *)

(* A Go []byte: the visible contents and the bytes of the spare capacity (stale garbage, cap - len of them).
   [g n] is what the runtime leaves in the spare capacity when append has to reallocate to length n
   (its length is the new cap - len).  No result may depend on it; the theorems quantify over g. *)
Record buf := { bdata : bytes; bspare : bytes }.

Definition go_append (g : nat -> bytes) (b : buf) (xs : bytes) : buf :=
  if (length xs <=? length (bspare b))%nat
  then {| bdata := bdata b ++ xs; bspare := skipn (length xs) (bspare b) |}
  else {| bdata := bdata b ++ xs; bspare := g (length (bdata b) + length xs)%nat |}.

(* func sizeSlice(b []byte, bufLen int) []byte {
     if cap(b)-len(b) >= bufLen { return b[:len(b)+bufLen] }     <- stale bytes become visible
     return append(b, make([]byte, bufLen)...) } *)
Definition sizeSlice (g : nat -> bytes) (b : buf) (bufLen : Z) : outcome buf :=
  if (bufLen <? 0)%Z then
    (* b[:len(b)+bufLen] with a negative bufLen: shrinks, or panics below 0 (no call site does this) *)
    let nl := (Z.of_nat (length (bdata b)) + bufLen)%Z in
    if (nl <? 0)%Z then Panic
    else Ok {| bdata := firstn (Z.to_nat nl) (bdata b);
               bspare := skipn (Z.to_nat nl) (bdata b) ++ bspare b |}
  else
    let k := Z.to_nat bufLen in
    if (k <=? length (bspare b))%nat
    then Ok {| bdata := bdata b ++ firstn k (bspare b); bspare := skipn k (bspare b) |}
    else Ok (go_append g b (repeat 0 k)).

(* b[i] = v with a Go int index; one pass: None when i is outside the slice *)
Fixpoint set_nth_opt (l : bytes) (i : nat) (v : N) : option bytes :=
  match l, i with
  | [], _ => None
  | _ :: xs, O => Some (v :: xs)
  | x :: xs, S i' => match set_nth_opt xs i' v with Some r => Some (x :: r) | None => None end
  end.
Definition bset (d : bytes) (i : Z) (v : N) : outcome bytes :=
  if (i <? 0)%Z then Panic else of_option (set_nth_opt d (Z.to_nat i) v).

(* k iterations of { b[i] = '0'; i++ } *)
Fixpoint write_zeros (d : bytes) (i : Z) (k : nat) : outcome bytes :=
  match k with
  | O => Ok d
  | S k' => do d' <- bset d i ch_0; write_zeros d' (i + 1) k'
  end.

(* k iterations of { b[i] = '0' + byte(out%10); out /= 10; i-- }; returns the slice, out and i *)
Fixpoint write_digits (d : bytes) (i : Z) (out : N) (k : nat) : outcome (bytes * N * Z) :=
  match k with
  | O => Ok (d, out, i)
  | S k' => do d' <- bset d i (u8 (ch_0 + u8 (out mod 10))); write_digits d' (i - 1) (out / 10) k'
  end.

Definition with_data (b : buf) (d : bytes) : buf := {| bdata := d; bspare := bspare b |}.

(* func (d dec64) appendF(b []byte, neg bool) []byte   — the three layouts.  The counted loops
     for i := n; i < dE+n; i++            run max(dE,0) times,
     for i := n+outLen-1; i >= n; i--     run max(outLen,0) times,
     for ; ePos > 0; i--  (ePos--)        run ePos times,
     for ; i >= end; i--                  run max(i-end+1,0) times. *)
Definition appendF (g : nat -> bytes) (b : buf) (m : N) (e : Z) (neg : bool) : outcome buf :=
  let b := if neg then go_append g b [ch_minus] else b in
  do outLen <- decimalLen64 m;
  let dE := e in
  if (0 <=? dE)%Z then
    let n := Z.of_nat (length (bdata b)) in
    do b1 <- sizeSlice g b (dE + outLen);
    do d1 <- write_zeros (bdata b1) (outLen + n) (Z.to_nat dE);
    do r <- write_digits d1 (n + outLen - 1) m (Z.to_nat outLen);
    Ok (with_data b1 (fst (fst r)))
  else
    let ePos := (- dE)%Z in
    if (outLen <=? ePos)%Z then
      let b0 := go_append g b [ch_0; ch_dot] in
      let n := Z.of_nat (length (bdata b0)) in
      do b1 <- sizeSlice g b0 ePos;
      do r <- write_digits (bdata b1) (n + ePos - 1) m (Z.to_nat ePos);
      Ok (with_data b1 (fst (fst r)))
    else
      do b1 <- sizeSlice g b (outLen + 1);
      let n := Z.of_nat (length (bdata b1)) in
      let i := (n - 1)%Z in
      let end_ := (i - outLen)%Z in
      do r1 <- write_digits (bdata b1) i m (Z.to_nat ePos);
      let '(d1, out1, i1) := r1 in
      do d2 <- bset d1 i1 ch_dot;
      let i2 := (i1 - 1)%Z in
      do r2 <- write_digits d2 i2 out1 (Z.to_nat (i2 - end_ + 1));
      Ok (with_data b1 (fst (fst r2))).

(* func appendSpecialf(b []byte, neg, expZero, mantZero bool) []byte *)
Definition appendSpecialf (g : nat -> bytes) (b : buf) (neg expZero mantZero : bool) : buf :=
  if negb mantZero then go_append g b s_NaN
  else if negb expZero then (if neg then go_append g b s_mInf else go_append g b s_pInf)
  else
    let b := if neg then go_append g b [ch_minus] else b in
    go_append g b [ch_0].

(* func AppendFloat64f(b []byte, f float64) []byte     (f given by its bit pattern) *)
Definition AppendFloat64f (g : nat -> bytes) (b : buf) (bits : N) : outcome buf :=
  let u := bits in
  let neg := negb (shr64 u (c_mantBits64 + c_expBits64) =? 0) in
  let mant := N.land u (sub64 (shl64 1 c_mantBits64) 1) in
  let expMask := sub64 (shl64 1 c_expBits64) 1 in
  let exp := N.land (shr64 u c_mantBits64) expMask in
  if (exp =? expMask) || ((exp =? 0) && (mant =? 0)) then
    Ok (appendSpecialf g b neg (exp =? 0) (mant =? 0))
  else
    do r <- float64ToDecimalExactInt mant exp;
    do d <- match r with Some d => Ok d | None => float64ToDecimal mant exp end;
    appendF g b (fst d) (snd d) neg.

(* ================================================================== specification level *)

(* decimal digits *)
Fixpoint lowdigits (n : nat) (m : N) : bytes :=   (* the n low decimal digits of m, most significant first *)
  match n with
  | O => []
  | S n' => lowdigits n' (m / 10) ++ [48 + m mod 10]
  end.

Fixpoint ndig_aux (fuel : nat) (m : N) : nat :=
  match fuel with
  | O => 1%nat
  | S f => if m <? 10 then 1%nat else S (ndig_aux f (m / 10))
  end.
(* number of decimal digits (1 for 0); the bit length bounds it *)
Definition ndig (m : N) : nat := ndig_aux (N.to_nat (N.size m)) m.
Definition digits (m : N) : bytes := lowdigits (ndig m) m.

(* the 'f' layout of m * 10^e (m > 0): XYZ000 | 0.000XYZ | X.YZ *)
Definition positional (m : N) (e : Z) : bytes :=
  let ds := digits m in
  let n := Z.of_nat (length ds) in
  if (0 <=? e)%Z then ds ++ repeat 48 (Z.to_nat e)
  else if (n <=? - e)%Z then [48; 46] ++ repeat 48 (Z.to_nat (- e - n)) ++ ds
  else firstn (Z.to_nat (n + e)) ds ++ [46] ++ skipn (Z.to_nat (n + e)) ds.

Definition render_f (neg : bool) (m : N) (e : Z) : bytes :=
  (if neg then [45] else []) ++ positional m e.

(* reading a positional decimal: (all digits as one number, number of digits after the point) *)
Fixpoint parse_digits (l : bytes) (acc : N) (cnt : Z) : option (N * Z * bytes) :=
  match l with
  | c :: r => if (48 <=? c) && (c <=? 57) then parse_digits r (10 * acc + (c - 48)) (cnt + 1)%Z
              else Some (acc, cnt, l)
  | [] => Some (acc, cnt, [])
  end.

Definition dec_parse (l : bytes) : option (N * Z) :=
  match parse_digits l 0 0%Z with
  | Some (ip, ci, rest) =>
      if (ci =? 0)%Z then None else
      match rest with
      | [] => Some (ip, 0%Z)
      | c :: r =>
          if c =? 46 then
            match parse_digits r ip 0%Z with
            | Some (all, cf, []) => if (cf =? 0)%Z then None else Some (all, cf)
            | _ => None
            end
          else None
      end
  | None => None
  end.

(* text -> (neg, m, e) with m free of trailing zeros; the zeros are stripped on the text (a 300 digit
   number is never built).  Only used by the engine's oracle, which re-renders (m, e) and compares. *)
Definition is_digit (c : N) : bool := (48 <=? c) && (c <=? 57).
Fixpoint span_digits (l : bytes) : bytes * bytes :=
  match l with
  | c :: r => if is_digit c then let '(a, b) := span_digits r in (c :: a, b) else ([], l)
  | [] => ([], [])
  end.
Fixpoint drop_zeros (l : bytes) (cnt : Z) : bytes * Z :=
  match l with
  | c :: r => if c =? 48 then drop_zeros r (cnt + 1)%Z else (l, cnt)
  | [] => ([], cnt)
  end.
Definition digits_value (l : bytes) : N := fold_left (fun acc c => 10 * acc + (c - 48)) l 0.

Definition parse_f (l : bytes) : option (bool * N * Z) :=
  let '(neg, body) := match l with
                      | c :: r => if c =? 45 then (true, r) else (false, l)
                      | [] => (false, l)
                      end in
  let '(ip, rest) := span_digits body in
  match ip with
  | [] => None
  | _ :: _ =>
      let ofp := match rest with
                 | [] => Some []
                 | c :: r => if c =? 46 then
                               let '(fp, rest2) := span_digits r in
                               match fp, rest2 with
                               | _ :: _, [] => Some fp
                               | _, _ => None
                               end
                             else None
                 end in
      match ofp with
      | None => None
      | Some fp =>
          let '(rev_sig, z) := drop_zeros (rev (ip ++ fp)) 0%Z in
          Some (neg, digits_value (rev rev_sig), (z - Z.of_nat (length fp))%Z)
      end
  end.

(* ------------------------------------------------------------------ the certificate checker *)

(* Decoding of a finite non-zero float64 at specification level: value = m2 * 2^(e2+2); the rounding
   interval is [ (4 m2 - lowgap) * 2^e2 , (4 m2 + 2) * 2^e2 ], bounds included iff m2 is even; lowgap is 1
   at a power of two above the smallest normal binade (the lower neighbour is twice as close), else 2. *)
Record fdec := { f_m2 : N; f_e2 : Z; f_lowgap : N }.

Definition decode_float (bits : N) : option fdec :=
  let mant := bits mod 4503599627370496 in           (* 2^52 *)
  let exp := (bits / 4503599627370496) mod 2048 in
  if (exp =? 2047) || ((exp =? 0) && (mant =? 0)) then None
  else Some {| f_m2 := if exp =? 0 then mant else 4503599627370496 + mant;
               f_e2 := (Z.of_N (if (exp =? 0)%N then 1%N else exp) - 1023 - 52 - 2)%Z;
               f_lowgap := if (mant =? 0) && (1 <? exp) then 1 else 2 |}.

(* 5^k through a table computed once (the default branch keeps the function total and equal to 5^k) *)
Definition pow5_tab : list N := Eval vm_compute in (map (fun i => 5 ^ N.of_nat i) (seq 0 360)).
Definition pow5N (k : N) : N :=
  match nth_error pow5_tab (N.to_nat k) with Some p => p | None => 5 ^ k end.

(* Common integer scale.  m * 10^k = m * 5^k * 2^k and x * 2^e2 are compared after multiplying both by
   5^max(-k,0) * 2^max(e2-k,0) / 2^min(...): with s = k - e2,
     scale_dec y = y * 5^max(k,0)  * 2^max(s,0)      (the image of y * 10^k)
     scale_flt x = x * 5^max(-k,0) * 2^max(-s,0)     (the image of x * 2^e2)
   (Z.to_N of a negative number is 0). *)
Definition scale_dec (k e2 : Z) (y : N) : N := N.shiftl (y * pow5N (Z.to_N k)) (Z.to_N (k - e2)).
Definition scale_flt (k e2 : Z) (x : N) : N := N.shiftl (x * pow5N (Z.to_N (- k))) (Z.to_N (e2 - k)).

Definition in_interval (even : bool) (lo hi x : N) : bool :=
  if even then (lo <=? x) && (x <=? hi) else (lo <? x) && (x <? hi).

Definition ndist (a b : N) : N := if a <? b then b - a else a - b.

(* shortest_b bits m k = true certifies: m * 10^k lies in the rounding interval of the float, no multiple of
   10^(k+1) does (hence no decimal with fewer digits), and neither neighbour (m-1) * 10^k, (m+1) * 10^k is
   an admissible candidate that is closer to the exact value (equally close: m must be even). *)
Definition shortest_b (bits : N) (m : N) (k : Z) : bool :=
  match decode_float bits with
  | None => false
  | Some f =>
      let e2 := f_e2 f in
      let ud := scale_dec k e2 1 in
      let uf := scale_flt k e2 1 in
      let even := N.even (f_m2 f) in
      let v := scale_flt k e2 (4 * f_m2 f) in
      let lo := v - f_lowgap f * uf in
      let hi := v + 2 * uf in
      let inI := in_interval even lo hi in
      let d := scale_dec k e2 m in
      let t0 := d - (m mod 10) * ud in          (* 10 * (m / 10) * 10^k *)
      let t1 := t0 + 10 * ud in                 (* 10 * (m / 10 + 1) * 10^k *)
      let better c := negb (inI c) || (ndist d v <? ndist c v) || ((ndist d v =? ndist c v) && N.even m) in
      (0 <? m) && inI d && negb (inI t0) && negb (inI t1) && better (d - ud) && better (d + ud)
  end.

(* what the property demands of the text written for the bit pattern [bits] (NaN excluded by the caller) *)
Definition oracle_f (bits : N) (text : bytes) : bool :=
  let mant := bits mod 4503599627370496 in
  let exp := (bits / 4503599627370496) mod 2048 in
  let neg := 9223372036854775808 <=? bits in
  if exp =? 2047 then
    (mant =? 0) && bytes_eqb text (if neg then s_mInf else s_pInf)
  else if (exp =? 0) && (mant =? 0) then
    bytes_eqb text (if neg then [45; 48] else [48])
  else
    match parse_f text with
    | Some (neg', m, e) =>
        Bool.eqb neg neg' && bytes_eqb text (render_f neg m e) && shortest_b bits m e
    | None => false
    end.
