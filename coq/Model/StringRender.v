(* Model/StringRender.v — QFrame.String() (qframe.go:661-701) with fixLengthString (qframe.go:642-654) and the
   per-column StringAt(i, "null") of the five column types (internal/*column/column.go), at L0: the physical
   frame is read through the row index, position by position, as the Go loop does.
   Executable definitions only; the lemmas are in Proofs/StringRenderProofs.v.

   Two layers are defined here and proved equal there:
     frame_string_lines / frame_string : the code, on the physical frame (what an engine would execute);
     tstring_lines                     : the statement of C09, on the logical table (names, types, rows).
   strconv.FormatFloat(x, 'f', -1, 64) is a parameter (oracle), as in Model/Observe.v. *)
From QF Require Import Base.Prelude Model.CsvSpec Model.CsvWrite.
(* Model.Frame last: [frame], [col_len], [frame_len] mean the physical frame *)
From QF Require Import Model.Frame.
Local Open Scope nat_scope.

(* ------------------------------------------------------------------ literals of qframe.go String / fixLengthString *)
(* TODO-GEN qframe.go, String: minColWidth := 5, maxRowCount := 50, "... printout truncated ...", "\nDims = %d x %d",
   the naRep "null", the separators " " and "\n", the pads " " and "-"; fixLengthString: "..." and the 3 *)
Definition c_minColWidth : nat := 5.
Definition c_maxRowCount : nat := 50.
Definition str_truncated : bytes := bs 26 0x2e2e2e207072696e746f7574207472756e6361746564202e2e2e.
Definition str_dims : bytes := bs 7 0x44696d73203d20.           (* "Dims = " *)
Definition str_x : bytes := bs 3 0x207820.                      (* " x " *)
Definition str_na : bytes := bs 4 0x6e756c6c.                   (* "null" *)
Definition str_dots : bytes := bs 3 0x2e2e2e.                   (* "..." *)
Definition c_space : N := 32%N.
Definition c_dash : N := 45%N.
Definition c_nl : N := 10%N.
Definition c_lparen : N := 40%N.
Definition c_rparen : N := 41%N.

(* string(s.DataType())[:1] : types.Int = "int", Float = "float", Bool = "bool", String = "string", Enum = "enum" *)
(* TODO-GEN types/types.go: the first letters of the five DataType constants *)
Definition type_letter (t : ctype) : N :=
  match t with TInt => 105 | TFloat => 102 | TBool => 98 | TString => 115 | TEnum => 101 end%N.

(* strings.Join *)
Fixpoint join (sep : bytes) (l : list bytes) : bytes :=
  match l with
  | [] => []
  | [x] => x
  | x :: rest => x ++ sep ++ join sep rest
  end.

(* func fixLengthString(s string, pad string, desiredLen int) string, pad a one-byte string:
     if len(s) > desiredLen { return s[:desiredLen-3] + "..." }      -- a negative slice bound panics
     padCount := desiredLen - len(s); if padCount > 0 { return strings.Repeat(pad, padCount) + s }; return s *)
Definition fix_length (s : bytes) (pad : N) (n : nat) : outcome bytes :=
  if n <? length s then
    if n <? 3 then Panic else Ok (firstn (n - 3) s ++ str_dots)
  else Ok (repeat pad (n - length s) ++ s).

(* the same as a total function, for desiredLen >= 3 (what the statement of C09 talks about) *)
Definition fix_len (s : bytes) (pad : N) (n : nat) : bytes :=
  if n <? length s then firstn (n - 3) s ++ str_dots else repeat pad (n - length s) ++ s.

Section StringRender.
Variable format_float : N -> bytes.    (* strconv.FormatFloat(x, 'f', -1, 64) on the bit pattern *)

(* col.StringAt(i, naRep) as a function of the logical cell:
   icolumn FormatInt, fcolumn naRep for NaN else FormatFloat, bcolumn FormatBool, scolumn / ecolumn the string,
   naRep for null *)
Definition string_at (na : bytes) (c : cell) : bytes :=
  match c with
  | CInt z => itoa z
  | CFloat x => if is_nan_bits x then na else format_float x
  | CBool b => format_bool b
  | CStr s => match s with Some b => b | None => na end
  | CEnum s => match s with Some b => b | None => na end
  end.

(* colHeader := s.name + "(" + string(s.DataType())[:1] + ")" *)
Definition col_header (name : bytes) (t : ctype) : bytes := name ++ [c_lparen; type_letter t; c_rparen].
(* colWidths[i] = integer.Max(len(colHeader), minColWidth) *)
Definition col_width (name : bytes) (t : ctype) : nat := Nat.max (length (col_header name t)) c_minColWidth.

(* fmt.Sprintf("\nDims = %d x %d", len(qf.columns), qf.Len()) *)
Definition dims_line (ncols nrows : nat) : bytes :=
  c_nl :: str_dims ++ itoa (Z.of_nat ncols) ++ str_x ++ itoa (Z.of_nat nrows).

(* ------------------------------------------------------------------ the code, on the physical frame *)

(* one pass of `for j, s := range qf.columns { row[j] = fixLengthString(s.StringAt(qf.index[i], "null"), " ", colWidths[j]) }` *)
Definition phys_row (f : frame) (p : nat) : outcome bytes :=
  do fields <- omap (fun nc => do x <- cell_at (snd nc) p;
                               fix_length (string_at str_na x) c_space (col_width (fst nc) (col_type (snd nc))))
                    (cols f);
  Ok (join [c_space] fields).

(* the elements of `result` in order; Fail = the frame has Err (String returns the error text, which the models
   never compare) *)
Definition frame_string_lines (f : frame) : outcome (list bytes) :=
  if ferr f then Fail
  else
    do header <- omap (fun nc => let t := col_type (snd nc) in
                                 fix_length (col_header (fst nc) t) c_space (col_width (fst nc) t)) (cols f);
    do dashes <- omap (fun nc => fix_length [] c_dash (col_width (fst nc) (col_type (snd nc)))) (cols f);
    (* for i := 0; i < integer.Min(qf.Len(), maxRowCount); i++ : qf.index[i] *)
    do rows <- omap (phys_row f) (firstn c_maxRowCount (ix f));
    Ok (join [c_space] header :: join [c_space] dashes :: rows
        ++ (if c_maxRowCount <? length (ix f) then [str_truncated] else [])
        ++ [dims_line (length (cols f)) (length (ix f))]).

(* strings.Join(result, "\n") *)
Definition frame_string (f : frame) : outcome bytes :=
  do lines <- frame_string_lines f; Ok (join [c_nl] lines).

(* ------------------------------------------------------------------ the statement, on the logical table *)

Definition twidths (t : table) : list nat := map (fun nt => col_width (fst nt) (snd nt)) (combine (tnames t) (ttypes t)).

(* a row of the table as printed: every cell rendered by StringAt(_, "null"), cut / right-aligned to its column *)
Definition print_row (widths : list nat) (row : list cell) : bytes :=
  join [c_space] (map (fun cw => fix_len (string_at str_na (fst cw)) c_space (snd cw)) (combine row widths)).

Definition theader (t : table) : bytes :=
  join [c_space] (map (fun nt => fix_len (col_header (fst nt) (snd nt)) c_space (col_width (fst nt) (snd nt)))
                      (combine (tnames t) (ttypes t))).
Definition tdashes (t : table) : bytes := join [c_space] (map (fun w => repeat c_dash w) (twidths t)).

Definition tstring_lines (t : table) : list bytes :=
  theader t :: tdashes t :: map (print_row (twidths t)) (firstn c_maxRowCount (trows t))
  ++ (if c_maxRowCount <? length (trows t) then [str_truncated] else [])
  ++ [dims_line (length (tnames t)) (length (trows t))].

Definition tstring (t : table) : bytes := join [c_nl] (tstring_lines t).

End StringRender.

(* ------------------------------------------------------------------ what an engine would evaluate per case:
   the dumped physical frame, the recorded FormatFloat results of the float cells that are printed, the string
   String() returned.  0 agree; 1 model differs; 2 the returned text is not the printed table of abs f (property
   oracle); 3 the model faulted *)
Definition float_table := list (N * bytes).
Definition ff_of (tbl : float_table) (x : N) : bytes :=
  match find (fun e => N.eqb (fst e) x) tbl with Some e => snd e | None => [] end.

Definition check_string (tbl : float_table) (f : frame) (out : bytes) : N :=
  match abs f with
  | Ok t =>
      if negb (bytes_eqb (tstring (ff_of tbl) t) out) then 2%N
      else match frame_string (ff_of tbl) f with
           | Ok s => if bytes_eqb s out then 0%N else 1%N
           | _ => 3%N
           end
  | _ => 3%N
  end.
