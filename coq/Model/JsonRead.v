(* Model/JsonRead.v — the cell renderers of ToJSON (col.AppendByteStringAt of the five column types) put
   together with the record assembly of Model/Json.v into ToJSON of a frame; the value of a JSON number
   token (specification side); and qframe.ReadJSON: encoding/json's decoding of the records into
   []map[string]interface{} over the value tree of the Coq JSON reader (Model/Json.v parse_doc),
   /repo/internal/io/json.go jsonRecordsToData / fillFloats / fillBools / fillStrings, then qframe.New
   (Model/Ops.v new_frame).  Executable definitions only; lemmas are in Proofs/JsonDocProofs.v. *)
From QF Require Import Base.Prelude Gen.GenConsts Model.Utf8 Model.Json Model.Ryu Model.Frame Model.Filter Model.Ops.
From QF Require Model.CsvWrite.
Local Open Scope N_scope.

(* ================================================================== ToJSON of a frame *)

(* TODO-GEN internal/fcolumn, scolumn, ecolumn column.go, AppendByteStringAt: the literal "null" *)
Definition s_null : bytes := bs 4 0x6E756C6C.

(* ryu.AppendFloat64f(buf, value): the appended text (Proofs/RyuNoPanic.v AppendFloat64f_total: for every
   buffer the old contents are kept and the appended text is this one) *)
Definition float_text (bits : N) : outcome bytes :=
  do r <- AppendFloat64f (fun _ => []) {| bdata := []; bspare := [] |} bits; Ok (bdata r).

(* col.AppendByteStringAt(buf, i), the appended text, by column type:
     icolumn: strconv.AppendInt(buf, int64(v), 10)          (Model/CsvWrite.v itoa = strconv.FormatInt)
     fcolumn: math.IsNaN(v) -> "null", else ryu.AppendFloat64f
     bcolumn: strconv.AppendBool
     scolumn / ecolumn: null -> "null", else AppendQuotedString *)
Definition cell_json (c : cell) : outcome bytes :=
  match c with
  | CInt z => Ok (CsvWrite.itoa z)
  | CFloat b => if f_isnan b then Ok s_null else float_text b
  | CBool b => Ok (CsvWrite.format_bool b)
  | CStr None | CEnum None => Ok s_null
  | CStr (Some s) | CEnum (Some s) => append_quoted_string [] s
  end.

(* func (qf QFrame) ToJSON(writer) for a writer that never fails: the bytes written.
   for i, ix := range qf.index { for j, col := range qf.columns { col.AppendByteStringAt(jsonBuf, ix) } } *)
Definition frame_to_json (f : frame) : outcome bytes :=
  if ferr f then Fail
  else
    do t <- abs f;
    do rows <- omap (omap cell_json) (trows t);
    to_json (tnames t) rows.

(* ================================================================== specification: the value of a number

   RFC 8259 section 6: number = [ minus ] int [ frac ] [ exp ].  [jnum_value s] = Some (neg, m, e):
   the token is accepted by the grammar (json_number) and denotes (-1)^neg * m * 10^e, where m is the
   number written by the digits of int and frac together and e = exp - (number of frac digits).  The sign
   is kept separately (the token -0 is (true, 0, 0)). *)

(* the exponent part: empty, or e / E, optional sign, digits *)
Definition jnum_exp (s : bytes) : Z :=
  match s with
  | [] => 0%Z
  | _ :: t =>
      let nd := match t with
                | c :: r => if c =? 0x2D then (true, r) else if c =? 0x2B then (false, r) else (false, t)
                | [] => (false, t)
                end in
      match parse_digits (snd nd) 0 0%Z with
      | Some (v, _, _) => if fst nd then (- Z.of_N v)%Z else Z.of_N v
      | None => 0%Z
      end
  end.

Definition strip_sign (s : bytes) : bool * bytes :=
  match s with
  | c :: t => if c =? 0x2D then (true, t) else (false, s)
  | [] => (false, s)
  end.

Definition jnum_value (s : bytes) : option (bool * N * Z) :=
  if negb (json_number s) then None
  else
    let sb := strip_sign s in
    match parse_digits (snd sb) 0 0%Z with
    | Some (ip, _, rest) =>
        match rest with
        | c :: r =>
            if c =? 0x2E then
              match parse_digits r ip 0%Z with
              | Some (all, cf, rest2) => Some (fst sb, all, (jnum_exp rest2 - cf)%Z)
              | None => None
              end
            else Some (fst sb, ip, jnum_exp rest)
        | [] => Some (fst sb, ip, 0%Z)
        end
    | None => None
    end.

(* the decoded value tree: what a token denotes *)
Inductive jval :=
| VNull
| VBool (b : bool)
| VNum (neg : bool) (m : N) (e : Z)       (* (-1)^neg * m * 10^e *)
| VStr (cps : list N).

Definition token_value (t : jtoken) : option jval :=
  match t with
  | JNull => Some VNull
  | JBool b => Some (VBool b)
  | JNum text => match jnum_value text with Some (neg, m, e) => Some (VNum neg m e) | None => None end
  | JStr cps => Some (VStr cps)
  end.

Fixpoint opt_map {A B} (f : A -> option B) (l : list A) : option (list B) :=
  match l with
  | [] => Some []
  | x :: xs => match f x, opt_map f xs with Some y, Some ys => Some (y :: ys) | _, _ => None end
  end.

Definition member_value (m : jmember) : option (list N * jval) :=
  match token_value (snd m) with Some v => Some (fst m, v) | None => None end.

(* the document as a value tree: one object (key, value list) per record *)
Definition decode_doc (s : bytes) : option (list (list (list N * jval))) :=
  match parse_doc s with
  | Some objs => opt_map (opt_map member_value) objs
  | None => None
  end.

(* what the cells of a frame are required to denote.  A finite non-zero float is written by Ryu as the
   decimal m * 10^e computed by float64ToDecimalExactInt / float64ToDecimal; the positional text has the
   exponent min(e, 0): its digits are m followed by e zeros when e > 0. *)
Definition float_fields (bits : N) : bool * N * N :=      (* sign, biased exponent, mantissa *)
  (negb (bits / 2 ^ 63 =? 0), (bits / 2 ^ 52) mod 2048, bits mod 2 ^ 52).

Definition float_decimal (bits : N) : outcome (N * Z) :=
  let '(_, exp, mant) := float_fields bits in
  if (exp =? 0) && (mant =? 0) then Ok (0, 0%Z)
  else
    do r <- float64ToDecimalExactInt mant exp;
    match r with Some d => Ok d | None => float64ToDecimal mant exp end.

Definition f_isinf (b : N) : bool := N.land b f_abs_mask =? f_inf_bits.

Definition cell_value (c : cell) : outcome jval :=
  match c with
  | CInt z => Ok (VNum (z <? 0)%Z (Z.abs_N z) 0%Z)
  | CFloat b =>
      if f_isnan b then Ok VNull
      else
        do d <- float_decimal b;
        let '(m, e) := d in
        Ok (VNum (fst (fst (float_fields b))) (m * 10 ^ Z.to_N (e - Z.min e 0)) (Z.min e 0))
  | CBool b => Ok (VBool b)
  | CStr None | CEnum None => Ok VNull
  | CStr (Some s) | CEnum (Some s) => Ok (VStr (utf8_sanitize s))
  end.

(* ================================================================== ReadJSON *)

Section ReadJson.

(* strconv.ParseFloat(text, 64) on a number literal, as encoding/json's convertNumber calls it:
   the bit pattern, or None for a range error (the decoder then returns an UnmarshalTypeError) *)
Variable parse_float : bytes -> option N.

(* the interface{} values encoding/json produces for the tokens of a flat record.  (The case `int` of the
   type switches in internal/io/json.go can never be taken: every JSON number arrives as float64.) *)
Inductive gval :=
| GNil
| GBool (b : bool)
| GFloat (bits : N)
| GStr (s : bytes).

(* a Go string from the code points the reader found (literal characters are copied, escapes encoded) *)
Definition go_string (cps : list N) : bytes := utf8_encode (map Z.of_N cps).

Definition decode_value (t : jtoken) : outcome gval :=
  match t with
  | JNull => Ok GNil
  | JBool b => Ok (GBool b)
  | JNum text => match parse_float text with Some b => Ok (GFloat b) | None => Fail end
  | JStr cps => Ok (GStr (go_string cps))
  end.

(* map[string]interface{} : unique keys; m[k] = v overwrites.  The order of the entries (here: order of
   first insertion) is not observable through the functions below. *)
Definition grecord := list (bytes * gval).

Fixpoint map_set (k : bytes) (v : gval) (m : grecord) : grecord :=
  match m with
  | [] => [(k, v)]
  | (k', v') :: rest => if bytes_eqb k' k then (k', v) :: rest else (k', v') :: map_set k v rest
  end.

Definition map_get (k : bytes) (m : grecord) : option gval := assocb k m.

Definition decode_record (ms : list jmember) : outcome grecord :=
  ofold (fun m kv => do v <- decode_value (snd kv); Ok (map_set (go_string (fst kv)) v m)) ms [].

(* fillFloats / fillBools / fillStrings: record[colName] must be present and of the expected dynamic type *)
Definition fill {A} (proj : gval -> option A) (records : list grecord) (name : bytes) : outcome (list A) :=
  omap (fun r => match map_get name r with
                 | Some v => match proj v with Some a => Ok a | None => Fail end
                 | None => Fail
                 end) records.

Definition as_float (v : gval) : option N := match v with GFloat b => Some b | _ => None end.
Definition as_bool (v : gval) : option bool := match v with GBool b => Some b | _ => None end.
Definition as_strptr (v : gval) : option (option bytes) :=
  match v with GStr s => Some (Some s) | GNil => Some None | _ => None end.

(* func jsonRecordsToData(records JSONRecords): the column types are detected from the first record.
   The result map is returned as an association list with unique keys (the keys of records[0]). *)
Definition records_to_data (records : list grecord) : outcome (list (bytes * newdata)) :=
  match records with
  | [] => Ok []
  | r0 :: _ =>
      omap (fun kv =>
              let name := fst kv in
              match snd kv with
              | GFloat _ => do c <- fill as_float records name; Ok (name, DFloats c)
              | GBool _ => do c <- fill as_bool records name; Ok (name, DBools c)
              | GNil | GStr _ => do c <- fill as_strptr records name; Ok (name, DStrPtrs c)
              end) r0
  end.

Definition err_frame : frame := mkFrame [] [] true.

(* UnmarshalJSON + New on an already decoded array of records *)
Definition read_json_records (objs : list (list jmember)) (order : list bytes)
           (enums : list (bytes * list bytes)) : outcome frame :=
  match omap decode_record objs with
  | Ok records =>
      match records_to_data records with
      | Ok data => new_frame data order enums
      | Fail => Ok err_frame
      | Panic => Panic
      end
  | Fail => Ok err_frame                        (* decoder.Decode returned an error *)
  | Panic => Panic
  end.

(* func ReadJSON(reader, ColumnOrder(order...), Enums(enums)) on documents of the shape ToJSON writes
   (array of flat records, no white space).  Documents the Coq reader does not accept are outside the
   domain of this model (Fail). *)
Definition read_json (doc : bytes) (order : list bytes) (enums : list (bytes * list bytes)) : outcome frame :=
  match parse_doc doc with
  | Some objs => read_json_records objs order enums
  | None => Fail
  end.

End ReadJson.
