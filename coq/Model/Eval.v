(* Model/Eval.v — expression.go and QFrame.Eval: decoding of the dynamic argument tree (newExpr and its
   try-in-turn order, Expr's left fold), execution through temporary columns, removal of temporaries.
   Functions of the evaluation context are recorded tables (Model/Ops.v afn). *)
From QF Require Import Base.Prelude Model.Frame Model.Filter Model.Ops.
Local Open Scope N_scope.

(* decoded expressions (the Go types colExpr, constExpr, unaryExpr, colConstExpr, colColExpr, exprExpr1/2, errorExpr) *)
Inductive expr :=
| XCol (n : bytes)
| XConst (c : cell)
| XUnary (op : bytes) (col : bytes)
| XColConst (op : bytes) (col : bytes) (value : cell) (constFirst : bool)
| XColCol (op : bytes) (c1 c2 : bytes)
| XExpr1 (op : bytes) (e : expr)
| XExpr2 (op : bytes) (l r : expr)
| XError.

(* what a caller can pass to Val / Expr *)
Inductive earg :=
| EStr (s : bytes)                 (* a Go string: operation identifier or string constant *)
| EConst (c : cell)                (* int, float64, bool, string pointer (CStr None = nil pointer) *)
| ENil                             (* untyped nil: implicitly a nil string pointer *)
| EColName (n : bytes)             (* types.ColumnName *)
| EList (l : list earg)            (* []interface{} *)
| EBuilt (e : expr)                (* an Expression value (result of Expr / Val) *)
| EOther.                          (* anything else *)

Definition as_const (x : earg) : option cell :=
  match x with
  | EStr s => Some (CStr (Some s))
  | EConst c => Some c
  | ENil => Some (CStr None)
  | _ => None
  end.
Definition as_col (x : earg) : option bytes := match x with EColName n => Some n | _ => None end.
Definition as_op (x : earg) : option bytes := match x with EStr s => Some s | _ => None end.

Definition is_xerror (e : expr) : bool := match e with XError => true | _ => false end.

(* newExpr: Expression, column, constant, unary, column-constant (either order), column-column, nested *)
Fixpoint new_expr (x : earg) {struct x} : expr :=
  match x with
  | EBuilt e => e
  | EColName n => XCol n
  | EStr s => XConst (CStr (Some s))
  | EConst c => XConst c
  | ENil => XConst (CStr None)
  | EOther => XError
  | EList l =>
      match l with
      | [o; a] =>
          match as_op o, as_col a with
          | Some op, Some c => XUnary op c
          | _, _ =>
              match as_op o with
              | None => XError
              | Some op => let lhs := new_expr a in if is_xerror lhs then XError else XExpr1 op lhs
              end
          end
      | [o; a; b] =>
          (* newColConstExpr: first (col, const), else the flipped reading; all three must fit *)
          let cc :=
            match as_col a, as_const b with
            | Some c, Some k => Some (c, k, false)
            | _, _ => match as_col b, as_const a with
                      | Some c, Some k => Some (c, k, true)
                      | _, _ => None
                      end
            end in
          match as_op o, cc with
          | Some op, Some (c, k, flipped) => XColConst op c k flipped
          | _, _ =>
              match as_op o, as_col a, as_col b with
              | Some op, Some c1, Some c2 => XColCol op c1 c2
              | _, _, _ =>
                  match as_op o with
                  | None => XError
                  | Some op =>
                      let lhs := new_expr a in
                      if is_xerror lhs then XError
                      else let rhs := new_expr b in
                           if is_xerror rhs then XError else XExpr2 op lhs rhs
                  end
              end
          end
      | _ => XError
      end
  end.

(* Expr(name, args...): zero arguments is an error, more than two fold from the left *)
Definition expr_call (name : bytes) (args : list earg) : expr :=
  match args with
  | [] => XError
  | [a] => new_expr (EList [EStr name; a])
  | a :: b :: rest =>
      fold_left (fun acc x => new_expr (EList [EStr name; EBuilt acc; x])) rest
                (new_expr (EList [EStr name; a; b]))
  end.

(* ------------------------------------------------------------------ temporaries *)

Definition digit (n : nat) : N := 48 + N.of_nat n.
Fixpoint itoa_fuel (fuel n : nat) (acc : bytes) : bytes :=
  match fuel with
  | O => acc
  | S fuel' =>
      let acc' := digit (n mod 10) :: acc in
      if Nat.ltb n 10 then acc' else itoa_fuel fuel' (n / 10) acc'
  end.
Definition itoa (n : nat) : bytes := itoa_fuel 20 n [].

Definition temp_suffix : bytes := bs 6 0x2d74656d702d.    (* "-temp-" *)

(* tempColName: the first unused prefix-temp-i, i < 10000; otherwise the Go code panics *)
Definition temp_col_name (f : frame) (prefix : bytes) : outcome bytes :=
  (fix go (k : nat) (i : nat) : outcome bytes :=
     match k with
     | O => Panic
     | S k' => let name := prefix ++ temp_suffix ++ itoa i in
               if contains f name then go k' (S i) else Ok name
     end) (N.to_nat 10000) 0%nat.

Definition p_const : bytes := bs 5 0x636f6e7374.
Definition p_unary : bytes := bs 5 0x756e617279.
Definition p_colcol : bytes := bs 6 0x636f6c636f6c.

(* ------------------------------------------------------------------ context *)

(* (function type of the first operand, two arguments?, name) -> function *)
Definition ctx := list ((ctype * bool * bytes) * afn).

Definition get_func (cx : ctx) (t : ctype) (two : bool) (name : bytes) : option afn :=
  option_map snd (find (fun e => let '(t', two', n') := fst e in
                                 ctype_eqb t t' && Bool.eqb two two' && bytes_eqb name n') cx).

(* getFunc: Err passes through; unknown column and unknown function are errors *)
Definition get_fn (cx : ctx) (two : bool) (f : frame) (col op : bytes) : frame * option afn :=
  if ferr f then (f, None)
  else match lookup_col f col with
       | None => (with_err f, None)
       | Some c => match get_func cx (col_ftype c) two op with
                   | Some fn => (f, Some fn)
                   | None => (with_err f, None)
                   end
       end.

(* ------------------------------------------------------------------ execute *)

Section Execute.
  Variable ut : upper_table.
  Variable cx : ctx.

  Definition exec_const (f : frame) (v : cell) : outcome (frame * bytes) :=
    if ferr f then Ok (f, [])
    else do name <- temp_col_name f p_const;
         do r <- apply ut f [mkInstr (F0Const v) name [] []];
         Ok (r, name).

  Definition exec_unary (f : frame) (op col : bytes) : outcome (frame * bytes) :=
    let '(f', fn) := get_fn cx false f col op in
    if ferr f' then Ok (f', [])
    else match fn with
         | None => Panic
         | Some g =>
             do name <- temp_col_name f' p_unary;
             do r <- apply ut f' [mkInstr g name col []];
             Ok (r, name)
         end.

  Definition exec_colcol (f : frame) (op c1 c2 : bytes) : outcome (frame * bytes) :=
    let '(f', fn) := get_fn cx true f c1 op in
    if ferr f' then Ok (f', [])
    else match fn with
         | None => Panic
         | Some g =>
             do name <- temp_col_name f' p_colcol;
             do r <- apply ut f' [mkInstr g name c1 c2];
             Ok (r, name)
         end.

  Definition drop_unless_original (orig : frame) (r : frame) (names : list bytes) : frame :=
    drop r (filter (fun n => negb (contains orig n)) names).

  Fixpoint execute (e : expr) (f : frame) {struct e} : outcome (frame * bytes) :=
    match e with
    | XCol n => Ok (f, n)
    | XConst v => exec_const f v
    | XUnary op col => exec_unary f op col
    | XColConst op col v constFirst =>
        if ferr f then Ok (f, [])
        else
          do rc <- exec_const f v;
          let '(r, cname) := rc in
          do rr <- (if constFirst then exec_colcol r op cname col else exec_colcol r op col cname);
          let '(r', name) := rr in
          Ok (drop r' [cname], name)
    | XColCol op c1 c2 => exec_colcol f op c1 c2
    | XExpr1 op e1 =>
        do r1 <- execute e1 f;
        let '(r, tmp) := r1 in
        do rr <- exec_unary r op tmp;
        let '(r', name) := rr in
        Ok (if contains f tmp then r' else drop r' [tmp], name)
    | XExpr2 op l r =>
        do rl <- execute l f;
        let '(fl, lname) := rl in
        do rr <- execute r fl;
        let '(fr, rname) := rr in
        do rc <- exec_colcol fr op lname rname;
        let '(f', name) := rc in
        Ok (drop_unless_original f f' [lname; rname], name)
    | XError => if ferr f then Ok (f, []) else Ok (with_err f, [])
    end.

  (* QFrame.Eval *)
  Definition eval (f : frame) (dst : bytes) (e : expr) : outcome frame :=
    if ferr f then Ok f
    else
      do rc <- execute e f;
      let '(r, name) := rc in
      let r' := copy r dst name in
      Ok (if negb (bytes_eqb name dst) && negb (contains f name) then drop r' [name] else r').
End Execute.
