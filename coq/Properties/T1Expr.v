(* Tie T1 for the expression trees of Eval (properties C07, C10) — not one of the 19 properties, compiled with them.
   Gen/GenExprTree.v is produced by tools/qf2coq/exprtree.go from the Go text of expression.go (EVERY function of
   the file: getFunc, newExpr and the constructors it tries in order, opIdentifier / colIdentifier, tempColName, the
   execute and Err methods of the eight node types, Val, Expr), statement by statement.  Every theorem below says:
   the definition generated from the Go source equals the hand-written model function of Model/Eval.v that the
   proofs of C07 / C10 and the frameops engine use — for all inputs and all sufficient fuel.  An edit of one of
   these Go functions changes the generated text at the next run and the theorem of that function stops compiling.

   Reading aid.  interface{} values are the generated tagged union ge_Any (nil, Expression, string,
   types.ColumnName, int, float64, bool, *string, []interface{}, anything else), Expression values the generated
   ge_Expression (one constructor per node type of the package).
   Part 1 is about the decoder alone, for ANY error type / payload types: the generated newExpr (mutually recursive
   with newExprExpr, on fuel) equals the fuel-free reference decoder ref_newExpr written over the generated types,
   which keeps the error values — so the operation and message format of the error node of every malformed
   argument is a theorem.  Fuel: more than 2 * depth a + 1, depth = nesting of []interface{}.
   Part 2 ties the reference decoder to the model through the REPRESENTATION RELATION abs_any : ge_Any -> earg,
   abs_expr : ge_Expression -> expr (float64 = bit pattern, a string constant and a string pointer are both a CStr
   cell, unnamed dynamic types = EOther, the error value of an error node is forgotten) on well-formed values
   (wf_any / wf_expr: a constant node holds a constant other than the untyped nil, an error node holds an error —
   what the unexported node types can hold when built through Val / Expr).
   Part 3 instantiates the abstraction boundary with the model's frames: qf.Err = the flag ferr, qf.withErr sets
   it, Apply = Ops.apply on the instruction read through afn_of (reflection as the model's tagged union afn),
   Drop = Ops.drop, Contains = Frame.contains, functionType = lookup_col + col_ftype, ctx.GetFunc = Eval.get_func,
   strconv.Itoa = Eval.itoa, ArgCountOne / Two = false / true.  Panic on the generated side = the Go function
   panics or the fuel is used up; the fuel premises exclude the latter. *)
From QF Require Import Base.Prelude Gen.GenExprTree.
From QF Require Import Model.Frame Model.Filter Model.Ops Model.TableSpec Model.Eval Proofs.EvalFullTemp.
From QF Require Import Corr.FrameCorr Proofs.EvalFull Proofs.GenExprTreeProofs.
Local Open Scope nat_scope.

(* ------------------------------------------------------------------ identifiers and constructors (any E FL DV) *)

Theorem T1_expr_opIdentifier {E FL DV} (a : @ge_Any E FL DV) : ge_opIdentifier a = Ok (op_of a, is_op a).
Proof. exact (ge_opIdentifier_eq a). Qed.
Print Assumptions T1_expr_opIdentifier.

Theorem T1_expr_colIdentifier {E FL DV} (a : @ge_Any E FL DV) : ge_colIdentifier a = Ok (col_of a, is_col a).
Proof. exact (ge_colIdentifier_eq a). Qed.
Print Assumptions T1_expr_colIdentifier.

Theorem T1_expr_newColExpr {E FL DV} (a : @ge_Any E FL DV) :
  ge_newColExpr a = Ok (ge_new_colExpr (col_of a), is_col a).
Proof. exact (ge_newColExpr_eq a). Qed.
Print Assumptions T1_expr_newColExpr.

(* nil is implicitly the nil string pointer; int, float64, bool, string, *string are the constants *)
Theorem T1_expr_newConstExpr {E FL DV} (a : @ge_Any E FL DV) :
  ge_newConstExpr a = Ok (ge_new_constExpr (norm_const a), is_const a).
Proof. exact (ge_newConstExpr_eq a). Qed.
Print Assumptions T1_expr_newConstExpr.

Theorem T1_expr_newUnaryExpr {E FL DV} (a : @ge_Any E FL DV) : ge_newUnaryExpr a = Ok (unary_of a).
Proof. exact (ge_newUnaryExpr_eq a). Qed.
Print Assumptions T1_expr_newUnaryExpr.

(* first (column, constant); when that does not fit, (constant, column) with constFirst set *)
Theorem T1_expr_newColConstExpr {E FL DV} (a : @ge_Any E FL DV) : ge_newColConstExpr a = Ok (colconst_of a).
Proof. exact (ge_newColConstExpr_eq a). Qed.
Print Assumptions T1_expr_newColConstExpr.

Theorem T1_expr_newColColExpr {E FL DV} (a : @ge_Any E FL DV) : ge_newColColExpr a = Ok (colcol_of a).
Proof. exact (ge_newColColExpr_eq a). Qed.
Print Assumptions T1_expr_newColColExpr.

(* Err(): only the error node carries one *)
Theorem T1_expr_Err {E FL DV} (e : @ge_Expression E FL DV) : ge_Expression_Err e = Ok (err_of e).
Proof. exact (ge_Expression_Err_eq e). Qed.
Print Assumptions T1_expr_Err.

(* ------------------------------------------------------------------ newExpr / newExprExpr / Val / Expr *)

Theorem T1_expr_newExpr_ref {E FL DV} (new : bytes -> bytes -> E) (prop : bytes -> option E -> E)
  (fuel : nat) (a : @ge_Any E FL DV) : 2 * depth a + 1 < fuel ->
  ge_newExpr new prop fuel a = Ok (ref_newExpr new prop a).
Proof. exact (ge_newExpr_ref new prop fuel a). Qed.
Print Assumptions T1_expr_newExpr_ref.
Example T1_expr_newExpr_ref_example :
  2 * depth (@ge_dyn_slice unit N unit [ge_dyn_string [43%N]; ge_dyn_slice [ge_dyn_string [45%N]; ge_dyn_int 1%Z; ge_dyn_ColumnName [65%N]]; ge_dyn_other tt]) + 1 < 6.
Proof. vm_compute. reflexivity. Qed.

(* newExprExpr on the arguments newExpr hands to it *)
Theorem T1_expr_newExprExpr_ref {E FL DV} (new : bytes -> bytes -> E) (prop : bytes -> option E -> E)
  (fuel : nat) (a : @ge_Any E FL DV) : 2 * depth a + 1 <= fuel ->
  is_col a = false -> is_const a = false -> snd (unary_of a) = false -> snd (colconst_of a) = false ->
  snd (colcol_of a) = false -> (forall e, a <> ge_dyn_Expression e) ->
  ge_newExprExpr new prop (S fuel) a = Ok (ref_newExpr new prop a).
Proof. exact (ge_newExprExpr_ref new prop fuel a). Qed.
Print Assumptions T1_expr_newExprExpr_ref.
Example T1_expr_newExprExpr_ref_example :
  let a := @ge_dyn_slice unit N unit [ge_dyn_int 3%Z; ge_dyn_int 1%Z] in
  2 * depth a + 1 <= 3 /\ is_col a = false /\ is_const a = false /\ snd (unary_of a) = false
  /\ snd (colconst_of a) = false /\ snd (colcol_of a) = false /\ (forall e, a <> ge_dyn_Expression e).
Proof. cbv zeta. repeat split; try (vm_compute; reflexivity || lia). intros e H. discriminate H. Qed.

Theorem T1_expr_Val_ref {E FL DV} (new : bytes -> bytes -> E) (prop : bytes -> option E -> E)
  (fuel : nat) (a : @ge_Any E FL DV) : 2 * depth a + 2 < fuel ->
  ge_Val new prop fuel a = Ok (ref_newExpr new prop a).
Proof. exact (ge_Val_ref new prop fuel a). Qed.
Print Assumptions T1_expr_Val_ref.
Example T1_expr_Val_ref_example : 2 * depth (@ge_dyn_int unit N unit 7%Z) + 2 < 3.
Proof. vm_compute. reflexivity. Qed.

(* Expr(name, args...): no argument is an error, one / two arguments are newExpr of the list, more fold from the left
   through an Expression value *)
Theorem T1_expr_Expr_ref {E FL DV} (new : bytes -> bytes -> E) (prop : bytes -> option E -> E)
  (name : bytes) (args : list (@ge_Any E FL DV)) (fuel : nat) :
  2 * depth_list args + 4 + length args < fuel ->
  ge_Expr new prop fuel name args = Ok (ref_Expr new prop name args).
Proof. exact (ge_Expr_ref new prop name args fuel). Qed.
Print Assumptions T1_expr_Expr_ref.
Example T1_expr_Expr_ref_example :
  let args := [@ge_dyn_int unit N unit 18%Z; ge_dyn_int 2%Z; ge_dyn_int 3%Z] in
  2 * depth_list args + 4 + length args < 8
  /\ ge_Expr (fun _ _ => tt) (fun _ _ => tt) 8 [47%N] args = Ok (ref_Expr (fun _ _ => tt) (fun _ _ => tt) [47%N] args).
Proof. cbv zeta. split; vm_compute; reflexivity. Qed.

(* the message class of the error node of a malformed argument (operation and format of qerrors.New; the inner error of
   qerrors.Propagate): read off the reference decoder *)
Theorem T1_expr_error_class {E FL DV} (new : bytes -> bytes -> E) (prop : bytes -> option E -> E) :
  (forall d : DV, ref_newExpr new prop (@ge_dyn_other E FL DV d) = ge_mk_errorExpr (Some (new s_newExprExpr m_not_list)))
  /\ ref_newExpr new prop (@ge_dyn_slice E FL DV []) = ge_mk_errorExpr (Some (new s_newExprExpr m_bad_len))
  /\ (forall a : @ge_Any E FL DV, ref_newExpr new prop (ge_dyn_slice [a]) = ge_mk_errorExpr (Some (new s_newExprExpr m_bad_len)))
  /\ (forall a b c d l, ref_newExpr new prop (@ge_dyn_slice E FL DV (a :: b :: c :: d :: l)) = ge_mk_errorExpr (Some (new s_newExprExpr m_bad_len)))
  /\ (forall o x : @ge_Any E FL DV, is_op o = false ->
        ref_newExpr new prop (ge_dyn_slice [o; x]) = ge_mk_errorExpr (Some (new s_newExprExpr m_invalid_op)))
  /\ (forall (op : bytes) (x : @ge_Any E FL DV) e, is_col x = false -> err_of (ref_newExpr new prop x) = Some e ->
        ref_newExpr new prop (ge_dyn_slice [ge_dyn_string op; x]) = ge_mk_errorExpr (Some (prop s_newExprExpr (Some e))))
  /\ ref_Expr new prop [] (@nil (@ge_Any E FL DV)) = ge_mk_errorExpr (Some (new s_Expr m_no_args)).
Proof. exact (ref_error_class new prop). Qed.
Print Assumptions T1_expr_error_class.
Example T1_expr_error_class_example :
  @is_op unit N unit (ge_dyn_int 3%Z) = false
  /\ @is_col unit N unit (ge_dyn_other tt) = false
  /\ err_of (ref_newExpr (fun _ _ => tt) (fun _ _ => tt) (@ge_dyn_other unit N unit tt)) = Some tt.
Proof. repeat split. Qed.

(* ------------------------------------------------------------------ the decoder against the model *)

(* generated newExpr = Eval.new_expr on every well-formed argument value, malformed ones included *)
Theorem T1_expr_newExpr {E DV} (new : bytes -> bytes -> E) (prop : bytes -> option E -> E)
  (fuel : nat) (a : @ge_Any E N DV) : wf_any a = true -> 2 * depth a + 1 < fuel ->
  exists e, ge_newExpr new prop fuel a = Ok e /\ abs_expr e = new_expr (abs_any a) /\ wf_expr e = true.
Proof. exact (ge_newExpr_model new prop fuel a). Qed.
Print Assumptions T1_expr_newExpr.
Example T1_expr_newExpr_example :
  let a := @ge_dyn_slice unit N unit [ge_dyn_string [45%N]; ge_dyn_int 10%Z; ge_dyn_ColumnName [65%N]] in
  wf_any a = true /\ 2 * depth a + 1 < 4
  /\ abs_any a = EList [EStr [45%N]; EConst (CInt 10%Z); EColName [65%N]]
  /\ new_expr (abs_any a) = XColConst [45%N] [65%N] (CInt 10%Z) true.
Proof. cbv zeta. repeat split; vm_compute; reflexivity. Qed.

Theorem T1_expr_Expr {E DV} (new : bytes -> bytes -> E) (prop : bytes -> option E -> E)
  (fuel : nat) (name : bytes) (args : list (@ge_Any E N DV)) : forallb wf_any args = true ->
  2 * depth_list args + 4 + length args < fuel ->
  exists e, ge_Expr new prop fuel name args = Ok e /\ abs_expr e = expr_call name (map abs_any args) /\ wf_expr e = true.
Proof. exact (ge_Expr_model new prop fuel name args). Qed.
Print Assumptions T1_expr_Expr.
Example T1_expr_Expr_example :
  let args := [@ge_dyn_ColumnName unit N unit [65%N]; ge_dyn_int 2%Z; ge_dyn_ColumnName [66%N]] in
  forallb wf_any args = true /\ 2 * depth_list args + 4 + length args < 8.
Proof. cbv zeta. split; vm_compute; reflexivity. Qed.

(* ------------------------------------------------------------------ execution on the model's frames *)

(* tempColName = Eval.temp_col_name for every frame and prefix: the same first free name, the Go panic at 10000 *)
Theorem T1_expr_tempColName (fuel : nat) (f : frame) (prefix : bytes) : N.to_nat 10000 < fuel ->
  g_tempColName fuel f prefix = temp_col_name f prefix.
Proof. exact (g_tempColName_eq fuel f prefix). Qed.
Print Assumptions T1_expr_tempColName.
Example T1_expr_tempColName_example :
  g_tempColName 3 (mkFrame [(p_const ++ temp_suffix ++ [48%N], ICol [])] [] false) p_const
  = Ok (p_const ++ temp_suffix ++ [49%N]).
Proof. vm_compute. reflexivity. Qed.

(* getFunc = Eval.get_fn: the frame (Err set for an unknown column / function) and the function found *)
Theorem T1_expr_getFunc (cx : ctx) (two : bool) (f : frame) (col op : bytes) :
  g_getFunc cx two f col op = Ok (fst (get_fn cx two f col op), fn_any (snd (get_fn cx two f col op))).
Proof. exact (g_getFunc_eq cx two f col op). Qed.
Print Assumptions T1_expr_getFunc.

(* execute = Eval.execute for every node, frame and context: the same temporaries in the same order, the same Apply
   instructions, the same columns dropped, the same result column *)
Theorem T1_expr_execute (ut : upper_table) (cx : ctx) (e : @ge_Expression err_msg N afn) (fuel : nat) (f : frame) :
  wf_expr e = true -> fuel_need e <= fuel ->
  g_execute ut fuel e f cx = execute ut cx (abs_expr e) f.
Proof. exact (g_execute_eq ut cx e fuel f). Qed.
Print Assumptions T1_expr_execute.

Theorem T1_expr_execute_nesting (ut : upper_table) (cx : ctx) (e : @ge_Expression err_msg N afn) (fuel : nat) (f : frame) :
  wf_expr e = true -> S fuel_leaf + nesting e <= fuel ->
  g_execute ut fuel e f cx = execute ut cx (abs_expr e) f.
Proof. exact (g_execute_eq_nesting ut cx e fuel f). Qed.
Print Assumptions T1_expr_execute_nesting.
Example T1_expr_execute_example :
  let e := @ge_mk_exprExpr2 err_msg N afn [43%N] (ge_mk_colExpr [65%N]) (ge_mk_constExpr (ge_dyn_int 1%Z)) in
  wf_expr e = true /\ nesting e = 1.
Proof. cbv zeta. split; reflexivity. Qed.

(* ------------------------------------------------------------------ C07_eval on the translated text *)

(* Properties/C07.v, C07_eval, with the GENERATED execute under the wrapper of QFrame.Eval (g_eval) and the decoded tree
   seen through abs_expr *)
Definition T1_expr_eval_statement : Prop :=
  forall ut cx f dst (ge : @ge_Expression err_msg N afn) fuel t,
    wf_expr ge = true -> fuel_need ge <= fuel ->
    ctx_ok cx = true -> wf_frame f = true -> ferr f = false -> names_ok f = true ->
    expr_ok f (abs_expr ge) = true -> (N.of_nat (length (cols f) + temps_needed (abs_expr ge)) <= 10000)%N ->
    abs f = Ok t ->
    eval_meets (has_open cx t (abs_expr ge) = true) f t dst (abs_expr ge) (denote cx t (abs_expr ge))
               (g_eval ut fuel cx f dst ge).

Theorem T1_expr_eval : T1_expr_eval_statement.
Proof. exact g_eval_full. Qed.
Print Assumptions T1_expr_eval.
