(* Tie T1, semantic part, for the byte-level string functions of internal/strings (C14, C09, C06, C18) — not one
   of the 19 properties, compiled with them.
   Gen/GenStrSer.v is produced by tools/qf2coq/strser.go from the Go text of internal/strings/serialize.go
   (AppendQuotedString), convert.go (QuotedBytes, ToUpper) and match.go (trimPercent, NewMatcher): statement by statement, string / []byte as their
   byte values, positions on Z, unicode/utf8 as the model of Model/Utf8.v (which the strings engine checks
   against the real package), unicode.ToUpper as an arbitrary rune map, the byte loop a Fixpoint over its own
   counter and the range loops Fixpoints over the (offset, rune) list.  Every theorem below says: the definition
   generated from the Go source IS the hand-written model function that the theorems of C14 / C18 talk about and
   that the strings / frameops engines execute — for all byte strings (elements arbitrary, no premise), all
   buffers, and all fuel from the stated bound on.  An edit of one of these Go functions changes the generated
   text at the next run and the theorem of that function stops compiling.
   Fuel: gst_f fuel = (O => Panic | S fuel' => body whose for loop and calls get fuel'); Panic on the generated
   side = a Go run-time panic or the fuel exhausted. *)
From QF Require Import Base.Prelude Model.Utf8 Model.Json Model.Match Gen.GenStrSer Proofs.MatchProofs Proofs.GenStrSerProofs.

(* ------------------------------------------------------------------ serialize.go: AppendQuotedString *)
Theorem T1_strings_AppendQuotedString (fuel : nat) (buf s : bytes) :
  length s + 2 <= fuel -> gst_AppendQuotedString fuel buf s = append_quoted_string buf s.
Proof. exact (gst_AppendQuotedString_eq fuel buf s). Qed.
Print Assumptions T1_strings_AppendQuotedString.
(* quote, backslash, LF, a control, U+2028, e-acute, U+1F600, a truncated sequence, DEL, a lone lead byte *)
Example T1_strings_AppendQuotedString_example :
  let s := bs 18 0x61225C0A01E280A8C3A9F09F9880C37FE280 in
  length s + 2 <= 20 /\
  gst_AppendQuotedString 20 [1%N; 2%N] s
  = Ok ([1%N; 2%N] ++ bs 46 0x22615C225C5C5C6E5C75303030315C7532303238C3A9F09F98805C75666666647F5C75666666645C756666666422).
Proof. vm_compute. split; [lia|reflexivity]. Qed.

(* the translated escaper appends to the buffer what the model's escaper produces from the empty buffer *)
Theorem T1_strings_AppendQuotedString_prefix (fuel : nat) (buf s : bytes) :
  length s + 2 <= fuel ->
  exists out, append_quoted_string [] s = Ok out /\ gst_AppendQuotedString fuel buf s = Ok (buf ++ out).
Proof. exact (gst_escape_prefix fuel buf s). Qed.
Print Assumptions T1_strings_AppendQuotedString_prefix.

(* C14_escape_valid on the translated text: for every byte string the output is accepted by the RFC 8259 string
   reader, nothing is left over, and the code points read are the input with every ill-formed byte replaced by
   U+FFFD *)
Theorem T1_strings_escape_valid (fuel : nat) (s : bytes) :
  length s + 2 <= fuel ->
  exists out, gst_AppendQuotedString fuel [] s = Ok out /\
              json_parse_string out = Some (utf8_sanitize s, []).
Proof. exact (gst_escape_valid fuel s). Qed.
Print Assumptions T1_strings_escape_valid.
Example T1_strings_escape_valid_example :
  let s := bs 6 0x22C328E280A8 in
  length s + 2 <= 8 /\
  exists out, gst_AppendQuotedString 8 [] s = Ok out /\
              json_parse_string out = Some ([0x22; 0xFFFD; 0x28; 0x2028]%N, []).
Proof.
  split; [vm_compute; lia|].
  exists [34; 92; 34; 92; 117; 102; 102; 102; 100; 40; 92; 117; 50; 48; 50; 56; 34]%N.
  split; vm_compute; reflexivity.
Qed.

(* the fuel bound is about the loop counter only: with less the answer is Panic, never a wrong string *)
Example T1_strings_AppendQuotedString_fuel_needed :
  gst_AppendQuotedString 3 [] (bs 2 0x6162) = Panic /\ gst_AppendQuotedString 4 [] (bs 2 0x6162) = Ok (bs 4 0x22616222).
Proof. vm_compute. split; reflexivity. Qed.

(* ------------------------------------------------------------------ convert.go: QuotedBytes *)
Theorem T1_strings_QuotedBytes (fuel : nat) (s : bytes) :
  length s + 3 <= fuel -> gst_QuotedBytes fuel s = quoted_bytes s.
Proof. exact (gst_QuotedBytes_eq fuel s). Qed.
Print Assumptions T1_strings_QuotedBytes.
Example T1_strings_QuotedBytes_example :
  length (bs 3 0x610962) + 3 <= 6 /\ gst_QuotedBytes 6 (bs 3 0x610962) = Ok (bs 6 0x22615C746222).
Proof. vm_compute. split; [lia|reflexivity]. Qed.

Theorem T1_strings_QuotedBytes_valid (fuel : nat) (s : bytes) :
  length s + 3 <= fuel ->
  exists out, gst_QuotedBytes fuel s = Ok out /\ json_parse_string out = Some (utf8_sanitize s, []).
Proof. exact (gst_QuotedBytes_valid fuel s). Qed.
Print Assumptions T1_strings_QuotedBytes_valid.

(* ------------------------------------------------------------------ convert.go: ToUpper *)
(* For every rune map, every string and every initial buffer the translated ToUpper answers what the model
   to_upper answers: the string returned AND the contents of the buffer handed back through bP (Panic where the
   model panics).  The generated side knows unicode.ToUpper as upper : Z -> Z (int32 -> int32), the model as
   up : N -> Z on decoded runes; the general form holds for every pair that agrees on decoded runes, the two
   corollaries are the instances "the model's map derived from the code's" and "the code's from the model's"
   (the latter is the form the engines' recorded tables have). *)
Theorem T1_strings_ToUpper_gen (upper : Z -> Z) (up : N -> Z) (Hagree : forall c, upper (Z.of_N c) = up c)
  (fuel : nat) (bp s : bytes) :
  1 <= fuel -> gst_ToUpper upper fuel bp s = to_upper up bp s.
Proof. exact (gst_ToUpper_eq_gen upper up Hagree fuel bp s). Qed.
Print Assumptions T1_strings_ToUpper_gen.

Theorem T1_strings_ToUpper (upper : Z -> Z) (fuel : nat) (bp s : bytes) :
  1 <= fuel -> gst_ToUpper upper fuel bp s = to_upper (fun c => upper (Z.of_N c)) bp s.
Proof. exact (gst_ToUpper_eq upper fuel bp s). Qed.
Print Assumptions T1_strings_ToUpper.

Theorem T1_strings_ToUpper_model (up : N -> Z) (fuel : nat) (bp s : bytes) :
  1 <= fuel -> gst_ToUpper (fun z => up (Z.to_N z)) fuel bp s = to_upper up bp s.
Proof. exact (gst_ToUpper_eq_model up fuel bp s). Qed.
Print Assumptions T1_strings_ToUpper_model.

(* a map with all the cases: a-z -> A-Z, U+00E9 -> U+00C9 (same width), U+00FF -> U+0178, U+0131 -> I (narrower),
   U+0250 -> U+2C6F (wider), DEL -> -1 (dropped: r < 0) *)
Definition T1_strings_up_example (c : N) : Z :=
  (if (0x61 <=? c) && (c <=? 0x7a) then Z.of_N (c - 32) else if c =? 0xe9 then 0xc9%Z
   else if c =? 0xff then 0x178%Z else if c =? 0x131 then 0x49%Z else if c =? 0x250 then 0x2C6F%Z
   else if c =? 0x7f then (-1)%Z else Z.of_N c)%N.
(* A b e-acute y-diaeresis dotless-i DEL 0xFF(broken) U+FFFD z, into a buffer that is large enough *)
Example T1_strings_ToUpper_example :
  gst_ToUpper (fun z => T1_strings_up_example (Z.to_N z)) 1 (repeat 7%N 20) (bs 14 0x4162C3A9C3BFC4B17FFFEFBFBD7A)
  = Ok (bs 14 0x4142C389C5B849EFBFBDEFBFBD5A, bs 14 0x4142C389C5B849EFBFBDEFBFBD5A ++ repeat 7%N 6).
Proof. vm_compute. reflexivity. Qed.
(* ten times U+0250 (20 bytes) become 30 bytes: the buffer of 24 is replaced by one of 48 *)
Example T1_strings_ToUpper_grow_example :
  gst_ToUpper (fun z => T1_strings_up_example (Z.to_N z)) 1 [] (concat (repeat (bs 2 0xC990) 10))
  = Ok (concat (repeat (bs 3 0xE2B1AF) 10), concat (repeat (bs 3 0xE2B1AF) 10) ++ repeat 0%N 18).
Proof. vm_compute. reflexivity. Qed.
(* nothing changes: the string itself is returned and the buffer is untouched *)
Example T1_strings_ToUpper_unchanged_example :
  gst_ToUpper (fun z => T1_strings_up_example (Z.to_N z)) 1 [5%N] (bs 3 0x41C389) = Ok (bs 3 0x41C389, [5%N]).
Proof. vm_compute. reflexivity. Qed.

(* what the tie buys: the theorem of C18 about the model (on valid UTF-8 the result is the upper-casing of the
   runes, re-encoded, whatever the buffer) holds of the translated Go text *)
Theorem T1_strings_ToUpper_correct (up : N -> Z) (fuel : nat) (bp s : bytes) :
  1 <= fuel -> utf8_valid s = true ->
  exists bp', gst_ToUpper (fun z => up (Z.to_N z)) fuel bp s = Ok (upper_spec up s, bp') /\
              (bp' = bp \/
               (length s + 4 <= length bp' /\
                firstn (length (upper_spec up s)) bp' = upper_spec up s)).
Proof. exact (gst_ToUpper_correct up fuel bp s). Qed.
Print Assumptions T1_strings_ToUpper_correct.
Example T1_strings_ToUpper_correct_example : utf8_valid (bs 5 0x62C3A9C990) = true.
Proof. vm_compute. reflexivity. Qed.

(* The one abstraction of the translation that a proof can discharge: `b == nil` is translated as emptiness.
   For EVERY list of (offset, rune) pairs: if the first loop of ToUpper ends with an empty b, then no rune
   changed and nothing was assigned (Go's b is nil there, not an empty non-nil slice); whenever the loop does
   assign b, the value has the length of the chosen buffer, at least len(s) + utf8.UTFMax. *)
Theorem T1_strings_ToUpper_nil_exact (upper : Z -> Z) (l : list (Z * Z)) (bp s s' : bytes) (nb : Z) (b : bytes) :
  gst_ToUpper_loop1 upper l bp s 0%Z [] = Ok (s', nb, b) -> b = [] ->
  Forall (fun p => upper (snd p) = snd p) l /\ s' = s /\ nb = 0%Z.
Proof. exact (gst_ToUpper_loop1_nil upper l bp s s' nb b). Qed.
Print Assumptions T1_strings_ToUpper_nil_exact.
Example T1_strings_ToUpper_nil_exact_example :
  gst_ToUpper_loop1 (fun z => z) (gst_range (bs 2 0x4142)) [] (bs 2 0x4142) 0%Z [] = Ok (bs 2 0x4142, 0%Z, []).
Proof. vm_compute. reflexivity. Qed.

(* ------------------------------------------------------------------ match.go: trimPercent, NewMatcher *)
(* The construction of the like / ilike matcher, translated: gst_Matcher is the sum of the structs that the
   composite literals of NewMatcher build (generated from their type declarations; a *regexp.Regexp is the text
   it was compiled from), strings.HasPrefix / HasSuffix / TrimPrefix / TrimSuffix and regexp.QuoteMeta are the
   functions of Model/Match.v, strings.ToUpper and the verdict of regexp.Compile are arbitrary functions.
   matcher_of maps the generated sum to the model's record (kind, string, buffer). *)
Theorem T1_strings_trimPercent (fuel : nat) (s : bytes) :
  1 <= fuel -> gst_trimPercent fuel s = Ok (trim_percent s).
Proof. exact (gst_trimPercent_eq fuel s). Qed.
Print Assumptions T1_strings_trimPercent.
Example T1_strings_trimPercent_example : gst_trimPercent 1 (bs 4 0x25256125) = Ok (bs 2 0x2561).
Proof. vm_compute. reflexivity. Qed.

(* for every pattern, both case modes, every strings.ToUpper and every verdict of regexp.Compile: the same
   kind of matcher on the same string (or the same regular expression), the same error return (Fail) *)
Theorem T1_strings_NewMatcher (str_upper : bytes -> bytes) (re_compile : bytes -> bool)
  (re_match : bytes -> bytes -> option bool)
  (Hre : forall x, re_compile x = match re_match x [] with Some _ => true | None => false end)
  (fuel : nat) (p : bytes) (cs : bool) :
  2 <= fuel ->
  ofmap matcher_of (gst_NewMatcher str_upper re_compile fuel p cs) = new_matcher str_upper re_match p cs.
Proof. exact (gst_NewMatcher_eq str_upper re_compile re_match Hre fuel p cs). Qed.
Print Assumptions T1_strings_NewMatcher.
(* "%ab%" -> contains "ab"; ilike "ab%" -> CI prefix on the upper-cased text with the 10 byte buffer;
   "a.b%" -> the regular expression ^a.b (no $ because of the trailing %); an expression that does not compile *)
Example T1_strings_NewMatcher_example :
  let su := fun p : bytes => map (fun b => if (0x61 <=? b) && (b <=? 0x7a) then b - 32 else b)%N p in
  gst_NewMatcher su (fun _ => true) 2 (bs 4 0x25616225) true = Ok (gst_ContainsMatcher (bs 2 0x6162)) /\
  gst_NewMatcher su (fun _ => true) 2 (bs 3 0x616225) false
    = Ok (gst_CIPrefixMatcher (bs 2 0x4142) (repeat 0%N 10)) /\
  gst_NewMatcher su (fun _ => true) 2 (bs 4 0x612E6225) true = Ok (gst_RegexpMatcher (bs 4 0x5E612E62)) /\
  gst_NewMatcher su (fun _ => false) 2 (bs 2 0x2861) true = Fail.
Proof. vm_compute. repeat split; reflexivity. Qed.

(* C18_matcher_rule on the translated NewMatcher: either the expression does not compile and the filter fails,
   or the matcher built answers the documented rule like_spec on every cell and every buffer state *)
Theorem T1_strings_matcher_rule (up : N -> Z) (su : bytes -> bytes) (re : bytes -> bytes -> option bool)
  (fuel : nat) (p : bytes) (cs : bool) :
  2 <= fuel ->
  (forall pat s1 s2, re pat s1 = None -> re pat s2 = None) ->
  starts_pct (su p) = starts_pct p -> ends_pct (su p) = ends_pct p ->
  let made := ofmap matcher_of
                (gst_NewMatcher su (fun x => match re x [] with Some _ => true | None => false end) fuel p cs) in
  (made = Fail /\ forall cell, like_spec up (su p) re p cs cell = None)
  \/
  (exists m, made = Ok m /\
     forall buf cell, (cs = true \/ existsb is_meta p = true \/ utf8_valid cell = true) ->
       exists b buf', matches up re (with_buf m buf) cell = Ok (b, with_buf m buf') /\
                      like_spec up (su p) re p cs cell = Some b).
Proof. exact (gst_matcher_rule up su re fuel p cs). Qed.
Print Assumptions T1_strings_matcher_rule.
Example T1_strings_matcher_rule_premise_example :
  let re : bytes -> bytes -> option bool := fun pat _ => match pat with [] => None | _ => Some true end in
  let su : bytes -> bytes := fun p => p in
  (forall pat s1 s2, re pat s1 = None -> re pat s2 = None) /\
  starts_pct (su (bs 3 0x256125)) = starts_pct (bs 3 0x256125) /\
  ends_pct (su (bs 3 0x256125)) = ends_pct (bs 3 0x256125).
Proof. cbv zeta. split; [intros [|? ?] s1 s2 H; [reflexivity|discriminate]|split; reflexivity]. Qed.

(* ------------------------------------------------------------------ match.go: the Matches methods *)
(* The nine methods func (m *XMatcher) Matches(s string) bool, translated (a pointer receiver is the fields of its
   struct, answered back after the result; ToUpper(&m.buf, s) reads and rebinds the buffer field;
   m.r.MatchString(s) is the arbitrary re_ms), and the interface call m.Matches(s) as the generated dispatch
   gst_Matches over the constructors of gst_Matcher.  For every matcher, every cell, every rune map and every
   state of the reused buffer: the same answer AND the same matcher left behind as the model's matches (the one
   C18_matcher_rule speaks about and the strings engine executes).  Premise, for a RegexpMatcher only: the
   expression is one the regexp oracle answers on (a compiled expression always answers). *)
Theorem T1_strings_Matches (upper : Z -> Z) (up : N -> Z) (Hagree : forall c, upper (Z.of_N c) = up c)
  (re_ms : bytes -> bytes -> bool) (re_match : bytes -> bytes -> option bool)
  (fuel : nat) (m : gst_Matcher) (s : bytes) :
  3 <= fuel ->
  (forall r, m = gst_RegexpMatcher r -> re_match r s = Some (re_ms r s)) ->
  ofmap answer_of (gst_Matches upper re_ms fuel m s) = matches up re_match (matcher_of m) s.
Proof. exact (gst_Matches_eq upper up Hagree re_ms re_match fuel m s). Qed.
Print Assumptions T1_strings_Matches.
(* a CI prefix matcher "ST" with a 2-byte buffer on the cell "stra" (a-z -> A-Z): true, and the matcher keeps the
   8-byte buffer ToUpper allocated; a regexp matcher satisfies the premise when the oracle answers *)
Example T1_strings_Matches_example :
  gst_Matches (fun z => T1_strings_up_example (Z.to_N z)) (fun _ _ => true) 3
              (gst_CIPrefixMatcher (bs 2 0x5354) [0%N; 0%N]) (bs 4 0x73747261)
  = Ok (true, gst_CIPrefixMatcher (bs 2 0x5354) (bs 4 0x53545241 ++ repeat 0%N 4)) /\
  (forall r, gst_RegexpMatcher (bs 1 0x61) = gst_RegexpMatcher r ->
     (fun (_ _ : bytes) => Some true) r (bs 1 0x62) = Some ((fun (_ _ : bytes) => true) r (bs 1 0x62))).
Proof. split; [vm_compute; reflexivity|intros r _; reflexivity]. Qed.

(* ------------------------------------------------------------------ scolumn/filters.go: regexFilter (like / ilike) *)
(* The string column's like / ilike, translated from internal/scolumn/filters.go: NewMatcher, its error return,
   and the loop `for i, x := range bIndex { if !x { s, isNull := s.stringAt(index[i]); if !isNull { bIndex[i] =
   matcher.Matches(s) } } }` (index.Int as the list of row ids, the column as its cells with None = null — the body
   of stringAt is text-matched —, bIndex written in place and answered, the matcher threaded through the calls:
   a CI matcher keeps its buffer from cell to cell).  It IS the model's regex_filter, the function
   C18_string_filter speaks about: for every index, column, pattern, case mode, bIndex, rune map, strings.ToUpper
   and regexp oracle.  Premises on the oracles only: the generated side's regexp.Compile verdict / MatchString
   answer are the model's option-valued re_match read both ways (compiled <-> answers on the empty string; a
   compiled expression answers on every subject). *)
Theorem T1_strings_regexFilter (upper : Z -> Z) (up : N -> Z) (Hagree : forall c, upper (Z.of_N c) = up c)
  (su : bytes -> bytes) (re_compile : bytes -> bool) (re_ms : bytes -> bytes -> bool)
  (re_match : bytes -> bytes -> option bool)
  (Hre : forall x, re_compile x = match re_match x [] with Some _ => true | None => false end)
  (Hms : forall pat s, re_match pat [] <> None -> re_match pat s = Some (re_ms pat s))
  (fuel : nat) (index : list nat) (col : list (option bytes)) (p : bytes) (bi : list bool) (cs : bool) :
  4 <= fuel ->
  gst_scolumn_regexFilter upper su re_compile re_ms fuel index col p bi cs
  = regex_filter up su re_match index col p bi cs.
Proof. exact (gst_regexFilter_eq upper up Hagree su re_compile re_ms re_match Hre Hms fuel index col p bi cs). Qed.
Print Assumptions T1_strings_regexFilter.
(* ilike "b%" over rows 2, 0, 1 of the column ["bx"; null; "Ba"], the first position already decided: the CI prefix
   matcher "B" answers true for "Ba" (row 1 is null and stays false); oracles satisfying the premises *)
Example T1_strings_regexFilter_example :
  let su := fun p : bytes => map (fun b => if (0x61 <=? b) && (b <=? 0x7a) then b - 32 else b)%N p in
  gst_scolumn_regexFilter (fun z => T1_strings_up_example (Z.to_N z)) su (fun _ => true) (fun _ _ => true) 4
    [2; 0; 1]%nat [Some (bs 2 0x6278); None; Some (bs 2 0x4261)] (bs 2 0x6225) [true; false; false] false
  = Ok [true; true; false] /\
  (forall x : bytes, (fun _ : bytes => true) x
     = match (fun _ _ : bytes => Some true) x [] with Some _ => true | None => false end) /\
  (forall pat s : bytes, (fun _ _ : bytes => Some true) pat [] <> None ->
     (fun _ _ : bytes => Some true) pat s = Some ((fun _ _ : bytes => true) pat s)).
Proof. split; [vm_compute; reflexivity|split; intros; reflexivity]. Qed.

(* ------------------------------------------------------------------ ecolumn/filters.go: filterLike (like / ilike) *)
(* The enum column's like / ilike bitset builder, translated from internal/ecolumn/filters.go: NewMatcher, its error
   return, bset := &bitset{}, and `for i, v := range values { if matcher.Matches(v) { bset.set(enumVal(i)) } }` — the
   matcher applied once per enum VALUE (the buffer of a CI matcher carried from value to value), enumVal(i) the
   uint8 conversion i mod 256, bset.set the function translated in GenFuncs.v (T1_bitset_set).  It IS the model's
   filter_like (words as Z), the function C18_enum_filter / C18_string_enum_agree speak about; premises on the
   regexp oracles as for T1_strings_regexFilter.  The row loop filterWithBitset that consumes the bitset is the
   generated kernel k_e_filterWithBitset (GenKernels.v, C02 row theorems). *)
Theorem T1_strings_filterLike (upper : Z -> Z) (up : N -> Z) (Hagree : forall c, upper (Z.of_N c) = up c)
  (su : bytes -> bytes) (re_compile : bytes -> bool) (re_ms : bytes -> bytes -> bool)
  (re_match : bytes -> bytes -> option bool)
  (Hre : forall x, re_compile x = match re_match x [] with Some _ => true | None => false end)
  (Hms : forall pat s, re_match pat [] <> None -> re_match pat s = Some (re_ms pat s))
  (fuel : nat) (p : bytes) (values : list bytes) (cs : bool) :
  4 <= fuel ->
  gst_ecolumn_filterLike upper su re_compile re_ms fuel p values cs
  = ofmap (map Z.of_N) (filter_like up su re_match p values cs).
Proof. exact (gst_filterLike_eq upper up Hagree su re_compile re_ms re_match Hre Hms fuel p values cs). Qed.
Print Assumptions T1_strings_filterLike.
(* like "%a" over the values ["ba"; "ab"; "a"]: bits 0 and 2 *)
Example T1_strings_filterLike_example :
  gst_ecolumn_filterLike (fun z => z) (fun p => p) (fun _ => true) (fun _ _ => true) 4
    (bs 2 0x2561) [bs 2 0x6261; bs 2 0x6162; bs 1 0x61] true = Ok [5; 0; 0; 0]%Z.
Proof. vm_compute. reflexivity. Qed.
