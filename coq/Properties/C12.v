(* Property C12 — ReadCSV parses RFC 4180 input faithfully for any fragmentation of the stream.
   Statements only; proofs are in Proofs/CsvSpecProofs.v, Proofs/CsvReadProofs.v, Proofs/CsvFragProofs.v. *)
From QF Require Import Base.Prelude Model.FastCsv Model.CsvSpec Model.CsvWrite Model.CsvRead
  Proofs.CsvSpecProofs Proofs.CsvReadProofs Proofs.CsvFragProofs.
Local Open Scope N_scope.

(* ---- 1. C12_rfc: the character machine inverts the renderer.
   wf_doc = the styles have the shape of the rows; the delimiter is none of quote, CR, LF; every row has at
   least one field; a field containing the delimiter, a quote, CR or LF is quoted; the LAST field of a row
   does not end in CR (implied by "no bare CR", see C12_no_bare_cr_suffices); and normalisation (i):
   a last row consisting of one empty unquoted field needs the final line break (without it the row renders
   as nothing and is not denoted). *)
Theorem C12_rfc (delim : N) (rows : list (list bytes)) (st : styles) :
  wf_doc delim rows st = true ->
  stream_scan delim (render delim rows st) = rows.
Proof. exact (stream_scan_render delim rows st). Qed.
Print Assumptions C12_rfc.

(* the same with C12's own side condition on the cells (no bare CR anywhere) instead of the weaker condition
   on the last field of every row *)
Theorem C12_rfc_no_bare_cr (delim : N) (rows : list (list bytes)) (st : styles) :
  wf_doc_nbc delim rows st = true ->
  stream_scan delim (render delim rows st) = rows.
Proof. exact (stream_scan_render_nbc delim rows st). Qed.
Print Assumptions C12_rfc_no_bare_cr.

Theorem C12_no_bare_cr_suffices (f : bytes) : no_bare_cr f = true -> ends_cr f = false.
Proof. exact (no_bare_cr_ends f). Qed.
Print Assumptions C12_no_bare_cr_suffices.

(* premises are satisfiable: delimiter semicolon; row 1 = a and a quoted field with delimiter and doubled quote,
   CRLF; row 2 = an empty line; row 3 = a quoted field containing CRLF and an empty last field, no final break *)
Example C12_rfc_example :
  let rows := [[ [97]; [98; 59; 34; 99] ]; [ [] ]; [ [120; 13; 10; 121]; [] ]] in
  let st : styles := ([([false; true], true); ([false], false); ([true; false], false)], false) in
  wf_doc 59 rows st = true /\
  render 59 rows st = [97; 59; 34; 98; 59; 34; 34; 99; 34; 13; 10; 10; 34; 120; 13; 10; 121; 34; 59] /\
  stream_scan 59 (render 59 rows st) = rows.
Proof. vm_compute. repeat split. Qed.

(* the two documented normalisations are sharp: a blank last row without final line break disappears,
   and a trailing CR of the last field of a row is taken for a CRLF row end *)
Example C12_blank_last_row_vanishes : stream_scan 44 (render 44 [[[97]]; [[]]] ([([false], false); ([false], false)], false)) = [[[97]]].
Proof. vm_compute. reflexivity. Qed.
Example C12_trailing_cr_is_dropped : stream_scan 44 (render 44 [[[97; 13]]] ([([true], false)], true)) = [[[97]]].
Proof. vm_compute. reflexivity. Qed.

(* ---- 2. C12_readcsv: the glue on top of the rows.  parse_int/parse_float/parse_bool are arbitrary. *)
Section Glue.
Variable parse_int : bytes -> option Z.
Variable parse_float : bytes -> option N.
Variable parse_bool : bytes -> option bool.

(* ReadCSV of a well-formed document = the glue applied to the rows it was rendered from *)
Theorem C12_readcsv (conf : csv_conf) (rows : list (list bytes)) (st : styles) :
  wf_doc (cf_delim conf) rows st = true ->
  read_csv_spec parse_int parse_float parse_bool conf (render (cf_delim conf) rows st)
  = read_rows parse_int parse_float parse_bool conf rows false.
Proof. exact (read_csv_spec_render parse_int parse_float parse_bool conf rows st). Qed.

(* untyped columns: int, else float (empty = NaN), else bool, else string (EmptyNull: empty = null) *)
Theorem C12_detect (e : bool) ev (cells : list bytes) :
  cells <> [] ->
  column_to_data parse_int parse_float parse_bool e DNone ev cells =
  Ok (match all_some (map parse_int cells) with
      | Some l => ColInt l
      | None =>
          match all_some (map (float_cell parse_float) cells) with
          | Some l => ColFloat l
          | None =>
              match all_some (map parse_bool cells) with
              | Some l => ColBool l
              | None => ColString (map (string_cell e) cells)
              end
          end
      end).
Proof. exact (detect_untyped parse_int parse_float parse_bool e ev cells). Qed.

Theorem C12_typed_int e ev cells :
  column_to_data parse_int parse_float parse_bool e DInt ev cells
  = match all_some (map parse_int cells) with Some l => Ok (ColInt l) | None => Fail end.
Proof. exact (typed_int parse_int parse_float parse_bool e ev cells). Qed.

Theorem C12_typed_float e ev cells :
  column_to_data parse_int parse_float parse_bool e DFloat ev cells
  = match all_some (map (float_cell parse_float) cells) with Some l => Ok (ColFloat l) | None => Fail end.
Proof. exact (typed_float parse_int parse_float parse_bool e ev cells). Qed.

Theorem C12_typed_bool e ev cells :
  column_to_data parse_int parse_float parse_bool e DBool ev cells
  = match all_some (map parse_bool cells) with Some l => Ok (ColBool l) | None => Fail end.
Proof. exact (typed_bool parse_int parse_float parse_bool e ev cells). Qed.

Theorem C12_typed_string e ev cells :
  column_to_data parse_int parse_float parse_bool e DString ev cells = Ok (ColString (map (string_cell e) cells)).
Proof. exact (typed_string parse_int parse_float parse_bool e ev cells). Qed.

(* IgnoreEmptyLines drops exactly the rows made of one empty field; a remaining row with another number
   of fields than the header makes ReadCSV fail *)
Theorem C12_rows (ie : bool) (n : nat) (rows cols : list (list bytes)) :
  body_loop ie n rows cols =
  if forallb (fun r => Nat.eqb (length r) n) (kept ie rows)
  then body_loop false n (kept ie rows) cols else Fail.
Proof. exact (body_loop_kept ie n rows cols). Qed.

(* a successful ReadCSV has distinct column names that qframe.New accepts, one per header field; without
   RenameDuplicateColumns they are the header (configured Headers, else the first row) with empty names
   replaced by MissingColumnNameAlias, in the same order *)
Theorem C12_names (conf : csv_conf) (rows : list (list bytes)) (fr : frame) :
  read_rows parse_int parse_float parse_bool conf rows false = Ok fr ->
  has_dup (map fst fr) = false /\ forallb check_name (map fst fr) = true /\
  length fr = length (header_of conf rows) /\
  (cf_rename_dup conf = false -> map fst fr = aliased conf (header_of conf rows)).
Proof. exact (read_rows_names parse_int parse_float parse_bool conf rows fr). Qed.

(* a reader that fails makes ReadCSV fail, whatever was read before *)
Theorem C12_reader_failure (conf : csv_conf) (rows : list (list bytes)) :
  read_rows parse_int parse_float parse_bool conf rows true = Fail.
Proof. exact (read_rows_failed parse_int parse_float parse_bool conf rows). Qed.
End Glue.
Print Assumptions C12_names.
Print Assumptions C12_readcsv.
Print Assumptions C12_detect.
Print Assumptions C12_rows.

(* ---- 3. C12_fragmentation (stretch): the buffer-level scanner is transparent.  NOT proved in general. *)
Definition chunks_ok (chunks : list bytes) : Prop := Forall (fun c => c <> []) chunks.

Definition C12_fragmentation_full_statement : Prop :=
  forall (cap : nat) (delim : N) (chunks : list bytes) (t : rterm),
    chunks_ok chunks -> (t = TEofSep \/ t = TEofWith) ->
    scan cap delim chunks t = Ok (stream_scan delim (concat chunks), false).

(* proved part: every document of at most 4 bytes over the alphabet {a, quote, comma, LF, CR}, EVERY chunking of it,
   initial capacities 0..2, both EOF styles (a finite sweep; the bounds are in the statement) *)
Theorem C12_fragmentation_partial :
  forall doc chunks cap t,
    In doc (docs_upto frag_alphabet 4) -> In chunks (chunkings doc) ->
    In cap [0; 1; 2]%nat -> In t [TEofSep; TEofWith] ->
    scan cap 44 chunks t = Ok (stream_scan 44 doc, false).
Proof. exact frag_sweep. Qed.
Print Assumptions C12_fragmentation_partial.
