(* Property C12 — ReadCSV parses RFC 4180 input faithfully for any fragmentation of the stream.
   Statements only; proofs are in Proofs/CsvSpecProofs.v, Proofs/CsvReadProofs.v, Proofs/CsvFragProofs.v
   (finite sweep) and Proofs/CsvFragFullBase.v, CsvFragFullField.v, CsvFragFull.v (general fragmentation). *)
From QF Require Import Base.Prelude Model.FastCsv Model.CsvSpec Model.CsvWrite Model.CsvRead
  Proofs.CsvSpecProofs Proofs.CsvReadProofs Proofs.CsvFragProofs Proofs.CsvFragFull.
Local Open Scope N_scope.

(* ---- 1. C12_rfc: the character machine inverts the renderer.
   wf_doc = the styles have the shape of the rows; the delimiter is none of quote, CR, LF; every row has at
   least one field; a field containing the delimiter, a quote, CR or LF is quoted; the LAST field of a row
   does not end in CR (implied by "no bare CR", see C12_no_bare_cr_suffices); and normalisation (i):
   a last row consisting of one empty unquoted field needs the final line break (without it the row renders
   as nothing and is not denoted). *)
Theorem C12_rfc (delim : N) (rows : list (list bytes)) (st : styles) :
  wf_doc delim rows st = true ->
  stream_scan delim (render delim rows st) = rows.
Proof. exact (stream_scan_render delim rows st). Qed.
Print Assumptions C12_rfc.

(* the same with C12's own side condition on the cells (no bare CR anywhere) instead of the weaker condition
   on the last field of every row *)
Theorem C12_rfc_no_bare_cr (delim : N) (rows : list (list bytes)) (st : styles) :
  wf_doc_nbc delim rows st = true ->
  stream_scan delim (render delim rows st) = rows.
Proof. exact (stream_scan_render_nbc delim rows st). Qed.
Print Assumptions C12_rfc_no_bare_cr.

Theorem C12_no_bare_cr_suffices (f : bytes) : no_bare_cr f = true -> ends_cr f = false.
Proof. exact (no_bare_cr_ends f). Qed.
Print Assumptions C12_no_bare_cr_suffices.

(* premises are satisfiable: delimiter semicolon; row 1 = a and a quoted field with delimiter and doubled quote,
   CRLF; row 2 = an empty line; row 3 = a quoted field containing CRLF and an empty last field, no final break *)
Example C12_rfc_example :
  let rows := [[ [97]; [98; 59; 34; 99] ]; [ [] ]; [ [120; 13; 10; 121]; [] ]] in
  let st : styles := ([([false; true], true); ([false], false); ([true; false], false)], false) in
  wf_doc 59 rows st = true /\
  render 59 rows st = [97; 59; 34; 98; 59; 34; 34; 99; 34; 13; 10; 10; 34; 120; 13; 10; 121; 34; 59] /\
  stream_scan 59 (render 59 rows st) = rows.
Proof. vm_compute. repeat split. Qed.

(* the two documented normalisations are sharp: a blank last row without final line break disappears,
   and a trailing CR of the last field of a row is taken for a CRLF row end *)
Example C12_blank_last_row_vanishes : stream_scan 44 (render 44 [[[97]]; [[]]] ([([false], false); ([false], false)], false)) = [[[97]]].
Proof. vm_compute. reflexivity. Qed.
Example C12_trailing_cr_is_dropped : stream_scan 44 (render 44 [[[97; 13]]] ([([true], false)], true)) = [[[97]]].
Proof. vm_compute. reflexivity. Qed.

(* ---- 2. C12_readcsv: the glue on top of the rows.  parse_int/parse_float/parse_bool are arbitrary. *)
Section Glue.
Variable parse_int : bytes -> option Z.
Variable parse_float : bytes -> option N.
Variable parse_bool : bytes -> option bool.

(* ReadCSV of a well-formed document = the glue applied to the rows it was rendered from *)
Theorem C12_readcsv (conf : csv_conf) (rows : list (list bytes)) (st : styles) :
  wf_doc (cf_delim conf) rows st = true ->
  read_csv_spec parse_int parse_float parse_bool conf (render (cf_delim conf) rows st)
  = read_rows parse_int parse_float parse_bool conf rows false.
Proof. exact (read_csv_spec_render parse_int parse_float parse_bool conf rows st). Qed.

(* untyped columns: int, else float (empty = NaN), else bool, else string (EmptyNull: empty = null) *)
Theorem C12_detect (e : bool) ev (cells : list bytes) :
  cells <> [] ->
  column_to_data parse_int parse_float parse_bool e DNone ev cells =
  Ok (match all_some (map parse_int cells) with
      | Some l => ColInt l
      | None =>
          match all_some (map (float_cell parse_float) cells) with
          | Some l => ColFloat l
          | None =>
              match all_some (map parse_bool cells) with
              | Some l => ColBool l
              | None => ColString (map (string_cell e) cells)
              end
          end
      end).
Proof. exact (detect_untyped parse_int parse_float parse_bool e ev cells). Qed.

Theorem C12_typed_int e ev cells :
  column_to_data parse_int parse_float parse_bool e DInt ev cells
  = match all_some (map parse_int cells) with Some l => Ok (ColInt l) | None => Fail end.
Proof. exact (typed_int parse_int parse_float parse_bool e ev cells). Qed.

Theorem C12_typed_float e ev cells :
  column_to_data parse_int parse_float parse_bool e DFloat ev cells
  = match all_some (map (float_cell parse_float) cells) with Some l => Ok (ColFloat l) | None => Fail end.
Proof. exact (typed_float parse_int parse_float parse_bool e ev cells). Qed.

Theorem C12_typed_bool e ev cells :
  column_to_data parse_int parse_float parse_bool e DBool ev cells
  = match all_some (map parse_bool cells) with Some l => Ok (ColBool l) | None => Fail end.
Proof. exact (typed_bool parse_int parse_float parse_bool e ev cells). Qed.

Theorem C12_typed_string e ev cells :
  column_to_data parse_int parse_float parse_bool e DString ev cells = Ok (ColString (map (string_cell e) cells)).
Proof. exact (typed_string parse_int parse_float parse_bool e ev cells). Qed.

(* IgnoreEmptyLines drops exactly the rows made of one empty field; a remaining row with another number
   of fields than the header makes ReadCSV fail *)
Theorem C12_rows (ie : bool) (n : nat) (rows cols : list (list bytes)) :
  body_loop ie n rows cols =
  if forallb (fun r => Nat.eqb (length r) n) (kept ie rows)
  then body_loop false n (kept ie rows) cols else Fail.
Proof. exact (body_loop_kept ie n rows cols). Qed.

(* a successful ReadCSV has distinct column names that qframe.New accepts, one per header field; without
   RenameDuplicateColumns they are the header (configured Headers, else the first row) with empty names
   replaced by MissingColumnNameAlias, in the same order *)
Theorem C12_names (conf : csv_conf) (rows : list (list bytes)) (fr : frame) :
  read_rows parse_int parse_float parse_bool conf rows false = Ok fr ->
  has_dup (map fst fr) = false /\ forallb check_name (map fst fr) = true /\
  length fr = length (header_of conf rows) /\
  (cf_rename_dup conf = false -> map fst fr = aliased conf (header_of conf rows)).
Proof. exact (read_rows_names parse_int parse_float parse_bool conf rows fr). Qed.

(* a reader that fails makes ReadCSV fail, whatever was read before *)
Theorem C12_reader_failure (conf : csv_conf) (rows : list (list bytes)) :
  read_rows parse_int parse_float parse_bool conf rows true = Fail.
Proof. exact (read_rows_failed parse_int parse_float parse_bool conf rows). Qed.
End Glue.
Print Assumptions C12_names.
Print Assumptions C12_readcsv.
Print Assumptions C12_detect.
Print Assumptions C12_rows.

(* ---- 3. C12_fragmentation: the buffer-level scanner is transparent.  Proved for ALL inputs. *)
Definition chunks_ok (chunks : list bytes) : Prop := Forall (fun c => c <> []) chunks.

(* every initial capacity (0 included: the first more() allocates), every delimiter byte (quote, CR, LF
   included), every document = concat chunks (well-formed or not), every chunking into non-empty chunks,
   EOF after or with the last data; the fuel is the one the model computes itself (scan_fuel), so "Ok" also
   says: no Go panic (index, slice bounds) and no exhausted fuel *)
Definition C12_fragmentation_full_statement : Prop :=
  forall (cap : nat) (delim : N) (chunks : list bytes) (t : rterm),
    chunks_ok chunks -> (t = TEofSep \/ t = TEofWith) ->
    scan cap delim chunks t = Ok (stream_scan delim (concat chunks), false).

Theorem C12_buffer_refines_stream : C12_fragmentation_full_statement.
Proof. exact buffer_refines_stream. Qed.
Print Assumptions C12_buffer_refines_stream.

(* two fragmentations (and capacities, and EOF styles) of one document give the same rows and error state *)
Theorem C12_fragmentation (delim : N) (doc : bytes) (cap1 cap2 : nat) (frag1 frag2 : list bytes)
        (t1 t2 : rterm) :
  chunks_ok frag1 -> chunks_ok frag2 -> concat frag1 = doc -> concat frag2 = doc ->
  (t1 = TEofSep \/ t1 = TEofWith) -> (t2 = TEofSep \/ t2 = TEofWith) ->
  scan cap1 delim frag1 t1 = scan cap2 delim frag2 t2.
Proof. exact (fragmentation_independent delim doc cap1 cap2 frag1 frag2 t1 t2). Qed.
Print Assumptions C12_fragmentation.

(* premises are satisfiable: a quoted field with a doubled quote and a CRLF row end, cut inside the doubled
   quote and between CR and LF (capacity 1, EOF with the last byte) versus one byte per read (capacity 0) *)
Example C12_fragmentation_example :
  let doc := [97; 44; 34; 98; 34; 34; 99; 34; 13; 10; 100] in
  let frag1 := [[97; 44; 34; 98; 34]; [34; 99; 34; 13]; [10; 100]] in
  let frag2 := map (fun c => [c]) doc in
  chunks_ok frag1 /\ chunks_ok frag2 /\ concat frag1 = doc /\ concat frag2 = doc /\
  scan 1 44 frag1 TEofWith = Ok ([[[97]; [98; 34; 99]]; [[100]]], false) /\
  scan 0 44 frag2 TEofSep = Ok ([[[97]; [98; 34; 99]]; [[100]]], false).
Proof.
  cbv zeta. repeat split; try (repeat constructor; discriminate); vm_compute; reflexivity.
Qed.

(* the premise "no empty chunk" is needed: a Read that returns (0, nil) -- which the io.Reader contract
   discourages but permits -- makes nextUnquotedField / fields.next index data[cursor] with cursor = len.
   The model faults exactly like the Go code (ReadCSV panics with "index out of range [0] with length 0"
   on a reader whose first Read returns 0, nil). *)
Example C12_zero_byte_read_panics :
  scan 1024 44 [[]; [97; 44; 98; 10; 49; 44; 50; 10]] TEofSep = Panic.
Proof. vm_compute. reflexivity. Qed.

(* the fuel: the model's own scan_fuel is one instance; any fuel >= document length + 2 (for the loop over the
   rows and for the loops inside a row) gives the same rows *)
Theorem C12_fuel_suffices (cap : nat) (delim : N) (chunks : list bytes) (t : rterm) (fuel fin : nat) :
  chunks_ok chunks -> (t = TEofSep \/ t = TEofWith) ->
  (length (concat chunks) + 2 <= fuel)%nat -> (length (concat chunks) + 2 <= fin)%nat ->
  exists tr, scan_loop fuel fin delim (new_reader cap chunks t) [] []
             = Ok (stream_scan delim (concat chunks), false, tr).
Proof. exact (scan_loop_fuel_suffices cap delim chunks t fuel fin). Qed.
Print Assumptions C12_fuel_suffices.

Example C12_fuel_example :
  let frag := [[97; 44; 34; 98; 34]; [34; 99; 34; 13]; [10; 100]] in
  chunks_ok frag /\ (length (concat frag) + 2 <= 13)%nat /\
  exists tr, scan_loop 13 13 44 (new_reader 1 frag TEofWith) [] []
             = Ok ([[[97]; [98; 34; 99]]; [[100]]], false, tr).
Proof.
  cbv zeta. split; [repeat constructor; discriminate|]. split; [vm_compute; lia|].
  eexists. vm_compute. reflexivity.
Qed.

(* the finite sweep of the first wave is kept: every document of at most 4 bytes over the alphabet
   {a, quote, comma, LF, CR}, EVERY chunking of it, initial capacities 0..2, both EOF styles *)
Theorem C12_fragmentation_partial :
  forall doc chunks cap t,
    In doc (docs_upto frag_alphabet 4) -> In chunks (chunkings doc) ->
    In cap [0; 1; 2]%nat -> In t [TEofSep; TEofWith] ->
    scan cap 44 chunks t = Ok (stream_scan 44 doc, false).
Proof. exact frag_sweep. Qed.
Print Assumptions C12_fragmentation_partial.

(* ---- 4. end to end on the model the engine executes: ReadCSV over the buffer-level scanner with NewReader's
   capacity (read_csv_buf) returns, for EVERY fragmentation of a well-formed document, the glue applied to the
   rows the document was rendered from.  parse_int/parse_float/parse_bool are arbitrary. *)
Definition C12_readcsv_fragmented_statement : Prop :=
  forall (parse_int : bytes -> option Z) (parse_float : bytes -> option N) (parse_bool : bytes -> option bool)
         (conf : csv_conf) (rows : list (list bytes)) (st : styles) (chunks : list bytes) (t : rterm),
    wf_doc (cf_delim conf) rows st = true ->
    chunks_ok chunks -> concat chunks = render (cf_delim conf) rows st ->
    (t = TEofSep \/ t = TEofWith) ->
    read_csv_buf parse_int parse_float parse_bool conf chunks t
    = read_rows parse_int parse_float parse_bool conf rows false.

Theorem C12_readcsv_fragmented : C12_readcsv_fragmented_statement.
Proof. exact read_csv_buf_render. Qed.
Print Assumptions C12_readcsv_fragmented.

(* for every byte sequence, well-formed or not: ReadCSV over the buffer = ReadCSV of the specification level *)
Theorem C12_readcsv_any_document
        (parse_int : bytes -> option Z) (parse_float : bytes -> option N) (parse_bool : bytes -> option bool)
        (conf : csv_conf) (chunks : list bytes) (t : rterm) :
  chunks_ok chunks -> (t = TEofSep \/ t = TEofWith) ->
  read_csv_buf parse_int parse_float parse_bool conf chunks t
  = read_csv_spec parse_int parse_float parse_bool conf (concat chunks).
Proof. exact (read_csv_buf_spec parse_int parse_float parse_bool conf chunks t). Qed.
Print Assumptions C12_readcsv_any_document.

(* premises are satisfiable: the document of C12_rfc_example cut into three chunks *)
Example C12_readcsv_fragmented_example :
  let rows := [[ [97]; [98; 59; 34; 99] ]; [ [] ]; [ [120; 13; 10; 121]; [] ]] in
  let st : styles := ([([false; true], true); ([false], false); ([true; false], false)], false) in
  let chunks := [[97; 59; 34; 98; 59; 34]; [34; 99; 34; 13; 10; 10; 34; 120; 13]; [10; 121; 34; 59]] in
  wf_doc 59 rows st = true /\ chunks_ok chunks /\ concat chunks = render 59 rows st.
Proof.
  cbv zeta. split; [vm_compute; reflexivity|]. split; [repeat constructor; discriminate|].
  vm_compute. reflexivity.
Qed.
