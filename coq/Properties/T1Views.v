(* Properties/T1Views.v — tie T1 for the typed views (C09, C01): Column.View and View.ItemAt / Len / Slice of
   internal/icolumn, fcolumn, bcolumn (column_gen.go, the instantiated internal/template/column.go), internal/scolumn
   (view.go, Column.stringCopyAt) and internal/ecolumn (view.go), and QFrame.IntView / FloatView / BoolView / StringView /
   EnumView with their Must variants (qframe_gen.go), translated by tools/qf2coq/views.go (Gen/GenViews.v), equal the
   model's observation of a frame (Model/Observe.v: get_view, view_len, view_item, view_slice) and hence show exactly
   the logical table abs f.  Statements only; proofs in Proofs/GenViewsProofs.v.

   Conventions.  F64 = N (float64 bit patterns, zero 0), OTHERC = unit, a row id is Z.of_nat of the model's position
   (zix index).  iview / fview / bview / sview / eview: the Go View value for column data and an index.  A physical
   string column (pointers into one blob) stands for the model column through s_rep, an enum column is e_col (both of
   Proofs/GenColApplyProofs.v, as in T1ColApply.v).  The typed Go results are compared as cells (omapo CInt ..).  All
   equations are between outcomes: the Go panic of ItemAt outside 0 <= i < Len, of an index entry outside the data and
   of an enum rank outside the value table is Panic on both sides.
   Frame level: qrep q f says what the views consult of a Go frame q — the index and the by-name map, whose entry for
   every name holds a column standing for the one the model resolves the name to (col_rep); neither the column slice
   nor Err is read.  phys_frame e f is such a q for every model frame whose string columns fit the pointer limits.
   vrep tv v: the typed Go view tv holds the data of v's column and zix of v's index.  view_sim: <T>View answers
   (view, nil) and Must<T>View the view when the model's get_view answers a view; (zero view, error) / a panic when it
   refuses (unknown name, another column type); no panic otherwise. *)
From QF Require Import Base.Prelude Gen.GenFuncs Gen.GenColApply Gen.GenQFrameOps Gen.GenViews.
From QF Require Import Model.Frame Model.TableSpec Model.Observe Proofs.GenColApplyProofs Proofs.GenViewsProofs.
Local Open Scope Z_scope.

(* ------------------------------------------------------------------ int *)

Theorem T1_views_int_Len d index : gw_icolumn_View_Len (iview d index) = Ok (view_len (mkView (ICol d) index)).
Proof. exact (int_Len d index). Qed.
Print Assumptions T1_views_int_Len.
Theorem T1_views_int_ItemAt d index i :
  omapo CInt (gw_icolumn_View_ItemAt (iview d index) i) = view_item (mkView (ICol d) index) i.
Proof. exact (int_ItemAt d index i). Qed.
Print Assumptions T1_views_int_ItemAt.
Theorem T1_views_int_Slice d index :
  omapo (map CInt) (gw_icolumn_View_Slice (iview d index)) = view_slice (mkView (ICol d) index).
Proof. exact (int_Slice d index). Qed.
Print Assumptions T1_views_int_Slice.

(* ------------------------------------------------------------------ float *)

Theorem T1_views_float_Len d index : gw_fcolumn_View_Len (fview d index) = Ok (view_len (mkView (FCol d) index)).
Proof. exact (float_Len d index). Qed.
Print Assumptions T1_views_float_Len.
Theorem T1_views_float_ItemAt d index i :
  omapo CFloat (gw_fcolumn_View_ItemAt (fview d index) i) = view_item (mkView (FCol d) index) i.
Proof. exact (float_ItemAt d index i). Qed.
Print Assumptions T1_views_float_ItemAt.
Theorem T1_views_float_Slice d index :
  omapo (map CFloat) (gw_fcolumn_View_Slice 0%N (fview d index)) = view_slice (mkView (FCol d) index).
Proof. exact (float_Slice d index). Qed.
Print Assumptions T1_views_float_Slice.

(* ------------------------------------------------------------------ bool *)

Theorem T1_views_bool_Len d index : gw_bcolumn_View_Len (bview d index) = Ok (view_len (mkView (BCol d) index)).
Proof. exact (bool_Len d index). Qed.
Print Assumptions T1_views_bool_Len.
Theorem T1_views_bool_ItemAt d index i :
  omapo CBool (gw_bcolumn_View_ItemAt (bview d index) i) = view_item (mkView (BCol d) index) i.
Proof. exact (bool_ItemAt d index i). Qed.
Print Assumptions T1_views_bool_ItemAt.
Theorem T1_views_bool_Slice d index :
  omapo (map CBool) (gw_bcolumn_View_Slice (bview d index)) = view_slice (mkView (BCol d) index).
Proof. exact (bool_Slice d index). Qed.
Print Assumptions T1_views_bool_Slice.

(* ------------------------------------------------------------------ string *)

(* non-vacuity of s_rep: the column scolumn.New lays out for ["ab", nil, ""] *)
Definition ex_sd : list (option bytes) := [Some [97; 98]%N; None; Some []].
Example T1_views_string_rep_example : s_rep (s_enc ex_sd) ex_sd.
Proof. apply New_rep. apply s_fitsb_ok. vm_compute. reflexivity. Qed.

Theorem T1_views_string_Len pc d index : gw_scolumn_View_Len (sview pc index) = Ok (view_len (mkView (SCol d) index)).
Proof. exact (string_Len pc d index). Qed.
Print Assumptions T1_views_string_Len.
(* stringToPtr(stringAt(index[i])): nil for a null pointer *)
Theorem T1_views_string_ItemAt pc d index i : s_rep pc d ->
  omapo CStr (gw_scolumn_View_ItemAt (sview pc index) i) = view_item (mkView (SCol d) index) i.
Proof. exact (string_ItemAt pc d index i). Qed.
Print Assumptions T1_views_string_ItemAt.
(* stringCopyAt is stringAt as a value *)
Theorem T1_views_string_stringCopyAt pc j : gw_scolumn_Column_stringCopyAt pc j = gap_scolumn_Column_stringAt pc j.
Proof. exact (stringCopyAt_stringAt pc j). Qed.
Print Assumptions T1_views_string_stringCopyAt.
Theorem T1_views_string_Slice pc d index : s_rep pc d ->
  omapo (map CStr) (gw_scolumn_View_Slice (sview pc index)) = view_slice (mkView (SCol d) index).
Proof. exact (string_Slice pc d index). Qed.
Print Assumptions T1_views_string_Slice.
Example T1_views_string_example :
  gw_scolumn_View_Slice (sview (s_enc ex_sd) [2; 0; 1]%nat) = Ok [Some []; Some [97; 98]%N; None]
  /\ gw_scolumn_View_ItemAt (sview (s_enc ex_sd) [2; 0; 1]%nat) 2 = Ok None
  /\ gw_scolumn_View_ItemAt (sview (s_enc ex_sd) [2; 0; 1]%nat) 3 = Panic
  /\ gw_scolumn_View_ItemAt (sview (s_enc ex_sd) [2; 0; 1]%nat) (-1) = Panic.
Proof. vm_compute. auto. Qed.

(* ------------------------------------------------------------------ enum *)

Theorem T1_views_enum_Len d vs st index :
  gw_ecolumn_View_Len (eview d vs st index) = Ok (view_len (mkView (ECol d vs st) index)).
Proof. exact (enum_Len d vs st index). Qed.
Print Assumptions T1_views_enum_Len.
(* stringPtrAt(index[i]): nil for the null rank, the value table otherwise *)
Theorem T1_views_enum_ItemAt d vs st index i :
  omapo CEnum (gw_ecolumn_View_ItemAt (eview d vs st index) i) = view_item (mkView (ECol d vs st) index) i.
Proof. exact (enum_ItemAt d vs st index i). Qed.
Print Assumptions T1_views_enum_ItemAt.
(* the enum loop calls v.ItemAt(i) for every position *)
Theorem T1_views_enum_Slice d vs st index :
  omapo (map CEnum) (gw_ecolumn_View_Slice (eview d vs st index)) = view_slice (mkView (ECol d vs st) index).
Proof. exact (enum_Slice d vs st index). Qed.
Print Assumptions T1_views_enum_Slice.

(* ------------------------------------------------------------------ the typed views, uniformly *)

Example T1_views_vrep_example : vrep (TVEnum (gw_mk_EnumView (eview [1; 255; 0]%N [[120%N]; [121%N]] true [2; 0; 1]%nat)))
                                     (mkView (ECol [1; 255; 0]%N [[120%N]; [121%N]] true) [2; 0; 1]%nat).
Proof. reflexivity. Qed.
Theorem T1_views_Len tv v : vrep tv v -> tv_len tv = Ok (view_len v).
Proof. exact (views_len tv v). Qed.
Print Assumptions T1_views_Len.
Theorem T1_views_ItemAt tv v i : vrep tv v -> tv_item tv i = view_item v i.
Proof. exact (views_item tv v i). Qed.
Print Assumptions T1_views_ItemAt.
Theorem T1_views_Slice tv v : vrep tv v -> tv_slice tv = view_slice v.
Proof. exact (views_slice tv v). Qed.
Print Assumptions T1_views_Slice.

(* ------------------------------------------------------------------ QFrame.<T>View and Must<T>View *)

(* the example frame of Properties/C09.v: the physical order differs from the row order *)
Definition ex_f : frame :=
  mkFrame [([65%N], FCol [0x7FF8000000000001; 0; 0x3FF0000000000000]%N); ([66%N], SCol [None; Some []; Some [97%N]]);
           ([67%N], ECol [1; 255; 0]%N [[120%N]; [121%N]] true)] [2; 0; 1]%nat false.
Definition ex_ne : bytes -> bytes -> bytes := fun _ format => format.

(* every model frame whose string columns fit the pointer limits has a Go frame *)
Theorem T1_views_phys_frame (E : Type) (e : E) f :
  Forall (fun nc => col_fits (snd nc)) (cols f) -> qrep (phys_frame e f) f.
Proof. exact (phys_frame_rep e f). Qed.
Print Assumptions T1_views_phys_frame.
Example T1_views_qrep_example : qrep (phys_frame (@nil N) ex_f) ex_f /\ exists t, abs ex_f = Ok t
  /\ tcolumn t [67%N] = Some (TEnum, [CEnum (Some [120%N]); CEnum (Some [121%N]); CEnum None]) /\ tcolumn t [68%N] = None.
Proof.
  split.
  - apply phys_frame_rep. repeat constructor.
  - eexists. split; [vm_compute; reflexivity|]. split; reflexivity.
Qed.

(* for every frame, type and name: the translated constructor is get_view (the unknown-column and the wrong-type error
   included; the Must variant panics exactly then) *)
Theorem T1_views_View (E : Type) (new_error : bytes -> bytes -> E) q f t name :
  qrep q f -> view_sim new_error q t name (get_view f t name).
Proof. exact (views_get new_error q f t name). Qed.
Print Assumptions T1_views_View.

Example T1_views_IntView_premises :
  qrep (phys_frame (@nil N) ex_f) ex_f /\ get_view ex_f TInt [65%N] = Fail /\ get_view ex_f TInt [68%N] = Fail
  /\ exists v, get_view ex_f TFloat [65%N] = Ok v.
Proof. split; [exact (proj1 T1_views_qrep_example)|]. split; [reflexivity|]. split; [reflexivity|]. eexists. reflexivity. Qed.

Theorem T1_views_IntView (E : Type) (new_error : bytes -> bytes -> E) (q : gq_QFrame Z E pcol) f name v :
  qrep q f -> get_view f TInt name = Ok v ->
  exists x, gw_QFrame_IntView new_error q name = Ok (x, None) /\ gw_QFrame_MustIntView new_error q name = Ok x
            /\ vrep (TVInt x) v.
Proof. exact (IntView_ok new_error q f name v). Qed.
Print Assumptions T1_views_IntView.
Theorem T1_views_IntView_err (E : Type) (new_error : bytes -> bytes -> E) (q : gq_QFrame Z E pcol) f name :
  qrep q f -> get_view f TInt name = Fail ->
  (exists x e, gw_QFrame_IntView new_error q name = Ok (x, Some e)) /\ gw_QFrame_MustIntView new_error q name = Panic.
Proof. exact (IntView_err new_error q f name). Qed.
Print Assumptions T1_views_IntView_err.

Theorem T1_views_FloatView (E : Type) (new_error : bytes -> bytes -> E) (q : gq_QFrame Z E pcol) f name v :
  qrep q f -> get_view f TFloat name = Ok v ->
  exists x, gw_QFrame_FloatView new_error q name = Ok (x, None) /\ gw_QFrame_MustFloatView new_error q name = Ok x
            /\ vrep (TVFloat x) v.
Proof. exact (FloatView_ok new_error q f name v). Qed.
Print Assumptions T1_views_FloatView.
Theorem T1_views_FloatView_err (E : Type) (new_error : bytes -> bytes -> E) (q : gq_QFrame Z E pcol) f name :
  qrep q f -> get_view f TFloat name = Fail ->
  (exists x e, gw_QFrame_FloatView new_error q name = Ok (x, Some e)) /\ gw_QFrame_MustFloatView new_error q name = Panic.
Proof. exact (FloatView_err new_error q f name). Qed.
Print Assumptions T1_views_FloatView_err.

Theorem T1_views_BoolView (E : Type) (new_error : bytes -> bytes -> E) (q : gq_QFrame Z E pcol) f name v :
  qrep q f -> get_view f TBool name = Ok v ->
  exists x, gw_QFrame_BoolView new_error q name = Ok (x, None) /\ gw_QFrame_MustBoolView new_error q name = Ok x
            /\ vrep (TVBool x) v.
Proof. exact (BoolView_ok new_error q f name v). Qed.
Print Assumptions T1_views_BoolView.
Theorem T1_views_BoolView_err (E : Type) (new_error : bytes -> bytes -> E) (q : gq_QFrame Z E pcol) f name :
  qrep q f -> get_view f TBool name = Fail ->
  (exists x e, gw_QFrame_BoolView new_error q name = Ok (x, Some e)) /\ gw_QFrame_MustBoolView new_error q name = Panic.
Proof. exact (BoolView_err new_error q f name). Qed.
Print Assumptions T1_views_BoolView_err.

Theorem T1_views_StringView (E : Type) (new_error : bytes -> bytes -> E) (q : gq_QFrame Z E pcol) f name v :
  qrep q f -> get_view f TString name = Ok v ->
  exists x, gw_QFrame_StringView new_error q name = Ok (x, None) /\ gw_QFrame_MustStringView new_error q name = Ok x
            /\ vrep (TVStr x) v.
Proof. exact (StringView_ok new_error q f name v). Qed.
Print Assumptions T1_views_StringView.
Theorem T1_views_StringView_err (E : Type) (new_error : bytes -> bytes -> E) (q : gq_QFrame Z E pcol) f name :
  qrep q f -> get_view f TString name = Fail ->
  (exists x e, gw_QFrame_StringView new_error q name = Ok (x, Some e)) /\ gw_QFrame_MustStringView new_error q name = Panic.
Proof. exact (StringView_err new_error q f name). Qed.
Print Assumptions T1_views_StringView_err.

Theorem T1_views_EnumView (E : Type) (new_error : bytes -> bytes -> E) (q : gq_QFrame Z E pcol) f name v :
  qrep q f -> get_view f TEnum name = Ok v ->
  exists x, gw_QFrame_EnumView new_error q name = Ok (x, None) /\ gw_QFrame_MustEnumView new_error q name = Ok x
            /\ vrep (TVEnum x) v.
Proof. exact (EnumView_ok new_error q f name v). Qed.
Print Assumptions T1_views_EnumView.
Theorem T1_views_EnumView_err (E : Type) (new_error : bytes -> bytes -> E) (q : gq_QFrame Z E pcol) f name :
  qrep q f -> get_view f TEnum name = Fail ->
  (exists x e, gw_QFrame_EnumView new_error q name = Ok (x, Some e)) /\ gw_QFrame_MustEnumView new_error q name = Panic.
Proof. exact (EnumView_err new_error q f name). Qed.
Print Assumptions T1_views_EnumView_err.

(* ------------------------------------------------------------------ C09 on the translated text *)

(* C09_view_slice / C09_view_len / C09_view_item: the views show exactly the logical table.  For every Go frame q that
   stands for f, every name and the column (ty, cells) that the name denotes in abs f: <ty>View(name) succeeds (and so
   does the Must variant), its Slice() is that column in row order, its Len() the number of rows, its ItemAt(i) the
   i-th cell — a panic exactly outside 0 <= i < Len *)
Theorem T1_views_observe (E : Type) (new_error : bytes -> bytes -> E) q f tb name ty cells :
  qrep q f -> abs f = Ok tb -> tcolumn tb name = Some (ty, cells) ->
  exists tv, q_view new_error q ty name = Ok (tv, None) /\ q_must_view new_error q ty name = Ok tv
    /\ tv_slice tv = Ok cells
    /\ tv_len tv = Ok (Z.of_nat (length (trows tb))) /\ length cells = length (trows tb)
    /\ forall i, tv_item tv i = if i <? 0 then Panic else of_option (nth_error cells (Z.to_nat i)).
Proof. exact (views_observe new_error q f tb name ty cells). Qed.
Print Assumptions T1_views_observe.

(* C09_view_wrong_type / C09_view_unknown: a view of another type or of an unknown name is an error, a panic of Must *)
Theorem T1_views_wrong_type (E : Type) (new_error : bytes -> bytes -> E) q f tb name ty cells ty' :
  qrep q f -> abs f = Ok tb -> tcolumn tb name = Some (ty, cells) -> ty' <> ty ->
  (exists tv e, q_view new_error q ty' name = Ok (tv, Some e)) /\ q_must_view new_error q ty' name = Panic.
Proof. exact (views_wrong_type new_error q f tb name ty cells ty'). Qed.
Print Assumptions T1_views_wrong_type.
Theorem T1_views_unknown (E : Type) (new_error : bytes -> bytes -> E) q f tb name ty :
  qrep q f -> abs f = Ok tb -> tcolumn tb name = None ->
  (exists tv e, q_view new_error q ty name = Ok (tv, Some e)) /\ q_must_view new_error q ty name = Panic.
Proof. exact (views_unknown new_error q f tb name ty). Qed.
Print Assumptions T1_views_unknown.

(* the translated text, run: the enum column C of the example frame through EnumView, the wrong type, an unknown name *)
Example T1_views_run_example :
  (do r <- q_view ex_ne (phys_frame (@nil N) ex_f) TEnum [67%N]; tv_slice (fst r))
    = Ok [CEnum (Some [120%N]); CEnum (Some [121%N]); CEnum None]
  /\ (do r <- q_view ex_ne (phys_frame (@nil N) ex_f) TString [66%N]; tv_item (fst r) 2) = Ok (CStr (Some []))
  /\ (do r <- q_view ex_ne (phys_frame (@nil N) ex_f) TFloat [65%N]; tv_len (fst r)) = Ok 3
  /\ (do r <- q_view ex_ne (phys_frame (@nil N) ex_f) TInt [65%N]; Ok (snd r))
       = Ok (Some (bs 42 0x696e76616c696420636f6c756d6e20747970652c2065787065637465643a2025732c207761733a202573))
  /\ (do r <- q_view ex_ne (phys_frame (@nil N) ex_f) TInt [68%N]; Ok (snd r)) = Ok (Some (bs 18 0x756e6b6e6f776e20636f6c756d6e3a202573))
  /\ q_must_view ex_ne (phys_frame (@nil N) ex_f) TBool [66%N] = Panic.
Proof. vm_compute. repeat split; reflexivity. Qed.
