(* Property C02 — Filter keeps exactly the rows satisfying the clause, in frame order.
   Only statements here; proofs are in Proofs/FilterProofs.v, Proofs/FilterLeafProofs.v and Proofs/FilterTyped*.v. *)
From QF Require Import Base.Prelude Base.KernelSyntax Gen.GenTables Gen.GenKernels.
From QF Require Import Model.Frame Model.Kernel Model.Filter Model.FilterSpec Proofs.FilterProofs Proofs.FilterLeafProofs.
From QF Require Import Proofs.FilterTyped Proofs.FilterTypedInt Proofs.FilterTypedFloatBool Proofs.FilterTypedStr
                       Proofs.FilterTypedEnum Proofs.FilterTypedCustom Proofs.FilterTypedLeaf Proofs.FilterTypedFrame
                       Proofs.FilterTypedCorollaries Proofs.FilterTypedTotal Proofs.FilterTypedEmpty.
Local Open Scope nat_scope.

(* 1. Every admissible clause tree (arbitrary And/Or/Not/Null nesting, Or with batches of consecutive leaves
      evaluated on one shared mask, Not of a leaf executed as an inverted leaf) keeps exactly the rows of its
      boolean reading — And = all, Or = any, Not = complement within the frame, Null = every row —, each once,
      in the order of the frame's row index, for EVERY duplicate-free row index over existing positions
      (i.e. however the frame was derived), and leaves the columns alone.  The meaning of the leaves is a
      parameter: any row-wise predicate that the per-leaf step realises on the shared mask. *)
Theorem C02_clause_tree
  (mt : matcher_table) (f : frame) (leaf_set : leaf -> nat -> bool) (inb : nat -> Prop) :
  ferr f = false ->
  forall c, clause_ok mt f leaf_set inb c ->
  forall i, NoDup i -> Forall inb i ->
    clause_filter mt c (with_ix f i) = Ok (with_ix f (filter (clause_set leaf_set c) i)).
Proof. intros Hf c Hc. exact (clause_keeps mt f Hf leaf_set inb c Hc). Qed.
Print Assumptions C02_clause_tree.

(* 2. The order preserving merges behind Or and Not are union and complement inside the index. *)
Theorem C02_or_merge (P Q : nat -> bool) (orig : list nat) :
  NoDup orig -> or_merge orig (filter P orig) (filter Q orig) = filter (fun p => P p || Q p) orig.
Proof. exact (or_merge_filter P Q orig). Qed.
Print Assumptions C02_or_merge.

Theorem C02_not_merge (P : nat -> bool) (orig : list nat) :
  NoDup orig -> not_merge orig (filter P orig) = filter (fun p => negb (P p)) orig.
Proof. exact (not_merge_filter P orig). Qed.
Print Assumptions C02_not_merge.

(* 3. A batch of leaves on one shared mask keeps the rows satisfying ANY of them. *)
Theorem C02_batch_is_or
  (mt : matcher_table) (f : frame) (leaf_set : leaf -> nat -> bool) (inb : nat -> Prop) :
  ferr f = false ->
  forall ls i, Forall (leaf_realised mt f leaf_set inb) ls -> Forall inb i ->
    filter_leaves mt (with_ix f i) ls
    = Ok (with_ix f (filter (fun p => existsb (fun l => leaf_set l p) ls) i)).
Proof. intros Hf. exact (filter_leaves_or mt f Hf leaf_set inb). Qed.
Print Assumptions C02_batch_is_or.

(* 4. Obligations on the kernels and tables GENERATED from the current Go source: no kernel clears bits of
      the shared mask, every kernel was recognised, every table entry resolves to a kernel. *)
Theorem C02_kernels_never_clear : forallb (fun nk => negb (kernel_clears (snd nk))) g_kernels = true.
Proof. exact kernels_never_clear. Qed.
Print Assumptions C02_kernels_never_clear.

Theorem C02_kernels_all_recognised : forallb (fun nk => negb (kernel_bad (snd nk))) g_kernels = true.
Proof. exact kernels_all_recognised. Qed.
Print Assumptions C02_kernels_all_recognised.

(* a kernel that does not clear never turns a match of an earlier leaf into a non-match *)
Theorem C02_kernel_monotone d env k index b r :
  kernel_clears k = false ->
  (forall fn k', k = KDelegate fn true \/ k = KDelegate fn false -> d fn = Some k' -> kernel_clears k' = false) ->
  length index = length b ->
  run_kernel d env k index b = Ok r ->
  Forall2 (fun x y => x = true -> y = true) b r.
Proof. exact (run_kernel_monotone d env k index b r). Qed.
Print Assumptions C02_kernel_monotone.

(* 5. For EVERY comparator the generated table lists for int columns with a constant argument
      (<, <=, >, >=, =, !=, any_bits, all_bits) the per-leaf step ORs into the mask exactly the typed
      comparison of the statement. *)
Theorem C02_int_const_table : Forall int_const_entry_ok t_i_filter1.
Proof. exact int_const_table_ok. Qed.
Print Assumptions C02_int_const_table.

(* 6. Non-vacuity: a concrete frame whose index is neither sorted nor complete, and a nested clause
      Or(A < 2, Not(And(A >= 3, A != 7)), A all_bits 4), meet the premises of theorem 1. *)
Definition ex_frame : frame := mkFrame [([65%N], ICol [3; 1; 2; 5; 4; 7]%Z)] [4; 0; 5; 2; 1] false.
Definition ex_clause : clause :=
  COr [CLeaf (int_leaf [65%N] (bs 1 0x3c) 2);
       CNot (CAnd [CLeaf (int_leaf [65%N] (bs 2 0x3e3d) 3); CLeaf (int_leaf [65%N] (bs 2 0x213d) 7)]);
       CLeaf (int_leaf [65%N] (bs 8 0x616c6c5f62697473) 4)].

Example C02_premises_satisfiable :
  clause_ok [] ex_frame (int_leaf_set [3; 1; 2; 5; 4; 7]%Z) (fun p => p < 6) ex_clause
  /\ NoDup (ix ex_frame) /\ Forall (fun p => p < 6) (ix ex_frame)
  /\ clause_filter [] ex_clause ex_frame = Ok (with_ix ex_frame [4; 5; 2; 1]).
Proof. exact ex_premises. Qed.
Print Assumptions C02_premises_satisfiable.

(* ======================================================================================================
   WAVE 2: the typed meaning of the leaves and the link to the row-wise specification Model/FilterSpec.v.
   Everything below runs the GENERATED kernels (Gen/GenKernels.v) through the GENERATED tables
   (Gen/GenTables.v); a change of a kernel, of a table entry or of filter.Inverse in the Go source makes
   the proof of one of these theorems fail at the next regeneration.
   ====================================================================================================== *)

(* 7. Column.Filter is LOCAL: its effect on a mask over an index is the OR of its effects on the single rows
      (for every column type, comparator, argument; uses obligation 4 "no kernel clears"). *)
Theorem C02_column_filter_local mt c cmp a i b (s : nat -> bool) p0 v0 :
  col_filter mt c [p0] cmp a [false] = Ok [v0] ->
  length i = length b ->
  (forall p, In p i -> col_filter mt c [p] cmp a [false] = Ok [s p]) ->
  col_filter mt c i cmp a b = Ok (mask_or b (map s i)).
Proof. exact (col_filter_local mt c cmp a i b s p0 v0). Qed.
Print Assumptions C02_column_filter_local.

(* 8. THE ROW STATEMENTS, one per column type.  [colrow_ok mt f c cmp arg p] says: where FilterSpec determines
      the answer v for row p, Column.Filter on that row writes exactly v; where FilterSpec calls the leaf invalid,
      Column.Filter (or the argument look-up) returns an error for every index and mask.
      Each covers EVERY comparator name (the 14 known ones and any other string) x EVERY argument kind
      (int, float, bool, string, []int, []float64, []string, []interface{}, column name, nil, other). *)
Theorem C02_row_int mt f d s arg p :
  p < length d -> arg_row_ok f arg p -> colrow_ok mt f (ICol d) (CmpName s) arg p.
Proof. exact (colrow_int mt f d s arg p). Qed.
Print Assumptions C02_row_int.

(* float: NaN cells make every comparison false except != ; a NaN constant is an error; isnull = IsNaN;
   int argument columns are promoted with float64(int) *)
Theorem C02_row_float mt f d s arg p :
  p < length d -> arg_row_ok f arg p -> colrow_ok mt f (FCol d) (CmpName s) arg p.
Proof. exact (colrow_float mt f d s arg p). Qed.
Print Assumptions C02_row_float.

Theorem C02_row_bool mt f d s arg p :
  p < length d -> arg_row_ok f arg p -> colrow_ok mt f (BCol d) (CmpName s) arg p.
Proof. exact (colrow_bool mt f d s arg p). Qed.
Print Assumptions C02_row_bool.

(* string: null cells make every comparison false except != ; in / like / ilike never match null;
   like / ilike through the matcher table, a pattern that does not compile is an error *)
Theorem C02_row_string mt f d s arg p :
  p < length d -> arg_row_ok f arg p -> colrow_ok mt f (SCol d) (CmpName s) arg p.
Proof. exact (colrow_str mt f d s arg p). Qed.
Print Assumptions C02_row_string.

(* enum: comparison by rank (= position of the value in the type), null rows as for strings; a constant
   outside the type is an error for strict types and otherwise "= nothing, != everything"; in / like / ilike
   through the 256 bit set; a column argument needs an equal enum type.
   Premise col_row_ok: ranks in range, at most 255 values, values pairwise different. *)
Theorem C02_row_enum mt f d vs st s arg p :
  col_row_ok (ECol d vs st) p -> arg_row_ok f arg p -> colrow_ok mt f (ECol d vs st) (CmpName s) arg p.
Proof. exact (colrow_enum mt f d vs st s arg p). Qed.
Print Assumptions C02_row_enum.

(* custom predicates func(T) bool / func(T, T) bool on all five types decide by their return value *)
Theorem C02_row_fn1 mt f c t tbl arg p :
  col_row_ok c p -> arg_row_ok f arg p -> colrow_ok mt f c (CmpFn1 t tbl) arg p.
Proof. exact (colrow_fn1 mt f c t tbl arg p). Qed.
Print Assumptions C02_row_fn1.

Theorem C02_row_fn2 mt f c t tbl arg p :
  col_row_ok c p -> arg_row_ok f arg p -> colrow_ok mt f c (CmpFn2 t tbl) arg p.
Proof. exact (colrow_fn2 mt f c t tbl arg p). Qed.
Print Assumptions C02_row_fn2.

(* the 256 bit set of ecolumn/bitset.go filled by `for i, v := range values { if pred(v) { set(i) } }` *)
Theorem C02_enum_bitset (pred : bytes -> bool) values :
  length values <= 256 ->
  length (bitset_of values pred) = 4 /\
  forall w, Bits.bitset_isset (bitset_of values pred) w
            = match nth_error values (N.to_nat w) with Some x => pred x | None => false end.
Proof. exact (bitset_of_spec pred values). Qed.
Print Assumptions C02_enum_bitset.

(* the comparator names of every generated filter table are among the 14 names the specification knows
   (a comparator added to a Go table without a meaning in FilterSpec breaks this and the row theorems) *)
Theorem C02_tables_keys_known :
  keys_known t_filter_inverse && keys_known t_i_filter0 && keys_known t_i_filter1 && keys_known t_i_filter2
  && keys_known t_i_filterN && keys_known t_f_filter0 && keys_known t_f_filter1 && keys_known t_f_filter2
  && keys_known t_b_filter1 && keys_known t_b_filter2
  && keys_known t_s_filter0 && keys_known t_s_filter1 && keys_known t_s_filter2 && keys_known t_s_filterN
  && keys_known t_e_filter0 && keys_known t_e_filter1 && keys_known t_e_filter2 && keys_known t_e_filterN
  && keys_known t_e_filterLike = true.
Proof. exact tables_keys_known. Qed.
Print Assumptions C02_tables_keys_known.

(* Go's float64 operators as the kernels use them (x > y is y < x) = the statement's comparison:
   NaN on either side makes <, <=, >, >=, == false and != true; -0 = +0 *)
Theorem C02_float_operators a b :
  f_lt a b = cmp_float OLt a b /\ f_le a b = cmp_float OLe a b /\ f_lt b a = cmp_float OGt a b
  /\ f_le b a = cmp_float OGe a b /\ f_eq a b = cmp_float OEq a b /\ negb (f_eq a b) = cmp_float ONe a b.
Proof. exact (conj (f_lt_spec a b) (conj (f_le_spec a b) (conj (f_gt_spec a b) (conj (f_ge_spec a b) (conj (f_eq_spec a b) (f_ne_spec a b)))))). Qed.
Print Assumptions C02_float_operators.

(* 9. filter.Inverse at the level of the specification: != is the complement of =, isnull of isnotnull,
      and "not in" is no comparator of any column type. *)
Theorem C02_spec_ne_is_not_eq mt f c a p :
  builtin_sat mt f c n_ne a p = do r <- builtin_sat mt f c n_eq a p; Ok (not3 r).
Proof. exact (invspec_eq mt f c a p). Qed.
Print Assumptions C02_spec_ne_is_not_eq.

(* 10. THE LEAF THEOREMS (frame_ok = wf_frame + pairwise different enum values).
       The per-leaf step of QFrame.filter, incl. argument column look-up, int/float promotion, Filter.Inverse
       with its shortcut through filter.Inverse (only for =, in, isnull, isnotnull) and its fallback. *)
Theorem C02_leaf_ok mt f (l : leaf) (s : nat -> bool) (i : list nat) (b : list bool) (p0 : nat) :
  frame_ok f ->
  (forall p, p = p0 \/ In p i -> p < phys_len f /\ leaf_sat mt f l p = Ok (Some (Some (s p)))) ->
  length i = length b ->
  filter_leaf mt (with_ix f i) l b = Ok (mask_or b (map s i)).
Proof. intro Hok. exact (leaf_ok mt f Hok l s i b p0). Qed.
Print Assumptions C02_leaf_ok.

(* ... and an error exactly when the specification says invalid (leaf_in_scope: the comparator is not the
   string "not in", which Filter accepts in inverted leaves although no column implements it) *)
Theorem C02_leaf_err mt f (l : leaf) (i : list nat) (b : list bool) (p0 : nat) :
  frame_ok f -> p0 < phys_len f -> leaf_sat mt f l p0 = Ok None -> leaf_in_scope l ->
  filter_leaf mt (with_ix f i) l b = Fail.
Proof. intro Hok. exact (leaf_err mt f Hok l i b p0). Qed.
Print Assumptions C02_leaf_err.

(* the specification never faults on a well-formed frame ... *)
Theorem C02_spec_total mt f l p :
  frame_ok f -> p < phys_len f -> exists r, leaf_sat mt f l p = Ok r.
Proof. exact (leaf_sat_total mt f l p). Qed.
Print Assumptions C02_spec_total.

(* ... so "closed" only excludes rows the specification leaves open *)
Theorem C02_closed_iff_not_open mt f l :
  frame_ok f ->
  (leaf_closed mt f l <-> forall p, In p (ix f) -> leaf_sat mt f l p <> Ok (Some None)).
Proof. exact (leaf_closed_iff_not_open mt f l). Qed.
Print Assumptions C02_closed_iff_not_open.

(* 11. THE FRAME THEOREM.  c02_premises_b is an executable check: wf_frame, pairwise different enum values,
       no Err, duplicate-free row index, every leaf of the clause answered (valid or invalid, not open) by the
       specification on every row, no comparator "not in".  Then QFrame.Filter returns exactly the rows the
       specification names — once each, in frame order, columns untouched (with_ix) — or sets Err exactly when
       the specification rejects the clause. *)
Definition C02_full_statement : Prop :=
  forall mt f c,
    c02_premises_b mt f c = true -> ix f <> [] ->
    match filter_spec mt f c with
    | VRows rows =>
        frame_filter mt f c = Ok (with_ix f rows)
        /\ rows = filter (fun p => sat_true (clause_sat mt f c p)) (ix f)
    | VError => exists g, frame_filter mt f c = Ok g /\ ferr g = true
    | VOpen | VFault => False
    end.

Theorem C02_filter : C02_full_statement.
Proof. exact filter_meets_spec. Qed.
Print Assumptions C02_filter.

(* the two directions with the premises as propositions *)
Theorem C02_filter_rows mt f c rows :
  frame_ok f -> ferr f = false -> NoDup (ix f) -> ix f <> [] -> clause_closed mt f c ->
  filter_spec mt f c = VRows rows ->
  frame_filter mt f c = Ok (with_ix f rows)
  /\ rows = filter (fun p => sat_true (clause_sat mt f c p)) (ix f).
Proof. intros Hok Hne. exact (filter_rows mt f Hok Hne c rows). Qed.
Print Assumptions C02_filter_rows.

Theorem C02_filter_error mt f c :
  frame_ok f -> ferr f = false -> NoDup (ix f) -> clause_closed mt f c -> clause_in_scope c ->
  filter_spec mt f c = VError ->
  exists g, frame_filter mt f c = Ok g /\ ferr g = true.
Proof. intros Hok Hne. exact (filter_error mt f Hok Hne c). Qed.
Print Assumptions C02_filter_error.

(* frames without rows (where the specification has no row to judge the clause on): whatever the clause,
   Filter returns the frame itself or the frame with Err set.  The third alternative, a fault of the MODEL, can
   only come from the case oracles (a like-matcher the case did not record). *)
Theorem C02_filter_empty mt f c :
  ferr f = false -> ix f = [] ->
  frame_filter mt f c = Ok f \/ frame_filter mt f c = Ok (with_err f) \/ frame_filter mt f c = Panic.
Proof. intros Hne Hix. exact (filter_empty mt f Hne Hix c). Qed.
Print Assumptions C02_filter_empty.

(* 12. COROLLARIES: the outcome depends only on the row-wise meaning of the clause. *)
Theorem C02_same_spec mt f c1 c2 :
  c02_premises_b mt f c1 = true -> c02_premises_b mt f c2 = true -> ix f <> [] ->
  (forall p, In p (ix f) -> clause_sat mt f c1 p = clause_sat mt f c2 p) ->
  same_outcome (frame_filter mt f c1) (frame_filter mt f c2).
Proof. exact (same_spec mt f c1 c2). Qed.
Print Assumptions C02_same_spec.

Theorem C02_not_not mt f c :
  ix f <> [] -> c02_premises_b mt f c = true ->
  same_outcome (frame_filter mt f (CNot (CNot c))) (frame_filter mt f c).
Proof. intro Hne. exact (filter_not_not mt f Hne c). Qed.
Print Assumptions C02_not_not.

Theorem C02_de_morgan_and mt f cs :
  ix f <> [] -> c02_premises_b mt f (CAnd cs) = true ->
  same_outcome (frame_filter mt f (CNot (CAnd cs))) (frame_filter mt f (COr (map CNot cs))).
Proof. intro Hne. exact (filter_de_morgan_and mt f Hne cs). Qed.
Print Assumptions C02_de_morgan_and.

Theorem C02_de_morgan_or mt f cs :
  ix f <> [] -> c02_premises_b mt f (COr cs) = true ->
  same_outcome (frame_filter mt f (CNot (COr cs))) (frame_filter mt f (CAnd (map CNot cs))).
Proof. intro Hne. exact (filter_de_morgan_or mt f Hne cs). Qed.
Print Assumptions C02_de_morgan_or.

Theorem C02_inverse_is_not mt f l :
  ix f <> [] -> c02_premises_b mt f (CLeaf l) = true ->
  same_outcome (frame_filter mt f (CLeaf (invert_leaf l))) (frame_filter mt f (CNot (CLeaf l))).
Proof. intro Hne. exact (filter_inverse_is_not mt f Hne l). Qed.
Print Assumptions C02_inverse_is_not.

Theorem C02_and_nesting mt f xs ys :
  ix f <> [] -> xs <> [] -> c02_premises_b mt f (CAnd (xs ++ ys)) = true ->
  same_outcome (frame_filter mt f (CAnd (CAnd xs :: ys))) (frame_filter mt f (CAnd (xs ++ ys))).
Proof. intro Hne. exact (filter_and_flatten mt f Hne xs ys). Qed.
Print Assumptions C02_and_nesting.

Theorem C02_or_nesting mt f xs ys :
  ix f <> [] -> xs <> [] -> c02_premises_b mt f (COr (xs ++ ys)) = true ->
  same_outcome (frame_filter mt f (COr (COr xs :: ys))) (frame_filter mt f (COr (xs ++ ys))).
Proof. intro Hne. exact (filter_or_flatten mt f Hne xs ys). Qed.
Print Assumptions C02_or_nesting.

Theorem C02_and_order mt f xs ys :
  ix f <> [] -> Permutation xs ys -> c02_premises_b mt f (CAnd xs) = true ->
  same_outcome (frame_filter mt f (CAnd xs)) (frame_filter mt f (CAnd ys)).
Proof. intro Hne. exact (filter_and_perm mt f Hne xs ys). Qed.
Print Assumptions C02_and_order.

Theorem C02_or_order mt f xs ys :
  ix f <> [] -> Permutation xs ys -> c02_premises_b mt f (COr xs) = true ->
  same_outcome (frame_filter mt f (COr xs)) (frame_filter mt f (COr ys)).
Proof. intro Hne. exact (filter_or_perm mt f Hne xs ys). Qed.
Print Assumptions C02_or_order.

(* 13. Non-vacuity: a frame with all five column types (NaN, null string, null enum), a row index that is
       neither sorted nor complete, a like-matcher table, and a nested clause with inverted leaves, a column
       argument, a value set, a custom predicate, like on an enum column: the premises hold, the specification
       names 4 of the 5 rows and the model returns them.  A second clause (bool column with "<") is rejected. *)
Local Open Scope N_scope.
Definition nA : bytes := [65]. Definition nF : bytes := [70]. Definition nB : bytes := [66].
Definition nS : bytes := [83]. Definition nE : bytes := [69]. Definition nG : bytes := [71].
Definition ex5_frame : frame :=
  mkFrame [ (nA, ICol [3; 1; 2; 5; 4; 7]%Z);
            (nF, FCol [0x3FF0000000000000; f_nan; 0x4004000000000000; 0xBFF0000000000000; 0; 0x4004000000000000]);
            (nB, BCol [true; false; true; true; false; false]);
            (nS, SCol [Some [97]; None; Some [98; 99]; Some [120]; Some []; Some [97]]);
            (nE, ECol [0; 2; 255; 1; 1; 0] [[97]; [98]; [99]] false);
            (nG, ICol [3; 0; 2; 6; 4; 1]%Z) ]
          [4; 0; 5; 2; 1]%nat false.
(* the matcher for pattern "a", case sensitive, with its answers for the strings of the frame *)
Definition ex5_mt : matcher_table :=
  [ (([97], true), Some [([97], true); ([98], false); ([99], false); ([98; 99], false); ([120], false); ([], false)]) ].
Definition lf col cmp arg inv := CLeaf (mkLeaf col (CmpName cmp) arg inv).
Definition ex5_clause : clause :=
  COr [ lf nA (bs 1 0x3c) (AInt 2) false;
        CAnd [ lf nE (bs 1 0x3d) (AStr [98]) true; lf nE (bs 1 0x3c) (AStr [99]) false ];
        CNot (CAnd [ lf nF (bs 2 0x3e3d) (AFloat 0x3FF0000000000000 1) false;
                     lf nS (bs 2 0x213d) (AStr [120]) false;
                     CNot (lf nA (bs 1 0x3e) (AColName nG) false) ]);
        CAnd [ lf nB (bs 1 0x3d) (ABool true) false;
               lf nS (bs 2 0x696e) (AStrs [[97]; [98; 99]]) true;
               CLeaf (mkLeaf nF (CmpFn1 TFloat [(CFloat 0, true); (CFloat f_nan, false); (CFloat 0x3FF0000000000000, false);
                                                (CFloat 0x4004000000000000, true); (CFloat 0xBFF0000000000000, false)]) ANil false) ];
        CAnd [ lf nE (bs 9 0x69736e6f746e756c6c) ANil true; lf nA (bs 8 0x616c6c5f62697473) (AInt 8) false ];
        CAnd [ lf nE (bs 4 0x6c696b65) (AStr [97]) false; lf nS (bs 4 0x6c696b65) (AStr [97]) true ] ].
Definition ex5_bad : clause :=
  CAnd [ lf nA (bs 1 0x3c) (AInt 2) false; COr [ lf nB (bs 1 0x3c) (ABool true) false; CNull ] ].

Example C02_filter_empty_example :
  let f0 := with_ix ex5_frame [] in
  ferr f0 = false /\ ix f0 = [] /\ frame_filter ex5_mt f0 ex5_clause = Ok f0
  /\ frame_filter ex5_mt f0 ex5_bad = Ok (with_err f0).
Proof. repeat split; vm_compute; reflexivity. Qed.
Print Assumptions C02_filter_empty_example.

Example C02_filter_premises_satisfiable :
  c02_premises_b ex5_mt ex5_frame ex5_clause = true /\ ix ex5_frame <> []
  /\ filter_spec ex5_mt ex5_frame ex5_clause = VRows [4; 0; 5; 1]%nat
  /\ frame_filter ex5_mt ex5_frame ex5_clause = Ok (with_ix ex5_frame [4; 0; 5; 1]%nat)
  /\ c02_premises_b ex5_mt ex5_frame ex5_bad = true
  /\ filter_spec ex5_mt ex5_frame ex5_bad = VError.
Proof. repeat split; try (vm_compute; reflexivity). discriminate. Qed.
Print Assumptions C02_filter_premises_satisfiable.

(* premises of the row and leaf theorems on the same frame: every column is readable at every row of the index *)
Example C02_row_premises_satisfiable :
  frame_ok ex5_frame
  /\ col_row_ok (ECol [0; 2; 255; 1; 1; 0] [[97]; [98]; [99]] false) 2
  /\ arg_row_ok ex5_frame (AColName nG) 2
  /\ (forall p, p = 4%nat \/ In p [0; 5]%nat ->
        (p < phys_len ex5_frame)%nat
        /\ leaf_sat ex5_mt ex5_frame (mkLeaf nE (CmpName (bs 1 0x3d)) (AStr [98]) true) p
           = Ok (Some (Some (negb (Nat.eqb p 4)))))
  /\ leaf_sat ex5_mt ex5_frame (mkLeaf nB (CmpName (bs 1 0x3c)) (ABool true) false) 4 = Ok None.
Proof.
  split; [apply frame_ok_b; vm_compute; reflexivity|].
  split; [split; [vm_compute; lia|split; [vm_compute; reflexivity|]];
          apply (nodupb_ok bytes_eqb bytes_eqb_spec); vm_compute; reflexivity|].
  split; [split; [vm_compute; lia|split; [reflexivity|exact I]]|].
  split; [|vm_compute; reflexivity].
  intros p [->|[<-|[<-|[]]]]; (split; [vm_compute; lia|vm_compute; reflexivity]).
Qed.
Print Assumptions C02_row_premises_satisfiable.

(* premises of the corollaries and of the locality theorem on the same frame *)
Definition ex5_parts : list clause :=
  [ lf nA (bs 1 0x3c) (AInt 4) false; lf nS (bs 2 0x213d) (AStr [120]) false; lf nE (bs 4 0x6c696b65) (AStr [97]) true ].

Example C02_corollary_premises_satisfiable :
  c02_premises_b ex5_mt ex5_frame (CAnd ex5_parts) = true
  /\ c02_premises_b ex5_mt ex5_frame (COr ex5_parts) = true
  /\ c02_premises_b ex5_mt ex5_frame (CAnd (ex5_parts ++ [ex5_clause])) = true
  /\ c02_premises_b ex5_mt ex5_frame (CLeaf (mkLeaf nE (CmpName (bs 1 0x3d)) (AStr [98]) false)) = true
  /\ Permutation ex5_parts (rev ex5_parts) /\ ex5_parts <> []
  /\ frame_filter ex5_mt ex5_frame (CNot (CAnd ex5_parts)) = Ok (with_ix ex5_frame [4; 0; 5]%nat)
  /\ frame_filter ex5_mt ex5_frame (COr (map CNot ex5_parts)) = Ok (with_ix ex5_frame [4; 0; 5]%nat)
  /\ col_filter ex5_mt (ICol [3; 1; 2; 5; 4; 7]%Z) [4%nat] (CmpName (bs 1 0x3c)) (RConst (AInt 5)) [false] = Ok [true]
  /\ col_filter ex5_mt (ICol [3; 1; 2; 5; 4; 7]%Z) [5%nat] (CmpName (bs 1 0x3c)) (RConst (AInt 5)) [false] = Ok [false].
Proof.
  repeat split; try (vm_compute; reflexivity); try discriminate.
  apply Permutation_rev.
Qed.
Print Assumptions C02_corollary_premises_satisfiable.
