(* Property C02 — Filter keeps exactly the rows satisfying the clause, in frame order.
   Only statements here; proofs are in Proofs/FilterProofs.v and Proofs/FilterLeafProofs.v. *)
From QF Require Import Base.Prelude Base.KernelSyntax Gen.GenTables Gen.GenKernels.
From QF Require Import Model.Frame Model.Kernel Model.Filter Model.FilterSpec Proofs.FilterProofs Proofs.FilterLeafProofs.
Local Open Scope nat_scope.

(* 1. Every admissible clause tree (arbitrary And/Or/Not/Null nesting, Or with batches of consecutive leaves
      evaluated on one shared mask, Not of a leaf executed as an inverted leaf) keeps exactly the rows of its
      boolean reading — And = all, Or = any, Not = complement within the frame, Null = every row —, each once,
      in the order of the frame's row index, for EVERY duplicate-free row index over existing positions
      (i.e. however the frame was derived), and leaves the columns alone.  The meaning of the leaves is a
      parameter: any row-wise predicate that the per-leaf step realises on the shared mask. *)
Theorem C02_clause_tree
  (mt : matcher_table) (f : frame) (leaf_set : leaf -> nat -> bool) (inb : nat -> Prop) :
  ferr f = false ->
  forall c, clause_ok mt f leaf_set inb c ->
  forall i, NoDup i -> Forall inb i ->
    clause_filter mt c (with_ix f i) = Ok (with_ix f (filter (clause_set leaf_set c) i)).
Proof. intros Hf c Hc. exact (clause_keeps mt f Hf leaf_set inb c Hc). Qed.
Print Assumptions C02_clause_tree.

(* 2. The order preserving merges behind Or and Not are union and complement inside the index. *)
Theorem C02_or_merge (P Q : nat -> bool) (orig : list nat) :
  NoDup orig -> or_merge orig (filter P orig) (filter Q orig) = filter (fun p => P p || Q p) orig.
Proof. exact (or_merge_filter P Q orig). Qed.
Print Assumptions C02_or_merge.

Theorem C02_not_merge (P : nat -> bool) (orig : list nat) :
  NoDup orig -> not_merge orig (filter P orig) = filter (fun p => negb (P p)) orig.
Proof. exact (not_merge_filter P orig). Qed.
Print Assumptions C02_not_merge.

(* 3. A batch of leaves on one shared mask keeps the rows satisfying ANY of them. *)
Theorem C02_batch_is_or
  (mt : matcher_table) (f : frame) (leaf_set : leaf -> nat -> bool) (inb : nat -> Prop) :
  ferr f = false ->
  forall ls i, Forall (leaf_realised mt f leaf_set inb) ls -> Forall inb i ->
    filter_leaves mt (with_ix f i) ls
    = Ok (with_ix f (filter (fun p => existsb (fun l => leaf_set l p) ls) i)).
Proof. intros Hf. exact (filter_leaves_or mt f Hf leaf_set inb). Qed.
Print Assumptions C02_batch_is_or.

(* 4. Obligations on the kernels and tables GENERATED from the current Go source: no kernel clears bits of
      the shared mask, every kernel was recognised, every table entry resolves to a kernel. *)
Theorem C02_kernels_never_clear : forallb (fun nk => negb (kernel_clears (snd nk))) g_kernels = true.
Proof. exact kernels_never_clear. Qed.
Print Assumptions C02_kernels_never_clear.

Theorem C02_kernels_all_recognised : forallb (fun nk => negb (kernel_bad (snd nk))) g_kernels = true.
Proof. exact kernels_all_recognised. Qed.
Print Assumptions C02_kernels_all_recognised.

(* a kernel that does not clear never turns a match of an earlier leaf into a non-match *)
Theorem C02_kernel_monotone d env k index b r :
  kernel_clears k = false ->
  (forall fn k', k = KDelegate fn true \/ k = KDelegate fn false -> d fn = Some k' -> kernel_clears k' = false) ->
  length index = length b ->
  run_kernel d env k index b = Ok r ->
  Forall2 (fun x y => x = true -> y = true) b r.
Proof. exact (run_kernel_monotone d env k index b r). Qed.
Print Assumptions C02_kernel_monotone.

(* 5. For EVERY comparator the generated table lists for int columns with a constant argument
      (<, <=, >, >=, =, !=, any_bits, all_bits) the per-leaf step ORs into the mask exactly the typed
      comparison of the statement. *)
Theorem C02_int_const_table : Forall int_const_entry_ok t_i_filter1.
Proof. exact int_const_table_ok. Qed.
Print Assumptions C02_int_const_table.

(* 6. Non-vacuity: a concrete frame whose index is neither sorted nor complete, and a nested clause
      Or(A < 2, Not(And(A >= 3, A != 7)), A all_bits 4), meet the premises of theorem 1. *)
Definition ex_frame : frame := mkFrame [([65%N], ICol [3; 1; 2; 5; 4; 7]%Z)] [4; 0; 5; 2; 1] false.
Definition ex_clause : clause :=
  COr [CLeaf (int_leaf [65%N] (bs 1 0x3c) 2);
       CNot (CAnd [CLeaf (int_leaf [65%N] (bs 2 0x3e3d) 3); CLeaf (int_leaf [65%N] (bs 2 0x213d) 7)]);
       CLeaf (int_leaf [65%N] (bs 8 0x616c6c5f62697473) 4)].

Example C02_premises_satisfiable :
  clause_ok [] ex_frame (int_leaf_set [3; 1; 2; 5; 4; 7]%Z) (fun p => p < 6) ex_clause
  /\ NoDup (ix ex_frame) /\ Forall (fun p => p < 6) (ix ex_frame)
  /\ clause_filter [] ex_clause ex_frame = Ok (with_ix ex_frame [4; 5; 2; 1]).
Proof. exact ex_premises. Qed.
Print Assumptions C02_premises_satisfiable.
