(* Property C17 — enum columns keep their declared value set and order. *)
From QF Require Import Base.Prelude Gen.GenConsts Model.Bits Model.Frame Model.Kernel Model.Filter Model.FilterSpec Model.Ops.
From QF Require Import Model.Sort Corr.SortCorr Model.CsvSpec Model.CsvRead.
From QF Require Import Proofs.BitsProofs Proofs.FilterProofs Proofs.EnumProofs Proofs.SortProofs Proofs.EnumOrderProofs.
Local Open Scope nat_scope.

(* whatever the enum factory accepts is read back exactly — every string as itself, null as null (never as a value,
   no value as null) —, the value table extends the declared one (equals it when values were declared) and never
   exceeds 255 entries *)
Theorem C17_decode data values d vals strict :
  enum_new data values = Ok (ECol d vals strict) ->
  length vals <= 255
  /\ (exists ext, vals = values ++ ext) /\ (values <> [] -> vals = values)
  /\ length d = length data
  /\ forall k s, nth_error data k = Some s -> cell_at (ECol d vals strict) k = Ok (CEnum s).
Proof. exact (enum_new_decode data values d vals strict). Qed.
Print Assumptions C17_decode.

(* with declared values, construction fails on any undeclared value *)
Theorem C17_strict data values b :
  values <> [] -> In (Some b) data -> ~ In b values ->
  forall d vals strict, enum_new data values <> Ok (ECol d vals strict).
Proof. intros H1 H2 H3. exact (proj2 (enum_new_strict data values b H1 H2 H3)). Qed.
Print Assumptions C17_strict.

(* more than 255 declared values are rejected *)
Theorem C17_too_many data values : 255 < length values -> enum_new data values = Fail.
Proof. exact (enum_new_too_many data values). Qed.
Print Assumptions C17_too_many.

(* the stored rank is the (declared) position of the cell's string; null has the reserved rank 255 *)
Theorem C17_rank_is_position data values d vals strict :
  enum_new data values = Ok (ECol d vals strict) ->
  forall k r, nth_error d k = Some r ->
    match nth_error data k with
    | Some (Some s) => r <> 255%N /\ nth_error vals (N.to_nat r) = Some s
    | Some None => r = 255%N
    | None => False
    end.
Proof. exact (enum_rank_is_position data values d vals strict). Qed.
Print Assumptions C17_rank_is_position.

(* the constants the statements above speak about are the ones of the current Go source *)
Theorem C17_constants : c_nullValue = 255%N /\ c_maxCardinality = 255%N.
Proof. exact c_null_is_255. Qed.
Print Assumptions C17_constants.

(* the bitset behind in / like / ilike on enum columns: set then isSet answers "same value" for all uint8 values *)
Theorem C17_bitset_single_ok (v w : N) : (v < 256)%N -> (w < 256)%N ->
  bitset_isset (bitset_set bitset_empty v) w = N.eqb v w.
Proof. exact (bitset_single_ok v w). Qed.
Print Assumptions C17_bitset_single_ok.

(* Non-vacuity: declared order b < a, data with a null and a repeated value; derived enum at the cardinality limit *)
Example C17_declared_example :
  enum_new [Some [97%N]; None; Some [98%N]; Some [97%N]] [[98%N]; [97%N]]
  = Ok (ECol [1; 255; 0; 1]%N [[98%N]; [97%N]] true).
Proof. vm_compute. reflexivity. Qed.

Example C17_cardinality_limit :
  (exists d vals, enum_new (map (fun k => Some [N.of_nat k]) (seq 0 255)) [] = Ok (ECol d vals false) /\ length vals = 255)
  /\ enum_new (map (fun k => Some [N.of_nat k]) (seq 0 256)) [] = Fail.
Proof. split; [eexists; eexists; split; [vm_compute; reflexivity|reflexivity]|vm_compute; reflexivity]. Qed.

(* ====================================================================================================
   Second part: what filters, Sort and the readers do with an enum column (Proofs/EnumOrderProofs.v).

   Vocabulary.  [index_of s vals] is the DECLARED POSITION of s (C17_position: with a duplicate-free table it is
   the only p with vals[p] = s).  [mask_or b m] (Proofs/FilterProofs.v) is the shared filter mask afterwards: a row
   that matched before stays, every other row k gets m[k].  The declaration of a column the factory returned is
   duplicate-free (C17_duplicate_declaration_rejected / C17_declaration_nodup: NewFactory rejects a declaration
   that lists a value twice), so no theorem below needs that as a premise. *)

Theorem C17_position (l : list bytes) s p : NoDup l -> (index_of s l = Some p <-> nth_error l p = Some s).
Proof. exact (index_of_spec l s p). Qed.
Print Assumptions C17_position.

(* a declaration that lists a value twice is REJECTED: by the factory (ecolumn.New through NewFactory, whatever
   the data), by NewConst, hence by createColumn for every kind of string data, by the enum branch of ReadCSV's
   columnToData; and New returns the Err frame (no columns, Err set) for such an Enums entry of a string column,
   whatever else is supplied *)
Theorem C17_duplicate_declaration_rejected (values : list bytes) :
  ~ NoDup values ->
  (forall data, enum_new data values = Fail)
  /\ (forall v n, enum_new_const v n values = Fail)
  /\ (forall d, is_string_data d = true -> create_column d (Some values) = Fail)
  /\ (forall pi pf pb e cells, column_to_data pi pf pb e DEnum (Some values) cells = Fail)
  /\ (forall data enums n dn order,
       assocb n data = Some dn -> is_string_data dn = true -> assocb n enums = Some values ->
       new_frame data order enums = Ok (mkFrame [] [] true)).
Proof.
  intro H. split; [intro data; exact (enum_new_duplicate_rejected data values H)|].
  split; [intros v n; exact (enum_new_const_duplicate_rejected v n values H)|].
  split; [intros d Hd; exact (create_column_duplicate_rejected d values Hd H)|].
  split; [intros pi pf pb e cells; exact (csv_enum_duplicate_rejected pi pf pb e (Some values) cells H)|].
  intros data enums n dn order Hd Hs He. exact (new_frame_duplicate_err data enums n dn values order Hd Hs He H).
Qed.
Print Assumptions C17_duplicate_declaration_rejected.

(* ... so a column that WAS constructed has a duplicate-free declaration *)
Theorem C17_declaration_nodup (values : list bytes) :
  (forall data c, enum_new data values = Ok c -> NoDup values)
  /\ (forall v n c, enum_new_const v n values = Ok c -> NoDup values)
  /\ (forall pi pf pb e cells c, column_to_data pi pf pb e DEnum (Some values) cells = Ok c -> NoDup values).
Proof.
  split; [intros data c; exact (enum_new_ok_nodup data values c)|].
  split; [intros v n c; exact (enum_new_const_ok_nodup v n values c)|].
  intros pi pf pb e cells c. exact (csv_enum_ok_nodup pi pf pb e (Some values) cells c).
Qed.
Print Assumptions C17_declaration_nodup.

(* the value table the factory returns is duplicate-free (so that "the position" makes sense), also when derived *)
Theorem C17_table_nodup data values d vals strict :
  enum_new data values = Ok (ECol d vals strict) -> NoDup vals.
Proof. exact (enum_new_nodup data values d vals strict). Qed.
Print Assumptions C17_table_nodup.

(* <, <=, >, >=, =, != against a declared constant (the generated kernels k_e_lt ... k_e_neq run by e_filter_builtin):
   a row matches iff the declared position of its value compares accordingly with the position pc of the
   constant; a null row matches only != .  [enum_row_sat] is that sentence as a function of the cell. *)
Definition C17_filter_order_statement : Prop :=
  forall mt data values d vals strict cmp op s pc index b,
  enum_new data values = Ok (ECol d vals strict) ->
  cop_of cmp = Some op -> nth_error vals pc = Some s ->
  length index = length b -> Forall (fun p => p < length data) index ->
  e_filter_builtin mt d vals strict index cmp (RConst (AStr s)) b
  = Ok (mask_or b (map (fun p =>
          match nth p data None with
          | None => match op with ONe => true | _ => false end
          | Some v => match index_of v vals with
                      | Some pv => ord_sat op (Nat.compare pv pc)
                      | None => false
                      end
          end) index)).
Theorem C17_filter_order : C17_filter_order_statement.
Proof. exact enum_filter_order. Qed.
Print Assumptions C17_filter_order.

(* filtering against an undeclared constant: an error for every comparison operator when the values were
   declared; for a derived enum no row (every row for !=).  Holds for ANY enum column, not only factory-built. *)
Theorem C17_filter_undeclared mt d vals strict cmp op s index b :
  cop_of cmp = Some op -> ~ In s vals ->
  e_filter_builtin mt d vals strict index cmp (RConst (AStr s)) b
  = if strict then Fail
    else Ok (if match op with ONe => true | _ => false end then map (fun _ => true) b else b).
Proof. exact (enum_filter_undeclared mt d vals strict cmp op s index b). Qed.
Print Assumptions C17_filter_undeclared.

(* the comparator names the two theorems quantify over are exactly "<", "<=", ">", ">=", "=", "!=" *)
Theorem C17_operators :
  map cop_of [bs 1 0x3c; bs 2 0x3c3d; bs 1 0x3e; bs 2 0x3e3d; bs 1 0x3d; bs 2 0x213d]%N
  = [Some OLt; Some OLe; Some OGt; Some OGe; Some OEq; Some ONe]
  /\ forall cmp op, cop_of cmp = Some op -> cmp = cop_name op.
Proof. exact (conj eq_refl cop_of_inv). Qed.
Print Assumptions C17_operators.

(* the 256-bit set behind in / like / ilike: for EVERY uint8 rank r, isSet answers pred (values[r]) — false
   beyond the table; general proof over the four words (covers 63/64, 127/128, 191/192) *)
Theorem C17_bitset (values : list bytes) (pred : bytes -> bool) (r : N) :
  length values <= 256 ->
  bitset_isset (bitset_of values pred) r
  = match nth_error values (N.to_nat r) with Some v => pred v | None => false end.
Proof. exact (bitset_of_spec values pred r). Qed.
Print Assumptions C17_bitset.

(* set adds exactly one member to any four-word set *)
Theorem C17_bitset_set (s : bitset) (v r : N) : length s = 4 -> (v < 256)%N ->
  bitset_isset (bitset_set s v) r = (v =? r)%N || bitset_isset s r.
Proof. exact (isset_set s v r). Qed.
Print Assumptions C17_bitset_set.

(* the null rank is never in the set *)
Theorem C17_bitset_null (values : list bytes) (pred : bytes -> bool) :
  length values <= 255 -> bitset_isset (bitset_of values pred) c_nullValue = false.
Proof. exact (bitset_of_null values pred). Qed.
Print Assumptions C17_bitset_null.

(* "in": the rows whose value is one of the listed strings; null rows never; undeclared strings in the list are
   not an error (as in the Go code) *)
Theorem C17_filter_in mt data values d vals strict l index b :
  enum_new data values = Ok (ECol d vals strict) ->
  length index = length b -> Forall (fun p => p < length data) index ->
  e_filter_builtin mt d vals strict index (bs 2 0x696e) (RConst (AStrs l)) b
  = Ok (mask_or b (map (fun p => match nth p data None with
                                 | None => false
                                 | Some v => existsb (bytes_eqb v) l
                                 end) index)).
Proof. exact (enum_filter_in mt data values d vals strict l index b). Qed.
Print Assumptions C17_filter_in.

(* like (cs = true) / ilike (cs = false): the rows whose value the matcher of the case accepts; null rows never;
   a pattern that does not compile is an error.  (The matcher is an oracle table of the case: [find_matcher];
   a pattern the case did not record shows as Panic.) *)
Theorem C17_filter_like mt data values d vals strict (cs : bool) pat index b :
  enum_new data values = Ok (ECol d vals strict) ->
  length index = length b -> Forall (fun p => p < length data) index ->
  e_filter_builtin mt d vals strict index (if cs then bs 4 0x6c696b65 else bs 5 0x696c696b65) (RConst (AStr pat)) b
  = match find_matcher mt pat cs with
    | Some (Some m) => Ok (mask_or b (map (fun p => match nth p data None with None => false | Some v => m v end) index))
    | Some None => Fail
    | None => Panic
    end.
Proof. exact (enum_filter_like mt data values d vals strict cs pat index b). Qed.
Print Assumptions C17_filter_like.

(* Sort: the Compare of an enum column — [key_compare] on the KEnum key of the sorter model (Corr/SortCorr.v), fed
   with the ranks of the column — answers LessThan / GreaterThan / tie exactly as the declared positions say:
   null before every value (after, with NullLast), two nulls tie, Reverse inverts the complete order; and
   Sorter.Less with this single key is that order. *)
Definition C17_sort_order_statement : Prop :=
  forall data values d vals strict,
  enum_new data values = Ok (ECol d vals strict) ->
  forall (rev nl : bool) i j, i < length data -> j < length data ->
    let pos (c : option bytes) : option nat := match c with None => None | Some v => index_of v vals end in
    let lt (x y : option nat) : bool := match x, y with
                  | None, None => false
                  | None, Some _ => negb nl
                  | Some _, None => nl
                  | Some p, Some q => p <? q
                  end in
    let before (a b : option bytes) : bool := if rev then lt (pos b) (pos a) else lt (pos a) (pos b) in
    let a := nth i data None in let b := nth j data None in
    SortProofs.cmp3 (key_compare (enum_sort_key d, (rev, nl)) i j)
    = (if before a b then Lt else if before b a then Gt else Eq)
    /\ model_lt [(enum_sort_key d, (rev, nl))] i j = before a b.
Theorem C17_sort_order : C17_sort_order_statement.
Proof. exact enum_compare_order. Qed.
Print Assumptions C17_sort_order.

(* the key the sort engine computes from the strings (position in the declared values, None for null) is this key *)
Theorem C17_sort_key data values d vals strict :
  enum_new data values = Ok (ECol d vals strict) ->
  KEnum (map (fun c => match c with None => None | Some s => find_value_last vals s end) data)
  = KEnum (map (fun r => if enum_is_null r then None else Some r) d).
Proof. exact (enum_key_of_ranks data values d vals strict). Qed.
Print Assumptions C17_sort_key.

(* ReadCSV, enum branch of columnToData: what it accepts are the cells that were read — a non-empty cell as itself,
   the empty cell as the VALUE "" unless EmptyNull is set (then null) —, at most 255 values, with declared values
   exactly the declared table *)
Theorem C17_csv_decode pi pf pb e ev cells c :
  column_to_data pi pf pb e DEnum ev cells = Ok c ->
  exists vals, c = ColEnum vals (map (fun x => if is_nilb x && e then None else Some x) cells)
    /\ length vals <= 255 /\ (exists ext, vals = declared ev ++ ext) /\ (declared ev <> [] -> vals = declared ev).
Proof. exact (csv_enum_decode pi pf pb e ev cells c). Qed.
Print Assumptions C17_csv_decode.

(* ... and with declared values any cell outside them makes the read fail; the empty cell is such a cell when ""
   is not declared and EmptyNull is off *)
Theorem C17_csv_strict pi pf pb e ev cells c :
  declared ev <> [] -> In c cells -> ~ In c (declared ev) -> is_nilb c && e = false ->
  column_to_data pi pf pb e DEnum ev cells = Fail.
Proof. exact (csv_enum_strict pi pf pb e ev cells c). Qed.
Print Assumptions C17_csv_strict.

(* New / ReadJSON (= UnmarshalJSON, then New on string pointers with JSON null = nil): the enum column is built by
   the factory of the first part, and an undeclared value is a failure, not merely "not an enum column" *)
Theorem C17_new_strict_fail data values b :
  values <> [] -> In (Some b) data -> ~ In b values -> enum_new data values = Fail.
Proof. exact (enum_new_strict_fail data values b). Qed.
Print Assumptions C17_new_strict_fail.

Theorem C17_json_strict x values b :
  values <> [] -> In (Some b) x -> ~ In b values ->
  create_column (DStrPtrs x) (Some values) = enum_new x values /\ create_column (DStrPtrs x) (Some values) = Fail.
Proof. exact (fun H1 H2 H3 => conj eq_refl (json_enum_strict x values b H1 H2 H3)). Qed.
Print Assumptions C17_json_strict.

(* null stays distinct from every value, for ANY enum column: the rank 255 reads as null, any other rank never
   reads as null, and a rank below the table length (<= 255) reads as the string at that position *)
Theorem C17_null_distinct d vals strict k r :
  nth_error d k = Some r ->
  (r = 255%N -> cell_at (ECol d vals strict) k = Ok (CEnum None))
  /\ (r <> 255%N -> forall s, cell_at (ECol d vals strict) k = Ok (CEnum s) ->
        s = nth_error vals (N.to_nat r) /\ s <> None)
  /\ (N.to_nat r < length vals -> length vals <= 255 ->
        exists s, nth_error vals (N.to_nat r) = Some s /\ cell_at (ECol d vals strict) k = Ok (CEnum (Some s))).
Proof. exact (cell_at_null_distinct d vals strict k r). Qed.
Print Assumptions C17_null_distinct.

(* ---------------------------------------------------------------------------------------------------
   Non-vacuity of the premises above: declared order b, a, c (NOT the alphabet), data a, null, b, c, a. *)
Definition ex_values : list bytes := [[98%N]; [97%N]; [99%N]].
Definition ex_data : list (option bytes) := [Some [97%N]; None; Some [98%N]; Some [99%N]; Some [97%N]].
Definition ex_d : list N := [1; 255; 0; 2; 1]%N.

Example C17_ex_premises :
  enum_new ex_data ex_values = Ok (ECol ex_d ex_values true) /\ NoDup ex_values
  /\ cop_of (bs 1 0x3c) = Some OLt /\ nth_error ex_values 1 = Some [97%N]
  /\ length [0; 1; 2; 3; 4] = length [false; false; false; false; false]
  /\ Forall (fun p => p < length ex_data) [0; 1; 2; 3; 4]
  /\ ~ In [100%N] ex_values /\ ex_values <> [].
Proof.
  split; [vm_compute; reflexivity|]. split; [repeat constructor; cbn; intuition discriminate|].
  split; [reflexivity|]. split; [reflexivity|]. split; [reflexivity|].
  split; [repeat constructor|]. split; [cbn; intuition discriminate|discriminate].
Qed.

(* "< a" keeps the b row only (b is declared before a), "!= a" keeps null, b, c; an undeclared constant is an error *)
Example C17_ex_filter :
  e_filter_builtin [] ex_d ex_values true [0; 1; 2; 3; 4] (bs 1 0x3c) (RConst (AStr [97%N])) [false; false; false; false; false]
  = Ok [false; false; true; false; false]
  /\ e_filter_builtin [] ex_d ex_values true [0; 1; 2; 3; 4] (bs 2 0x213d) (RConst (AStr [97%N])) [false; false; false; false; false]
  = Ok [false; true; true; true; false]
  /\ e_filter_builtin [] ex_d ex_values true [0; 1; 2; 3; 4] (bs 1 0x3c) (RConst (AStr [100%N])) [false; false; false; false; false]
  = Fail
  /\ e_filter_builtin [] ex_d ex_values true [0; 1; 2; 3; 4] (bs 2 0x696e) (RConst (AStrs [[99%N]; [100%N]])) [false; false; false; false; false]
  = Ok [false; false; false; true; false].
Proof. repeat split; vm_compute; reflexivity. Qed.

(* Sort: row 2 (b) before row 0 (a); null (row 1) first, last with NullLast; Reverse inverts *)
Example C17_ex_sort :
  map (fun '(rev, nl, i, j) => model_lt [(enum_sort_key ex_d, (rev, nl))] i j)
      [(false, false, 2, 0); (false, false, 0, 2); (false, false, 1, 2); (false, true, 1, 2); (true, false, 0, 2);
       (true, false, 1, 2); (false, false, 0, 4)]
  = [true; false; true; false; true; false; false].
Proof. vm_compute. reflexivity. Qed.

(* bitset at the word boundaries: 255 values, the predicate holds for the values at 63, 64, 127, 128, 191, 192, 254 *)
Example C17_ex_bitset :
  let values := map (fun k => [N.of_nat k]) (seq 0 255) in
  let pred := fun v : bytes => existsb (bytes_eqb v) [[63]; [64]; [127]; [128]; [191]; [192]; [254]]%N in
  length values <= 255
  /\ map (bitset_isset (bitset_of values pred)) [0; 62; 63; 64; 65; 126; 127; 128; 129; 190; 191; 192; 193; 253; 254; 255]%N
     = [false; false; true; true; false; false; true; true; false; false; true; true; false; false; true; false].
Proof. split; [vm_compute; lia|vm_compute; reflexivity]. Qed.

(* ReadCSV: declared b, a; cells a, "", b.  EmptyNull off: "" is an undeclared VALUE => failure; EmptyNull on: null *)
Example C17_ex_csv :
  let no {A} := fun _ : bytes => @None A in
  column_to_data no no no false DEnum (Some [[98%N]; [97%N]]) [[97%N]; []; [98%N]] = Fail
  /\ column_to_data no no no true DEnum (Some [[98%N]; [97%N]]) [[97%N]; []; [98%N]]
     = Ok (ColEnum [[98%N]; [97%N]] [Some [97%N]; None; Some [98%N]])
  /\ column_to_data no no no false DEnum (Some [[98%N]; []]) [[]; [98%N]] = Ok (ColEnum [[98%N]; []] [Some []; Some [98%N]])
  /\ declared (Some [[98%N]; [97%N]]) <> [] /\ In [] [[97%N]; []; [98%N]] /\ ~ In [] (declared (Some [[98%N]; [97%N]]))
  /\ is_nilb (@nil N) && false = false.
Proof.
  cbv zeta. repeat split; try (vm_compute; reflexivity); try discriminate.
  - right; left; reflexivity.
  - cbn; intuition discriminate.
Qed.

Example C17_ex_json :
  create_column (DStrPtrs [Some [97%N]; None; Some [100%N]]) (Some ex_values) = Fail
  /\ In (Some [100%N]) [Some [97%N]; None; Some [100%N]].
Proof. split; [vm_compute; reflexivity|right; right; left; reflexivity]. Qed.

Example C17_ex_null_distinct :
  nth_error ex_d 1 = Some 255%N /\ nth_error ex_d 2 = Some 0%N /\ N.to_nat 0 < length ex_values /\ length ex_values <= 255.
Proof. repeat split; cbn; lia. Qed.

(* ====================================================================================================
   Third part: the cardinality limit for every data, and the statements above at the level of whole frames. *)

(* the factory never panics: it fails or returns an enum column *)
Theorem C17_factory_total data values :
  enum_new data values = Fail \/ exists d vals strict, enum_new data values = Ok (ECol d vals strict).
Proof. exact (enum_new_cases data values). Qed.
Print Assumptions C17_factory_total.

(* more than 255 distinct strings among data and declared values => clean failure (l is any duplicate-free
   witness list of such strings) *)
Theorem C17_overflow data values (l : list bytes) :
  NoDup l -> 255 < length l -> (forall s, In s l -> In (Some s) data \/ In s values) ->
  enum_new data values = Fail.
Proof. exact (enum_new_overflow data values l). Qed.
Print Assumptions C17_overflow.

(* QFrame.Filter with one comparison leaf on an enum column of the frame: exactly the rows of the index whose cell
   compares by declared position, in index order *)
Theorem C17_frame_filter_order mt (f : Frame.frame) col data values d vals strict cmp op s pc :
  ferr f = false -> lookup_col f col = Some (ECol d vals strict) ->
  enum_new data values = Ok (ECol d vals strict) ->
  cop_of cmp = Some op -> nth_error vals pc = Some s ->
  Forall (fun p => p < length data) (ix f) ->
  frame_filter mt f (CLeaf (mkLeaf col (CmpName cmp) (AStr s) false))
  = Ok (with_ix f (filter (fun p =>
          match nth p data None with
          | None => match op with ONe => true | _ => false end
          | Some v => match index_of v vals with
                      | Some pv => ord_sat op (Nat.compare pv pc)
                      | None => false
                      end
          end) (ix f))).
Proof. exact (enum_frame_filter_order mt f col data values d vals strict cmp op s pc). Qed.
Print Assumptions C17_frame_filter_order.

(* ... and with declared values an undeclared constant sets Err, for each of the six operators *)
Theorem C17_frame_filter_undeclared mt (f : Frame.frame) col d vals cmp op s :
  ferr f = false -> lookup_col f col = Some (ECol d vals true) ->
  cop_of cmp = Some op -> ~ In s vals ->
  frame_filter mt f (CLeaf (mkLeaf col (CmpName cmp) (AStr s) false)) = Ok (with_err f).
Proof. exact (enum_frame_filter_undeclared mt f col d vals cmp op s). Qed.
Print Assumptions C17_frame_filter_undeclared.

Theorem C17_frame_filter_in mt (f : Frame.frame) col data values d vals strict l :
  ferr f = false -> lookup_col f col = Some (ECol d vals strict) ->
  enum_new data values = Ok (ECol d vals strict) ->
  Forall (fun p => p < length data) (ix f) ->
  frame_filter mt f (CLeaf (mkLeaf col (CmpName (bs 2 0x696e)) (AStrs l) false))
  = Ok (with_ix f (filter (fun p => match nth p data None with
                                    | None => false
                                    | Some v => existsb (bytes_eqb v) l
                                    end) (ix f))).
Proof. exact (enum_frame_filter_in mt f col data values d vals strict l). Qed.
Print Assumptions C17_frame_filter_in.

(* New / ReadJSON: if the data of a column listed in Enums (with declared values) holds an undeclared string,
   every frame New returns carries an error *)
Theorem C17_new_frame_strict data enums n x values b :
  assocb n data = Some (DStrPtrs x) -> assocb n enums = Some values ->
  values <> [] -> In (Some b) x -> ~ In b values ->
  forall order (f : Frame.frame), new_frame data order enums = Ok f -> ferr f = true.
Proof. exact (new_frame_enum_strict data enums n x values b). Qed.
Print Assumptions C17_new_frame_strict.

(* ReadCSV: the conversion loop over the columns never yields a frame when the k-th column (a name not seen before
   it) is typed enum with declared values and has a cell outside them *)
Theorem C17_csv_convert_strict pi pf pb conf headers cols acc k h cells values c :
  nth_error headers k = Some h -> nth_error cols k = Some cells -> ~ In h (firstn k headers) ->
  match assoc h (cf_types conf) with Some s => dtype_of s | None => DNone end = DEnum ->
  assoc h (cf_enum_vals conf) = Some values ->
  values <> [] -> In c cells -> ~ In c values -> is_nilb c && cf_empty_null conf = false ->
  forall r, convert_cols pi pf pb conf headers cols (cf_enum_vals conf) acc <> Ok r.
Proof. exact (csv_convert_strict pi pf pb conf headers cols acc k h cells values c). Qed.
Print Assumptions C17_csv_convert_strict.

(* ... nor when its EnumVals entry lists a value twice, whatever the cells *)
Theorem C17_csv_convert_duplicate_rejected pi pf pb conf headers cols acc k h cells values :
  nth_error headers k = Some h -> nth_error cols k = Some cells -> ~ In h (firstn k headers) ->
  match assoc h (cf_types conf) with Some s => dtype_of s | None => DNone end = DEnum ->
  assoc h (cf_enum_vals conf) = Some values -> ~ NoDup values ->
  forall r, convert_cols pi pf pb conf headers cols (cf_enum_vals conf) acc <> Ok r.
Proof. exact (csv_convert_duplicate_rejected pi pf pb conf headers cols acc k h cells values). Qed.
Print Assumptions C17_csv_convert_duplicate_rejected.

Definition ex_frame : Frame.frame := mkFrame [([67%N], ECol ex_d ex_values true)] [4; 0; 3; 2; 1] false.

Example C17_ex_frame :
  ferr ex_frame = false /\ lookup_col ex_frame [67%N] = Some (ECol ex_d ex_values true)
  /\ Forall (fun p => p < length ex_data) (ix ex_frame)
  /\ frame_filter [] ex_frame (CLeaf (mkLeaf [67%N] (CmpName (bs 2 0x3c3d)) (AStr [97%N]) false)) = Ok (with_ix ex_frame [4; 0; 2])
  /\ frame_filter [] ex_frame (CLeaf (mkLeaf [67%N] (CmpName (bs 2 0x3c3d)) (AStr [100%N]) false)) = Ok (with_err ex_frame).
Proof.
  split; [reflexivity|]. split; [reflexivity|]. split; [repeat constructor|]. split; vm_compute; reflexivity.
Qed.

Example C17_ex_new_frame :
  assocb [67%N] [([67%N], DStrPtrs [Some [97%N]; Some [100%N]])] = Some (DStrPtrs [Some [97%N]; Some [100%N]])
  /\ assocb [67%N] [([67%N], ex_values)] = Some ex_values
  /\ new_frame [([67%N], DStrPtrs [Some [97%N]; Some [100%N]])] [] [([67%N], ex_values)] = Ok (mkFrame [] [] true)
  /\ new_frame [([67%N], DStrPtrs [Some [97%N]; None])] [] [([67%N], ex_values)]
     = Ok (mkFrame [([67%N], ECol [1; 255]%N ex_values true)] [0; 1] false).
Proof. repeat split; vm_compute; reflexivity. Qed.

Example C17_ex_csv_convert :
  let no {A} := fun _ : bytes => @None A in
  let conf := mkConf false false 44%N [([67%N], ty_enum)] [([67%N], [[98%N]; [97%N]])] 0%Z [] false [] in
  convert_cols no no no conf [[67%N]] [[[97%N]; [100%N]]] (cf_enum_vals conf) [] = Fail
  /\ match assoc [67%N] (cf_types conf) with Some s => dtype_of s | None => DNone end = DEnum
  /\ assoc [67%N] (cf_enum_vals conf) = Some [[98%N]; [97%N]].
Proof. cbv zeta. repeat split; vm_compute; reflexivity. Qed.

Example C17_ex_overflow :
  let l := map (fun k => [N.of_nat k]) (seq 0 256) in
  255 < length l /\ enum_new (map Some l) [] = Fail.
Proof. split; [vm_compute; lia|vm_compute; reflexivity]. Qed.

(* column against column (Filter with a ColumnName argument on two enum columns): both cells non-null and the
   declared positions compare; != also holds when one of the cells is null; enum columns over different value
   tables (or of different physical length) cannot be compared: error *)
Theorem C17_filter_columns mt data values d vals strict data2 values2 d2 strict2 cmp op index b :
  enum_new data values = Ok (ECol d vals strict) ->
  enum_new data2 values2 = Ok (ECol d2 vals strict2) ->
  length data2 = length data -> cop_of cmp = Some op ->
  length index = length b -> Forall (fun p => p < length data) index ->
  e_filter_builtin mt d vals strict index cmp (RCol (ECol d2 vals strict2)) b
  = Ok (mask_or b (map (fun p =>
          match nth p data None, nth p data2 None with
          | Some v, Some w =>
              match index_of v vals, index_of w vals with
              | Some pv, Some pw => ord_sat op (Nat.compare pv pw)
              | _, _ => false
              end
          | _, _ => match op with ONe => true | _ => false end
          end) index)).
Proof. exact (enum_filter2_order mt data values d vals strict data2 values2 d2 strict2 cmp op index b). Qed.
Print Assumptions C17_filter_columns.

Theorem C17_filter_columns_types mt op d vals st d2 v2 st2 index b :
  length index = length b -> Forall (fun p => p < length d) index ->
  (vals <> v2 \/ length d <> length d2) ->
  e_filter_builtin mt d vals st index (cop_name op) (RCol (ECol d2 v2 st2)) b = Fail.
Proof. exact (enum_filter2_types mt op d vals st d2 v2 st2 index b). Qed.
Print Assumptions C17_filter_columns_types.

Example C17_ex_columns :
  enum_new [Some [98%N]; Some [98%N]; None; Some [97%N]; Some [99%N]] ex_values = Ok (ECol [0; 0; 255; 1; 2]%N ex_values true)
  /\ e_filter_builtin [] ex_d ex_values true [0; 1; 2; 3; 4] (bs 1 0x3e) (RCol (ECol [0; 0; 255; 1; 2]%N ex_values true))
       [false; false; false; false; false] = Ok [true; false; false; true; false].
Proof. split; vm_compute; reflexivity. Qed.

(* The premise of C17_duplicate_declaration_rejected on a concrete input: the declaration a, b, a (before the
   repair the factory accepted it and stored the LAST position of a while filterBuiltIn looked up the FIRST one, so
   that New(c: a,b,a; Enums c: a,b,a).Filter(c = "a") had 0 rows).  Now every constructor refuses it. *)
Example C17_duplicate_declaration :
  let vals := [[97%N]; [98%N]; [97%N]] in
  ~ NoDup vals
  /\ enum_new [Some [97%N]; Some [98%N]; Some [97%N]] vals = Fail
  /\ enum_new_const (Some [97%N]) 2 vals = Fail
  /\ create_column (DStrings [[97%N]; [98%N]]) (Some vals) = Fail
  /\ column_to_data (fun _ => None) (fun _ => None) (fun _ => None) false DEnum (Some vals) [[97%N]; [98%N]] = Fail
  /\ new_frame [([67%N], DStrings [[97%N]; [98%N]; [97%N]])] [] [([67%N], vals)] = Ok (mkFrame [] [] true).
Proof.
  cbv zeta. split; [|repeat split; vm_compute; reflexivity].
  intro H. inversion H as [|? ? Hn _]; subst. apply Hn. right. left. reflexivity.
Qed.

(* Sort() with one enum key, the whole sorter (uses C03_sort_by_keys): it answers, returns every row of the index
   once, and no row is followed — at any distance — by a row that comes earlier in the declared order
   (null first, last with NullLast; Reverse inverting) *)
Theorem C17_sort_sorted data values d vals strict (rev nl : bool) ids :
  enum_new data values = Ok (ECol d vals strict) ->
  Forall (fun p => p < length data) ids ->
  exists out, sort_ids (model_lt [(enum_sort_key d, (rev, nl))]) ids = Ok out /\ Permutation out ids /\
    forall i j a b, i < j -> nth_error out i = Some a -> nth_error out j = Some b ->
      enum_lt vals rev nl (nth b data None) (nth a data None) = false.
Proof. exact (enum_sort_sorted data values d vals strict rev nl ids). Qed.
Print Assumptions C17_sort_sorted.

Example C17_ex_sort_ids :
  sort_ids (model_lt [(enum_sort_key ex_d, (false, false))]) [0; 1; 2; 3; 4] = Ok [1; 2; 0; 4; 3]
  /\ sort_ids (model_lt [(enum_sort_key ex_d, (true, true))]) [0; 1; 2; 3; 4] = Ok [1; 3; 0; 4; 2].
Proof. split; vm_compute; reflexivity. Qed.

(* ReadCSV as a whole (read_rows: header handling, row loop, conversion loop, final checks; read_csv_spec and
   read_csv_buf are read_rows on the scanned rows): a frame that ReadCSV returns never holds an undeclared value in
   a column typed enum with declared values — its table IS the declaration and every non-null cell is declared.
   Hence a document with any other value in such a column yields no frame (Err). *)
Theorem C17_csv_read_strict pi pf pb conf rows failed fr h col values :
  read_rows pi pf pb conf rows failed = Ok fr -> In (h, col) fr ->
  match assoc h (cf_types conf) with Some s => dtype_of s | None => DNone end = DEnum ->
  assoc h (cf_enum_vals conf) = Some values -> values <> [] ->
  exists cs, col = ColEnum values cs /\ forall s, In (Some s) cs -> In s values.
Proof. exact (csv_read_rows_enum_strict pi pf pb conf rows failed fr h col values). Qed.
Print Assumptions C17_csv_read_strict.

Example C17_ex_csv_read :
  let no {A} := fun _ : bytes => @None A in
  let conf := mkConf false false 44%N [([67%N], ty_enum)] [([67%N], [[98%N]; [97%N]])] 0%Z [] false [] in
  read_rows no no no conf [[[67%N]]; [[97%N]]; [[98%N]]] false = Ok [([67%N], ColEnum [[98%N]; [97%N]] [Some [97%N]; Some [98%N]])]
  /\ read_rows no no no conf [[[67%N]]; [[97%N]]; [[100%N]]] false = Fail.
Proof. cbv zeta. split; vm_compute; reflexivity. Qed.

(* ====================================================================================================
   The property in ONE statement, for every declaration (derived case values = [] included) and
   every data column: construction (never a panic; failure on a declaration that lists a value twice, on an
   undeclared value and beyond 255 distinct strings; otherwise a table of <= 255 duplicate-free values that is the declaration when there is one, every cell
   read back as itself, null as null), the six comparison filters (declared positions; nulls only for != ;
   undeclared constant: error when declared, no row / all rows for != when derived) and Sorter.Less on the column
   (declared positions, nulls first, last with NullLast, Reverse inverting).
   Not in this statement (separate theorems above): in/like, column against column, ReadCSV, New at frame level,
   the sorter's output.  NOT proved at all: see the manifest text (QFrame.Sort's glue
   from the frame to the sorter; Filter clauses other than a single positive leaf on enum columns). *)
Definition C17_full_statement : Prop :=
  forall (data : list (option bytes)) (values : list bytes),
  (enum_new data values = Fail \/ exists d vals strict, enum_new data values = Ok (ECol d vals strict))
  /\ (~ NoDup values -> enum_new data values = Fail)
  /\ ((exists b, values <> [] /\ In (Some b) data /\ ~ In b values) -> enum_new data values = Fail)
  /\ ((exists l, NoDup l /\ 255 < length l /\ forall s, In s l -> In (Some s) data \/ In s values) ->
      enum_new data values = Fail)
  /\ forall d vals strict, enum_new data values = Ok (ECol d vals strict) ->
     NoDup values /\ length vals <= 255 /\ NoDup vals /\ (exists ext, vals = values ++ ext)
     /\ (values <> [] -> vals = values /\ strict = true) /\ length d = length data
     /\ (forall k s, nth_error data k = Some s -> cell_at (ECol d vals strict) k = Ok (CEnum s))
     /\ (forall mt cmp op s index b,
           cop_of cmp = Some op -> length index = length b -> Forall (fun p => p < length data) index ->
           e_filter_builtin mt d vals strict index cmp (RConst (AStr s)) b =
           match index_of s vals with
           | Some pc =>
               Ok (mask_or b (map (fun p =>
                     match nth p data None with
                     | None => match op with ONe => true | _ => false end
                     | Some v => match index_of v vals with
                                 | Some pv => ord_sat op (Nat.compare pv pc)
                                 | None => false
                                 end
                     end) index))
           | None => if strict then Fail
                     else Ok (if match op with ONe => true | _ => false end then map (fun _ => true) b else b)
           end)
     /\ (forall rev nl i j, i < length data -> j < length data ->
           model_lt [(enum_sort_key d, (rev, nl))] i j = enum_lt vals rev nl (nth i data None) (nth j data None)).

Theorem C17_full : C17_full_statement.
Proof. exact enum_full. Qed.
Print Assumptions C17_full.

(* null through filters: isnull keeps exactly the null cells, isnotnull exactly the others *)
Theorem C17_filter_null mt (want_null : bool) data values d vals strict index b :
  enum_new data values = Ok (ECol d vals strict) ->
  length index = length b -> Forall (fun p => p < length data) index ->
  e_filter_builtin mt d vals strict index (if want_null then bs 6 0x69736e756c6c else bs 9 0x69736e6f746e756c6c) (RConst ANil) b
  = Ok (mask_or b (map (fun p => match nth p data None with None => want_null | Some _ => negb want_null end) index)).
Proof. exact (enum_filter_null mt want_null data values d vals strict index b). Qed.
Print Assumptions C17_filter_null.

(* NewConst (a ConstString in a column listed in Enums): an undeclared constant fails; otherwise every cell reads
   back as the constant (null as null) *)
Theorem C17_new_const_strict b n values :
  values <> [] -> ~ In b values -> enum_new_const (Some b) n values = Fail.
Proof. exact (enum_new_const_strict b n values). Qed.
Print Assumptions C17_new_const_strict.

Theorem C17_new_const_decode v n values d vals strict :
  enum_new_const v n values = Ok (ECol d vals strict) -> length values <= 255 ->
  length d = n /\ (exists ext, vals = values ++ ext) /\ (values <> [] -> vals = values)
  /\ forall k, k < n -> cell_at (ECol d vals strict) k = Ok (CEnum v).
Proof. exact (enum_new_const_decode v n values d vals strict). Qed.
Print Assumptions C17_new_const_decode.

Example C17_ex_null_filter_const :
  e_filter_builtin [] ex_d ex_values true [0; 1; 2; 3; 4] (bs 6 0x69736e756c6c) (RConst ANil) [false; false; false; false; false]
  = Ok [false; true; false; false; false]
  /\ enum_new_const (Some [97%N]) 3 ex_values = Ok (ECol [1; 1; 1]%N ex_values true)
  /\ enum_new_const (Some [100%N]) 3 ex_values = Fail
  /\ enum_new_const (Some [100%N]) 2 [] = Ok (ECol [0; 0]%N [[100%N]] false).
Proof. repeat split; vm_compute; reflexivity. Qed.
