(* Property C17 — enum columns keep their declared value set and order. *)
From QF Require Import Base.Prelude Gen.GenConsts Model.Bits Model.Frame Model.Filter Model.Ops Proofs.BitsProofs Proofs.EnumProofs.
Local Open Scope nat_scope.

(* whatever the enum factory accepts is read back exactly — every string as itself, null as null (never as a value,
   no value as null) —, the value table extends the declared one (equals it when values were declared) and never
   exceeds 255 entries *)
Theorem C17_decode data values d vals strict :
  enum_new data values = Ok (ECol d vals strict) ->
  length vals <= 255
  /\ (exists ext, vals = values ++ ext) /\ (values <> [] -> vals = values)
  /\ length d = length data
  /\ forall k s, nth_error data k = Some s -> cell_at (ECol d vals strict) k = Ok (CEnum s).
Proof. exact (enum_new_decode data values d vals strict). Qed.
Print Assumptions C17_decode.

(* with declared values, construction fails on any undeclared value *)
Theorem C17_strict data values b :
  values <> [] -> In (Some b) data -> ~ In b values ->
  forall d vals strict, enum_new data values <> Ok (ECol d vals strict).
Proof. intros H1 H2 H3. exact (proj2 (enum_new_strict data values b H1 H2 H3)). Qed.
Print Assumptions C17_strict.

(* more than 255 declared values are rejected *)
Theorem C17_too_many data values : 255 < length values -> enum_new data values = Fail.
Proof. exact (enum_new_too_many data values). Qed.
Print Assumptions C17_too_many.

(* the stored rank is the (declared) position of the cell's string; null has the reserved rank 255 *)
Theorem C17_rank_is_position data values d vals strict :
  enum_new data values = Ok (ECol d vals strict) ->
  forall k r, nth_error d k = Some r ->
    match nth_error data k with
    | Some (Some s) => r <> 255%N /\ nth_error vals (N.to_nat r) = Some s
    | Some None => r = 255%N
    | None => False
    end.
Proof. exact (enum_rank_is_position data values d vals strict). Qed.
Print Assumptions C17_rank_is_position.

(* the constants the statements above speak about are the ones of the current Go source *)
Theorem C17_constants : c_nullValue = 255%N /\ c_maxCardinality = 255%N.
Proof. exact c_null_is_255. Qed.
Print Assumptions C17_constants.

(* the bitset behind in / like / ilike on enum columns: set then isSet answers "same value" for all uint8 values *)
Theorem C17_bitset_single_ok (v w : N) : (v < 256)%N -> (w < 256)%N ->
  bitset_isset (bitset_set bitset_empty v) w = N.eqb v w.
Proof. exact (bitset_single_ok v w). Qed.
Print Assumptions C17_bitset_single_ok.

(* Non-vacuity: declared order b < a, data with a null and a repeated value; derived enum at the cardinality limit *)
Example C17_declared_example :
  enum_new [Some [97%N]; None; Some [98%N]; Some [97%N]] [[98%N]; [97%N]]
  = Ok (ECol [1; 255; 0; 1]%N [[98%N]; [97%N]] true).
Proof. vm_compute. reflexivity. Qed.

Example C17_cardinality_limit :
  (exists d vals, enum_new (map (fun k => Some [N.of_nat k]) (seq 0 255)) [] = Ok (ECol d vals false) /\ length vals = 255)
  /\ enum_new (map (fun k => Some [N.of_nat k]) (seq 0 256)) [] = Fail.
Proof. split; [eexists; eexists; split; [vm_compute; reflexivity|reflexivity]|vm_compute; reflexivity]. Qed.
