(* Property C17 — enum columns keep their declared value set and order. *)
From QF Require Import Base.Prelude Model.Bits Proofs.BitsProofs.
Local Open Scope N_scope.

Theorem C17_bitset_single_ok (v w : N) : v < 256 -> w < 256 ->
  bitset_isset (bitset_set bitset_empty v) w = N.eqb v w.
Proof. exact (bitset_single_ok v w). Qed.
Print Assumptions C17_bitset_single_ok.
