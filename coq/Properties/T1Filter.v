(* Tie T1 for the filter clause trees (properties C02, C10, C17) — not one of the 19 properties, compiled with them.
   Gen/GenFilterClause.v is produced by tools/qf2coq/filterclause.go from the Go text of filter.go (AndClause,
   OrClause, NotClause, NullClause, Filter: filter and Err; orFrames; anyFilterErr; And, Or, Not, Null), of
   QFrame.Filter (qframe.go) and of internal/index/index.go (NewBool, NewAscending, Int.Filter, Int.Copy), statement
   by statement.  Every theorem below says: the definition generated from the Go source equals the hand-written
   model function of Model/Filter.v that the proofs of the properties and the frameops engine use — for all inputs.
   An edit of one of these Go functions changes the generated text at the next run and the theorem of that
   function stops compiling.

   Reading aid.  The generated code is abstract in the frame type; here it is instantiated with the model's
   frames: qf.Err = m_Err (Some tt when the flag ferr is set), qf.index = ix, qf.withErr = m_withErr (sets the
   flag when the error is not nil), qf.withIndex = with_ix, == on row ids = Nat.eqb, f.Inverse = linv /
   m_setInverse, and the column level qf.filter(filters...) — the abstraction boundary of the translation — is
   the model's filter_leaves mt.  [embed c] is the Go value of the model clause c (the value the constructors
   And / Or / Not / Null build: T1_filter_And .. T1_filter_Null); g_filter mt is the generated dynamic dispatch
   c.filter(qf).  Panic on the generated side = the Go function panics.  There is no fuel: every loop of these
   functions ranges over a slice and the recursion over clauses is structural, so the equalities hold outright. *)
From QF Require Import Base.Prelude Gen.GenFilterClause.
From QF Require Import Model.Frame Model.Filter Model.FilterSpec Proofs.FilterTypedFrame Proofs.GenFilterClauseProofs.
Local Open Scope Z_scope.

(* ------------------------------------------------------------------ internal/index *)

Theorem T1_filter_NewBool (n : nat) : gc_NewBool (Z.of_nat n) = Ok (repeat false n).
Proof. exact (gc_NewBool_eq n). Qed.
Print Assumptions T1_filter_NewBool.

(* a negative size panics (make) *)
Theorem T1_filter_NewBool_negative (z : Z) : z < 0 -> gc_NewBool z = Panic.
Proof. exact (gc_NewBool_neg z). Qed.
Print Assumptions T1_filter_NewBool_negative.
Example T1_filter_NewBool_negative_example : gc_NewBool (-1) = Panic.
Proof. vm_compute. reflexivity. Qed.

(* index.NewBool(qf.index.Len()) is the mask filter_leaves starts from *)
Theorem T1_filter_NewBool_mask (i : list nat) : gc_NewBool (Z.of_nat (length i)) = Ok (map (fun _ => false) i).
Proof. exact (gc_NewBool_mask i). Qed.
Print Assumptions T1_filter_NewBool_mask.

(* premise: size is a uint32 (2^32 itself included, harmlessly) *)
Theorem T1_filter_NewAscending (n : nat) : Z.of_nat n <= 4294967296 ->
  gc_NewAscending (Z.of_nat n) = Ok (map Z.of_nat (seq 0 n)).
Proof. exact (gc_NewAscending_small n). Qed.
Print Assumptions T1_filter_NewAscending.
Example T1_filter_NewAscending_example : gc_NewAscending 4 = Ok [0; 1; 2; 3].
Proof. vm_compute. reflexivity. Qed.

(* ix.Filter(bIx) = the model's index_filter, incl. the panic when a set bit lies beyond the index *)
Theorem T1_filter_Int_Filter (index : list nat) (b : list bool) : gc_Int_Filter index b = index_filter index b.
Proof. exact (gc_Int_Filter_eq index b). Qed.
Print Assumptions T1_filter_Int_Filter.

Theorem T1_filter_Int_Copy (index : list nat) : gc_Int_Copy 0%nat index = Ok index.
Proof. exact (gc_Int_Copy_eq 0%nat index). Qed.
Print Assumptions T1_filter_Int_Copy.

(* ------------------------------------------------------------------ orFrames *)

(* the pointers original and rhs are never nil at the call sites (&qf, &newQf) *)
Theorem T1_filter_orFrames (o : frame) (l : option frame) (r : frame) :
  gc_orFrames Nat.eqb m_Err ix with_ix (Some o) l (Some r) = Ok (Some (or_frames o l r)).
Proof. exact (gc_orFrames_eq o l r). Qed.
Print Assumptions T1_filter_orFrames.

(* ------------------------------------------------------------------ Err() and the constructors *)

Theorem T1_filter_Err (c : clause) : gc_FilterClause_Err (embed c) = Ok (cerr c).
Proof. exact (g_Err_eq c). Qed.
Print Assumptions T1_filter_Err.

Theorem T1_filter_anyFilterErr (cs : list clause) :
  gc_anyFilterErr (map embed cs) = Ok (if existsb clause_err cs then Some tt else None).
Proof. exact (g_anyFilterErr_eq cs). Qed.
Print Assumptions T1_filter_anyFilterErr.

Theorem T1_filter_And (cs : list clause) : gc_And m_new_error (map embed cs) = Ok (embed (CAnd cs)).
Proof. exact (g_And_eq cs). Qed.
Print Assumptions T1_filter_And.

Theorem T1_filter_Or (cs : list clause) : gc_Or m_new_error (map embed cs) = Ok (embed (COr cs)).
Proof. exact (g_Or_eq cs). Qed.
Print Assumptions T1_filter_Or.

Theorem T1_filter_Not (c : clause) : gc_Not (embed c) = Ok (embed (CNot c)).
Proof. exact (g_Not_eq c). Qed.
Print Assumptions T1_filter_Not.

Theorem T1_filter_Null : @gc_Null unit leaf = Ok (embed CNull).
Proof. exact g_Null_eq. Qed.
Print Assumptions T1_filter_Null.

(* Err propagation: a clause built from a member that carries an error carries one ... *)
Theorem T1_filter_And_err_propagates (cs : list clause) (c : clause) : In c cs -> clause_err c = true ->
  exists e, gc_And m_new_error (map embed cs) = Ok (gc_mk_AndClause (Some e) (map embed cs)).
Proof. exact (g_And_err_propagates cs c). Qed.
Print Assumptions T1_filter_And_err_propagates.

Theorem T1_filter_Or_err_propagates (cs : list clause) (c : clause) : In c cs -> clause_err c = true ->
  exists e, gc_Or m_new_error (map embed cs) = Ok (gc_mk_OrClause (Some e) (map embed cs)).
Proof. exact (g_Or_err_propagates cs c). Qed.
Print Assumptions T1_filter_Or_err_propagates.
Example T1_filter_err_propagates_example :
  In (CAnd []) [CNull; CAnd []] /\ clause_err (CAnd []) = true.
Proof. split; [right; left; reflexivity|reflexivity]. Qed.

(* ... and filtering with it sets Err, the columns and the index staying as they are *)
Theorem T1_filter_err_sets_Err (mt : matcher_table) (c : clause) (f : frame) :
  clause_err c = true -> ferr f = false -> g_filter mt (embed c) f = Ok (with_err f).
Proof. exact (g_filter_err mt c f). Qed.
Print Assumptions T1_filter_err_sets_Err.
Example T1_filter_err_sets_Err_example :
  clause_err (CNot (COr [CNull; CAnd []])) = true /\ ferr (mkFrame [] [2%nat; 0%nat] false) = false.
Proof. split; reflexivity. Qed.

(* the same with the identity of the error, for ANY error / leaf / frame type and ANY column level (nothing
   instantiated): Err() is the stored error, And / Or store the Err of their FIRST member that has one ... *)
Theorem T1_filter_Err_value {E L : Type} (c : @gc_FilterClause E L) : gc_FilterClause_Err c = Ok (g_err_of c).
Proof. exact (gc_Err_pure c). Qed.
Print Assumptions T1_filter_Err_value.

Theorem T1_filter_And_first_err {E L : Type} (ne : bytes -> bytes -> E) (cs : list (@gc_FilterClause E L)) :
  cs <> [] -> gc_And ne cs = Ok (gc_mk_AndClause (g_first_err cs) cs).
Proof. exact (gc_And_pure ne cs). Qed.
Print Assumptions T1_filter_And_first_err.

Theorem T1_filter_Or_first_err {E L : Type} (ne : bytes -> bytes -> E) (cs : list (@gc_FilterClause E L)) :
  cs <> [] -> gc_Or ne cs = Ok (gc_mk_OrClause (g_first_err cs) cs).
Proof. exact (gc_Or_pure ne cs). Qed.
Print Assumptions T1_filter_Or_first_err.

Theorem T1_filter_first_err_some {E L : Type} (cs : list (@gc_FilterClause E L)) c e :
  In c cs -> g_err_of c = Some e -> exists e', g_first_err cs = Some e'.
Proof. exact (g_first_err_some cs c e). Qed.
Print Assumptions T1_filter_first_err_some.

Theorem T1_filter_And_empty {E L : Type} (ne : bytes -> bytes -> E) :
  exists e, @gc_And E L ne [] = Ok (gc_mk_AndClause (Some e) []).
Proof. exact (gc_And_empty ne). Qed.
Print Assumptions T1_filter_And_empty.

Theorem T1_filter_Or_empty {E L : Type} (ne : bytes -> bytes -> E) :
  exists e, @gc_Or E L ne [] = Ok (gc_mk_OrClause (Some e) []).
Proof. exact (gc_Or_empty ne). Qed.
Print Assumptions T1_filter_Or_empty.
Example T1_filter_first_err_example :
  let bad := @gc_mk_OrClause nat unit (Some 7%nat) [] in
  [gc_mk_NullClause; gc_mk_NotClause bad] <> [] /\ In (gc_mk_NotClause bad) [gc_mk_NullClause; gc_mk_NotClause bad]
  /\ g_err_of (gc_mk_NotClause bad) = Some 7%nat
  /\ gc_And (fun _ _ => 0%nat) [gc_mk_NullClause; gc_mk_NotClause bad]
     = Ok (gc_mk_AndClause (Some 7%nat) [gc_mk_NullClause; gc_mk_NotClause bad]).
Proof. cbv zeta. repeat split; try discriminate. right; left; reflexivity. Qed.

(* ... and filtering a frame without error with a clause that carries e answers qf.withErr(e): no member is
   evaluated, the column level is not called; a frame that already failed passes through unchanged *)
Theorem T1_filter_carries_err {A E L F : Type} (eqb : A -> A -> bool) (qf_Err : F -> option E)
  (qf_index : F -> list A) (qf_withErr : F -> option E -> F) (qf_withIndex : F -> list A -> F)
  (qf_filter : F -> list L -> outcome F) (l_Inverse : L -> bool) (l_set_Inverse : L -> bool -> L)
  (c : @gc_FilterClause E L) (e : E) (qf : F) :
  g_err_of c = Some e -> qf_Err qf = None ->
  gc_FilterClause_filter eqb qf_Err qf_index qf_withErr qf_withIndex qf_filter l_Inverse l_set_Inverse c qf
  = Ok (qf_withErr qf (Some e)).
Proof. exact (gc_filter_carries_err eqb qf_Err qf_index qf_withErr qf_withIndex qf_filter l_Inverse l_set_Inverse c e qf). Qed.
Print Assumptions T1_filter_carries_err.

Theorem T1_filter_failed_frame {A E L F : Type} (eqb : A -> A -> bool) (qf_Err : F -> option E)
  (qf_index : F -> list A) (qf_withErr : F -> option E -> F) (qf_withIndex : F -> list A -> F)
  (qf_filter : F -> list L -> outcome F) (l_Inverse : L -> bool) (l_set_Inverse : L -> bool -> L)
  (c : @gc_FilterClause E L) (e : E) (qf : F) :
  qf_Err qf = Some e -> (forall x, c <> gc_mk_Filter x) ->
  gc_FilterClause_filter eqb qf_Err qf_index qf_withErr qf_withIndex qf_filter l_Inverse l_set_Inverse c qf = Ok qf.
Proof. exact (gc_filter_failed_frame eqb qf_Err qf_index qf_withErr qf_withIndex qf_filter l_Inverse l_set_Inverse c e qf). Qed.
Print Assumptions T1_filter_failed_frame.
Example T1_filter_carries_err_example :
  g_err_of (embed (CNot (COr [CNull; CAnd []]))) = Some tt /\ m_Err (mkFrame [] [2%nat; 0%nat] false) = None
  /\ m_Err (mkFrame [] [2%nat] true) = Some tt /\ (forall x, embed (CAnd [CNull]) <> gc_mk_Filter x).
Proof. repeat split; intros; discriminate. Qed.

(* ------------------------------------------------------------------ the filter methods *)

Theorem T1_filter_Filter_filter (mt : matcher_table) (l : leaf) (f : frame) :
  gc_Filter_filter (filter_leaves mt) l f = clause_filter mt (CLeaf l) f.
Proof. exact (g_Filter_filter_eq mt l f). Qed.
Print Assumptions T1_filter_Filter_filter.

Theorem T1_filter_NullClause_filter (mt : matcher_table) (f : frame) :
  gc_NullClause_filter f = clause_filter mt CNull f.
Proof. exact (g_NullClause_filter_eq mt f). Qed.
Print Assumptions T1_filter_NullClause_filter.

(* AndClause.filter: the chain on the narrowed frame *)
Theorem T1_filter_AndClause_filter (mt : matcher_table) (cs : list clause) (f : frame) :
  gc_AndClause_filter m_Err m_withErr (g_filter mt) (cerr (CAnd cs)) (map embed cs) f = clause_filter mt (CAnd cs) f.
Proof. exact (g_AndClause_filter_closed mt cs f). Qed.
Print Assumptions T1_filter_AndClause_filter.

(* OrClause.filter: leaves batched, flushed before every other member and at the end, merged on the original *)
Theorem T1_filter_OrClause_filter (mt : matcher_table) (cs : list clause) (f : frame) :
  gc_OrClause_filter Nat.eqb m_Err ix m_withErr with_ix (filter_leaves mt) (g_filter mt) (cerr (COr cs)) (map embed cs) f
  = clause_filter mt (COr cs) f.
Proof. exact (g_OrClause_filter_closed mt cs f). Qed.
Print Assumptions T1_filter_OrClause_filter.

(* NotClause.filter: a leaf through Inverse = !Inverse, anything else through the complement of the index *)
Theorem T1_filter_NotClause_filter (mt : matcher_table) (c : clause) (f : frame) :
  gc_NotClause_filter Nat.eqb m_Err ix m_withErr with_ix (filter_leaves mt) linv m_setInverse (g_filter mt) (embed c) f
  = clause_filter mt (CNot c) f.
Proof. exact (g_NotClause_filter_closed mt c f). Qed.
Print Assumptions T1_filter_NotClause_filter.

(* c.filter(qf) through the interface, for every clause tree and every frame (failed ones included) *)
Theorem T1_filter_dispatch (mt : matcher_table) (c : clause) (f : frame) :
  g_filter mt (embed c) f = clause_filter mt c f.
Proof. exact (g_filter_eq mt c f). Qed.
Print Assumptions T1_filter_dispatch.

(* QFrame.Filter = the model function the frameops engine executes *)
Theorem T1_filter_QFrame_Filter (mt : matcher_table) (f : frame) (c : clause) :
  gc_QFrame_Filter Nat.eqb m_Err ix m_withErr with_ix (filter_leaves mt) linv m_setInverse f (embed c)
  = frame_filter mt f c.
Proof. exact (g_QFrame_Filter_eq mt f c). Qed.
Print Assumptions T1_filter_QFrame_Filter.

(* a Go value no constructor builds: the zero OrClause{} dereferences a nil pointer *)
Theorem T1_filter_OrClause_zero_panics (mt : matcher_table) (f : frame) : ferr f = false ->
  g_filter mt (gc_mk_OrClause None []) f = Panic.
Proof. exact (g_OrClause_zero_panics mt f). Qed.
Print Assumptions T1_filter_OrClause_zero_panics.

(* ------------------------------------------------------------------ C02's main theorem on the translated text *)

Definition T1_filter_clause_semantics_statement : Prop := g_clause_semantics_statement.

Theorem T1_filter_clause_semantics : T1_filter_clause_semantics_statement.
Proof. exact g_clause_semantics. Qed.
Print Assumptions T1_filter_clause_semantics.

(* non-vacuity: an int column, an index that is neither sorted nor complete, Or of a leaf batch and a negated And *)
Definition ex_col : bytes := [65%N].
Definition ex_frame : frame := mkFrame [(ex_col, ICol [3; -1; 7; 7; 0]%Z)] [4%nat; 0%nat; 3%nat; 1%nat] false.
Definition ex_leaf (cmp : bytes) (z : Z) (inv : bool) : leaf := mkLeaf ex_col (CmpName cmp) (AInt z) inv.
Definition ex_clause : clause :=
  COr [CLeaf (ex_leaf (bs 1 0x3e) 5 false); CLeaf (ex_leaf (bs 1 0x3d) 0 false);
       CNot (CAnd [CLeaf (ex_leaf (bs 1 0x3c) 5 false); CNot (CLeaf (ex_leaf (bs 1 0x3d) 3 true)); CNull])].
Example T1_filter_clause_semantics_example :
  c02_premises_b [] ex_frame ex_clause = true /\ ix ex_frame <> []
  /\ filter_spec [] ex_frame ex_clause = VRows [4%nat; 3%nat; 1%nat]
  /\ gc_QFrame_Filter Nat.eqb m_Err ix m_withErr with_ix (filter_leaves []) linv m_setInverse ex_frame (embed ex_clause)
     = Ok (with_ix ex_frame [4%nat; 3%nat; 1%nat]).
Proof. repeat split; try discriminate; vm_compute; reflexivity. Qed.
