(* Property C10 — invalid use yields Err, never a panic, and an error is sticky. *)
From QF Require Import Base.Prelude Gen.GenTables Model.Frame Model.Filter Model.Ops Model.Eval Proofs.StickyProofs Proofs.EvalProofs Proofs.NoPanicProofs.
Local Open Scope nat_scope.

(* the failed frame exposes no rows *)
Theorem C10_len f : ferr f = true -> frame_len f = (-1)%Z.
Proof. exact (len_err f). Qed.
Print Assumptions C10_len.

(* Once Err is set every further operation returns the same failed frame.  The operation's arguments —
   clauses with their recorded predicate tables, instructions with their function tables — do not occur on the
   right hand side: no user callback is consulted. *)
Theorem C10_sticky_filter mt f c : ferr f = true -> frame_filter mt f c = Ok f.
Proof. exact (filter_sticky mt f c). Qed.
Print Assumptions C10_sticky_filter.
Theorem C10_sticky_slice f a b : ferr f = true -> slice f a b = f.
Proof. exact (slice_sticky f a b). Qed.
Print Assumptions C10_sticky_slice.
Theorem C10_sticky_select f ns : ferr f = true -> select f ns = f.
Proof. exact (select_sticky f ns). Qed.
Print Assumptions C10_sticky_select.
Theorem C10_sticky_drop f ns : ferr f = true -> drop f ns = f.
Proof. exact (drop_sticky f ns). Qed.
Print Assumptions C10_sticky_drop.
Theorem C10_sticky_copy f d s : ferr f = true -> copy f d s = f.
Proof. exact (copy_sticky f d s). Qed.
Print Assumptions C10_sticky_copy.
Theorem C10_sticky_apply ut f is : ferr f = true -> apply ut f is = Ok f.
Proof. exact (apply_sticky ut f is). Qed.
Print Assumptions C10_sticky_apply.
Theorem C10_sticky_filtered_apply mt ut f c is : ferr f = true -> filtered_apply mt ut f c is = Ok f.
Proof. exact (filtered_apply_sticky mt ut f c is). Qed.
Print Assumptions C10_sticky_filtered_apply.
Theorem C10_sticky_rownums f n : ferr f = true -> with_row_nums f n = Ok f.
Proof. exact (with_row_nums_sticky f n). Qed.
Print Assumptions C10_sticky_rownums.

(* invalid arguments are reported through Err (the model functions below are total: no Panic value exists
   for them; Filter is in the outcome monad and returns Ok of a failed frame) *)
Theorem C10_slice_invalid f a b :
  ferr f = false -> (a < 0 \/ b < a \/ Z.of_nat (length (ix f)) < b)%Z -> ferr (slice f a b) = true.
Proof. exact (slice_invalid f a b). Qed.
Print Assumptions C10_slice_invalid.
Theorem C10_select_unknown f ns : ferr f = false -> forallb (contains f) ns = false -> ferr (select f ns) = true.
Proof. exact (select_invalid f ns). Qed.
Print Assumptions C10_select_unknown.
Theorem C10_copy_unknown f d s : ferr f = false -> lookup_col f s = None -> ferr (copy f d s) = true.
Proof. exact (copy_invalid f d s). Qed.
Print Assumptions C10_copy_unknown.
Theorem C10_illegal_name f n c : check_name n = false -> ferr (set_column f n c) = true.
Proof. exact (set_column_bad_name f n c). Qed.
Print Assumptions C10_illegal_name.
Theorem C10_empty_and mt f : ferr f = false -> exists g, frame_filter mt f (CAnd []) = Ok g /\ ferr g = true.
Proof. exact (filter_empty_and mt f). Qed.
Print Assumptions C10_empty_and.
Theorem C10_empty_or mt f : ferr f = false -> exists g, frame_filter mt f (COr []) = Ok g /\ ferr g = true.
Proof. exact (filter_empty_or mt f). Qed.
Print Assumptions C10_empty_or.
Theorem C10_filter_unknown_column mt f l :
  ferr f = false -> lookup_col f (lcol l) = None ->
  exists g, frame_filter mt f (CLeaf l) = Ok g /\ ferr g = true.
Proof. exact (filter_unknown_column mt f l). Qed.
Print Assumptions C10_filter_unknown_column.

Example C10_illegal_names : map check_name [[]; [39; 113; 39]; [34; 113; 34]; [36; 120]; [39; 39]; [65]]%N
                            = [false; false; false; false; true; true].
Proof. vm_compute. reflexivity. Qed.

(* ====================================================================================================
   Wave 2.  The model sends every Go index expression through idx (Panic outside the range); the theorems
   below say that on a well formed frame (wf_frame: equal physical lengths, row index in range, enum ranks
   valid) no operation reaches Panic and every result is well formed again — for EVERY value of the dynamic
   argument types (wrong kinds, unknown names, bad bounds, empty And/Or, ...).
   The only premises are about the harness' FINITE RECORDINGS of user callbacks, of the ToUpper oracle and of
   the like-matchers, whose lookup misses are Panic in the model (clause_tables_ok, apply_tables_okb: decidable,
   "the tables answer on the cells of the frame's rows"); they also exclude the junk values of the argument
   types that denote no Go value (func() enum, enum constant).  They are premises of the no-panic theorems only:
   preservation of well-formedness holds without them.
   ==================================================================================================== *)

(* ---- (1) well-formedness is preserved, whatever the arguments *)
Theorem C10_wf_slice f a b : wf_frame f = true -> wf_frame (slice f a b) = true.
Proof. exact (wf_slice f a b). Qed.
Print Assumptions C10_wf_slice.
Theorem C10_wf_select f ns : wf_frame f = true -> wf_frame (select f ns) = true.
Proof. exact (wf_select f ns). Qed.
Print Assumptions C10_wf_select.
Theorem C10_wf_drop f ns : wf_frame f = true -> wf_frame (drop f ns) = true.
Proof. exact (wf_drop f ns). Qed.
Print Assumptions C10_wf_drop.
Theorem C10_wf_copy f d s : wf_frame f = true -> wf_frame (copy f d s) = true.
Proof. exact (wf_copy f d s). Qed.
Print Assumptions C10_wf_copy.
Theorem C10_wf_filter mt f c g : wf_frame f = true -> frame_filter mt f c = Ok g -> wf_frame g = true.
Proof. exact (wf_filter mt f c g). Qed.
Print Assumptions C10_wf_filter.
Theorem C10_wf_apply ut f is g : wf_frame f = true -> apply ut f is = Ok g -> wf_frame g = true.
Proof. exact (wf_apply ut f is g). Qed.
Print Assumptions C10_wf_apply.
Theorem C10_wf_filtered_apply mt ut f c is g :
  wf_frame f = true -> filtered_apply mt ut f c is = Ok g -> wf_frame g = true.
Proof. exact (wf_filtered_apply mt ut f c is g). Qed.
Print Assumptions C10_wf_filtered_apply.
Theorem C10_wf_with_row_nums f name g : wf_frame f = true -> with_row_nums f name = Ok g -> wf_frame g = true.
Proof. exact (wf_with_row_nums f name g). Qed.
Print Assumptions C10_wf_with_row_nums.
Theorem C10_wf_new data order enums g : new_frame data order enums = Ok g -> wf_frame g = true.
Proof. exact (wf_new_frame data order enums g). Qed.
Print Assumptions C10_wf_new.

(* ---- (2) no Panic: there is always a result frame (Slice, Select, Drop, Copy are total functions of the model) *)
Theorem C10_no_panic_filter mt f c :
  wf_frame f = true -> clause_tables_ok mt f c -> exists g, frame_filter mt f c = Ok g /\ wf_frame g = true.
Proof. exact (total_filter mt f c). Qed.
Print Assumptions C10_no_panic_filter.
Theorem C10_no_panic_apply ut f is :
  wf_frame f = true -> apply_tables_okb ut f is = true ->
  exists g, apply ut f is = Ok g /\ wf_frame g = true /\ ix g = ix f.
Proof. exact (total_apply ut f is). Qed.
Print Assumptions C10_no_panic_apply.
Theorem C10_no_panic_filtered_apply mt ut f c is :
  wf_frame f = true -> filtered_apply_tables_ok mt ut f c is ->
  exists g, filtered_apply mt ut f c is = Ok g /\ wf_frame g = true.
Proof. exact (total_filtered_apply mt ut f c is). Qed.
Print Assumptions C10_no_panic_filtered_apply.
Theorem C10_no_panic_with_row_nums f name :
  wf_frame f = true -> exists g, with_row_nums f name = Ok g /\ wf_frame g = true /\ ix g = ix f.
Proof. exact (total_with_row_nums f name). Qed.
Print Assumptions C10_no_panic_with_row_nums.
Theorem C10_no_panic_new data order enums : exists g, new_frame data order enums = Ok g /\ wf_frame g = true.
Proof. exact (total_new_frame data order enums). Qed.
Print Assumptions C10_no_panic_new.

(* the obligations about the GENERATED kernels and tables that the no-panic proof of Filter rests on: every
   kernel a filter table names exists and is well typed for the cells/constant it is run on, the custom loops
   call the predicate on the row's cell(s), the only built in Apply function is ToUpper *)
Theorem C10_generated_kernels_typed :
  table_typed L_i (G1 KTZ) t_i_filter1 && table_typed L_i (G0 KTZ) t_i_filterN
  && table_typed L_i (G2 KTZ) t_i_filter2 && table_typed L_i (G0 KTZ) t_i_filter0
  && table_typed L_f (G0 KTF) t_f_filter0 && table_typed L_f (G1 KTF) t_f_filter1 && table_typed L_f (G2 KTF) t_f_filter2
  && table_typed L_b (G1 KTB) t_b_filter1 && table_typed L_b (G2 KTB) t_b_filter2
  && table_typed L_s (G0 KTS) t_s_filter0 && table_typed L_s (G1 KTS) t_s_filter1
  && table_typed L_s (G0 KTS) t_s_filterN && table_typed L_s (G2 KTS) t_s_filter2
  && table_typed L_e (G0 KTE) t_e_filter0 && table_typed L_e (G1 KTE) t_e_filter1 && table_typed L_e (G2 KTE) t_e_filter2
  && fname_typed L_e (G0 KTE) fname_filterWithBitset
  && forallb (fun kv => isSome (is_like (snd kv))) t_e_filterLike = true.
Proof. exact generated_kernels_typed. Qed.
Print Assumptions C10_generated_kernels_typed.
Theorem C10_kernel_typing_sound G env p e t : env_typed G env p -> ktype G e = Some t -> evals_to env p e t.
Proof. exact (fun H => ktype_sound G env p H e t). Qed.
Print Assumptions C10_kernel_typing_sound.

(* ---- (3) one lemma per class of invalid argument: the result has Err set (and then C10_len: Len = -1) *)
Theorem C10_filter_unknown_arg_column mt f l n s :
  ferr f = false -> lookup_col f (lcol l) = Some s -> larg l = AColName n -> lookup_col f n = None ->
  frame_filter mt f (CLeaf l) = Ok (with_err f).
Proof. exact (filter_unknown_arg_column mt f l n s). Qed.
Print Assumptions C10_filter_unknown_arg_column.
Theorem C10_filter_unsupported_comparator mt f l s :
  ferr f = false -> lookup_col f (lcol l) = Some s -> lcmp l = CmpOther -> (forall n, larg l <> AColName n) -> linv l = false ->
  frame_filter mt f (CLeaf l) = Ok (with_err f).
Proof. exact (filter_unsupported_comparator mt f l s). Qed.
Print Assumptions C10_filter_unsupported_comparator.
Theorem C10_filter_unknown_comparator_int mt f l d name z :
  ferr f = false -> lookup_col f (lcol l) = Some (ICol d) -> lcmp l = CmpName name -> larg l = AInt z -> linv l = false ->
  assocb name t_i_filter1 = None ->
  frame_filter mt f (CLeaf l) = Ok (with_err f).
Proof. exact (filter_unknown_comparator_int mt f l d name z). Qed.
Print Assumptions C10_filter_unknown_comparator_int.
Theorem C10_filter_function_type_mismatch mt f l s t tbl :
  ferr f = false -> lookup_col f (lcol l) = Some s -> lcmp l = CmpFn1 t tbl -> fn_type_ok s t = false ->
  (forall n, larg l <> AColName n) -> linv l = false ->
  frame_filter mt f (CLeaf l) = Ok (with_err f).
Proof. exact (filter_function_type_mismatch mt f l s t tbl). Qed.
Print Assumptions C10_filter_function_type_mismatch.
Theorem C10_filter_argument_type mt f l name :
  ferr f = false -> lcmp l = CmpName name -> linv l = false ->
  (exists d s, lookup_col f (lcol l) = Some (ICol d) /\ larg l = AStr s)
  \/ (exists d v, lookup_col f (lcol l) = Some (FCol d) /\ larg l = ABool v)
  \/ (exists d z, lookup_col f (lcol l) = Some (BCol d) /\ larg l = AInt z)
  \/ (exists d z, lookup_col f (lcol l) = Some (SCol d) /\ larg l = AInt z)
  \/ (exists d vs st z, lookup_col f (lcol l) = Some (ECol d vs st) /\ larg l = AInt z) ->
  frame_filter mt f (CLeaf l) = Ok (with_err f).
Proof. exact (filter_argument_type mt f l name). Qed.
Print Assumptions C10_filter_argument_type.
Theorem C10_filter_mismatched_column_types mt f l name n d d2 :
  ferr f = false -> lcmp l = CmpName name -> linv l = false ->
  lookup_col f (lcol l) = Some (ICol d) -> larg l = AColName n -> lookup_col f n = Some (SCol d2) ->
  frame_filter mt f (CLeaf l) = Ok (with_err f).
Proof. exact (filter_mismatched_column_types mt f l name n d d2). Qed.
Print Assumptions C10_filter_mismatched_column_types.
Theorem C10_apply_unsupported_function ut f dst s1 s2 :
  ferr f = false -> apply_instr ut f (mkInstr FOther dst s1 s2) = Ok (with_err f).
Proof. exact (apply_unsupported_function ut f dst s1 s2). Qed.
Print Assumptions C10_apply_unsupported_function.
Theorem C10_apply_unknown_source ut f fn dst s1 :
  ferr f = false -> empty_name s1 = false -> lookup_col f s1 = None ->
  apply_instr ut f (mkInstr fn dst s1 []) = Ok (with_err f).
Proof. exact (apply_unknown_source ut f fn dst s1). Qed.
Print Assumptions C10_apply_unknown_source.
Theorem C10_apply_function_type_mismatch ut f tin tout tbl dst s1 c :
  ferr f = false -> empty_name s1 = false -> lookup_col f s1 = Some c -> ctype_eqb (col_ftype c) tin = false ->
  apply_instr ut f (mkInstr (F1 tin tout tbl) dst s1 []) = Ok (with_err f).
Proof. exact (apply_function_type_mismatch ut f tin tout tbl dst s1 c). Qed.
Print Assumptions C10_apply_function_type_mismatch.
Theorem C10_apply2_mismatched_column_types ut f fn dst s1 s2 c1 c2 :
  ferr f = false -> empty_name s1 = false -> empty_name s2 = false ->
  lookup_col f s1 = Some c1 -> lookup_col f s2 = Some c2 -> ctype_eqb (col_type c1) (col_type c2) = false ->
  apply_instr ut f (mkInstr fn dst s1 s2) = Ok (with_err f).
Proof. exact (apply2_mismatched_column_types ut f fn dst s1 s2 c1 c2). Qed.
Print Assumptions C10_apply2_mismatched_column_types.
Theorem C10_apply_illegal_name ut f k dst :
  ferr f = false -> check_name dst = false -> (forall s, k <> CEnum s) ->
  (length (ix f) = phys_len f \/ Forall (fun p => p < phys_len f) (ix f)) ->
  exists g, apply_instr ut f (mkInstr (F0Const k) dst [] []) = Ok g /\ ferr g = true.
Proof. exact (apply_illegal_name ut f k dst). Qed.
Print Assumptions C10_apply_illegal_name.
Theorem C10_new_illegal_name data order enums :
  forallb (fun kv => check_name (fst kv)) data = false -> new_frame data order enums = Ok (mkFrame [] [] true).
Proof. exact (new_frame_illegal_name data order enums). Qed.
Print Assumptions C10_new_illegal_name.
Theorem C10_eval_malformed ut cx f dst : ferr f = false -> eval ut cx f dst XError = Ok (with_err f).
Proof. exact (eval_malformed ut cx f dst). Qed.
Print Assumptions C10_eval_malformed.
Theorem C10_eval_malformed_decoding :
  (forall x y, new_expr (EList [EColName x; y]) = XError) /\ new_expr (EList []) = XError
  /\ (forall a, new_expr (EList [a]) = XError) /\ new_expr EOther = XError /\ (forall name, expr_call name [] = XError).
Proof.
  exact (conj decode_bad_op (conj (proj1 decode_bad_len) (conj (proj2 decode_bad_len) (conj eq_refl expr_call_zero)))).
Qed.
Print Assumptions C10_eval_malformed_decoding.
Theorem C10_eval_unknown_column ut cx f dst op col :
  ferr f = false -> lookup_col f col = None -> eval ut cx f dst (XUnary op col) = Ok (with_err f).
Proof. exact (eval_unknown_column ut cx f dst op col). Qed.
Print Assumptions C10_eval_unknown_column.
Theorem C10_eval_unknown_function ut cx f dst op col c :
  ferr f = false -> lookup_col f col = Some c -> get_func cx (col_ftype c) false op = None ->
  eval ut cx f dst (XUnary op col) = Ok (with_err f).
Proof. exact (eval_unknown_function ut cx f dst op col c). Qed.
Print Assumptions C10_eval_unknown_function.

(* ---- (4) stickiness of Eval; on a failed frame the result depends on NO argument and NO table *)
Theorem C10_sticky_eval ut cx f dst e : ferr f = true -> eval ut cx f dst e = Ok f.
Proof. exact (eval_sticky ut cx f dst e). Qed.
Print Assumptions C10_sticky_eval.
Theorem C10_failed_no_callback_filter mt1 mt2 f c : ferr f = true -> frame_filter mt1 f c = frame_filter mt2 f c.
Proof. exact (failed_filter_tables mt1 mt2 f c). Qed.
Print Assumptions C10_failed_no_callback_filter.
Theorem C10_failed_no_callback_apply ut1 ut2 f is1 is2 : ferr f = true -> apply ut1 f is1 = apply ut2 f is2.
Proof. exact (failed_apply_tables ut1 ut2 f is1 is2). Qed.
Print Assumptions C10_failed_no_callback_apply.
Theorem C10_failed_no_callback_filtered_apply mt1 mt2 ut1 ut2 f c1 c2 is1 is2 :
  ferr f = true -> filtered_apply mt1 ut1 f c1 is1 = filtered_apply mt2 ut2 f c2 is2.
Proof. exact (failed_filtered_apply_tables mt1 mt2 ut1 ut2 f c1 c2 is1 is2). Qed.
Print Assumptions C10_failed_no_callback_filtered_apply.
Theorem C10_failed_no_callback_eval ut1 ut2 cx1 cx2 f dst e1 e2 :
  ferr f = true -> eval ut1 cx1 f dst e1 = eval ut2 cx2 f dst e2.
Proof. exact (failed_eval_tables ut1 ut2 cx1 cx2 f dst e1 e2). Qed.
Print Assumptions C10_failed_no_callback_eval.

(* ---- what is NOT a theorem yet *)
(* Eval on a frame without Err: no Panic and preservation of well-formedness.  The model's Panic in Eval has two
   more sources: tempColName gives up after 10000 used names (a real Go panic), and the tables of the context's
   functions must answer on the cells of the temporary columns. *)
Definition C10_eval_full_statement : Prop :=
  forall ut cx f dst e g, wf_frame f = true -> eval ut cx f dst e = Ok g -> wf_frame g = true.
(* Distinct, GroupBy and Aggregate have no frame-level model with an Err slot (Model/Grouper.v is the hash table
   only): their stickiness is decided by the engines. *)

(* ---- examples: the premises are satisfied by non-trivial inputs *)
Definition C10_exf : frame :=
  mkFrame [([65%N], ICol [3; 1; 2; 5]%Z);
           ([83%N], SCol [Some [97; 98]%N; None; Some [98%N]; Some [97%N]]);
           ([69%N], ECol [0; 255; 1; 0]%N [[120%N]; [121%N]] false)] [2; 0; 3] false.
Definition C10_exmt : matcher_table :=
  [(([97; 37]%N, true), Some [([97; 98]%N, true); ([98%N], false); ([97%N], true)])].
Definition C10_exc : clause :=
  COr [CLeaf (mkLeaf [65%N] (CmpName (bs 1 0x3e)) (AInt 4) false);
       CNot (CLeaf (mkLeaf [83%N] (CmpName (bs 4 0x6c696b65)) (AStr [97; 37]%N) false));
       CAnd [CLeaf (mkLeaf [65%N] (CmpFn1 TInt [(CInt 2, true); (CInt 3, false); (CInt 5, false)]%Z) ANil false);
             CLeaf (mkLeaf [69%N] (CmpName (bs 1 0x3d)) (AStr [120%N]) false)]].
Definition C10_exut : upper_table :=
  [([97; 98]%N, [65; 66]%N); ([98%N], [66%N]); ([97%N], [65%N]); ([120%N], [88%N]); ([121%N], [88%N])].
Definition C10_exis : list instr :=
  [mkInstr (F1 TInt TString [(CInt 2, CStr (Some [50%N])); (CInt 3, CStr None); (CInt 5, CStr (Some [53%N]))]%Z) [66%N] [65%N] [];
   mkInstr (FBuiltin name_ToUpper) [85%N] [83%N] [];
   mkInstr (FBuiltin name_ToUpper) [69%N] [69%N] [];
   mkInstr (F2 TInt [(CInt 2, CInt 2, CInt 4); (CInt 3, CInt 3, CInt 6); (CInt 5, CInt 5, CInt 10)]%Z) [67%N] [65%N] [65%N];
   mkInstr (F0Const (CFloat 0%N)) [70%N] [] [];
   mkInstr FOther [71%N] [65%N] []].

Example C10_example_wf : wf_frame C10_exf = true.
Proof. vm_compute. reflexivity. Qed.
Example C10_example_filter_premise : clause_tables_ok C10_exmt C10_exf C10_exc.
Proof. vm_compute. reflexivity. Qed.
Example C10_example_filter_result :
  frame_filter C10_exmt C10_exf C10_exc = Ok (mkFrame (cols C10_exf) [2; 3] false).
Proof. vm_compute. reflexivity. Qed.
Example C10_example_apply_premise : apply_tables_okb C10_exut C10_exf C10_exis = true.
Proof. vm_compute. reflexivity. Qed.
(* the last instruction has an unsupported function value: the chain ends with Err set, not with a panic *)
Example C10_example_apply_result :
  option_map ferr (match apply C10_exut C10_exf C10_exis with Ok g => Some g | _ => None end) = Some true
  /\ option_map ferr (match apply C10_exut C10_exf (firstn 5 C10_exis) with Ok g => Some g | _ => None end) = Some false.
Proof. split; vm_compute; reflexivity. Qed.
(* a table that misses a cell of the frame IS a Panic of the model: the premise cannot be dropped *)
Example C10_example_table_miss :
  apply [] C10_exf [mkInstr (F1 TInt TInt [(CInt 2, CInt 0)]%Z) [66%N] [65%N] []] = Panic
  /\ apply_tables_okb [] C10_exf [mkInstr (F1 TInt TInt [(CInt 2, CInt 0)]%Z) [66%N] [65%N] []] = false.
Proof. split; vm_compute; reflexivity. Qed.
(* and an ill formed frame (row index beyond the columns) does reach Panic: wf_frame cannot be dropped either *)
Example C10_example_ill_formed :
  wf_frame (mkFrame [([65%N], ICol [3; 1]%Z)] [5] false) = false
  /\ with_row_nums (mkFrame [([65%N], ICol [3; 1]%Z)] [5] false) [82%N] = Panic.
Proof. split; vm_compute; reflexivity. Qed.
Example C10_example_filtered_apply_premise :
  filtered_apply_tables_ok C10_exmt C10_exut C10_exf C10_exc C10_exis.
Proof.
  split; [exact C10_example_filter_premise|]. intros ff Hff _. rewrite C10_example_filter_result in Hff.
  inversion Hff; subst ff. vm_compute. reflexivity.
Qed.

(* ====================================================================================================
   Wave 3.  QFrame.Eval on a frame WITHOUT Err (Proofs/EvalNoPanic.v).
   ==================================================================================================== *)
From QF Require Import Proofs.EvalNoPanic.

(* Eval preserves well-formedness for EVERY tree (valid or not), context, destination and frame: the statement
   that was only a Definition above is a theorem, without any premise beyond the one it names *)
Theorem C10_wf_eval : C10_eval_full_statement.
Proof. exact (fun ut cx f dst e g => wf_eval ut cx f dst e g). Qed.
Print Assumptions C10_wf_eval.

(* Eval never reaches Panic and returns a well-formed frame.  Premises (eval_premises_b, one decidable boolean):
   the frame is well formed, has no Err, pairwise different non-empty column names and, together with the
   temporaries the tree needs at the same time (temps_needed), at most 10000 columns - tempColName really panics
   beyond that; the context functions are registered under their own arity with typed tables (ctx_ok); column
   references of the tree are hygienic (a name of the frame, or not shaped like prefix-temp-i: known finding D4)
   and no constant is enum typed (no such Go value); and the recorded tables answer on every cell they are asked
   for (ctx_total: no sub-tree of the denotation on the logical table is open). *)
Theorem C10_no_panic_eval ut cx f dst e :
  eval_premises_b cx f e = true -> exists g, eval ut cx f dst e = Ok g /\ wf_frame g = true.
Proof. exact (no_panic_eval ut cx f dst e). Qed.
Print Assumptions C10_no_panic_eval.

Theorem C10_no_panic_eval_props ut cx f dst e t :
  EvalFull.ctx_ok cx = true -> wf_frame f = true -> ferr f = false -> EvalFull.names_ok f = true ->
  EvalFull.expr_ok f e = true ->
  (N.of_nat (length (cols f) + EvalFull.temps_needed e) <= 10000)%N -> abs f = Ok t -> ctx_total cx t e = true ->
  eval ut cx f dst e <> Panic /\ exists g, eval ut cx f dst e = Ok g /\ wf_frame g = true.
Proof. exact (no_panic_eval_props ut cx f dst e t). Qed.
Print Assumptions C10_no_panic_eval_props.

(* examples: a nested tree over a derived frame satisfies the premises; an invalid tree (unknown function) too -
   the result then has Err set; a context table that misses a cell IS a Panic of the model (premise needed) *)
Definition C10_excx : ctx :=
  [((TInt, true, [43%N]),
    F2 TInt [(CInt 2, CInt 1, CInt 3); (CInt 3, CInt 1, CInt 4); (CInt 5, CInt 1, CInt 6);
             (CInt 2, CInt 3, CInt 5); (CInt 3, CInt 4, CInt 7); (CInt 5, CInt 6, CInt 11)]%Z)].
Definition C10_exe : expr := XExpr2 [43%N] (XCol [65%N]) (XColConst [43%N] [65%N] (CInt 1) false).
Example C10_example_eval_premises : eval_premises_b C10_excx C10_exf C10_exe = true.
Proof. vm_compute. reflexivity. Qed.
Example C10_example_eval_result :
  (do g <- eval [] C10_excx C10_exf [90%N] C10_exe; do t <- abs g; Ok (tnames t, map (fun r => nth 3 r (CInt 0)) (trows t)))
  = Ok ([[65%N]; [83%N]; [69%N]; [90%N]], [CInt 5; CInt 7; CInt 11]%Z).
Proof. vm_compute. reflexivity. Qed.
Example C10_example_eval_invalid :
  eval_premises_b C10_excx C10_exf (XExpr2 [45%N] (XCol [65%N]) (XCol [83%N])) = true
  /\ option_map ferr (match eval [] C10_excx C10_exf [90%N] (XExpr2 [45%N] (XCol [65%N]) (XCol [83%N])) with
                      | Ok g => Some g | _ => None end) = Some true.
Proof. split; vm_compute; reflexivity. Qed.
Example C10_example_eval_table_miss :
  eval_premises_b (firstn 0 C10_excx ++ [((TInt, true, [43%N]), F2 TInt [(CInt 2, CInt 1, CInt 3)]%Z)]) C10_exf C10_exe = false
  /\ eval [] [((TInt, true, [43%N]), F2 TInt [(CInt 2, CInt 1, CInt 3)]%Z)] C10_exf [90%N] C10_exe = Panic.
Proof. split; vm_compute; reflexivity. Qed.

(* ================================================================== wave 5: Sort, Distinct, GroupBy, Aggregate,
   QFrames and the serializers (Proofs/StickyProofs2.v) on the frame-level models the engines run
   (Model/SortFrame.v sort_frame; Model/Aggregate.v distinct, group_by, aggregate, qframes). *)
From QF Require Import Model.Sort Model.SortFrame Model.Aggregate Proofs.StickyProofs2.
From QF Require Model.Grouper Model.Observe Model.JsonRead Model.Sql Model.IOFault Model.CsvWrite.
From QF Require Proofs.SortFrameProofs Proofs.AggregateProofs Proofs.GrouperHash.

(* ---- stickiness: a failed receiver is returned unchanged *)
Theorem C10_sticky_sort f orders : ferr f = true -> sort_frame f orders = Ok f.
Proof. exact (sort_sticky f orders). Qed.
Print Assumptions C10_sticky_sort.
Theorem C10_sticky_distinct mh rnd nulleq f columns : ferr f = true -> distinct mh rnd nulleq f columns = Ok f.
Proof. exact (distinct_sticky mh rnd nulleq f columns). Qed.
Print Assumptions C10_sticky_distinct.
(* any sequence of Sort / Distinct calls after the first error *)
Theorem C10_sticky_chain2 f ops : ferr f = true -> ofold run_op2 ops f = Ok f.
Proof. exact (chain2_sticky f ops). Qed.
Print Assumptions C10_sticky_chain2.

(* ---- GroupBy / Aggregate / QFrames pass the error on: the Grouper of a failed frame has Err, Aggregate of a
   Grouper with Err is a failed frame (no rows: Len = -1), QFrames returns the error *)
Theorem C10_sticky_groupby mh rnd nulleq f columns :
  ferr f = true -> exists g, group_by mh rnd nulleq f columns = Ok g /\ gerr g = true.
Proof. exact (fun H => ex_intro _ err_grouper (conj (group_by_sticky mh rnd nulleq f columns H) err_grouper_err)). Qed.
Print Assumptions C10_sticky_groupby.
Theorem C10_sticky_aggregate ft g aggs :
  gerr g = true -> exists r, aggregate ft g aggs = Ok r /\ ferr r = true /\ frame_len r = (-1)%Z.
Proof. exact (fun H => ex_intro _ err_frame (conj (aggregate_sticky ft g aggs H) err_frame_err)). Qed.
Print Assumptions C10_sticky_aggregate.
Theorem C10_sticky_qframes g : gerr g = true -> qframes g = Fail.
Proof. exact (qframes_sticky g). Qed.
Print Assumptions C10_sticky_qframes.
Theorem C10_sticky_groupby_aggregate mh rnd nulleq ft f columns aggs :
  ferr f = true -> (do gr <- group_by mh rnd nulleq f columns; aggregate ft gr aggs) = Ok err_frame.
Proof. exact (groupby_aggregate_sticky mh rnd nulleq ft f columns aggs). Qed.
Print Assumptions C10_sticky_groupby_aggregate.
Theorem C10_sticky_groupby_qframes mh rnd nulleq f columns :
  ferr f = true -> (do gr <- group_by mh rnd nulleq f columns; qframes gr) = Fail.
Proof. exact (groupby_qframes_sticky mh rnd nulleq f columns). Qed.
Print Assumptions C10_sticky_groupby_qframes.

(* ---- no callback: on a failed receiver the result is the same for ALL values of the other arguments - the
   orders, the columns, memhash, the random source, Null(...), the aggregations with their recorded function
   tables (GUser tbl), the float oracle: nothing of it is consulted *)
Theorem C10_failed_no_callback_sort f o1 o2 : ferr f = true -> sort_frame f o1 = sort_frame f o2.
Proof. exact (sort_no_callback f o1 o2). Qed.
Print Assumptions C10_failed_no_callback_sort.
Theorem C10_failed_no_callback_distinct mh1 mh2 rnd1 rnd2 n1 n2 f c1 c2 :
  ferr f = true -> distinct mh1 rnd1 n1 f c1 = distinct mh2 rnd2 n2 f c2.
Proof. exact (distinct_no_callback mh1 mh2 rnd1 rnd2 n1 n2 f c1 c2). Qed.
Print Assumptions C10_failed_no_callback_distinct.
Theorem C10_failed_no_callback_groupby mh1 mh2 rnd1 rnd2 n1 n2 f c1 c2 :
  ferr f = true -> group_by mh1 rnd1 n1 f c1 = group_by mh2 rnd2 n2 f c2.
Proof. exact (group_by_no_callback mh1 mh2 rnd1 rnd2 n1 n2 f c1 c2). Qed.
Print Assumptions C10_failed_no_callback_groupby.
Theorem C10_failed_no_callback_aggregate ft1 ft2 g a1 a2 : gerr g = true -> aggregate ft1 g a1 = aggregate ft2 g a2.
Proof. exact (aggregate_no_callback ft1 ft2 g a1 a2). Qed.
Print Assumptions C10_failed_no_callback_aggregate.
Theorem C10_failed_no_callback_groupby_aggregate mh1 mh2 rnd1 rnd2 n1 n2 ft1 ft2 f c1 c2 a1 a2 :
  ferr f = true ->
  (do gr <- group_by mh1 rnd1 n1 f c1; aggregate ft1 gr a1) = (do gr <- group_by mh2 rnd2 n2 f c2; aggregate ft2 gr a2).
Proof. exact (groupby_aggregate_no_callback mh1 mh2 rnd1 rnd2 n1 n2 ft1 ft2 f c1 c2 a1 a2). Qed.
Print Assumptions C10_failed_no_callback_groupby_aggregate.

(* ---- invalid use of these operations: Err, never a panic (the theorems of C03 / C04 / C05, restated here) *)
(* Sort: an order naming no column gives Err; on a well-formed frame Sort never panics, for all orders *)
Theorem C10_sort_unknown f orders :
  ferr f = false -> SortFrameProofs.orders_known f orders = false -> sort_frame f orders = Ok (with_err f).
Proof. exact (SortFrameProofs.frame_sort_unknown f orders). Qed.
Print Assumptions C10_sort_unknown.
Theorem C10_no_panic_sort f orders :
  wf_frame f = true ->
  exists g, sort_frame f orders = Ok g /\ wf_frame g = true /\
    ferr g = ferr f || negb (SortFrameProofs.orders_known f orders).
Proof. exact (SortFrameProofs.frame_sort_no_panic f orders). Qed.
Print Assumptions C10_no_panic_sort.
(* Distinct: an unknown column gives Err - on a frame WITH rows (the length test comes first in the Go code: on a
   frame without rows an unknown column is NOT reported, C10_distinct_unknown_no_rows; known finding) *)
Theorem C10_distinct_unknown dst f columns :
  ferr f = false -> ix f <> [] -> forallb (contains f) columns = false ->
  distinct_with dst f columns = Ok (with_err f).
Proof. exact (AggregateProofs.distinct_unknown_column dst f columns). Qed.
Print Assumptions C10_distinct_unknown.
Theorem C10_distinct_unknown_no_rows dst f columns : ix f = [] -> distinct_with dst f columns = Ok f.
Proof. exact (AggregateProofs.distinct_no_rows dst f columns). Qed.
Print Assumptions C10_distinct_unknown_no_rows.
(* GroupBy: an unknown column gives a Grouper with Err (also without rows), which Aggregate passes on *)
Theorem C10_groupby_unknown grp f columns :
  forallb (contains f) columns = false -> exists g, group_by_with grp f columns = Ok g /\ gerr g = true.
Proof. exact (group_by_unknown_column grp f columns). Qed.
Print Assumptions C10_groupby_unknown.
Theorem C10_groupby_unknown_aggregate mh rnd nulleq ft f columns aggs :
  forallb (contains f) columns = false ->
  (do gr <- group_by mh rnd nulleq f columns; aggregate ft gr aggs) = Ok err_frame.
Proof. exact (groupby_unknown_aggregate mh rnd nulleq ft f columns aggs). Qed.
Print Assumptions C10_groupby_unknown_aggregate.
(* Distinct / GroupBy on a well-formed frame without Err, known columns: no panic, no error - for every memhash
   and random source.  Premises of the hash table theorems: duplicate-free index of at most 2^30 rows, float
   cells are 64 bit patterns *)
Theorem C10_no_panic_distinct memhash rnd nulleq f columns :
  AggregateProofs.frame_ok f -> forallb (contains f) columns = true ->
  (forall i, In i (ix f) ->
     Forall GrouperHash.cell_wf (key_cells (AggregateProofs.key_columns f (AggregateProofs.distinct_columns f columns)) i)) ->
  exists d, distinct memhash rnd nulleq f columns = Ok (with_ix f d) /\
            Grouper.distinct_ok (key_eqb nulleq (AggregateProofs.key_columns f (AggregateProofs.distinct_columns f columns))) (ix f) d.
Proof. exact (AggregateProofs.distinct_frame memhash rnd nulleq f columns). Qed.
Print Assumptions C10_no_panic_distinct.
(* Aggregate on the Grouper of a well-formed frame: no panic when the recorded tables answer; the result carries
   Err exactly when an aggregation is invalid (unknown column, name already taken, function not applicable) *)
Theorem C10_no_panic_aggregate ft g aggs :
  AggregateProofs.grouper_wf g -> AggregateProofs.tables_complete ft g aggs ->
  exists out, aggregate ft g aggs = Ok out /\ (ferr out = false -> exists t, abs out = Ok t).
Proof. exact (AggregateProofs.aggregate_total ft g aggs). Qed.
Print Assumptions C10_no_panic_aggregate.
Theorem C10_aggregate_invalid ft g aggs out :
  gerr g = false -> aggregate ft g aggs = Ok out ->
  (ferr out = true <->
   exists i a, nth_error aggs i = Some a /\
               agg_invalid g (gkeys g ++ map agg_name (firstn i aggs)) a = true).
Proof. exact (AggregateProofs.aggregate_err_iff ft g aggs out). Qed.
Print Assumptions C10_aggregate_invalid.

(* ---- the serializers on a failed frame: an error is returned, nothing is written, no statement is executed.
   Model/JsonRead.v frame_to_json (run by the strings engine) makes the Err test itself.  Model/Observe.v
   frame_to_csv / frame_to_json and Model/Sql.v to_sql model the body AFTER the test `if qf.Err != nil { return
   qerrors.Propagate(...) }` with which ToCSV, ToJSON and ToSQL begin in qframe.go; to_csv_checked,
   to_json_checked, to_sql_checked (Proofs/StickyProofs2.v) are these models behind that test. *)
Theorem C10_to_json_failed f : ferr f = true -> JsonRead.frame_to_json f = Fail.
Proof. exact (json_failed f). Qed.
Print Assumptions C10_to_json_failed.
Theorem C10_to_csv_failed ff f conf : ferr f = true -> to_csv_checked ff f conf = Fail.
Proof. exact (to_csv_failed ff f conf). Qed.
Print Assumptions C10_to_csv_failed.
Theorem C10_to_json_checked_failed af f : ferr f = true -> to_json_checked af f = Fail.
Proof. exact (to_json_failed af f). Qed.
Print Assumptions C10_to_json_checked_failed.
(* for every configuration and every driver behaviour: no statement reaches the driver *)
Theorem C10_to_sql_failed f conf exec_ok : ferr f = true -> to_sql_checked f conf exec_ok = ([], Sql.SErr).
Proof. exact (to_sql_failed f conf exec_ok). Qed.
Print Assumptions C10_to_sql_failed.
(* without Err the wrappers ARE the models *)
Theorem C10_checked_ok ff af f conf sconf exec_ok :
  ferr f = false ->
  to_csv_checked ff f conf = Observe.frame_to_csv ff f conf
  /\ to_json_checked af f = Observe.frame_to_json af f
  /\ to_sql_checked f sconf exec_ok = Sql.to_sql (sql_frame_of f) sconf exec_ok.
Proof.
  exact (fun H => conj (to_csv_checked_ok ff f conf H) (conj (to_json_checked_ok af f H) (to_sql_checked_ok f sconf exec_ok H))).
Qed.
Print Assumptions C10_checked_ok.
(* the Sql view of the physical frame shows the logical cells (null string / enum cell -> NULL) *)
Theorem C10_sql_cell_at c p : Sql.cell_at (sql_col c) p = do x <- cell_at c p; Ok (dval_of_cell x).
Proof. exact (sql_cell_at c p). Qed.
Print Assumptions C10_sql_cell_at.
(* at the level of the io.Writer (Model/IOFault.v): with Err the writer has accepted nothing more than before *)
Theorem C10_to_csv_io_failed header rows w : to_csv_io_checked true header rows w = Ok (IOFault.fw_got w, true).
Proof. exact (to_csv_io_failed header rows w). Qed.
Print Assumptions C10_to_csv_io_failed.
Theorem C10_to_json_io_failed records w : to_json_io_checked true records w = (IOFault.fw_got w, true).
Proof. exact (to_json_io_failed records w). Qed.
Print Assumptions C10_to_json_io_failed.
(* the test is not redundant: the bodies do write / execute *)
Theorem C10_to_json_unchecked_writes records w :
  1 <= IOFault.fw_left w -> exists rest, fst (IOFault.to_json records w) = IOFault.fw_got w ++ 91%N :: rest.
Proof. exact (to_json_io_unchecked_writes records w). Qed.
Print Assumptions C10_to_json_unchecked_writes.
Theorem C10_to_sql_unchecked_executes f conf exec_ok p rest args :
  ix f = p :: rest -> Sql.row_args (sql_frame_of f) 0 = Ok args ->
  fst (Sql.to_sql (sql_frame_of f) conf exec_ok) <> [].
Proof. exact (to_sql_unchecked_executes f conf exec_ok p rest args). Qed.
Print Assumptions C10_to_sql_unchecked_executes.

(* ---- examples: a failed frame with rows and columns (C10_exf with Err set) through every operation above *)
Definition C10_exff : frame := with_err C10_exf.
Definition C10_exmh (b : bytes) (seed : N) : N := fold_left (fun h x => (h * 31 + x + 7) mod 2 ^ 64)%N b seed.
Definition C10_exaggs : list aggregation :=
  [mkAgg (GUser TInt [([CInt 3; CInt 5], CInt 8); ([CInt 2], CInt 2)]%Z) [65%N] [88%N]; mkAgg (GName name_count) [65%N] [67%N]].
Example C10_example_failed :
  ferr C10_exff = true /\ ix C10_exff = [2; 0; 3]
  /\ sort_frame C10_exff [([65%N], false, false)] = Ok C10_exff
  /\ distinct C10_exmh (fun _ _ => 0%N) false C10_exff [[83%N]] = Ok C10_exff
  /\ (do gr <- group_by C10_exmh (fun _ _ => 0%N) false C10_exff [[69%N]]; aggregate [] gr C10_exaggs) = Ok err_frame
  /\ (do gr <- group_by C10_exmh (fun _ _ => 0%N) false C10_exff [[69%N]]; qframes gr) = Fail
  /\ JsonRead.frame_to_json C10_exff = Fail
  /\ to_csv_checked (fun _ => []) C10_exff (CsvWrite.mkToConf true None) = Fail
  /\ to_sql_checked C10_exff (Sql.mkCfg [116%N] 0 false 0 None) (fun _ => true) = ([], Sql.SErr).
Proof. vm_compute. repeat split; reflexivity. Qed.
(* the same calls on the frame WITHOUT Err do something (the hypotheses of the "unchecked" theorems hold) *)
Example C10_example_not_failed :
  ferr C10_exf = false
  /\ option_map ix (match sort_frame C10_exf [([65%N], false, false)] with Ok r => Some r | _ => None end) = Some [2; 0; 3]
  /\ option_map ix (match sort_frame C10_exf [([65%N], true, false)] with Ok r => Some r | _ => None end) = Some [3; 0; 2]
  /\ option_map ferr (match sort_frame C10_exf [([90%N], false, false)] with Ok r => Some r | _ => None end) = Some true
  /\ (do gr <- group_by C10_exmh (fun _ _ => 0%N) false C10_exf [[69%N]]; aggregate [] gr C10_exaggs)
     = Ok (mkFrame [([69%N], ECol [1; 0]%N [[120%N]; [121%N]] false); ([88%N], ICol [2; 8]%Z); ([67%N], ICol [1; 2]%Z)] [0; 1] false)
  /\ length (fst (to_sql_checked C10_exf (Sql.mkCfg [116%N] 0 false 0 None) (fun _ => true))) = 3.
Proof. vm_compute. repeat split; reflexivity. Qed.
