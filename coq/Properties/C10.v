(* Property C10 — invalid use yields Err, never a panic, and an error is sticky. *)
From QF Require Import Base.Prelude Model.Frame Model.Filter Model.Ops Proofs.StickyProofs.
Local Open Scope nat_scope.

(* the failed frame exposes no rows *)
Theorem C10_len f : ferr f = true -> frame_len f = (-1)%Z.
Proof. exact (len_err f). Qed.
Print Assumptions C10_len.

(* Once Err is set every further operation returns the same failed frame.  The operation's arguments —
   clauses with their recorded predicate tables, instructions with their function tables — do not occur on the
   right hand side: no user callback is consulted. *)
Theorem C10_sticky_filter mt f c : ferr f = true -> frame_filter mt f c = Ok f.
Proof. exact (filter_sticky mt f c). Qed.
Print Assumptions C10_sticky_filter.
Theorem C10_sticky_slice f a b : ferr f = true -> slice f a b = f.
Proof. exact (slice_sticky f a b). Qed.
Print Assumptions C10_sticky_slice.
Theorem C10_sticky_select f ns : ferr f = true -> select f ns = f.
Proof. exact (select_sticky f ns). Qed.
Print Assumptions C10_sticky_select.
Theorem C10_sticky_drop f ns : ferr f = true -> drop f ns = f.
Proof. exact (drop_sticky f ns). Qed.
Print Assumptions C10_sticky_drop.
Theorem C10_sticky_copy f d s : ferr f = true -> copy f d s = f.
Proof. exact (copy_sticky f d s). Qed.
Print Assumptions C10_sticky_copy.
Theorem C10_sticky_apply ut f is : ferr f = true -> apply ut f is = Ok f.
Proof. exact (apply_sticky ut f is). Qed.
Print Assumptions C10_sticky_apply.
Theorem C10_sticky_filtered_apply mt ut f c is : ferr f = true -> filtered_apply mt ut f c is = Ok f.
Proof. exact (filtered_apply_sticky mt ut f c is). Qed.
Print Assumptions C10_sticky_filtered_apply.
Theorem C10_sticky_rownums f n : ferr f = true -> with_row_nums f n = Ok f.
Proof. exact (with_row_nums_sticky f n). Qed.
Print Assumptions C10_sticky_rownums.

(* invalid arguments are reported through Err (the model functions below are total: no Panic value exists
   for them; Filter is in the outcome monad and returns Ok of a failed frame) *)
Theorem C10_slice_invalid f a b :
  ferr f = false -> (a < 0 \/ b < a \/ Z.of_nat (length (ix f)) < b)%Z -> ferr (slice f a b) = true.
Proof. exact (slice_invalid f a b). Qed.
Print Assumptions C10_slice_invalid.
Theorem C10_select_unknown f ns : ferr f = false -> forallb (contains f) ns = false -> ferr (select f ns) = true.
Proof. exact (select_invalid f ns). Qed.
Print Assumptions C10_select_unknown.
Theorem C10_copy_unknown f d s : ferr f = false -> lookup_col f s = None -> ferr (copy f d s) = true.
Proof. exact (copy_invalid f d s). Qed.
Print Assumptions C10_copy_unknown.
Theorem C10_illegal_name f n c : check_name n = false -> ferr (set_column f n c) = true.
Proof. exact (set_column_bad_name f n c). Qed.
Print Assumptions C10_illegal_name.
Theorem C10_empty_and mt f : ferr f = false -> exists g, frame_filter mt f (CAnd []) = Ok g /\ ferr g = true.
Proof. exact (filter_empty_and mt f). Qed.
Print Assumptions C10_empty_and.
Theorem C10_empty_or mt f : ferr f = false -> exists g, frame_filter mt f (COr []) = Ok g /\ ferr g = true.
Proof. exact (filter_empty_or mt f). Qed.
Print Assumptions C10_empty_or.
Theorem C10_filter_unknown_column mt f l :
  ferr f = false -> lookup_col f (lcol l) = None ->
  exists g, frame_filter mt f (CLeaf l) = Ok g /\ ferr g = true.
Proof. exact (filter_unknown_column mt f l). Qed.
Print Assumptions C10_filter_unknown_column.

Example C10_illegal_names : map check_name [[]; [39; 113; 39]; [34; 113; 34]; [36; 120]; [39; 39]; [65]]%N
                            = [false; false; false; false; true; true].
Proof. vm_compute. reflexivity. Qed.
