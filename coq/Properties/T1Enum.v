(* Tie T1 for the enum factory and the enum column (properties C17, C14, C13) — not one of the 19 properties, compiled
   with them.  Gen/GenEnumFac.v is produced by tools/qf2coq/enumfac.go from the Go text of internal/ecolumn/column.go
   (NewFactory, Factory.AppendEnum / AppendNil / newEnumVal / appendString / AppendString / AppendByteString / enumVal /
   ToColumn, New, NewConst, Column.Len / StringAt / Equals, equalTypes), statement by statement.  Every theorem below
   says: the definition generated from the Go source equals the hand-written model function (Model/Ops.v enum_new,
   enum_step, find_value_last, nodup_bytes, enum_new_const, col_equals; Model/Frame.v cell_at; Model/Filter.v
   equal_types) that the proofs of C17 and the frameops / csv engines use — for all inputs.  An edit of one of these
   Go functions changes the generated text at the next run and the theorem of that function stops compiling.

   Reading aid.  The model keeps no map: valToEnum[s] is find_value_last values s.  The generated code keeps the map
   as an association list; [map_rep m values] says they agree on every key.  [fac_rep f strict st]: the generated
   factory record f stands for the model's factory state st = (values, ranks) in mode strict (ranks are N in the
   model, Z inside uint8 in the generated code: data = map Z.of_N ranks; the map represents values; at most 255
   values).  [col_of d vals strict] is the generated record of the model column ECol d vals strict, [anycol_of] the
   tagged union standing for the interface column.Column.  An error value of the generated code is the pair
   (operation, format string); the model only says Fail.  Panic on the generated side = the Go function panics.
   There is no fuel: every loop ranges over a slice (or counts to a bound it does not change). *)
From QF Require Import Base.Prelude Gen.GenConsts Gen.GenFuncs Gen.GenEnumFac.
From QF Require Import Model.Frame Model.Filter Model.Ops Model.Json Model.JsonRead Proofs.EnumProofs Proofs.JsonProofs Proofs.GenEnumFacProofs.
From QF Require Model.CsvSpec Model.CsvWrite.
Local Open Scope nat_scope.

(* ------------------------------------------------------------------ the map *)

(* writing a key and reading any key back: the last binding wins, other keys are untouched *)
Theorem T1_enum_map_get_set (m : gef_map Z) k v s :
  gef_map_get (gef_map_set m k v) s = if bytes_eqb k s then Some v else gef_map_get m s.
Proof. exact (gef_map_get_set m k v s). Qed.
Print Assumptions T1_enum_map_get_set.

(* the map NewFactory builds for a declaration of at most 255 values is the model's lookup *)
Theorem T1_enum_map_rep values : length values <= 255 -> map_rep (fac_map values 0%Z []) values.
Proof. exact (factory_of_map_rep values). Qed.
Print Assumptions T1_enum_map_rep.
Example T1_enum_map_rep_example :
  gef_map_get (fac_map [[97%N]; [98%N]; [97%N]] 0%Z []) [97%N] = option_map Z.of_N (find_value_last [[97%N]; [98%N]; [97%N]] [97%N])
  /\ length [[97%N]; [98%N]; [97%N]] <= 255.
Proof. split; [vm_compute; reflexivity|cbn; lia]. Qed.

(* ------------------------------------------------------------------ NewFactory *)

(* the two rejections of enum_new in the same order (more than 255 values; a value listed twice), then the panic of
   make for a negative size hint, then the factory for (values, no ranks yet).  The factory's value table is the
   fresh copy values = append(make([]string, 0, len(values)), values...) (repair of finding F27: the column no
   longer appends new values into the caller's array): the same list, and what makes the list reading of the
   value table sound; a NewFactory that stores its argument slice without this copy is rejected by the translator *)
Theorem T1_enum_NewFactory values (h : Z) :
  gef_NewFactory values h =
  if (N.to_nat c_maxCardinality <? length values) then Ok (None, Some err_too_many)
  else if negb (nodup_bytes values) then Ok (None, Some err_duplicate)
  else if (h <? 0)%Z then Panic
  else Ok (Some (factory_of values), None).
Proof. exact (gef_NewFactory_eq values h). Qed.
Print Assumptions T1_enum_NewFactory.

Example T1_enum_NewFactory_example :
  gef_NewFactory [[97%N]; [98%N]] 0 = Ok (Some (factory_of [[97%N]; [98%N]]), None)
  /\ gef_NewFactory [[97%N]; [97%N]] 0 = Ok (None, Some err_duplicate) /\ gef_NewFactory [] (-1) = Panic.
Proof. repeat split; vm_compute; reflexivity. Qed.

Theorem T1_enum_NewFactory_rep values :
  length values <= 255 -> fac_rep (factory_of values) (negb (Nat.eqb (length values) 0)) (values, []).
Proof. exact (factory_of_rep values). Qed.
Print Assumptions T1_enum_NewFactory_rep.
Example T1_enum_NewFactory_rep_example : length [[97%N]; [98%N]] <= 255.
Proof. cbn; lia. Qed.

(* ------------------------------------------------------------------ the appends *)

(* AppendNil = enum_step on a null cell: rank 255 *)
Theorem T1_enum_AppendNil f strict st :
  fac_rep f strict st ->
  exists f', gef_Factory_AppendNil f = Ok f' /\ enum_step strict st None = Ok (fst st, snd st ++ [c_nullValue])
             /\ fac_rep f' strict (fst st, snd st ++ [c_nullValue]).
Proof. exact (gef_AppendNil_step f strict st). Qed.
Print Assumptions T1_enum_AppendNil.

(* AppendString = enum_step on a string cell: the same new state (a known value gets its position, a new one the
   next position), or an error with the factory unchanged exactly when the model fails (undeclared value in strict
   mode; 255 values already) *)
Theorem T1_enum_AppendString f strict st s :
  fac_rep f strict st ->
  step_agrees strict f (gef_Factory_AppendString f s) (enum_step strict st (Some s)).
Proof. exact (gef_AppendString_step f strict st s). Qed.
Print Assumptions T1_enum_AppendString.

Theorem T1_enum_AppendByteString f strict st s :
  fac_rep f strict st ->
  step_agrees strict f (gef_Factory_AppendByteString f s) (enum_step strict st (Some s)).
Proof. exact (gef_AppendByteString_step f strict st s). Qed.
Print Assumptions T1_enum_AppendByteString.

(* the slow path names its two errors *)
Theorem T1_enum_appendString f strict vals acc s :
  fac_rep f strict (vals, acc) -> find_value_last vals s = None ->
  step_agrees strict f (gef_Factory_appendString f s) (enum_step strict (vals, acc) (Some s))
  /\ (strict = true -> gef_Factory_appendString f s = Ok (Some err_append_strict, f))
  /\ (strict = false -> 255 <= length vals -> gef_Factory_appendString f s = Ok (Some err_append_card, f)).
Proof. exact (appendString_step f strict vals acc s). Qed.
Print Assumptions T1_enum_appendString.
(* the premises hold on a factory fresh from NewFactory *)
Example T1_enum_appendString_example :
  fac_rep (factory_of [[97%N]]) true ([[97%N]], []) /\ find_value_last [[97%N]] [98%N] = None
  /\ gef_Factory_AppendString (factory_of [[97%N]]) [98%N] = Ok (Some err_append_strict, factory_of [[97%N]])
  /\ exists f', gef_Factory_AppendString (factory_of [[97%N]]) [97%N] = Ok (None, f').
Proof.
  split; [exact (factory_of_rep [[97%N]] ltac:(cbn; lia))|].
  split; [vm_compute; reflexivity|]. split; [vm_compute; reflexivity|]. eexists. vm_compute. reflexivity.
Qed.

Theorem T1_enum_ToColumn f : gef_Factory_ToColumn f = Ok (gef_Factory_column f).
Proof. exact (gef_ToColumn_eq f). Qed.
Print Assumptions T1_enum_ToColumn.

(* ------------------------------------------------------------------ New, NewConst *)

(* ecolumn.New = enum_new for every data list and every declaration: the same column (ranks, value table, strict
   flag) or an error exactly when the model fails; never a panic *)
Theorem T1_enum_New data values : new_agrees (gef_New data values) (enum_new data values).
Proof. exact (gef_New_agrees data values). Qed.
Print Assumptions T1_enum_New.

(* the same as an equation: an error value observed as Fail *)
Theorem T1_enum_New_obs data values : col_obs (gef_New data values) = enum_new data values.
Proof. exact (gef_New_eq data values). Qed.
Print Assumptions T1_enum_New_obs.
Example T1_enum_New_example :
  gef_New [Some [98%N]; None; Some [97%N]; Some [98%N]] [] = Ok (col_of [0%N; 255%N; 1%N; 0%N] [[98%N]; [97%N]] false, None)
  /\ gef_New [Some [98%N]] [[97%N]; [98%N]] = Ok (col_of [1%N] [[97%N]; [98%N]] true, None).
Proof. split; vm_compute; reflexivity. Qed.

(* ecolumn.NewConst = enum_new_const for every count >= 0 *)
Theorem T1_enum_NewConst v (count : Z) values :
  (0 <= count)%Z -> new_agrees (gef_NewConst v count values) (enum_new_const v (Z.to_nat count) values).
Proof. exact (gef_NewConst_agrees v count values). Qed.
Print Assumptions T1_enum_NewConst.
Example T1_enum_NewConst_example :
  (0 <= 3)%Z /\ gef_NewConst (Some [120%N]) 3 [] = Ok (col_of [0%N; 0%N; 0%N] [[120%N]] false, None).
Proof. split; [lia|vm_compute; reflexivity]. Qed.

(* a negative count: the declaration is judged first, then make panics *)
Theorem T1_enum_NewConst_negative v (count : Z) values :
  (count < 0)%Z ->
  gef_NewConst v count values =
  if (N.to_nat c_maxCardinality <? length values) then Ok (gef_zero_Column, Some err_too_many)
  else if negb (nodup_bytes values) then Ok (gef_zero_Column, Some err_duplicate) else Panic.
Proof. exact (gef_NewConst_negative v count values). Qed.
Print Assumptions T1_enum_NewConst_negative.
Example T1_enum_NewConst_negative_example : (-1 < 0)%Z /\ gef_NewConst None (-1) [] = Panic.
Proof. split; [lia|vm_compute; reflexivity]. Qed.

(* ------------------------------------------------------------------ C17 restated on the translated text *)

(* C17_decode: whatever the translated New accepts is read back exactly through the translated StringAt — every
   string as itself, null as the null representation —, the value table extends the declared one (equals it when
   values were declared) and never exceeds 255 entries *)
Theorem T1_enum_New_decode data values c na :
  gef_New data values = Ok (c, None) ->
  length (gef_Column_values c) <= 255
  /\ (exists ext, gef_Column_values c = values ++ ext) /\ (values <> [] -> gef_Column_values c = values)
  /\ length (gef_Column_data c) = length data
  /\ forall k s, nth_error data k = Some s ->
       gef_Column_StringAt c (Z.of_nat k) na = Ok (match s with Some b => b | None => na end).
Proof. exact (gef_New_decode data values c na). Qed.
Print Assumptions T1_enum_New_decode.
Example T1_enum_New_decode_example :
  exists c, gef_New [Some [98%N]; None] [[97%N]; [98%N]] = Ok (c, None).
Proof. eexists. vm_compute. reflexivity. Qed.

(* C17_strict: with declared values the translated New answers an error on any undeclared value *)
Theorem T1_enum_New_strict data values b :
  values <> [] -> In (Some b) data -> ~ In b values -> exists e, gef_New data values = Ok (gef_zero_Column, Some e).
Proof. exact (gef_New_strict data values b). Qed.
Print Assumptions T1_enum_New_strict.
Example T1_enum_New_strict_example :
  [[97%N]] <> [] /\ In (Some [98%N]) [Some [97%N]; Some [98%N]] /\ ~ In [98%N] [[97%N]]
  /\ gef_New [Some [97%N]; Some [98%N]] [[97%N]] = Ok (gef_zero_Column, Some err_append_strict).
Proof.
  split; [discriminate|]. split; [right; left; reflexivity|]. split; [intros [H|[]]; discriminate|].
  vm_compute. reflexivity.
Qed.

(* ------------------------------------------------------------------ Len, StringAt, equalTypes, Equals *)

Theorem T1_enum_Len d vals strict : gef_Column_Len (col_of d vals strict) = Ok (Z.of_nat (col_len (ECol d vals strict))).
Proof. exact (gef_Len_eq d vals strict). Qed.
Print Assumptions T1_enum_Len.

(* StringAt(i, naRep) = the model's cell at i (naRep for null), the same panics (position outside the data, rank
   outside the value table) *)
Theorem T1_enum_StringAt d vals strict (p : nat) na :
  gef_Column_StringAt (col_of d vals strict) (Z.of_nat p) na =
  do c <- cell_at (ECol d vals strict) p;
  match c with CEnum (Some s) => Ok s | CEnum None => Ok na | _ => Panic end.
Proof. exact (gef_StringAt_eq d vals strict p na). Qed.
Print Assumptions T1_enum_StringAt.

Theorem T1_enum_equalTypes d1 v1 st1 d2 v2 st2 :
  gef_equalTypes (gef_mk_Column d1 v1 st1) (gef_mk_Column d2 v2 st2) = Ok (equal_types v1 (length d1) v2 (length d2)).
Proof. exact (gef_equalTypes_eq d1 v1 st1 d2 v2 st2). Qed.
Print Assumptions T1_enum_equalTypes.

(* Column.Equals on an enum receiver = col_equals: by string, null only equals null, false for any other column
   type, the same panics.  Premise: the ranks of both columns point into their value tables (part of col_wf; every
   column the factory builds has it) *)
Theorem T1_enum_Equals d vs st (o : coldata) (index oindex : list nat) :
  forallb (enum_rank_ok vs) d = true -> ranks_ok o = true ->
  gef_Column_Equals (col_of d vs st) (map Z.of_nat index) (anycol_of o) (map Z.of_nat oindex)
  = col_equals (ECol d vs st) index o oindex.
Proof. exact (gef_Equals_eq d vs st o index oindex). Qed.
Print Assumptions T1_enum_Equals.
Example T1_enum_Equals_example :
  forallb (enum_rank_ok [[97%N]; [98%N]]) [0%N; 255%N; 1%N] = true /\ ranks_ok (ECol [255%N; 0%N; 0%N] [[98%N]; [97%N]] false) = true
  /\ gef_Column_Equals (col_of [0%N; 255%N; 1%N] [[97%N]; [98%N]] true) [0%Z; 1%Z; 2%Z]
       (anycol_of (ECol [255%N; 0%N; 1%N] [[98%N]; [97%N]] false)) [2%Z; 0%Z; 1%Z] = Ok true.
Proof. repeat split; vm_compute; reflexivity. Qed.
(* the premise is needed: on a rank outside the value table opposite a null the Go code answers false where the
   model's cell_at faults (such a column cannot be built through the factory) *)
Example T1_enum_Equals_premise_needed :
  gef_Column_Equals (col_of [7%N] [] false) [0%Z] (anycol_of (ECol [255%N] [] false)) [0%Z] = Ok false
  /\ col_equals (ECol [7%N] [] false) [0] (ECol [255%N] [] false) [0] = Panic.
Proof. split; vm_compute; reflexivity. Qed.

(* ================================================================== QFrame.ToJSON: the record assembly (C14)
   The second part of Gen/GenEnumFac.v is QFrame.ToJSON of qframe.go, translated statement by statement inside a
   section whose variables are the abstraction boundary: C = namedColumn with col.name, the per-type rendering
   col.AppendByteStringAt(buf, i), qfstrings.QuotedBytes (its own translation is tied by T1_strings_QuotedBytes),
   and the io.Writer as a state W with writer.Write : W -> bytes -> n * error * W.
   Reading aid.  [app_at cellf]: AppendByteStringAt appends the rendering cellf col ix of the cell to the buffer it
   is given.  [write_all write w pieces]: the Write calls in order, stopped by the first error; answers that error
   and the final writer.  [rec_write]: a writer that accepts and records every call.  [frame_rec f]: the model frame
   as the generated record; [fcell]: the model's cell rendering (Model/JsonRead.v cell_json of cell_at). *)

(* ToJSON on a frame with Err set: the error (propagated), nothing written *)
Theorem T1_json_ToJSON_err {C W : Type} (cname : C -> bytes) cellf (write : W -> bytes -> Z * gef_error * W)
        cols byname index e (w : W) :
  gef_QFrame_ToJSON cname (app_at cellf) quoted_bytes write (gef_mk_QFrame cols byname index (Some e)) w
  = Ok (gef_propagate [84; 111; 74; 83; 79; 78]%N (Some e), w).
Proof. exact (gef_ToJSON_err cname cellf write cols byname index e w). Qed.
Print Assumptions T1_json_ToJSON_err.

(* for every column list, row index, writer behaviour and writer state: when every cell renders (rows = the
   renderings, row by row in index order), ToJSON hands exactly the pieces of Model/Json.v to_json_writes — "[",
   one piece per row with the pre-rendered quoted names, the hand-placed commas and the trailing comma trimmed, "]"
   — to the writer, stops at its first error and returns it *)
Theorem T1_json_ToJSON {C W : Type} (cname : C -> bytes) cellf (write : W -> bytes -> Z * gef_error * W)
        cols byname index (w : W) rows :
  omap (fun ix => omap (fun c => cellf c ix) cols) index = Ok rows ->
  gef_QFrame_ToJSON cname (app_at cellf) quoted_bytes write (gef_mk_QFrame cols byname index None) w
  = do pieces <- to_json_writes (map cname cols) rows; Ok (write_all write w pieces).
Proof. exact (gef_ToJSON_eq cname cellf write cols byname index w rows). Qed.
Print Assumptions T1_json_ToJSON.
(* two columns a, b; rows 7 and 3; the cell of column c at row id i is the digit i (a) or null (b) *)
Example T1_json_ToJSON_example :
  let cellf := fun (c : bytes) (ix : Z) => if bytes_eqb c [97%N] then Ok [Z.to_N (48 + ix)] else Ok (bs 4 0x6E756C6C) in
  omap (fun ix => omap (fun c => cellf c ix) [[97%N]; [98%N]]) [7%Z; 3%Z] = Ok [[[55%N]; bs 4 0x6E756C6C]; [[51%N]; bs 4 0x6E756C6C]]
  /\ gef_QFrame_ToJSON (fun c => c) (app_at cellf) quoted_bytes rec_write (gef_mk_QFrame [[97%N]; [98%N]] [] [7%Z; 3%Z] None) []
     = Ok (None, [bs 1 0x5B; bs 16 0x7B2261223A372C2262223A6E756C6C7D; bs 17 0x2C7B2261223A332C2262223A6E756C6C7D; bs 1 0x5D]).
Proof. split; vm_compute; reflexivity. Qed.

(* with a writer that accepts everything: the recorded Write calls are to_json_writes *)
Theorem T1_json_ToJSON_recorded {C : Type} (cname : C -> bytes) cellf cols byname index rows :
  omap (fun ix => omap (fun c => cellf c ix) cols) index = Ok rows ->
  gef_QFrame_ToJSON cname (app_at cellf) quoted_bytes rec_write (gef_mk_QFrame cols byname index None) []
  = do pieces <- to_json_writes (map cname cols) rows; Ok (None, pieces).
Proof. exact (gef_ToJSON_recorded cname cellf cols byname index rows). Qed.
Print Assumptions T1_json_ToJSON_recorded.

(* C14_to_json_shape on the translated text: no error, and the bytes written are [ obj , obj ... ] with
   obj = { qname : cell , ... } and qname = QuotedBytes(name) *)
Theorem T1_json_ToJSON_shape {C : Type} (cname : C -> bytes) cellf cols byname index rows :
  omap (fun ix => omap (fun c => cellf c ix) cols) index = Ok rows ->
  exists qnames ws, omap quoted_bytes (map cname cols) = Ok qnames /\ length qnames = length cols
    /\ gef_QFrame_ToJSON cname (app_at cellf) quoted_bytes rec_write (gef_mk_QFrame cols byname index None) [] = Ok (None, ws)
    /\ concat ws = doc_text qnames rows.
Proof. exact (gef_ToJSON_shape cname cellf cols byname index rows). Qed.
Print Assumptions T1_json_ToJSON_shape.

(* frames: whenever the model of ToJSON the strings engine executes (Model/JsonRead.v frame_to_json) produces a
   document, the translated ToJSON hands exactly that document to the writer, in pieces, without error *)
Theorem T1_json_ToJSON_frame (f : frame) out :
  frame_to_json f = Ok out ->
  exists ws, gef_QFrame_ToJSON fst (app_at fcell) quoted_bytes rec_write (frame_rec f) [] = Ok (None, ws)
             /\ concat ws = out.
Proof. exact (gef_ToJSON_frame f out). Qed.
Print Assumptions T1_json_ToJSON_frame.
Example T1_json_ToJSON_frame_example :
  frame_to_json (mkFrame [([97%N], ECol [0%N; 255%N] [[120%N]] false)] [1; 0] false)
  = Ok (bs 22 0x5B7B2261223A6E756C6C7D2C7B2261223A2278227D5D).
Proof. vm_compute. reflexivity. Qed.

Theorem T1_json_ToJSON_frame_err (f : frame) w :
  ferr f = true ->
  frame_to_json f = Fail
  /\ exists e, gef_QFrame_ToJSON fst (app_at fcell) quoted_bytes rec_write (frame_rec f) w = Ok (Some e, w).
Proof. exact (gef_ToJSON_frame_err f w). Qed.
Print Assumptions T1_json_ToJSON_frame_err.
Example T1_json_ToJSON_frame_err_example : ferr (mkFrame [] [] true) = true.
Proof. reflexivity. Qed.

(* the column level of ToJSON for an enum column: Column.AppendByteStringAt (internal/ecolumn/column.go, translated
   with qfstrings.AppendQuotedString as its abstraction boundary, here the escaper of Model/Json.v that
   T1_strings_AppendQuotedString ties to its own translation) IS the reading app_at fcell the theorems above take:
   it appends null or the quoted value of the cell to the buffer it is given, and panics where cell_at does *)
Theorem T1_json_enum_AppendByteStringAt name d vs st buf (p : nat) :
  gef_Column_AppendByteStringAt append_quoted_string (col_of d vs st) buf (Z.of_nat p)
  = app_at fcell (name, ECol d vs st) buf (Z.of_nat p).
Proof. exact (gef_enum_AppendByteStringAt_eq name d vs st buf p). Qed.
Print Assumptions T1_json_enum_AppendByteStringAt.

(* ================================================================== QFrame.ToCSV: the record assembly (C13)
   QFrame.ToCSV (with QFrame.Len) of qframe.go, translated statement by statement in the same section: the Columns
   option (count check, lookup of every name in the by-name map, the error for a missing name), the header record
   from the chosen columns, the second lookup of every column by its name, one record per row through
   col.StringAt(qf.index[i], ""), Flush, Error.  Abstraction boundary: encoding/csv's Writer is a state K with
   NewWriter / Write / Flush / Error (its transcription is Model/CsvWrite.v writer_write), csv.NewToConfig gives the
   configuration record (Columns nil = None), the column level is col.name / col.StringAt.
   Reading aid.  The model (Model/CsvWrite.v to_csv_records, the one the csv and frameops engines execute) works
   on the OBSERVED frame of Model/CsvSpec.v: per column its name and its cells in row order.  [csv_rec f] is that
   frame as the generated record: columns = f, columnsByName = every name bound to the first column of that name,
   index = 0 .. n-1, no error; [strat ff] is StringAt on it (the i-th string of col_strings); [ntc conf] the Go
   configuration of the model's conf.  [cw_all ...  k recs]: the records handed to the csv.Writer in order, stopped by
   its first error, else Flush and Error(); answers that error and the writer underneath.
   [names_resolve f f]: every column is the one its name resolves to — what unique column names give
   (T1_csv_names_resolve_nodup); frames with repeated names are the known finding K2. *)

Theorem T1_csv_names_resolve_nodup (f : CsvSpec.frame) : NoDup (map fst f) -> names_resolve f f.
Proof. exact (names_resolve_nodup f). Qed.
Print Assumptions T1_csv_names_resolve_nodup.
Example T1_csv_names_resolve_nodup_example : NoDup (map fst [([97%N], CsvSpec.ColInt [1%Z]); ([98%N], CsvSpec.ColBool [true])]).
Proof. cbn. repeat constructor; cbn; intuition discriminate. Qed.

(* for every observed frame with resolving names, every configuration, every csv.Writer behaviour: when the model
   produces the record list, ToCSV hands exactly those records to the csv.Writer (stopping at its first error) *)
Theorem T1_csv_ToCSV {W K : Type} ff (cw_new : W -> K) cw_write cw_flush cw_error cw_under
        (f : CsvSpec.frame) conf (w : W) recs :
  names_resolve f f ->
  CsvWrite.to_csv_records ff f conf = Ok recs ->
  gef_QFrame_ToCSV czero fst (strat ff) ntc cw_new cw_write cw_flush cw_error cw_under (csv_rec f) w conf
  = Ok (cw_all cw_write cw_flush cw_error cw_under (cw_new w) recs).
Proof. exact (gef_ToCSV_eq ff cw_new cw_write cw_flush cw_error cw_under f conf w recs). Qed.
Print Assumptions T1_csv_ToCSV.

(* with a csv.Writer that accepts everything: the recorded records are the model's *)
Theorem T1_csv_ToCSV_recorded ff (f : CsvSpec.frame) conf recs :
  names_resolve f f ->
  CsvWrite.to_csv_records ff f conf = Ok recs ->
  gef_QFrame_ToCSV czero fst (strat ff) ntc (fun w => w) rec_cw_write (fun k => k) (fun _ => None) (fun k => k)
                   (csv_rec f) [] conf
  = Ok (None, recs).
Proof. exact (gef_ToCSV_recorded ff f conf recs). Qed.
Print Assumptions T1_csv_ToCSV_recorded.
(* an int column a and an enum column b with a null, written in the order b, a with header *)
Example T1_csv_ToCSV_example :
  let f := [([97%N], CsvSpec.ColInt [1%Z; 22%Z]); ([98%N], CsvSpec.ColEnum [] [Some [120%N]; None])] in
  let conf := CsvWrite.mkToConf true (Some [[98%N]; [97%N]]) in
  CsvWrite.to_csv_records (fun _ => []) f conf = Ok [[[98%N]; [97%N]]; [[120%N]; [49%N]]; [[]; [50%N; 50%N]]]
  /\ gef_QFrame_ToCSV czero fst (strat (fun _ => [])) ntc (fun w => w) rec_cw_write (fun k => k) (fun _ => None) (fun k => k)
                      (csv_rec f) [] conf
     = Ok (None, [[[98%N]; [97%N]]; [[120%N]; [49%N]]; [[]; [50%N; 50%N]]]).
Proof. split; vm_compute; reflexivity. Qed.

(* the Columns option with the wrong number of names or a name that is no column: an error, nothing written *)
Theorem T1_csv_ToCSV_fail {W K : Type} ff (cw_new : W -> K) cw_write cw_flush cw_error cw_under
        (f : CsvSpec.frame) conf (w : W) :
  CsvWrite.iter_cols f conf = Fail ->
  exists e, gef_QFrame_ToCSV czero fst (strat ff) ntc cw_new cw_write cw_flush cw_error cw_under (csv_rec f) w conf
            = Ok (Some e, w).
Proof. exact (gef_ToCSV_fail ff cw_new cw_write cw_flush cw_error cw_under f conf w). Qed.
Print Assumptions T1_csv_ToCSV_fail.
Example T1_csv_ToCSV_fail_example :
  CsvWrite.iter_cols [([97%N], CsvSpec.ColInt [1%Z])] (CsvWrite.mkToConf true (Some [[98%N]])) = Fail.
Proof. vm_compute. reflexivity. Qed.

(* a frame with Err set: the error (propagated), nothing written *)
Theorem T1_csv_ToCSV_err {W K : Type} ff (cw_new : W -> K) cw_write cw_flush cw_error cw_under
        cols byname index e conf (w : W) :
  gef_QFrame_ToCSV czero fst (strat ff) ntc cw_new cw_write cw_flush cw_error cw_under
                   (gef_mk_QFrame cols byname index (Some e)) w conf
  = Ok (gef_propagate [84; 111; 67; 83; 86]%N (Some e), w).
Proof. exact (gef_ToCSV_err ff cw_new cw_write cw_flush cw_error cw_under cols byname index e conf w). Qed.
Print Assumptions T1_csv_ToCSV_err.
