(* Properties/T1EvalCtx.v — tie T1 for the evaluation context and the function package (C07, C10): config/eval/context.go
   (NewDefaultCtx, Context.GetFunc, Context.setFunc, Context.SetFunc, ArgCount.String), config/eval/config.go (NewConfig,
   EvalContext) and the non-arithmetic functions of function/*.go, translated by tools/qf2coq/evalctx.go
   (Gen/GenEvalCtx.v), against the model's context (Model/Eval.v: ctx, get_func).  Statements only; proofs in
   Proofs/GenEvalCtxProofs.v.

   Conventions.  The Go context is nested maps (function type -> {singleArgs, doubleArgs : name -> interface{}}), the
   model's context ONE association list keyed (ctype, two arguments?, name).  ctx_flat g lists a Go context in the
   order outer entry / singleArgs / doubleArgs under the keys (ctype_of_ft type, false | true, name) — entries under a
   function type that no column has are dropped —; ctx_of abs g maps the stored interface{} values through ANY
   abs : gct_dyn -> afn (the engines use the recorded table of the function): that is the model context the Go
   context stands for.  ctx_wf g: the outer keys are pairwise different (what a Go map guarantees; the invariant of
   reading a map as a list); ctx_full g: every defined function type has an entry with two non-nil tables (what
   NewDefaultCtx makes and SetFunc keeps).  ft_of / ctype_of_ft: types.FunctionType <-> ctype (no column has TEnum as
   function type, Frame.col_ftype); ac_of false = ArgCountOne, ac_of true = ArgCountTwo.  mget_res: (value, true) /
   (nil, false).  sig_of fn: the (type, two?) under which SetFunc's gate files a function value, None when it refuses.
   A method that stores through its receiver answers the new receiver first; *Context is option (None = nil). *)
From QF Require Import Base.Prelude Gen.GenFuncs Gen.GenEvalCtx Model.Frame Model.Ops Model.Eval Proofs.GenEvalCtxProofs.
Local Open Scope Z_scope.

(* ------------------------------------------------------------------ Context.GetFunc *)

(* GetFunc = Eval.get_func: on every well-formed Go context, for every defined function type, count and name, the
   translated GetFunc answers the entry of the flattened list, and the model's get_func on the model context that the
   Go context stands for answers its abstraction *)
Theorem T1_evalctx_GetFunc (F64 OTHER : Type) (abs : @gct_dyn F64 OTHER -> afn) (g : @gct_Context F64 OTHER) ft t two name :
  ctx_wf g -> ctype_of_ft ft = Some t ->
  gct_Context_GetFunc (Some g) ft (ac_of two) name = Ok (mget_res (lookup_g (ctx_flat g) t two name))
  /\ get_func (ctx_of abs g) t two name = option_map abs (lookup_g (ctx_flat g) t two name).
Proof. exact (g_GetFunc_eq abs g ft t two name). Qed.
Print Assumptions T1_evalctx_GetFunc.

(* read from the result: GetFunc never faults on a non-nil context; ok = the model finds the key; the value found is
   the one the model's entry abstracts; (nil, false) otherwise *)
Theorem T1_evalctx_GetFunc_model (F64 OTHER : Type) (abs : @gct_dyn F64 OTHER -> afn) (g : @gct_Context F64 OTHER) ft t two name :
  ctx_wf g -> ctype_of_ft ft = Some t ->
  exists v ok, gct_Context_GetFunc (Some g) ft (ac_of two) name = Ok (v, ok)
    /\ get_func (ctx_of abs g) t two name = (if ok then Some (abs v) else None)
    /\ (ok = false -> v = gct_dyn_nil).
Proof. exact (g_GetFunc_model abs g ft t two name). Qed.
Print Assumptions T1_evalctx_GetFunc_model.
Example T1_evalctx_GetFunc_example :   (* the premises on the default context; abs / upper found, abs with two arguments not *)
  (check_name s_inc = true /\ sig_of ex_user = Some (TInt, false) /\ ctx_full ex_default /\ ctx_wf ex_default
   /\ ctype_of_ft gct_types_FunctionTypeInt = Some TInt)
  /\ found (gct_Context_GetFunc (Some ex_default) gct_types_FunctionTypeInt gct_ArgCountOne s_abs) = Some true
  /\ found (gct_Context_GetFunc (Some ex_default) gct_types_FunctionTypeInt gct_ArgCountTwo s_abs) = Some false
  /\ found (gct_Context_GetFunc (Some ex_default) gct_types_FunctionTypeString gct_ArgCountOne s_upper) = Some true
  /\ found (gct_Context_GetFunc (Some ex_default) gct_types_FunctionTypeUndefined 7 s_inc) = Some true.
Proof. exact (conj ex_SetFunc_premises ex_GetFunc). Qed.

(* the undefined function type (columns of undefined type, always empty): (nil, true) whatever the context — even a
   nil one —, the count and the name *)
Theorem T1_evalctx_GetFunc_undefined (F64 OTHER : Type) (c : option (@gct_Context F64 OTHER)) ac name :
  gct_Context_GetFunc c gct_types_FunctionTypeUndefined ac name = Ok (gct_dyn_nil, true).
Proof. exact (g_GetFunc_undefined c ac name). Qed.
Print Assumptions T1_evalctx_GetFunc_undefined.

(* a nil context and any other type: nil dereference *)
Theorem T1_evalctx_GetFunc_nil (F64 OTHER : Type) ft ac name : (ft =? gct_types_FunctionTypeUndefined) = false ->
  gct_Context_GetFunc (@None (@gct_Context F64 OTHER)) ft ac name = Panic.
Proof. exact (g_GetFunc_nil ft ac name). Qed.
Print Assumptions T1_evalctx_GetFunc_nil.

(* ArgCount is a byte: every value other than ArgCountOne is served by the two-argument tables *)
Theorem T1_evalctx_GetFunc_any_count (F64 OTHER : Type) (c : option (@gct_Context F64 OTHER)) ft ac name :
  gct_Context_GetFunc c ft ac name = gct_Context_GetFunc c ft (ac_of (negb (ac =? gct_ArgCountOne))) name.
Proof. exact (g_GetFunc_any_count c ft ac name). Qed.
Print Assumptions T1_evalctx_GetFunc_any_count.

(* ------------------------------------------------------------------ Context.setFunc *)

(* the store ctx.functions[typ].singleArgs[name] = fn (doubleArgs for every other count) as the functional update of
   that path: the entry of typ is rebuilt with the table in which name is replaced in place or appended *)
Theorem T1_evalctx_setFunc (F64 OTHER : Type) (g : @gct_Context F64 OTHER) l ft ac name fn fa m :
  gct_Context_functions g = Some l -> gct_assoc Z.eqb l ft = Some fa -> sel (negb (ac =? gct_ArgCountOne)) fa = Some m ->
  gct_Context_setFunc (Some g) ft ac name fn =
  Ok (Some (gct_mk_Context (Some (gct_assoc_set Z.eqb l ft
        (fa_with (negb (ac =? gct_ArgCountOne)) fa (Some (gct_assoc_set bytes_eqb m name fn))))))).
Proof. exact (g_setFunc_step g l ft ac name fn fa m). Qed.
Print Assumptions T1_evalctx_setFunc.

(* a nil context, a nil outer map or a function type without entry: the store panics (nil pointer / nil map) *)
Theorem T1_evalctx_setFunc_panics (F64 OTHER : Type) (g : @gct_Context F64 OTHER) ft ac name fn :
  gct_Context_setFunc (@None (@gct_Context F64 OTHER)) ft ac name fn = Panic
  /\ (match gct_Context_functions g with None => True | Some l => gct_assoc Z.eqb l ft = None end ->
      gct_Context_setFunc (Some g) ft ac name fn = Panic).
Proof. exact (conj (g_setFunc_nil ft ac name fn) (g_setFunc_missing_type g ft ac name fn)). Qed.
Print Assumptions T1_evalctx_setFunc_panics.

(* ------------------------------------------------------------------ Context.SetFunc *)

(* SetFunc followed by GetFunc: a legal name and a function of one of the twenty signatures, on a context as
   NewDefaultCtx and SetFunc make them: no error; the function is found under (type of its parameters, its argument
   count, name); every other key answers what it answered before; the invariants are kept; for the model: the entry
   (key, abs fn) is put in front of the list *)
Theorem T1_evalctx_SetFunc (F64 OTHER E : Type) (name_err : E) (err_New : bytes -> bytes -> E) (err_Propagate : bytes -> option E -> E)
  (abs : @gct_dyn F64 OTHER -> afn) (g : @gct_Context F64 OTHER) name fn t two :
  check_name name = true -> sig_of fn = Some (t, two) -> ctx_full g -> ctx_wf g ->
  exists g' : @gct_Context F64 OTHER, g_SetFunc name_err err_New err_Propagate (Some g) name fn = Ok (Some g', None)
    /\ ctx_wf g' /\ ctx_full g'
    /\ gct_Context_GetFunc (Some g') (ft_of t) (ac_of two) name = Ok (fn, true)
    /\ (forall ft' two' name', (ft' =? gct_types_FunctionTypeUndefined) = false ->
          (ft' =? ft_of t) && Bool.eqb two' two && bytes_eqb name' name = false ->
          gct_Context_GetFunc (Some g') ft' (ac_of two') name' = gct_Context_GetFunc (Some g) ft' (ac_of two') name')
    /\ (forall t' two' name', t' <> TEnum ->
          get_func (ctx_of abs g') t' two' name' = get_func (((t, two, name), abs fn) :: ctx_of abs g) t' two' name').
Proof. exact (g_SetFunc_ok name_err err_New err_Propagate abs g name fn t two). Qed.
Print Assumptions T1_evalctx_SetFunc.
Example T1_evalctx_SetFunc_example :   (* func(int) int under "inc" on the default context; "" and a non-function are refused *)
  match ex_SetFunc (Some ex_default) s_inc ex_user with
  | Ok (Some g', None) =>
      found (gct_Context_GetFunc (Some g') gct_types_FunctionTypeInt gct_ArgCountOne s_inc) = Some true
      /\ found (gct_Context_GetFunc (Some g') gct_types_FunctionTypeFloat gct_ArgCountOne s_inc) = Some false
      /\ length (ctx_flat g') = 28%nat
  | _ => False
  end
  /\ match ex_SetFunc (Some ex_default) [] ex_user with
     | Ok (Some g', Some _) => length (ctx_flat g') = 27%nat | _ => False end
  /\ match ex_SetFunc (Some ex_default) s_inc (gct_dyn_other tt) with
     | Ok (Some g', Some _) => length (ctx_flat g') = 27%nat | _ => False end.
Proof. exact ex_SetFunc_run. Qed.

(* the gate itself: SetFunc is setFunc under the key that sig_of names *)
Theorem T1_evalctx_SetFunc_gate (F64 OTHER E : Type) (name_err : E) (err_New : bytes -> bytes -> E) (err_Propagate : bytes -> option E -> E)
  (c : option (@gct_Context F64 OTHER)) name fn t two : check_name name = true -> sig_of fn = Some (t, two) ->
  g_SetFunc name_err err_New err_Propagate c name fn = do c' <- gct_Context_setFunc c (ft_of t) (ac_of two) name fn; Ok (c', None).
Proof. exact (g_SetFunc_by_sig name_err err_New err_Propagate c name fn t two). Qed.
Print Assumptions T1_evalctx_SetFunc_gate.

(* an illegal name: the error of CheckName propagated, the context as it was (any context, any value) *)
Theorem T1_evalctx_SetFunc_bad_name (F64 OTHER E : Type) (name_err : E) (err_New : bytes -> bytes -> E) (err_Propagate : bytes -> option E -> E)
  (c : option (@gct_Context F64 OTHER)) name fn : check_name name = false ->
  g_SetFunc name_err err_New err_Propagate c name fn = Ok (c, Some (err_Propagate s_SetFunc (Some name_err))).
Proof. exact (g_SetFunc_bad_name name_err err_New err_Propagate c name fn). Qed.
Print Assumptions T1_evalctx_SetFunc_bad_name.

(* an unsupported signature (the nil interface, a function of another type, any other value): an error made by SetFunc
   itself, the context as it was *)
Theorem T1_evalctx_SetFunc_bad_signature (F64 OTHER E : Type) (name_err : E) (err_New : bytes -> bytes -> E) (err_Propagate : bytes -> option E -> E)
  (c : option (@gct_Context F64 OTHER)) name fn : check_name name = true -> sig_of fn = None ->
  exists fmt, g_SetFunc name_err err_New err_Propagate c name fn = Ok (c, Some (err_New s_SetFunc fmt)).
Proof. exact (g_SetFunc_bad_sig name_err err_New err_Propagate c name fn). Qed.
Print Assumptions T1_evalctx_SetFunc_bad_signature.

(* ------------------------------------------------------------------ NewDefaultCtx, NewConfig *)

(* NewDefaultCtx (the integer and boolean functions are their GenFuncs.v translations, the float functions and the
   standard library are arbitrary): never nil, never a fault; its keys are exactly default_keys (27, in source order),
   each once; well formed and full; every stored function has the signature that SetFunc would file under its key *)
Theorem T1_evalctx_NewDefaultCtx (F64 OTHER : Type) (itoa : Z -> bytes) (fbool : bool -> bytes) (ffmt : F64 -> bytes)
  (f2i : F64 -> Z) (i2f : Z -> F64) (up low : bytes -> outcome bytes) (fabs : F64 -> outcome F64)
  (fplus fminus fmul fdiv : F64 -> F64 -> outcome F64) :
  let d := @default_ctx F64 OTHER itoa fbool ffmt f2i i2f up low fabs fplus fminus fmul fdiv in
  @g_NewDefaultCtx F64 OTHER itoa fbool ffmt f2i i2f up low fabs fplus fminus fmul fdiv = Ok (Some d)
  /\ map fst (ctx_flat d) = default_keys /\ NoDup default_keys
  /\ ctx_wf d /\ ctx_full d
  /\ forallb (fun e => match sig_of (snd e) with
                       | Some (t, two) => let '(t', two', _) := fst e in ctype_eqb t t' && Bool.eqb two two'
                       | None => false end) (ctx_flat d) = true.
Proof. exact (@g_NewDefaultCtx_spec F64 OTHER itoa fbool ffmt f2i i2f up low fabs fplus fminus fmul fdiv). Qed.
Print Assumptions T1_evalctx_NewDefaultCtx.

(* NewConfig over EvalContext options: the last context given, the default context when none was given or when the
   last one is nil *)
Theorem T1_evalctx_NewConfig (F64 OTHER : Type) (itoa : Z -> bytes) (fbool : bool -> bytes) (ffmt : F64 -> bytes)
  (f2i : F64 -> Z) (i2f : Z -> F64) (up low : bytes -> outcome bytes) (fabs : F64 -> outcome F64)
  (fplus fminus fmul fdiv : F64 -> F64 -> outcome F64) (cs : list (option (@gct_Context F64 OTHER))) :
  @g_NewConfig F64 OTHER itoa fbool ffmt f2i i2f up low fabs fplus fminus fmul fdiv (map gct_EvalContext cs) =
  Ok (gct_mk_Config (match last cs None with
                     | Some c => Some c
                     | None => Some (@default_ctx F64 OTHER itoa fbool ffmt f2i i2f up low fabs fplus fminus fmul fdiv)
                     end)).
Proof. exact (@g_NewConfig_eq F64 OTHER itoa fbool ffmt f2i i2f up low fabs fplus fminus fmul fdiv cs). Qed.
Print Assumptions T1_evalctx_NewConfig.

Theorem T1_evalctx_ArgCount_String (c : Z) :
  gct_ArgCount_String c = Ok (if c =? 0 then (bs 15 0x53696e676c6520617267756d656e74)%N
                              else if c =? 1 then (bs 15 0x446f75626c6520617267756d656e74)%N
                              else (bs 22 0x556e6b6e6f776e20617267756d656e7420636f756e74)%N).
Proof. exact (g_ArgCount_String c). Qed.
Print Assumptions T1_evalctx_ArgCount_String.

(* ------------------------------------------------------------------ the function package *)

(* the string functions: nil is a value, not a fault; strings.ToUpper / ToLower are arbitrary *)
Theorem T1_function_StrS (s : option bytes) : gct_function_StrS s = Ok s.
Proof. exact (g_StrS s). Qed.
Print Assumptions T1_function_StrS.
Theorem T1_function_LenS (s : option bytes) :
  gct_function_LenS s = Ok (match s with None => 0 | Some b => Z.of_nat (length b) end).
Proof. exact (g_LenS s). Qed.
Print Assumptions T1_function_LenS.
Theorem T1_function_ConcatS (x y : option bytes) :
  gct_function_ConcatS x y = Ok (match x, y with None, _ => y | _, None => x | Some a, Some b => Some (a ++ b) end).
Proof. exact (g_ConcatS x y). Qed.
Print Assumptions T1_function_ConcatS.
Theorem T1_function_nilSafe (f : bytes -> outcome bytes) (s : option bytes) :
  gct_function_nilSafe f s = match s with None => Ok None | Some b => do r <- f b; Ok (Some r) end.
Proof. exact (g_nilSafe f s). Qed.
Print Assumptions T1_function_nilSafe.
Theorem T1_function_UpperS (up : bytes -> outcome bytes) (s : option bytes) :
  gct_function_UpperS up s = match s with None => Ok None | Some b => do r <- up b; Ok (Some r) end.
Proof. exact (g_UpperS up s). Qed.
Print Assumptions T1_function_UpperS.
Theorem T1_function_LowerS (low : bytes -> outcome bytes) (s : option bytes) :
  gct_function_LowerS low s = match s with None => Ok None | Some b => do r <- low b; Ok (Some r) end.
Proof. exact (g_LowerS low s). Qed.
Print Assumptions T1_function_LowerS.
Theorem T1_function_strings_total (up : bytes -> outcome bytes) (s y : option bytes) :
  (forall b, exists r, up b = Ok r) ->
  (exists r, gct_function_UpperS up s = Ok r) /\ (exists r, gct_function_StrS s = Ok r)
  /\ (exists r, gct_function_LenS s = Ok r) /\ (exists r, gct_function_ConcatS s y = Ok r).
Proof. exact (g_string_functions_total up s y). Qed.
Print Assumptions T1_function_strings_total.
Example T1_function_strings_example :
  gct_function_ConcatS (Some s_abs) (Some s_inc) = Ok (Some (s_abs ++ s_inc))
  /\ gct_function_ConcatS None (Some s_inc) = Ok (Some s_inc)
  /\ gct_function_UpperS ex_up (Some s_abs) = Ok (Some (bs 3 0x414253))
  /\ gct_function_UpperS ex_up None = Ok None
  /\ gct_function_LenS (Some s_upper) = Ok 5 /\ gct_function_LenS None = Ok 0.
Proof. exact ex_functions. Qed.

(* the conversions: a fresh string of the standard library's text (strconv.Itoa, strconv.FormatBool,
   fmt.Sprintf("%f", x)), never nil; int(x), float64(x) *)
Theorem T1_function_conversions (F64 : Type) (itoa : Z -> bytes) (fbool : bool -> bytes) (ffmt : F64 -> bytes)
  (f2i : F64 -> Z) (i2f : Z -> F64) (x : Z) (b : bool) (f : F64) :
  gct_function_StrI itoa x = Ok (Some (itoa x)) /\ gct_function_StrB fbool b = Ok (Some (fbool b))
  /\ gct_function_StrF ffmt f = Ok (Some (ffmt f)) /\ gct_function_IntF f2i f = Ok (f2i f)
  /\ gct_function_FloatI i2f x = Ok (i2f x).
Proof. exact (conj (g_StrI itoa x) (conj (g_StrB fbool b) (conj (g_StrF ffmt f) (conj (g_IntF f2i f) (g_FloatI i2f x))))). Qed.
Print Assumptions T1_function_conversions.
