(* Tie T1 for Grouper.Aggregate / Grouper.QFrames and the wrappers QFrame.GroupBy / QFrame.Distinct (properties C04,
   C05, C03) — not one of the 19 properties, compiled with them.
   Gen/GenAggr.v is produced by tools/qf2coq/aggr.go from the Go text of grouper.go (Grouper.Aggregate,
   Grouper.QFrames), of qframe.go (GroupBy, Distinct, checkColumns, columnsOrAll, ColumnNames, orders, comparables,
   Len, withErr, withIndex), of config/groupby (NewConfig), of internal/icolumn / fcolumn / bcolumn (Column.Aggregate,
   subsetWithBuf, aggregations.go) and of the Comparable of all five column packages (the constructor
   Column.Comparable, Compare, Hash; scolumn's bytesAt), statement by statement.  Every theorem below says: the definition generated
   from the Go source equals the hand-written model function of Model/Aggregate.v that the proofs of C04 / C05 and
   the group engine use — for all inputs of the model.  An edit of one of these Go functions changes the
   generated text at the next run and the theorem of that function stops compiling.

   Reading aid.  The generated code is abstract in the column level; here it is instantiated with the model's
   values: a non-nil column.Column is a coldata, an error is tt, an aggregation function is the model's aggfn
   (fn == "count" is m_fn_eq_string), col.Subset / col.Aggregate — the abstraction boundary — are the model's
   col_subset / col_aggregate ft (an error of Aggregate is the pair (nil, err)), icolumn.New is ICol,
   col.Comparable(r, e, n) is the tuple (column, r, e, n), grouper.GroupBy / grouper.Distinct are ANY functions
   grp / dst of these tuples and the row ids (or the hash table of Model/Grouper.v: m_table_group), a
   groupby.ConfigFunc is CfColumns cols or CfNull b (what groupby.Columns / groupby.Null build) and m_config fns
   the Config they leave.
   THE REPRESENTATION.  emb_frame f / emb_grouper g are the Go structs of the model's frame / grouper: the slice
   qf.columns holds (column, name, pos = its position) for every column, the map qf.columnsByName — an
   association list in insertion order whose LAST entry for a key is its value — holds every column under its
   name in slice order, so that a lookup gives the last column with that name and its position
   (T1_aggr_rep_lookup, T1_aggr_rep_pos: exactly the reading of the map that Model/Frame.v documents); row ids
   are the uint32 values Z.of_nat i; Err is nil or the error tt.  Panic on the generated side = the Go function
   panics.  There is no fuel: every loop of these functions ranges over a slice (the counting loop of
   comparables over [0, len)), so the equalities hold outright. *)
From QF Require Import Base.Prelude Gen.GenTables Gen.GenFuncs Gen.GenFilterClause Gen.GenAggr.
From QF Require Import Model.Frame Model.Filter Model.Ops Model.Aggregate Proofs.GenAggrProofs.
From QF Require Model.Sort Model.SortFrame Model.Grouper.
Local Open Scope Z_scope.

(* ------------------------------------------------------------------ the representation *)

Theorem T1_aggr_rep_lookup (f : frame) (name : bytes) :
  ga_map_get ga_namedColumn_zero (ga_QFrame_columnsByName (emb_frame f)) name
  = match lookup f name with
    | Some pc => (ga_mk_namedColumn (Some (snd pc)) name (Z.of_nat (fst pc)), true)
    | None => (ga_namedColumn_zero, false)
    end.
Proof. exact (emb_frame_lookup f name). Qed.
Print Assumptions T1_aggr_rep_lookup.

Theorem T1_aggr_rep_pos (f : frame) (i : nat) (nc : ga_namedColumn) :
  nth_error (ga_QFrame_columns (emb_frame f)) i = Some nc -> ga_namedColumn_pos nc = Z.of_nat i.
Proof. exact (emb_frame_pos f i nc). Qed.
Print Assumptions T1_aggr_rep_pos.
Example T1_aggr_rep_pos_example :
  nth_error (ga_QFrame_columns (emb_frame (mkFrame [([1%N], ICol [5]); ([2%N], BCol [true])] [0%nat] false))) 1
  = Some (ga_mk_namedColumn (Some (BCol [true])) [2%N] 1).
Proof. reflexivity. Qed.

(* ------------------------------------------------------------------ Grouper.Aggregate *)

(* premise: the number of groups is a uint32 (index.NewAscending(uint32(len(g.indices))) would wrap otherwise;
   the groups partition an index.Int, whose length the other operations also pass through uint32).
   The result frame is again an embedded frame: names, columns, pos = position, the map entries in slice order,
   the index 0..n-1; every error case answers the frame {Err: e} without columns. *)
Theorem T1_aggr_Aggregate (ft : float_table) (g : grouper) (aggs : list aggregation) :
  Z.of_nat (length (gindices g)) < 4294967296 ->
  ga_Grouper_Aggregate m_new_error m_propagate m_unknownCol m_fn_eq_string m_col_Subset (m_col_Aggregate ft)
    m_icolumn_New (emb_grouper g) (map emb_agg aggs)
  = omap1 emb_frame (aggregate ft g aggs).
Proof. exact (ga_Grouper_Aggregate_eq ft g aggs). Qed.
Print Assumptions T1_aggr_Aggregate.
Example T1_aggr_Aggregate_example :
  let g := mkGrouper [([1%N], ICol [5; 6; 7]); ([2%N], ICol [1; 1; 2])] [[2%N]] [[0%nat; 1%nat]; [2%nat]] false in
  let aggs := [mkAgg (GName (bs 3 0x73756d)) [1%N] [9%N]; mkAgg (GName name_count) [1%N] []] in
  Z.of_nat (length (gindices g)) < 4294967296 /\
  aggregate [] g aggs
  = Ok (mkFrame [([2%N], ICol [1; 2]); ([9%N], ICol [11; 7]); ([1%N], ICol [2; 1])] [0%nat; 1%nat] false).
Proof. cbv zeta. split; [reflexivity|vm_compute; reflexivity]. Qed.

(* the loops on their own: the first row of every group (a group without rows panics: ix[0]) ... *)
Theorem T1_aggr_Aggregate_firsts (gs : list (list nat)) :
  ga_Grouper_Aggregate_loop1 (map ints gs) 0 (repeat 0 (length gs))
  = omap1 ints (omap (fun ix => idx ix 0%nat) gs).
Proof. exact (ga_Aggregate_firsts gs). Qed.
Print Assumptions T1_aggr_Aggregate_firsts.

(* ... the group sizes of "count" ... *)
Theorem T1_aggr_Aggregate_counts (gs : list (list nat)) :
  ga_Grouper_Aggregate_loop3 (map ints gs) 0 (repeat 0 (length gs))
  = Ok (map (fun ix => Z.of_nat (length ix)) gs).
Proof. exact (ga_Aggregate_counts gs). Qed.
Print Assumptions T1_aggr_Aggregate_counts.

(* ... the key columns: looked up by name (a missing name is a nil Column whose Subset call panics), pos = i,
   Subset on the first rows, entered into the map and appended ... *)
Theorem T1_aggr_Aggregate_keys (g : grouper) (firsts : list nat) (keys : list bytes) (acc : list (bytes * coldata)) :
  ga_Grouper_Aggregate_loop2 m_col_Subset keys (Z.of_nat (length acc)) (emb_grouper g) (ints firsts)
    (emb_map acc) (emb_cols acc)
  = omap1 (fun kc => (emb_map (acc ++ kc), emb_cols (acc ++ kc))) (omap (key_col g firsts) keys).
Proof. exact (ga_Aggregate_loop2_eq g firsts keys acc). Qed.
Print Assumptions T1_aggr_Aggregate_keys.

(* ... and the aggregations: the model's agg_step folded over aggs (the checks in order: unknown column, As name,
   name clash with a key or an earlier aggregate, "count", Column.Aggregate and its error) *)
Theorem T1_aggr_Aggregate_aggs (ft : float_table) (g : grouper) (aggs : list aggregation)
  (acc : list (bytes * coldata)) (err : option unit) :
  Z.of_nat (length (gindices g)) < 4294967296 ->
  ga_Grouper_Aggregate_loop4 m_new_error m_propagate m_unknownCol m_fn_eq_string (m_col_Aggregate ft) m_icolumn_New
    (map emb_agg aggs) (emb_grouper g) (emb_map acc) (emb_cols acc) err
  = agg_result g (ofold (agg_step ft g) aggs acc).
Proof. exact (fun H => ga_Aggregate_loop4_eq ft g aggs H acc err). Qed.
Print Assumptions T1_aggr_Aggregate_aggs.

(* ------------------------------------------------------------------ Grouper.QFrames *)

Theorem T1_aggr_QFrames (g : grouper) :
  ga_Grouper_QFrames (emb_grouper g)
  = Ok (match qframes g with Ok fs => (map emb_frame fs, None) | _ => ([], Some tt) end).
Proof. exact (ga_Grouper_QFrames_eq g). Qed.
Print Assumptions T1_aggr_QFrames.

(* ------------------------------------------------------------------ groupby.NewConfig and the helpers *)

(* for ANY total config functions: applied in order to the zero Config *)
Theorem T1_aggr_NewConfig {CF : Type} (apply : CF -> ga_Config -> ga_Config) (fns : list CF) :
  ga_groupby_NewConfig (fun f c => Ok (apply f c)) fns = Ok (fold_left (fun c f => apply f c) fns ga_Config_zero).
Proof. exact (ga_NewConfig_eq apply fns). Qed.
Print Assumptions T1_aggr_NewConfig.

Theorem T1_aggr_Len (f : frame) : ga_QFrame_Len (emb_frame f) = Ok (frame_len f).
Proof. exact (ga_Len_eq f). Qed.
Print Assumptions T1_aggr_Len.

Theorem T1_aggr_ColumnNames (f : frame) : ga_QFrame_ColumnNames (emb_frame f) = Ok (col_names f).
Proof. exact (ga_ColumnNames_eq f). Qed.
Print Assumptions T1_aggr_ColumnNames.

Theorem T1_aggr_columnsOrAll (f : frame) (columns : list bytes) :
  ga_QFrame_columnsOrAll (emb_frame f) columns = Ok (match columns with [] => col_names f | _ :: _ => columns end).
Proof. exact (ga_columnsOrAll_eq f columns). Qed.
Print Assumptions T1_aggr_columnsOrAll.

Theorem T1_aggr_orders {C E : Type} (qf : @ga_QFrame C E) (columns : list bytes) :
  ga_QFrame_orders qf columns = Ok (map m_order columns).
Proof. exact (ga_orders_eq qf columns). Qed.
Print Assumptions T1_aggr_orders.

Theorem T1_aggr_checkColumns (f : frame) (op : bytes) (columns : list bytes) :
  ga_QFrame_checkColumns m_new_error m_unknownCol (emb_frame f) op columns
  = Ok (emb_err (negb (forallb (contains f) columns))).
Proof. exact (ga_checkColumns_eq f op columns). Qed.
Print Assumptions T1_aggr_checkColumns.

(* Comparable(false, groupByNull, false) of every named column, in order; a missing name panics (nil Column) *)
Theorem T1_aggr_comparables (f : frame) (nulleq : bool) (columns : list bytes) :
  ga_QFrame_comparables m_Comparable (emb_frame f) columns (map m_order columns) nulleq
  = omap1 (map (m_key nulleq)) (named_cols f columns).
Proof. exact (ga_comparables_eq f nulleq columns). Qed.
Print Assumptions T1_aggr_comparables.

(* ------------------------------------------------------------------ QFrame.GroupBy / QFrame.Distinct *)

(* for ANY grouper.GroupBy function grp of the comparables and the row ids *)
Theorem T1_aggr_GroupBy (grp : list (coldata * bool * bool * bool) -> list nat -> outcome (list (list nat)))
  (f : frame) (fns : list m_cf) :
  ga_QFrame_GroupBy tt m_new_error m_unknownCol m_Comparable (m_GroupBy grp) m_cf_apply (emb_frame f) fns
  = omap1 emb_grouper
      (group_by_with (fun kcols ids => grp (map (m_key (ga_Config_GroupByNull (m_config fns))) kcols) ids)
         f (ga_Config_Columns (m_config fns))).
Proof. exact (ga_GroupBy_eq grp f fns). Qed.
Print Assumptions T1_aggr_GroupBy.

(* ... in particular for the hash table of Model/Grouper.v: the model's group_by, for every memhash and rnd *)
Theorem T1_aggr_GroupBy_table (memhash : bytes -> N -> N) (rnd : nat -> nat -> N) (f : frame) (fns : list m_cf) :
  ga_QFrame_GroupBy tt m_new_error m_unknownCol m_Comparable (m_GroupBy (m_table_group memhash rnd)) m_cf_apply
    (emb_frame f) fns
  = omap1 emb_grouper
      (group_by memhash rnd (ga_Config_GroupByNull (m_config fns)) f (ga_Config_Columns (m_config fns))).
Proof. exact (ga_GroupBy_table memhash rnd f fns). Qed.
Print Assumptions T1_aggr_GroupBy_table.

Theorem T1_aggr_Distinct (dst : list (coldata * bool * bool * bool) -> list nat -> outcome (list nat))
  (f : frame) (fns : list m_cf) :
  ga_QFrame_Distinct m_new_error m_unknownCol m_Comparable (m_Distinct dst) m_cf_apply (emb_frame f) fns
  = omap1 emb_frame
      (distinct_with (fun kcols ids => dst (map (m_key (ga_Config_GroupByNull (m_config fns))) kcols) ids)
         f (ga_Config_Columns (m_config fns))).
Proof. exact (ga_Distinct_eq dst f fns). Qed.
Print Assumptions T1_aggr_Distinct.

(* premise: there is a comparable to read equalNull from (Distinct() over a frame without columns hands
   grouper.Distinct an empty list of comparables) *)
Theorem T1_aggr_Distinct_table (memhash : bytes -> N -> N) (rnd : nat -> nat -> N) (f : frame) (fns : list m_cf) :
  (ga_Config_Columns (m_config fns) <> [] \/ cols f <> []) ->
  ga_QFrame_Distinct m_new_error m_unknownCol m_Comparable (m_Distinct (m_table_distinct memhash rnd)) m_cf_apply
    (emb_frame f) fns
  = omap1 emb_frame
      (distinct memhash rnd (ga_Config_GroupByNull (m_config fns)) f (ga_Config_Columns (m_config fns))).
Proof. exact (ga_Distinct_table memhash rnd f fns). Qed.
Print Assumptions T1_aggr_Distinct_table.
Example T1_aggr_Distinct_table_example :
  let f := mkFrame [([1%N], ICol [5; 5; 7])] [0%nat; 1%nat; 2%nat] false in
  let fns := [CfNull true; CfColumns [[1%N]]] in
  (ga_Config_Columns (m_config fns) <> [] \/ cols f <> []) /\
  ga_Config_GroupByNull (m_config fns) = true /\
  omap1 (fun r => ga_QFrame_index r)
    (ga_QFrame_Distinct m_new_error m_unknownCol m_Comparable
       (m_Distinct (m_table_distinct (fun b s => N.of_nat (length b) + s)%N (fun _ _ => 0%N))) m_cf_apply (emb_frame f) fns)
  = Ok [0; 2].
Proof. cbv zeta. split; [left; discriminate|]. split; [reflexivity|vm_compute; reflexivity]. Qed.

(* ------------------------------------------------------------------ internal/icolumn: the built-in aggregations *)

(* sum wraps around as Go's int does (C04_sum); max / min fold integer.Max / integer.Min from values[0] and panic
   on an empty slice (C04_max / C04_min) *)
Theorem T1_aggr_icolumn_sum (v : list Z) : ga_icolumn_sum v = Ok (i_sum v).
Proof. exact (ga_icolumn_sum_eq v). Qed.
Print Assumptions T1_aggr_icolumn_sum.

Theorem T1_aggr_icolumn_max (v : list Z) : ga_icolumn_max v = i_max v.
Proof. exact (ga_icolumn_max_eq v). Qed.
Print Assumptions T1_aggr_icolumn_max.

Theorem T1_aggr_icolumn_min (v : list Z) : ga_icolumn_min v = i_min v.
Proof. exact (ga_icolumn_min_eq v). Qed.
Print Assumptions T1_aggr_icolumn_min.

(* var aggregations: a name is defined exactly when the generated name table t_i_aggregations has it, and it is
   bound to the function that the model's builtin_apply runs for the Go function name of that table *)
Theorem T1_aggr_icolumn_aggregations (ft : float_table) (n : bytes) :
  match Filter.assocb n GenTables.t_i_aggregations with
  | Some gofn => exists fz, ga_map_get (fun _ : list Z => @Panic Z) ga_icolumn_aggregations n = (fz, true)
                            /\ forall zs, fz zs = cells_int (builtin_apply ft TInt gofn) zs
  | None => snd (ga_map_get (fun _ : list Z => @Panic Z) ga_icolumn_aggregations n) = false
  end.
Proof. exact (ga_aggregations_eq ft n). Qed.
Print Assumptions T1_aggr_icolumn_aggregations.

(* ------------------------------------------------------------------ internal/icolumn: subsetWithBuf / Aggregate *)

(* the buffer *[]int is the pair (elements, capacity); the call returns the new pointee beside the column.  The
   returned data aliases the buffer in Go: the translation keeps the VALUES (exact as long as the caller does not
   keep the column over the next call, which the loop of Aggregate does not: subS is local to one iteration) *)
Theorem T1_aggr_icolumn_subsetWithBuf (c : ga_icolumn_Column) (index : list Z) (buf : list Z * Z) :
  ga_icolumn_Column_subsetWithBuf c index buf
  = omap1 (fun d => (ga_mk_icolumn_Column d, buf_after buf index)) (omap (ga_index (ga_icolumn_Column_data c)) index).
Proof. exact (ga_subsetWithBuf_eq c index buf). Qed.
Print Assumptions T1_aggr_icolumn_subsetWithBuf.

(* Column.Aggregate of icolumn IS the col_Aggregate that T1_aggr_Aggregate is instantiated with, on int columns:
   the type switch (m_fn_cases: a string, a func([]int) int — a user table over int cells —, anything else), the
   table lookup, and per group subsetWithBuf + the function, in group order.  No premise. *)
Theorem T1_aggr_icolumn_Aggregate (ft : float_table) (d : list Z) (gs : list (list nat)) (fn : aggfn) :
  ga_icolumn_Column_Aggregate m_new_error m_fn_cases ICol m_fnName m_fn_text (ga_mk_icolumn_Column d) (map ints gs) fn
  = m_col_Aggregate ft (ICol d) (map ints gs) fn.
Proof. exact (ga_icolumn_Aggregate_eq ft d gs fn). Qed.
Print Assumptions T1_aggr_icolumn_Aggregate.
Example T1_aggr_icolumn_Aggregate_example :
  ga_icolumn_Column_Aggregate m_new_error m_fn_cases ICol m_fnName m_fn_text (ga_mk_icolumn_Column [5; 6; 7])
    (map ints [[0%nat; 1%nat]; [2%nat]]) (GName (bs 3 0x6d6178))
  = Ok (Some (ICol [6; 7]), None)
  /\ ga_icolumn_Column_Aggregate m_new_error m_fn_cases ICol m_fnName m_fn_text (ga_mk_icolumn_Column [5; 6; 7])
       (map ints [[0%nat; 1%nat]; [2%nat]]) (GName (bs 3 0x617667))
     = Ok (None, Some tt).
Proof. split; vm_compute; reflexivity. Qed.

(* ------------------------------------------------------------------ internal/icolumn: Comparable / Compare (C03) *)

(* column.CompareResult is the byte of the Go constants (cres_code: LessThan 0, GreaterThan 1, Equal 2, NotEqual 3);
   emb_comparable d cfg is the Go struct icolumn.Comparable of the model's configuration cfg over the data d.
   Column.Comparable(reverse, equalNull, nullLast) builds the model's mk_cmpcfg, for any way [wrap] of seeing the
   struct as a column.Comparable *)
Theorem T1_aggr_icolumn_Comparable {K : Type} (wrap : ga_icolumn_Comparable -> K) (d : list Z)
  (reverse equalNull nullLast : bool) :
  ga_icolumn_Column_Comparable wrap (ga_mk_icolumn_Column d) reverse equalNull nullLast
  = Ok (wrap (emb_comparable d (Sort.mk_cmpcfg reverse equalNull nullLast))).
Proof. exact (ga_icolumn_Comparable_eq wrap d reverse equalNull nullLast). Qed.
Print Assumptions T1_aggr_icolumn_Comparable.

(* Compare(i, j): a row outside the data panics, otherwise the model's compare_rows_int, for EVERY configuration *)
Theorem T1_aggr_icolumn_Compare (d : list Z) (cfg : Sort.cmpcfg) (i j : nat) :
  ga_icolumn_Comparable_Compare (emb_comparable d cfg) (Z.of_nat i) (Z.of_nat j)
  = (do _ <- idx d i; do _ <- idx d j;
     Ok (cres_code (Sort.compare_rows_int cfg (fun a b => nth a d 0 <? nth b d 0) i j))).
Proof. exact (ga_icolumn_Compare_eq d cfg i j). Qed.
Print Assumptions T1_aggr_icolumn_Compare.

(* premises: both rows are rows of the column.  The Compare that Sort (C03_compare_order) uses for an int column *)
Theorem T1_aggr_icolumn_Compare_sort (d : list Z) (reverse nullLast : bool) (i j : nat) :
  (i < length d)%nat -> (j < length d)%nat ->
  ga_icolumn_Comparable_Compare (emb_comparable d (Sort.mk_cmpcfg reverse false nullLast)) (Z.of_nat i) (Z.of_nat j)
  = Ok (cres_code (SortFrame.col_comparable (ICol d) reverse nullLast i j)).
Proof. exact (ga_icolumn_Compare_sortframe d reverse nullLast i j). Qed.
Print Assumptions T1_aggr_icolumn_Compare_sort.
Example T1_aggr_icolumn_Compare_sort_example :
  (0 < length [5; 3])%nat /\ (1 < length [5; 3])%nat /\
  ga_icolumn_Comparable_Compare (emb_comparable [5; 3] (Sort.mk_cmpcfg true false false)) 0 1 = Ok 0.
Proof. repeat split; cbn; lia. Qed.

(* ================================================================== the other column packages ================ *)
(* float64 values are bit patterns (N) and the float operations are VARIABLES of the generated code (x < y,
   math.IsNaN, == 0, math.NaN(), +, /, float64(n), math.Max, math.Min): every theorem says which reading it uses.
   memhash (hash.HashBytes) is any function of the byte list and the seed; rand.Uint64() is any function of a
   stream state that the Hash method takes and hands back. *)

(* ------------------------------------------------------------------ Comparable (the constructors) *)

Theorem T1_aggr_fcolumn_Comparable {K : Type} (wrap : ga_fcolumn_Comparable -> K) (d : list N) (reverse equalNull nullLast : bool) :
  ga_fcolumn_Column_Comparable wrap (ga_mk_fcolumn_Column d) reverse equalNull nullLast
  = Ok (wrap (emb_fcomparable d (Sort.mk_cmpcfg reverse equalNull nullLast))).
Proof. exact (ga_fcolumn_Comparable_eq wrap d reverse equalNull nullLast). Qed.
Print Assumptions T1_aggr_fcolumn_Comparable.

Theorem T1_aggr_bcolumn_Comparable {K : Type} (wrap : ga_bcolumn_Comparable -> K) (d : list bool) (reverse equalNull nullLast : bool) :
  ga_bcolumn_Column_Comparable wrap (ga_mk_bcolumn_Column d) reverse equalNull nullLast
  = Ok (wrap (emb_bcomparable d (Sort.mk_cmpcfg reverse equalNull nullLast))).
Proof. exact (ga_bcolumn_Comparable_eq wrap d reverse equalNull nullLast). Qed.
Print Assumptions T1_aggr_bcolumn_Comparable.

(* scolumn declares the fields of Comparable in another order (lt, gt, nullLt, nullGt): emb_scomparable follows it *)
Theorem T1_aggr_scolumn_Comparable {K : Type} (wrap : ga_scolumn_Comparable -> K) (c : ga_scolumn_Column) (reverse equalNull nullLast : bool) :
  ga_scolumn_Column_Comparable wrap c reverse equalNull nullLast
  = Ok (wrap (emb_scomparable c (Sort.mk_cmpcfg reverse equalNull nullLast))).
Proof. exact (ga_scolumn_Comparable_eq wrap c reverse equalNull nullLast). Qed.
Print Assumptions T1_aggr_scolumn_Comparable.

Theorem T1_aggr_ecolumn_Comparable {K : Type} (wrap : ga_ecolumn_Comparable -> K) (c : ga_ecolumn_Column) (reverse equalNull nullLast : bool) :
  ga_ecolumn_Column_Comparable wrap c reverse equalNull nullLast
  = Ok (wrap (emb_ecomparable c (Sort.mk_cmpcfg reverse equalNull nullLast))).
Proof. exact (ga_ecolumn_Comparable_eq wrap c reverse equalNull nullLast). Qed.
Print Assumptions T1_aggr_ecolumn_Comparable.

(* ------------------------------------------------------------------ Compare (C03_compare_order) *)

(* fcolumn: x < y, x > y first, then the NaN tests — for ANY reading flt / fnan of < and math.IsNaN, EVERY
   configuration; a row outside the data panics *)
Theorem T1_aggr_fcolumn_Compare (flt : N -> N -> bool) (fnan : N -> bool) (d : list N) (cfg : Sort.cmpcfg) (i j : nat) :
  ga_fcolumn_Comparable_Compare flt fnan (emb_fcomparable d cfg) (Z.of_nat i) (Z.of_nat j)
  = (do _ <- idx d i; do _ <- idx d j;
     Ok (cres_code (Sort.compare_rows_float cfg (fun a => fnan (nth a d 0%N))
                      (fun a b => flt (nth a d 0%N) (nth b d 0%N)) i j))).
Proof. exact (ga_fcolumn_Compare_eq flt fnan d cfg i j). Qed.
Print Assumptions T1_aggr_fcolumn_Compare.

(* ... with the model's f_lt / f_isnan: the Compare Sort uses for a float column.  Premises: rows of the column *)
Theorem T1_aggr_fcolumn_Compare_sort (d : list N) (reverse nullLast : bool) (i j : nat) :
  (i < length d)%nat -> (j < length d)%nat ->
  ga_fcolumn_Comparable_Compare f_lt f_isnan (emb_fcomparable d (Sort.mk_cmpcfg reverse false nullLast))
    (Z.of_nat i) (Z.of_nat j)
  = Ok (cres_code (SortFrame.col_comparable (FCol d) reverse nullLast i j)).
Proof. exact (ga_fcolumn_Compare_sortframe d reverse nullLast i j). Qed.
Print Assumptions T1_aggr_fcolumn_Compare_sort.
Example T1_aggr_fcolumn_Compare_sort_example :
  let d := [0x7FF8000000000001; 0x3FF0000000000000]%N in     (* NaN, 1.0 *)
  (0 < length d)%nat /\ (1 < length d)%nat /\
  ga_fcolumn_Comparable_Compare f_lt f_isnan (emb_fcomparable d (Sort.mk_cmpcfg false false true)) 0 1 = Ok 1.
Proof. cbv zeta. split; [cbn; lia|]. split; [cbn; lia|]. vm_compute. reflexivity. Qed.

Theorem T1_aggr_bcolumn_Compare (d : list bool) (cfg : Sort.cmpcfg) (i j : nat) :
  ga_bcolumn_Comparable_Compare (emb_bcomparable d cfg) (Z.of_nat i) (Z.of_nat j)
  = (do _ <- idx d i; do _ <- idx d j;
     Ok (cres_code (Sort.compare_rows_bool cfg (fun a => nth a d false) i j))).
Proof. exact (ga_bcolumn_Compare_eq d cfg i j). Qed.
Print Assumptions T1_aggr_bcolumn_Compare.

Theorem T1_aggr_bcolumn_Compare_sort (d : list bool) (reverse nullLast : bool) (i j : nat) :
  (i < length d)%nat -> (j < length d)%nat ->
  ga_bcolumn_Comparable_Compare (emb_bcomparable d (Sort.mk_cmpcfg reverse false nullLast)) (Z.of_nat i) (Z.of_nat j)
  = Ok (cres_code (SortFrame.col_comparable (BCol d) reverse nullLast i j)).
Proof. exact (ga_bcolumn_Compare_sortframe d reverse nullLast i j). Qed.
Print Assumptions T1_aggr_bcolumn_Compare_sort.

(* scolumn.  THE REPRESENTATION rep_scol c d: the Go struct c (pointers into one byte slice) represents the model's
   list of optional strings d when Column.bytesAt — translated: the Pointer accessors of GenFuncs and the slice
   expression data[off : off+len] — reads d: the bytes of string i, (nil, true) for a null, a panic beyond the
   column.  rep_scol_check is a decidable sufficient condition (T1_aggr_scolumn_rep_check).  Under it: the null
   tests first, then bytes.Compare (byte order: -1 -> ltValue, 1 -> gtValue, else Equal) *)
Theorem T1_aggr_scolumn_rep_check (c : ga_scolumn_Column) (d : list (option bytes)) :
  rep_scol_check c d = true -> rep_scol c d.
Proof. exact (rep_scol_check_sound c d). Qed.
Print Assumptions T1_aggr_scolumn_rep_check.
Example T1_aggr_scolumn_rep_example :
  (* "ab", null, "", "c": offsets 0, 2, 2, 2 — built with NewPointer *)
  rep_scol_check
    (ga_mk_scolumn_Column [gf_strings_NewPointer 0 2 false; gf_strings_NewPointer 2 0 true;
                           gf_strings_NewPointer 2 0 false; gf_strings_NewPointer 2 1 false] [97; 98; 99]%N)
    [Some [97; 98]%N; None; Some []; Some [99]%N] = true.
Proof. vm_compute. reflexivity. Qed.

Theorem T1_aggr_scolumn_Compare (c : ga_scolumn_Column) (d : list (option bytes)) (cfg : Sort.cmpcfg) (i j : nat) :
  rep_scol c d ->
  ga_scolumn_Comparable_Compare (emb_scomparable c cfg) (Z.of_nat i) (Z.of_nat j)
  = (do _ <- idx d i; do _ <- idx d j;
     Ok (cres_code (Sort.compare_rows cfg (fun a => SortFrame.str_is_null (nth a d None))
                      (fun a b => SortFrame.str_vlt (nth a d None) (nth b d None)) i j))).
Proof. exact (ga_scolumn_Compare_eq c d cfg i j). Qed.
Print Assumptions T1_aggr_scolumn_Compare.

Theorem T1_aggr_scolumn_Compare_sort (c : ga_scolumn_Column) (d : list (option bytes)) (reverse nullLast : bool) (i j : nat) :
  rep_scol c d -> (i < length d)%nat -> (j < length d)%nat ->
  ga_scolumn_Comparable_Compare (emb_scomparable c (Sort.mk_cmpcfg reverse false nullLast)) (Z.of_nat i) (Z.of_nat j)
  = Ok (cres_code (SortFrame.col_comparable (SCol d) reverse nullLast i j)).
Proof. exact (ga_scolumn_Compare_sortframe c d reverse nullLast i j). Qed.
Print Assumptions T1_aggr_scolumn_Compare_sort.
Example T1_aggr_scolumn_Compare_sort_example :
  let c := ga_mk_scolumn_Column [gf_strings_NewPointer 0 2 false; gf_strings_NewPointer 2 0 true] [97; 98]%N in
  let d := [Some [97; 98]%N; None] in
  rep_scol_check c d = true /\ (0 < length d)%nat /\ (1 < length d)%nat /\
  (* "ab" against null with NullLast and Reverse: Reverse inverts the null placement as well, "ab" is GreaterThan *)
  ga_scolumn_Comparable_Compare (emb_scomparable c (Sort.mk_cmpcfg true false true)) 0 1 = Ok 1.
Proof. cbv zeta. split; [vm_compute; reflexivity|]. split; [cbn; lia|]. split; [cbn; lia|]. vm_compute. reflexivity. Qed.

(* ecolumn: emb_ecol is the Go struct with the ranks as uint8 values; null is rank 255; the ranks are compared as
   numbers (= the declared positions; Compare does not go through compVal) *)
Theorem T1_aggr_ecolumn_Compare (d : list N) (values : list bytes) (strict : bool) (cfg : Sort.cmpcfg) (i j : nat) :
  ga_ecolumn_Comparable_Compare (emb_ecomparable (emb_ecol d values strict) cfg) (Z.of_nat i) (Z.of_nat j)
  = (do _ <- idx d i; do _ <- idx d j;
     Ok (cres_code (Sort.compare_rows cfg (fun a => enum_is_null (nth a d GenConsts.c_nullValue))
                      (fun a b => (nth a d GenConsts.c_nullValue <? nth b d GenConsts.c_nullValue)%N) i j))).
Proof. exact (ga_ecolumn_Compare_eq d values strict cfg i j). Qed.
Print Assumptions T1_aggr_ecolumn_Compare.

Theorem T1_aggr_ecolumn_Compare_sort (d : list N) (values : list bytes) (strict : bool) (reverse nullLast : bool) (i j : nat) :
  (i < length d)%nat -> (j < length d)%nat ->
  ga_ecolumn_Comparable_Compare (emb_ecomparable (emb_ecol d values strict) (Sort.mk_cmpcfg reverse false nullLast))
    (Z.of_nat i) (Z.of_nat j)
  = Ok (cres_code (SortFrame.col_comparable (ECol d values strict) reverse nullLast i j)).
Proof. exact (ga_ecolumn_Compare_sortframe d values strict reverse nullLast i j). Qed.
Print Assumptions T1_aggr_ecolumn_Compare_sort.

(* ------------------------------------------------------------------ Hash: the bytes handed to memhash (C04_cell_hash_input) *)
(* For every type: Hash(i, seed) = memhash (the model's hash_input of the key cell) seed, for EVERY memhash; for a
   float NaN and a null string under Null(false) (equalNullValue == NotEqual, i.e. equalNull = false in the
   constructor) hash_input is None and Hash answers the next number of the random stream (hash_result).  The cast
   ( *[8]byte)(unsafe.Pointer(&v))[:] is read as the little-endian bytes of v (ga_le64 = Grouper.le_bytes 8). *)

Theorem T1_aggr_icolumn_Hash (mh : bytes -> N -> N) (d : list Z) (cfg : Sort.cmpcfg) (nulleq : bool) (i : nat) (seed : N) :
  ga_icolumn_Comparable_Hash mh (emb_comparable d cfg) (Z.of_nat i) seed
  = (do z <- idx d i; Ok (match Grouper.hash_input nulleq (Grouper.CInt z) with Some b => mh b seed | None => 0%N end)).
Proof. exact (ga_icolumn_Hash_eq mh d cfg nulleq i seed). Qed.
Print Assumptions T1_aggr_icolumn_Hash.

Theorem T1_aggr_bcolumn_Hash (mh : bytes -> N -> N) (d : list bool) (cfg : Sort.cmpcfg) (nulleq : bool) (i : nat) (seed : N) :
  ga_bcolumn_Comparable_Hash mh (emb_bcomparable d cfg) (Z.of_nat i) seed
  = (do b <- idx d i; Ok (match Grouper.hash_input nulleq (Grouper.CBool b) with Some x => mh x seed | None => 0%N end)).
Proof. exact (ga_bcolumn_Hash_eq mh d cfg nulleq i seed). Qed.
Print Assumptions T1_aggr_bcolumn_Hash.

(* the enum null (rank 255) is hashed like any rank, also under Null(false): no random branch in ecolumn *)
Theorem T1_aggr_ecolumn_Hash (mh : bytes -> N -> N) (d : list N) (values : list bytes) (strict : bool)
  (cfg : Sort.cmpcfg) (nulleq : bool) (i : nat) (seed : N) :
  ga_ecolumn_Comparable_Hash mh (emb_ecomparable (emb_ecol d values strict) cfg) (Z.of_nat i) seed
  = (do r <- idx d i; Ok (match Grouper.hash_input nulleq (Grouper.CEnum r) with Some x => mh x seed | None => 0%N end)).
Proof. exact (ga_ecolumn_Hash_eq mh d values strict cfg nulleq i seed). Qed.
Print Assumptions T1_aggr_ecolumn_Hash.

(* the None branch of the three statements above is never taken *)
Theorem T1_aggr_hash_input_total (nulleq : bool) (z : Z) (b : bool) (r : N) :
  Grouper.hash_input nulleq (Grouper.CInt z) <> None /\ Grouper.hash_input nulleq (Grouper.CBool b) <> None
  /\ Grouper.hash_input nulleq (Grouper.CEnum r) <> None.
Proof. exact (hash_input_total nulleq z b r). Qed.
Print Assumptions T1_aggr_hash_input_total.

(* fcolumn, with math.IsNaN / == 0 / math.NaN() / 0 read as Model/Grouper.v reads them on bit patterns
   (f_isnan, f_key b = 0, c_uvnan, 0): NaNs hash as math.NaN(), both zeros as +0 *)
Theorem T1_aggr_fcolumn_Hash {R : Type} (mh : bytes -> N -> N) (rnd : R -> N * R) (d : list N)
  (reverse equalNull nullLast : bool) (i : nat) (seed : N) (r : R) :
  ga_fcolumn_Comparable_Hash 0%N Grouper.c_uvnan Grouper.f_isnan g_iszero mh rnd
    (emb_fcomparable d (Sort.mk_cmpcfg reverse equalNull nullLast)) (Z.of_nat i) seed r
  = (do b <- idx d i; Ok (hash_result mh rnd equalNull (Grouper.CFloat b) seed r)).
Proof. exact (ga_fcolumn_Hash_eq mh rnd d reverse equalNull nullLast i seed r). Qed.
Print Assumptions T1_aggr_fcolumn_Hash.
Example T1_aggr_fcolumn_Hash_example :
  (* NaN under Null(false): the random number 42, the stream advances; -0.0: the bytes of +0 *)
  ga_fcolumn_Comparable_Hash 0%N Grouper.c_uvnan Grouper.f_isnan g_iszero (fun b s => N.of_nat (length b) + s)%N
    (fun r : N => (42, r + 1))%N (emb_fcomparable [0x7FF8000000000005; 0x8000000000000000]%N (Sort.mk_cmpcfg false false false)) 0 7%N 0%N
  = Ok (42, 1)%N
  /\ Grouper.hash_input false (Grouper.CFloat 0x8000000000000000%N) = Some [0; 0; 0; 0; 0; 0; 0; 0]%N.
Proof. split; vm_compute; reflexivity. Qed.

Theorem T1_aggr_scolumn_Hash {R : Type} (mh : bytes -> N -> N) (rnd : R -> N * R) (c : ga_scolumn_Column)
  (d : list (option bytes)) (reverse equalNull nullLast : bool) (i : nat) (seed : N) (r : R) :
  rep_scol c d ->
  ga_scolumn_Comparable_Hash mh rnd (emb_scomparable c (Sort.mk_cmpcfg reverse equalNull nullLast)) (Z.of_nat i) seed r
  = (do s <- idx d i; Ok (hash_result mh rnd equalNull (Grouper.CStr s) seed r)).
Proof. exact (ga_scolumn_Hash_eq mh rnd c d reverse equalNull nullLast i seed r). Qed.
Print Assumptions T1_aggr_scolumn_Hash.

(* ------------------------------------------------------------------ fcolumn / bcolumn: aggregations and Aggregate *)

(* sum: the left fold of + from 0 in slice order; avg: that sum / float64(len) — for ANY float arithmetic *)
Theorem T1_aggr_fcolumn_sum (fzero : N) (fadd : N -> N -> N) (v : list N) :
  ga_fcolumn_sum fzero fadd v = Ok (fold_left fadd v fzero).
Proof. exact (ga_fcolumn_sum_eq fzero fadd v). Qed.
Print Assumptions T1_aggr_fcolumn_sum.

Theorem T1_aggr_fcolumn_avg (fzero : N) (fadd fdiv : N -> N -> N) (fofint : Z -> N) (v : list N) :
  ga_fcolumn_avg fzero fadd fdiv fofint v = Ok (fdiv (fold_left fadd v fzero) (fofint (Z.of_nat (length v)))).
Proof. exact (ga_fcolumn_avg_eq fzero fadd fdiv fofint v). Qed.
Print Assumptions T1_aggr_fcolumn_avg.

(* max / min with math.Max / math.Min read as the model's f_max / f_min: fl_max / fl_min (C04), panic when empty *)
Theorem T1_aggr_fcolumn_max (v : list N) : ga_fcolumn_max Aggregate.f_max v = fl_max v.
Proof. exact (ga_fcolumn_max_eq v). Qed.
Print Assumptions T1_aggr_fcolumn_max.

Theorem T1_aggr_fcolumn_min (v : list N) : ga_fcolumn_min Aggregate.f_min v = fl_min v.
Proof. exact (ga_fcolumn_min_eq v). Qed.
Print Assumptions T1_aggr_fcolumn_min.

(* var aggregations of fcolumn: a name is defined exactly when t_f_aggregations has it; f_builtin says which
   translated function the Go function name of that table stands for *)
Theorem T1_aggr_fcolumn_aggregations (fzero : N) (fadd fdiv : N -> N -> N) (fofint : Z -> N) (n : bytes) :
  ga_map_get (fun _ : list N => @Panic N)
    (ga_fcolumn_aggregations fzero fadd fdiv Aggregate.f_max Aggregate.f_min fofint) n
  = match Filter.assocb n GenTables.t_f_aggregations with
    | Some gofn => match f_builtin fzero fadd fdiv fofint gofn with
                   | Some fz => (fz, true) | None => (fun _ => Panic, false) end
    | None => (fun _ => Panic, false)
    end.
Proof. exact (ga_faggregations_eq fzero fadd fdiv fofint n). Qed.
Print Assumptions T1_aggr_fcolumn_aggregations.

(* Column.Aggregate of fcolumn = the model's col_aggregate on a float column.  For "sum" and "avg" the model
   answers from its oracle table ft (results computed by Go); premises, only for these two names: the table holds,
   for the values of every group, the result of the float arithmetic the generated code is instantiated with.
   No premise for max, min, user functions, unknown names and other values. *)
Theorem T1_aggr_fcolumn_Aggregate (ft : float_table) (fzero : N) (fadd fdiv : N -> N -> N) (fofint : Z -> N)
  (d : list N) (gs : list (list nat)) (fn : aggfn) :
  (fn = GName gofn_sum -> oracle_agrees ft gofn_sum (f_sum_spec fzero fadd) d gs) ->
  (fn = GName gofn_avg -> oracle_agrees ft gofn_avg (f_avg_spec fzero fadd fdiv fofint) d gs) ->
  ga_fcolumn_Column_Aggregate m_new_error m_fn_cases_float FCol m_fnName fzero fadd fdiv Aggregate.f_max Aggregate.f_min
    fofint m_fn_text (ga_mk_fcolumn_Column d) (map ints gs) fn
  = m_col_Aggregate ft (FCol d) (map ints gs) fn.
Proof. exact (ga_fcolumn_Aggregate_eq ft fzero fadd fdiv fofint d gs fn). Qed.
Print Assumptions T1_aggr_fcolumn_Aggregate.
Example T1_aggr_fcolumn_Aggregate_example :
  (* a toy arithmetic on "bit patterns": + is N.add, 0 is 0; the oracle table holds the two group sums *)
  let ft := [(gofn_sum, [CFloat 1; CFloat 2], CFloat 3); (gofn_sum, [CFloat 5], CFloat 5)]%N in
  oracle_agrees ft gofn_sum (f_sum_spec 0%N N.add) [1; 2; 5]%N [[0%nat; 1%nat]; [2%nat]]
  /\ m_col_Aggregate ft (FCol [1; 2; 5]%N) (map ints [[0%nat; 1%nat]; [2%nat]]) (GName gofn_sum)
     = Ok (Some (FCol [3; 5]%N), None).
Proof.
  cbv zeta. split; [|vm_compute; reflexivity].
  intros g vals [H|[H|[]]] Hv; subst g; vm_compute in Hv; inversion Hv; subst vals; vm_compute; reflexivity.
Qed.

Theorem T1_aggr_bcolumn_majority (v : list bool) : ga_bcolumn_majority v = Ok (b_majority v).
Proof. exact (ga_bcolumn_majority_eq v). Qed.
Print Assumptions T1_aggr_bcolumn_majority.

Theorem T1_aggr_bcolumn_Aggregate (ft : float_table) (d : list bool) (gs : list (list nat)) (fn : aggfn) :
  ga_bcolumn_Column_Aggregate m_new_error m_fn_cases_bool BCol m_fnName m_fn_text (ga_mk_bcolumn_Column d) (map ints gs) fn
  = m_col_Aggregate ft (BCol d) (map ints gs) fn.
Proof. exact (ga_bcolumn_Aggregate_eq ft d gs fn). Qed.
Print Assumptions T1_aggr_bcolumn_Aggregate.

(* ================================================================== Subset, stringSlice, scolumn.New, composition == *)

(* ------------------------------------------------------------------ Column.Subset (closing the col_Subset boundary) *)
(* a fresh data array holding the values at the positions of the index, in index order; a position outside the
   column panics.  Each is the m_col_Subset that T1_aggr_Aggregate is instantiated with, on that column type. *)
Theorem T1_aggr_icolumn_Subset (d : list Z) (ix : list nat) :
  ga_icolumn_Column_Subset ICol (ga_mk_icolumn_Column d) (ints ix) = m_col_Subset (ICol d) (ints ix).
Proof. exact (ga_icolumn_Subset_eq d ix). Qed.
Print Assumptions T1_aggr_icolumn_Subset.

(* fz: the zero the fresh float array is made of (every element is overwritten) *)
Theorem T1_aggr_fcolumn_Subset (fz : N) (d : list N) (ix : list nat) :
  ga_fcolumn_Column_Subset FCol fz (ga_mk_fcolumn_Column d) (ints ix) = m_col_Subset (FCol d) (ints ix).
Proof. exact (ga_fcolumn_Subset_eq fz d ix). Qed.
Print Assumptions T1_aggr_fcolumn_Subset.

Theorem T1_aggr_bcolumn_Subset (d : list bool) (ix : list nat) :
  ga_bcolumn_Column_Subset BCol (ga_mk_bcolumn_Column d) (ints ix) = m_col_Subset (BCol d) (ints ix).
Proof. exact (ga_bcolumn_Subset_eq d ix). Qed.
Print Assumptions T1_aggr_bcolumn_Subset.

(* the enum subset shares the value table and does not copy the strict flag (abs_ecol reads the Go struct back) *)
Theorem T1_aggr_ecolumn_Subset (d : list N) (values : list bytes) (strict : bool) (ix : list nat) :
  ga_ecolumn_Column_Subset abs_ecol (emb_ecol d values strict) (ints ix) = m_col_Subset (ECol d values strict) (ints ix).
Proof. exact (ga_ecolumn_Subset_eq d values strict ix). Qed.
Print Assumptions T1_aggr_ecolumn_Subset.
Example T1_aggr_ecolumn_Subset_example :
  ga_ecolumn_Column_Subset abs_ecol (emb_ecol [1; 255; 0]%N [[97%N]; [98%N]] true) (ints [2%nat; 1%nat])
  = Ok (Some (ECol [0; 255]%N [[97%N]; [98%N]] false)).
Proof. vm_compute. reflexivity. Qed.

(* ------------------------------------------------------------------ stringSlice: the []*string a user function gets *)
(* scolumn: EVERY element is written — nil for a null row, the string otherwise — so the slice is exactly the cells
   of the model (premise: the representation rep_scol) *)
Theorem T1_aggr_scolumn_stringSlice (c : ga_scolumn_Column) (d : list (option bytes)) (g : list nat) :
  rep_scol c d -> ga_scolumn_Column_stringSlice c (ints g) = omap (idx d) g.
Proof. exact (ga_s_stringSlice_eq c d g). Qed.
Print Assumptions T1_aggr_scolumn_stringSlice.
Example T1_aggr_scolumn_stringSlice_example :
  let c := ga_mk_scolumn_Column [gf_strings_NewPointer 0 2 false; gf_strings_NewPointer 2 0 true] [97; 98]%N in
  rep_scol_check c [Some [97; 98]%N; None] = true
  /\ ga_scolumn_Column_stringSlice c (ints [1%nat; 0%nat; 1%nat]) = Ok [None; Some [97; 98]%N; None].
Proof. cbv zeta. split; vm_compute; reflexivity. Qed.

(* ecolumn: nil for the null rank, &c.values[v] otherwise (an undeclared rank panics): the cells agg_vals reads *)
Theorem T1_aggr_ecolumn_stringSlice (d : list N) (values : list bytes) (strict : bool) (g : list nat) :
  ga_ecolumn_Column_stringSlice (emb_ecol d values strict) (ints g)
  = omap (fun p => do r <- idx d p; enum_string values r) g.
Proof. exact (ga_e_stringSlice_eq d values strict g). Qed.
Print Assumptions T1_aggr_ecolumn_stringSlice.

(* ------------------------------------------------------------------ scolumn.New (the column of the results) *)
(* no premise: one pointer per string (running offset, length, null bit) over the concatenated bytes ... *)
Theorem T1_aggr_scolumn_New (strs : list (option bytes)) :
  ga_scolumn_New strs = Ok (ga_mk_scolumn_Column (layout strs 0) (bytes_of strs)).
Proof. exact (ga_scolumn_New_eq strs). Qed.
Print Assumptions T1_aggr_scolumn_New.

(* ... which represents strs.  Premise: the limits of pointer.go — all bytes together < 2^35, every string < 2^28
   (beyond them NewPointer packs colliding bit fields: pointer_len_limit_sharp in Proofs/BitsProofs.v) *)
Theorem T1_aggr_scolumn_New_rep (strs : list (option bytes)) :
  strs_small strs 0 -> rep_scol (ga_mk_scolumn_Column (layout strs 0) (bytes_of strs)) strs.
Proof. exact (rep_scol_New strs). Qed.
Print Assumptions T1_aggr_scolumn_New_rep.
Example T1_aggr_scolumn_New_rep_example : strs_small [Some [97; 98]%N; None; Some []] 0.
Proof. split; [vm_compute; reflexivity|repeat constructor]. Qed.

(* ------------------------------------------------------------------ composition *)
(* Grouper.Aggregate for ANY column level colS / colA that agrees with the model on the columns of the grouper *)
Theorem T1_aggr_Aggregate_any_column_level (ft : float_table) (g : grouper)
  (colS : coldata -> list Z -> outcome (option coldata))
  (colA : coldata -> list (list Z) -> aggfn -> outcome (option coldata * option unit)) (aggs : list aggregation) :
  (forall c firsts, In c (map snd (gcols g)) -> colS c (ints firsts) = omap1 Some (col_subset c firsts)) ->
  Z.of_nat (length (gindices g)) < 4294967296 ->
  (forall c a, In c (map snd (gcols g)) -> In a aggs -> is_count (agfn a) = false ->
     colA c (map ints (gindices g)) (agfn a) = agg_pair (col_aggregate ft c (gindices g) (agfn a))) ->
  ga_Grouper_Aggregate m_new_error m_propagate m_unknownCol m_fn_eq_string colS colA
    m_icolumn_New (emb_grouper g) (map emb_agg aggs)
  = omap1 emb_frame (aggregate ft g aggs).
Proof. exact (fun HS Hn HA => ga_Grouper_Aggregate_gen ft g colS colA HS aggs Hn HA). Qed.
Print Assumptions T1_aggr_Aggregate_any_column_level.

(* ... instantiated with the TRANSLATED column functions (tr_col_Subset / tr_col_Aggregate dispatch on the column
   type to Column.Subset of icolumn / fcolumn / bcolumn / ecolumn and Column.Aggregate of icolumn / fcolumn /
   bcolumn), for groupers over columns of any types.  What remains a parameter or the model's function:
   the float arithmetic fzero / fadd / fdiv / fofint (any; math.Max / math.Min are the model's f_max / f_min) with
   the premise float_oracle_ok (the oracle table holds its results for "sum" / "avg" on the float columns), Subset
   and Aggregate of string columns and Aggregate of enum columns (the model's functions), error values (tt). *)
Theorem T1_aggr_Aggregate_composed (ft : float_table) (fzero : N) (fadd fdiv : N -> N -> N) (fofint : Z -> N)
  (g : grouper) (aggs : list aggregation) :
  Z.of_nat (length (gindices g)) < 4294967296 ->
  float_oracle_ok ft fzero fadd fdiv fofint g aggs ->
  ga_Grouper_Aggregate m_new_error m_propagate m_unknownCol m_fn_eq_string (tr_col_Subset fzero)
    (tr_col_Aggregate ft fzero fadd fdiv fofint) m_icolumn_New (emb_grouper g) (map emb_agg aggs)
  = omap1 emb_frame (aggregate ft g aggs).
Proof. exact (ga_Grouper_Aggregate_composed ft fzero fadd fdiv fofint g aggs). Qed.
Print Assumptions T1_aggr_Aggregate_composed.
Example T1_aggr_Aggregate_composed_example :
  let g := mkGrouper [([1%N], ICol [5; 6; 7]); ([2%N], ECol [0; 0; 1]%N [[97%N]; [98%N]] true); ([3%N], BCol [true; true; false])]
             [[2%N]] [[0%nat; 1%nat]; [2%nat]] false in
  let aggs := [mkAgg (GName (bs 3 0x6d6178)) [1%N] []; mkAgg (GName (bs 8 0x6d616a6f72697479)) [3%N] []] in
  Z.of_nat (length (gindices g)) < 4294967296 /\ float_oracle_ok [] 0%N N.add N.add (fun _ => 0%N) g aggs
  /\ ga_Grouper_Aggregate m_new_error m_propagate m_unknownCol m_fn_eq_string (tr_col_Subset 0%N)
       (tr_col_Aggregate [] 0%N N.add N.add (fun _ => 0%N)) m_icolumn_New (emb_grouper g) (map emb_agg aggs)
     = Ok (emb_frame (mkFrame [([2%N], ECol [0; 1]%N [[97%N]; [98%N]] false); ([1%N], ICol [6; 7]); ([3%N], BCol [true; false])]
                        [0%nat; 1%nat] false)).
Proof.
  cbv zeta. split; [reflexivity|]. split; [|vm_compute; reflexivity].
  intros d a Hd Ha. cbn in Hd. destruct Hd as [H|[H|[H|[]]]]; discriminate.
Qed.

(* ================================================================== wave 11: string / enum Aggregate, string Subset == *)

(* Reading aid.  abs_scol c reads an scolumn.Column struct back as a model column: one optional string per pointer,
   what bytesAt answers at that row (it is the scolumn_AsColumn these theorems instantiate the generated code
   with, as abs_ecol is for the enum column).  Under the representation it is the represented column: *)
Theorem T1_aggr_scolumn_abs_rep (c : ga_scolumn_Column) (d : list (option bytes)) :
  rep_scol c d -> length (ga_scolumn_Column_pointers c) = length d -> abs_scol c = SCol d.
Proof. exact (abs_scol_rep c d). Qed.
Print Assumptions T1_aggr_scolumn_abs_rep.
Example T1_aggr_scolumn_abs_rep_example :
  let c := ga_mk_scolumn_Column [gf_strings_NewPointer 0 2 false; gf_strings_NewPointer 2 5 true] [97; 98]%N in
  rep_scol c [Some [97; 98]%N; None] /\ length (ga_scolumn_Column_pointers c) = length [Some [97; 98]%N; None].
Proof. cbv zeta. split; [apply rep_scol_check_sound; vm_compute; reflexivity|reflexivity]. Qed.

(* ------------------------------------------------------------------ (1) Column.Aggregate of scolumn and ecolumn *)
(* The function value is the model's aggfn: a string is ga_FnString (error: no built-in is defined for strings),
   GUser TString tbl is a func([]*string) *string given as the recorded table tbl (m_fn_cases_string), any other
   value — also a user function of another type — is the default branch (error).  Premises: the representation
   rep_scol of the receiver (string column only) and agg_result_small: IF the model's aggregation answers the
   strings r THEN r is within the limits of pointer.go (all bytes < 2^35, each string < 2^28) — scolumn.New packs
   the results into pointers; beyond the limits the bit fields collide.  No premise on the groups: a position
   outside the column panics on both sides. *)
Theorem T1_aggr_scolumn_Aggregate (ft : float_table) (c : ga_scolumn_Column) (d : list (option bytes))
  (gs : list (list nat)) (fn : aggfn) :
  rep_scol c d -> agg_result_small ft (SCol d) gs fn ->
  ga_scolumn_Column_Aggregate m_new_error m_fn_cases_string m_fn_text abs_scol c (map ints gs) fn
  = m_col_Aggregate ft (SCol d) (map ints gs) fn.
Proof. exact (ga_scolumn_Aggregate_eq ft c d gs fn). Qed.
Print Assumptions T1_aggr_scolumn_Aggregate.
Example T1_aggr_scolumn_Aggregate_example :
  (* the null pointer of row 1 carries a stale length field 5; the second group is one null row, so the function
     must see [nil] there — and not what an earlier group left in a shared buffer *)
  let c := ga_mk_scolumn_Column [gf_strings_NewPointer 0 2 false; gf_strings_NewPointer 2 5 true;
                                 gf_strings_NewPointer 2 1 false] [97; 98; 99]%N in
  let d := [Some [97; 98]%N; None; Some [99%N]] in
  let fn := GUser TString [([CStr (Some [97; 98]%N); CStr (Some [99%N])], CStr (Some [120%N])); ([CStr None], CStr None);
                           ([CStr (Some [97; 98]%N)], CStr (Some [121%N]))] in
  let gs := [[0%nat; 2%nat]; [1%nat]] in
  rep_scol c d /\ agg_result_small [] (SCol d) gs fn
  /\ ga_scolumn_Column_Aggregate m_new_error m_fn_cases_string m_fn_text abs_scol c (map ints gs) fn
     = Ok (Some (SCol [Some [120%N]; None]), None).
Proof.
  cbv zeta. split; [apply rep_scol_check_sound; vm_compute; reflexivity|]. split; [|vm_compute; reflexivity].
  intros r H. vm_compute in H. inversion H; subst r. apply strs_small_b_sound. vm_compute. reflexivity.
Qed.

(* the enum column hands the function &c.values[v] (nil for the null rank, a panic for an undeclared rank) and
   answers a STRING column; strict is not looked at *)
Theorem T1_aggr_ecolumn_Aggregate (ft : float_table) (d : list N) (values : list bytes) (strict : bool)
  (gs : list (list nat)) (fn : aggfn) :
  agg_result_small ft (ECol d values strict) gs fn ->
  ga_ecolumn_Column_Aggregate m_new_error m_fn_cases_string m_fn_text abs_scol (emb_ecol d values strict) (map ints gs) fn
  = m_col_Aggregate ft (ECol d values strict) (map ints gs) fn.
Proof. exact (ga_ecolumn_Aggregate_eq ft d values strict gs fn). Qed.
Print Assumptions T1_aggr_ecolumn_Aggregate.
Example T1_aggr_ecolumn_Aggregate_example :
  let fn := GUser TString [([CStr (Some [98%N]); CStr None], CStr (Some [120%N])); ([CStr (Some [97%N])], CStr None)] in
  let gs := [[0%nat; 1%nat]; [2%nat]] in
  agg_result_small [] (ECol [1; 255; 0]%N [[97%N]; [98%N]] true) gs fn
  /\ ga_ecolumn_Column_Aggregate m_new_error m_fn_cases_string m_fn_text abs_scol
       (emb_ecol [1; 255; 0]%N [[97%N]; [98%N]] true) (map ints gs) fn
     = Ok (Some (SCol [Some [120%N]; None]), None).
Proof.
  cbv zeta. split; [|vm_compute; reflexivity].
  intros r H. vm_compute in H. inversion H; subst r. apply strs_small_b_sound. vm_compute. reflexivity.
Qed.
(* a built-in name and a function of another type are errors on both sides (no premise is needed: the premise is
   vacuous when the model answers an error) *)
Example T1_aggr_string_Aggregate_errors :
  let c := ga_mk_scolumn_Column [gf_strings_NewPointer 0 1 false] [97%N] in
  ga_scolumn_Column_Aggregate m_new_error m_fn_cases_string m_fn_text abs_scol c (map ints [[0%nat]]) (GName (bs 3 0x6d6178))
  = Ok (None, Some tt)
  /\ ga_ecolumn_Column_Aggregate m_new_error m_fn_cases_string m_fn_text abs_scol (emb_ecol [0%N] [[97%N]] false)
       (map ints [[0%nat]]) (GUser TInt []) = Ok (None, Some tt).
Proof. cbv zeta. split; vm_compute; reflexivity. Qed.

(* ------------------------------------------------------------------ (2) Column.subset / Column.Subset of scolumn *)
(* The struct subset builds, for every index: a panic when a position is outside the column (the model panics
   too), else sub_scol c ix r — the bytes of the strings r of the subset, and per row a pointer (running offset,
   length, null bit) EXCEPT that the pointer of a null row keeps the length field of the source pointer
   (lens c ix): it is NOT layout r 0, the struct scolumn.New would build.  Premise: rep_scol only. *)
Theorem T1_aggr_scolumn_subset_struct (c : ga_scolumn_Column) (d : list (option bytes)) (ix : list nat) :
  rep_scol c d ->
  ga_scolumn_Column_subset c (ints ix) = omap1 (sub_scol c ix) (omap (idx d) ix).
Proof. exact (ga_scolumn_subset_eq c d ix). Qed.
Print Assumptions T1_aggr_scolumn_subset_struct.

(* THE INVARIANT: a layout whose null pointers carry ANY 28 bit length field represents its strings (within the
   limits of pointer.go); the length fields of source pointers are 28 bit numbers whatever the pointer is *)
Theorem T1_aggr_scolumn_layoutL_rep (l : list (option bytes)) (ls : list Z) :
  strs_small l 0 -> lens_ok ls -> rep_scol (ga_mk_scolumn_Column (layoutL ls l 0) (bytes_of l)) l.
Proof. exact (rep_scol_layoutL l ls). Qed.
Print Assumptions T1_aggr_scolumn_layoutL_rep.
Example T1_aggr_scolumn_layoutL_rep_example :
  strs_small [None; Some [97; 98]%N; None] 0 /\ lens_ok [5; 0; 268435455].
Proof. split; [apply strs_small_b_sound; vm_compute; reflexivity|]. repeat constructor; lia. Qed.

(* the generated subset REPRESENTS the model's col_subset of the column: a panic exactly when the model panics, else
   a struct c' with rep_scol c' r and one pointer per row.  Premise besides rep_scol: subset_small — IF the index
   is inside the column THEN the strings of the subset are within the limits of pointer.go (an index may repeat
   rows, so the subset can be larger than the column) *)
Theorem T1_aggr_scolumn_Subset (c : ga_scolumn_Column) (d : list (option bytes)) (ix : list nat) :
  rep_scol c d -> subset_small d ix ->
  match col_subset (SCol d) ix with
  | Ok (SCol r) => exists c', ga_scolumn_Column_subset c (ints ix) = Ok c' /\ rep_scol c' r
                              /\ length (ga_scolumn_Column_pointers c') = length r
  | Ok _ => False
  | Fail => False
  | Panic => ga_scolumn_Column_subset c (ints ix) = Panic
  end.
Proof. exact (ga_scolumn_subset_rep c d ix). Qed.
Print Assumptions T1_aggr_scolumn_Subset.

(* ... and read back through abs_scol it is the m_col_Subset the frame level is instantiated with *)
Theorem T1_aggr_scolumn_Subset_abs (c : ga_scolumn_Column) (d : list (option bytes)) (ix : list nat) :
  rep_scol c d -> subset_small d ix ->
  ga_scolumn_Column_Subset abs_scol c (ints ix) = m_col_Subset (SCol d) (ints ix).
Proof. exact (ga_scolumn_Subset_eq c d ix). Qed.
Print Assumptions T1_aggr_scolumn_Subset_abs.
Example T1_aggr_scolumn_Subset_example :
  (* row 1 is null with the stale length field 5: the subset keeps the 5 in both copies of that row *)
  let c := ga_mk_scolumn_Column [gf_strings_NewPointer 0 2 false; gf_strings_NewPointer 2 5 true] [97; 98]%N in
  let d := [Some [97; 98]%N; None] in
  let ix := [1%nat; 0%nat; 1%nat] in
  rep_scol c d /\ subset_small d ix
  /\ ga_scolumn_Column_subset c (ints ix)
     = Ok (ga_mk_scolumn_Column [gf_strings_NewPointer 0 5 true; gf_strings_NewPointer 0 2 false;
                                 gf_strings_NewPointer 2 5 true] [97; 98]%N)
  /\ ga_scolumn_Column_Subset abs_scol c (ints ix) = Ok (Some (SCol [None; Some [97; 98]%N; None]))
  /\ ga_scolumn_Column_subset c (ints [2%nat]) = Panic.
Proof.
  cbv zeta. split; [apply rep_scol_check_sound; vm_compute; reflexivity|].
  split; [|repeat split; vm_compute; reflexivity].
  intros r H. vm_compute in H. inversion H; subst r. apply strs_small_b_sound. vm_compute. reflexivity.
Qed.

(* ------------------------------------------------------------------ (3) the composition over ALL five column types *)
(* Grouper.Aggregate with col.Subset asked only at the first elements of the groups (what the code does) *)
Theorem T1_aggr_Aggregate_any_column_level_at (ft : float_table) (g : grouper)
  (colS : coldata -> list Z -> outcome (option coldata))
  (colA : coldata -> list (list Z) -> aggfn -> outcome (option coldata * option unit)) (aggs : list aggregation) :
  (forall firsts c, group_firsts g = Ok firsts -> In c (map snd (gcols g)) ->
     colS c (ints firsts) = omap1 Some (col_subset c firsts)) ->
  Z.of_nat (length (gindices g)) < 4294967296 ->
  (forall c a, In c (map snd (gcols g)) -> In a aggs -> is_count (agfn a) = false ->
     colA c (map ints (gindices g)) (agfn a) = agg_pair (col_aggregate ft c (gindices g) (agfn a))) ->
  ga_Grouper_Aggregate m_new_error m_propagate m_unknownCol m_fn_eq_string colS colA
    m_icolumn_New (emb_grouper g) (map emb_agg aggs)
  = omap1 emb_frame (aggregate ft g aggs).
Proof. exact (ga_Grouper_Aggregate_gen_at ft g colS colA aggs). Qed.
Print Assumptions T1_aggr_Aggregate_any_column_level_at.

(* ... instantiated with the TRANSLATED Column.Subset and Column.Aggregate of all five column packages
   (tr_col_Subset_all / tr_col_Aggregate_all), for groupers over columns of any types.  What remains open:
   srep — which struct holds each string column of the grouper (ANY function with srep_ok: the struct represents
   the column; new_scol, the struct of scolumn.New, is one); the float arithmetic fzero / fadd / fdiv / fofint
   (any, with float_oracle_ok as before; math.Max / math.Min are the model's); str_limits_ok — the limits of
   pointer.go for the key rows of the string columns and for the strings the aggregation functions return; the
   user functions are recorded tables; error values are tt; the hash table that built g.indices is tied in
   T1_aggr_GroupBy_table / T1Grouper. *)
Theorem T1_aggr_Aggregate_composed_all (srep : list (option bytes) -> ga_scolumn_Column) (ft : float_table)
  (fzero : N) (fadd fdiv : N -> N -> N) (fofint : Z -> N) (g : grouper) (aggs : list aggregation) :
  Z.of_nat (length (gindices g)) < 4294967296 ->
  float_oracle_ok ft fzero fadd fdiv fofint g aggs ->
  srep_ok srep g -> str_limits_ok ft g aggs ->
  ga_Grouper_Aggregate m_new_error m_propagate m_unknownCol m_fn_eq_string (tr_col_Subset_all srep fzero)
    (tr_col_Aggregate_all srep ft fzero fadd fdiv fofint) m_icolumn_New (emb_grouper g) (map emb_agg aggs)
  = omap1 emb_frame (aggregate ft g aggs).
Proof. exact (ga_Grouper_Aggregate_composed_all srep ft fzero fadd fdiv fofint g aggs). Qed.
Print Assumptions T1_aggr_Aggregate_composed_all.
Example T1_aggr_Aggregate_composed_all_example :
  (* grouped by the string column (one group is the null key); a user function on the enum column and one on the
     string column itself *)
  let sd := [Some [97; 98]%N; Some [97; 98]%N; None] in
  let g := mkGrouper [([1%N], SCol sd); ([2%N], ECol [0; 1; 255]%N [[97%N]; [98%N]] true); ([3%N], ICol [5; 6; 7])]
             [[1%N]] [[0%nat; 1%nat]; [2%nat]] false in
  let fe := GUser TString [([CStr (Some [97%N]); CStr (Some [98%N])], CStr (Some [120%N])); ([CStr None], CStr None)] in
  let fs := GUser TString [([CStr (Some [97; 98]%N); CStr (Some [97; 98]%N)], CStr None); ([CStr None], CStr (Some [122%N]))] in
  let aggs := [mkAgg fe [2%N] []; mkAgg fs [1%N] [9%N]; mkAgg (GName (bs 3 0x73756d)) [3%N] []] in
  Z.of_nat (length (gindices g)) < 4294967296 /\ float_oracle_ok [] 0%N N.add N.add (fun _ => 0%N) g aggs
  /\ srep_ok new_scol g /\ str_limits_ok [] g aggs
  /\ ga_Grouper_Aggregate m_new_error m_propagate m_unknownCol m_fn_eq_string (tr_col_Subset_all new_scol 0%N)
       (tr_col_Aggregate_all new_scol [] 0%N N.add N.add (fun _ => 0%N)) m_icolumn_New (emb_grouper g) (map emb_agg aggs)
     = Ok (emb_frame (mkFrame [([1%N], SCol [Some [97; 98]%N; None]); ([2%N], SCol [Some [120%N]; None]);
                               ([9%N], SCol [None; Some [122%N]]); ([3%N], ICol [11; 7])]
                        [0%nat; 1%nat] false)).
Proof.
  cbv zeta. split; [reflexivity|]. split.
  { intros d a Hd Ha. cbn in Hd. destruct Hd as [H|[H|[H|[]]]]; discriminate. }
  split.
  { intros d Hd. cbn in Hd. destruct Hd as [H|[H|[H|[]]]]; try discriminate. inversion H; subst d.
    apply rep_scol_check_sound. vm_compute. reflexivity. }
  split; [|vm_compute; reflexivity].
  split.
  - intros d firsts Hd Hf. cbn in Hd. destruct Hd as [H|[H|[H|[]]]]; try discriminate. inversion H; subst d.
    vm_compute in Hf. inversion Hf; subst firsts.
    intros r Hr. vm_compute in Hr. inversion Hr; subst r. apply strs_small_b_sound. vm_compute. reflexivity.
  - intros c a Hc Ha r Hr. cbn in Hc, Ha.
    destruct Hc as [H|[H|[H|[]]]]; subst c; destruct Ha as [H|[H|[H|[]]]]; subst a;
      vm_compute in Hr; try discriminate; inversion Hr; subst r; apply strs_small_b_sound; vm_compute; reflexivity.
Qed.
