(* Property C01 — frames are persistent: no operation alters any existing frame, although frames
   derived from one another share column storage and row-index storage.
   Level: heap-level model (Model/Heap.v, Model/HeapOps.v), tied to the code by the engine "share"
   (sharing structure after every step of random histories) and by re-digesting every earlier member
   after every step in Go.  Statements only; the proofs are in Proofs/HeapProofs.v, HeapOpsProofs.v,
   HeapAggregate.v (Aggregate, all operations, negative examples) and HeapRefine.v (refinement to L0). *)
From QF Require Import Base.Prelude Model.Heap Model.HeapOps Model.Conc
     Proofs.HeapProofs Proofs.HeapOpsProofs Proofs.ConcProofs Proofs.HeapAggregate Proofs.HeapRefine.
From QF Require Model.Frame Model.Ops Model.Filter Model.Sort.

(* 1. Soundness of the instrumentation: a run accepted by run_tr (writes only to locations the program
      allocated itself; reads only pre-existing or own locations) is the ordinary run and leaves every
      pre-existing location untouched. *)
Theorem C01_run_tr_sound env A t (p : prog A) n s a n' s' own :
  run_tr env t p n s = Some (a, n', s', own) ->
  run env t p n s = (a, n', s') /\
  (forall l, in_dom s l = true -> lookup s' l = lookup s l).
Proof. exact (run_tr_sound env t p n s a n' s' own). Qed.
Print Assumptions C01_run_tr_sound.

(* 2. Per operation: from valid references the abstract safety logic accepts the L1 program (for every
      context pre/own, every argument, every clause tree, every sorter script, every callback) ... *)
Theorem C01_ops_safe op : lop_proved op = true -> lop_safe op.
Proof. exact (lop_proved_safe op). Qed.
Print Assumptions C01_ops_safe.

(* ... hence: for all closed stores and valid references the instrumented run does not fault. *)
Theorem C01_op_solo_safe env op recv other t n st :
  lop_safe op -> closed_store st -> store_fresh t n st ->
  mem_ok (in_dom st) recv [] -> mem_ok (in_dom st) other [] ->
  run_tr env t (lop_prog op recv other) n st <> None.
Proof. exact (op_solo_safe env op recv other t n st). Qed.
Print Assumptions C01_op_solo_safe.

(* 3. Histories: for any list of operations, each applied to any earlier members of the growing family,
      every earlier member observes the same (Len, names, types, every cell through the index, Err)
      after every later step.  [tobs] only names the allocations the (read-only) observer does not make. *)
Theorem C01_history env h t st fam tobs :
  hist_inv t st fam -> Forall (fun x => lop_safe (snd x)) h -> t + length h <= tobs ->
  forall j k sj fj sk fk, j <= k ->
    nth_error (history_states env h t st fam) j = Some (sj, fj) ->
    nth_error (history_states env h t st fam) k = Some (sk, fk) ->
    forall m, In m fj -> observe env tobs sk m = observe env tobs sj m.
Proof. exact (history_persistent env h t st fam tobs). Qed.
Print Assumptions C01_history.

(* The same for histories made of the operations whose safety is proved (everything except Aggregate). *)
Theorem C01_history_partial env h t st fam tobs :
  hist_inv t st fam -> Forall (fun x => lop_proved (snd x) = true) h -> t + length h <= tobs ->
  forall j k sj fj sk fk, j <= k ->
    nth_error (history_states env h t st fam) j = Some (sj, fj) ->
    nth_error (history_states env h t st fam) k = Some (sk, fk) ->
    forall m, In m fj -> observe env tobs sk m = observe env tobs sj m.
Proof.
  exact (fun Hi Hs => history_persistent env h t st fam tobs Hi
           (Forall_impl _ (fun x Hx => lop_proved_safe (snd x) Hx) Hs)).
Qed.
Print Assumptions C01_history_partial.

(* The full statement: every operation of the quantifier, including Grouper.Aggregate (key-column
   Subset, per-group aggregation with the reusable buffer of subsetWithBuf, result frame construction).
   Proved below as C01_full. *)
Definition C01_full_statement : Prop :=
  forall env h t st fam tobs,
    hist_inv t st fam -> t + length h <= tobs ->
    forall j k sj fj sk fk, j <= k ->
      nth_error (history_states env h t st fam) j = Some (sj, fj) ->
      nth_error (history_states env h t st fam) k = Some (sk, fk) ->
      forall m, In m fj -> observe env tobs sk m = observe env tobs sj m.

(* 4. (wave 2) Aggregate is safe, hence EVERY operation of the quantifier is; the full statement. *)
Theorem C01_aggregate_safe aggs : lop_safe (LAggregate aggs).
Proof. exact (safe_aggregate aggs). Qed.
Print Assumptions C01_aggregate_safe.

Theorem C01_all_ops_safe op : lop_safe op.
Proof. exact (lop_all_safe op). Qed.
Print Assumptions C01_all_ops_safe.

Theorem C01_op_solo_safe_all env op recv other t n st :
  closed_store st -> store_fresh t n st ->
  mem_ok (in_dom st) recv [] -> mem_ok (in_dom st) other [] ->
  run_tr env t (lop_prog op recv other) n st <> None.
Proof. exact (op_solo_safe_all env op recv other t n st). Qed.
Print Assumptions C01_op_solo_safe_all.

Theorem C01_full : C01_full_statement.
Proof. exact history_persistent_all. Qed.
Print Assumptions C01_full.

(* a grouper (made by GroupBy() on the example frame, so that its group shares the frame's index)
   satisfying the premises of C01_op_solo_safe_all for Aggregate *)
Example C01_aggregate_premises_hold :
  closed_store AggExamples.st_g0 /\ store_fresh 2 0 AggExamples.st_g0 /\
  mem_ok (in_dom AggExamples.st_g0) (MemG AggExamples.g0) [].
Proof. exact AggExamples.aggregate_premises. Qed.

(* 5. (wave 2) Negative examples as theorems.  A setColumn that does not copy the header slice is
      rejected by the instrumented run on EVERY store in which the receiver's header slice has spare
      capacity (new column: append in place) or the column exists (overwrite in place). *)
Theorem C01_set_column_nocopy_append_rejected env t n st name ty parts qf :
  s_len (q_cols qf) < s_cap (q_cols qf) ->
  fst (fst (run env t (by_name qf name) n st)) = None ->
  run_tr env t (set_column_nocopy true name ty parts qf) n st = None.
Proof. exact (set_column_nocopy_append_rejected env t n st name ty parts qf). Qed.
Print Assumptions C01_set_column_nocopy_append_rejected.

Theorem C01_set_column_nocopy_overwrite_rejected env t n st name ty parts qf c :
  fst (fst (run env t (by_name qf name) n st)) = Some c ->
  c_pos c < s_len (q_cols qf) ->
  run_tr env t (set_column_nocopy true name ty parts qf) n st = None.
Proof. exact (set_column_nocopy_overwrite_rejected env t n st name ty parts qf c). Qed.
Print Assumptions C01_set_column_nocopy_overwrite_rejected.

Example C01_nocopy_premises_hold :
  s_len (q_cols AggExamples.qf1) < s_cap (q_cols AggExamples.qf1) /\
  fst (fst (run HeapExamples.env0 1 (by_name AggExamples.qf1 AggExamples.nB) 0 AggExamples.st1)) = None /\
  (exists r, run_tr HeapExamples.env0 1 (set_column true AggExamples.nB 0 [mkSlice (0, 3) 0 4 4] AggExamples.qf1) 0 AggExamples.st1 = Some r).
Proof. exact AggExamples.nocopy_premises. Qed.
Example C01_nocopy_overwrite_premises_hold :
  fst (fst (run HeapExamples.env0 1 (by_name AggExamples.qf1 HeapExamples.nA) 0 AggExamples.st1)) = Some HeapExamples.cA /\
  c_pos HeapExamples.cA < s_len (q_cols AggExamples.qf1) /\
  (exists r, run_tr HeapExamples.env0 1 (set_column true HeapExamples.nA 0 [mkSlice (0, 3) 0 4 4] AggExamples.qf1) 0 AggExamples.st1 = Some r).
Proof. exact AggExamples.nocopy_overwrite_premises. Qed.
(* the damage: with the wrong setColumn, deriving a second frame from the receiver changes the column
   names the first derived frame shows; with the real one it does not *)
Example C01_nocopy_damage :
  AggExamples.bad_pair = ([HeapExamples.nA; AggExamples.nB], [HeapExamples.nA; AggExamples.nC]) /\
  AggExamples.good_pair = ([HeapExamples.nA; AggExamples.nB], [HeapExamples.nA; AggExamples.nB]).
Proof. exact AggExamples.nocopy_damage. Qed.

(* An Aggregate that sorts the group's index in place is rejected when the group index is shared with
   the receiver (GroupBy with no columns); the real Aggregate is accepted; without the instrumentation
   the wrong program reorders the receiver's rows. *)
Example C01_group_shares_index :
  fst (fst (run HeapExamples.env0 9 (read_slices (g_indices AggExamples.g0)) 0 AggExamples.st_g0)) = [q_idx HeapExamples.qf0].
Proof. exact AggExamples.group_shares_index. Qed.
Example C01_wrong_aggregate_rejected :
  run_tr HeapExamples.env0 2 (op_aggregate_sorting AggExamples.less_ix insertion_script AggExamples.aggs0 AggExamples.g0) 0 AggExamples.st_g0 = None /\
  (exists r, run_tr HeapExamples.env0 2 (op_aggregate AggExamples.aggs0 AggExamples.g0) 0 AggExamples.st_g0 = Some r) /\
  observe HeapExamples.env0 100 (snd (run HeapExamples.env0 2 (op_aggregate_sorting AggExamples.less_ix insertion_script AggExamples.aggs0 AggExamples.g0) 0 AggExamples.st_g0)) (MemF HeapExamples.qf0)
    <> observe HeapExamples.env0 100 AggExamples.st_g0 (MemF HeapExamples.qf0) /\
  observe HeapExamples.env0 100 (snd (run HeapExamples.env0 2 (op_aggregate AggExamples.aggs0 AggExamples.g0) 0 AggExamples.st_g0)) (MemF HeapExamples.qf0)
    = observe HeapExamples.env0 100 AggExamples.st_g0 (MemF HeapExamples.qf0).
Proof. exact AggExamples.wrong_aggregate_rejected. Qed.
Print Assumptions C01_wrong_aggregate_rejected.

(* 6. (wave 2) REFINEMENT of the heap-level programs to the L0 model (Model/Frame.v, Ops.v, Filter.v, Sort.v).
      abs1 dec st qf reads a frame reference in a store as an L0 frame (header slice -> columns in order,
      index slice -> row index; [dec] decodes the storage arrays of a column - the theorems hold for EVERY
      decoder, dec_std is the one of the encoding wrap_result uses).  ref_ok: the slices lie inside their
      arrays and the by-name map is the L0 reading "last column with that name, at that position".
      keeps st st': every location of st has the same content in st' (what C01_run_tr_sound gives).
      Each theorem: from a well-formed reference whose abstraction is f, the heap program returns a
      well-formed reference whose abstraction is the L0 operation applied to f (so every L0 theorem about
      Ops.slice / Filter.index_filter / Ops.set_column / Ops.copy / Ops.select / Ops.drop / or_merge /
      not_merge is a theorem about what the heap program returns), and the old store is kept. *)
Theorem C01_abs1_stable dec st st' qf :
  keeps st st' -> ref_ok dec st qf -> ref_ok dec st' qf /\ abs1 dec st' qf = abs1 dec st qf.
Proof. exact (fun Hk Ho => conj (ref_ok_keeps dec st st' qf Hk Ho) (abs1_keeps dec st st' qf Hk Ho)). Qed.
Print Assumptions C01_abs1_stable.

(* ref_ok has an executable, decoder-independent sufficient condition (Model/HeapOps.v ref_ok_b: slices
   inside their arrays, distinct map keys, map entry = last header column with the name and pos = its
   position), so that the premise can be evaluated on every member of a replayed history. *)
Theorem C01_ref_ok_b_sound dec st qf : ref_ok_b st qf = true -> ref_ok dec st qf.
Proof. exact (ref_ok_b_sound dec st qf). Qed.
Print Assumptions C01_ref_ok_b_sound.
Example C01_ref_ok_b_holds :
  ref_ok_b HeapExamples.st0 HeapExamples.qf0 = true /\
  match nth_error HeapExamples.states 7 with
  | Some (st, fam) => forallb (fun m => match m with MemF q => ref_ok_b st q | MemG _ => true end) fam
  | None => false
  end = true.
Proof. exact (conj RefineExamples.ref_ok_b_example RefineExamples.ref_ok_b_history). Qed.

(* The frame Grouper.Aggregate returns is a well-formed reference: every column of its result records the
   position it has in the NEW header.  (An aggregated column used to keep the position of its source column in the
   grouped frame; the by-name map of the result then pointed outside the new header or at another column.)
   Concrete instance (Proofs/HeapRefine.v AggregateRefExamples): columns A, B; GroupBy() without key columns;
   Aggregate(fn over B - position 1 -, as C): the result has the one column C, recorded at position 0 in header
   and map, and satisfies ref_ok for every decoder. *)
Example C01_aggregate_positions :
  ref_ok_b AggregateRefExamples.st2 AggregateRefExamples.qf2 = true /\ c_pos AggregateRefExamples.cB2 = 1 /\
  match fst (fst AggregateRefExamples.r2) with
  | Ok q => ref_ok_b (snd AggregateRefExamples.r2) q = true
            /\ map (fun c => (c_name c, c_pos c)) (hdr_of (snd AggregateRefExamples.r2) (q_cols q)) = [(AggExamples.nC, 0)]
            /\ map (fun e => (fst e, c_pos (snd e))) (map_of (snd AggregateRefExamples.r2) (q_map q)) = [(AggExamples.nC, 0)]
  | _ => False
  end.
Proof. exact AggregateRefExamples.aggregate_positions. Qed.
Theorem C01_aggregate_result_ref_ok dec :
  match fst (fst AggregateRefExamples.r2) with Ok q => ref_ok dec (snd AggregateRefExamples.r2) q | _ => False end.
Proof. exact (AggregateRefExamples.aggregate_result_ref_ok dec). Qed.
Print Assumptions C01_aggregate_result_ref_ok.

Theorem C01_refines_slice dec st qf f a b :
  ref_ok dec st qf -> abs1 dec st qf = Some f ->
  exists qf', op_slice a b qf = Ok qf' /\ ref_ok dec st qf' /\ abs1 dec st qf' = Some (Ops.slice f a b).
Proof. exact (refines_slice dec st qf f a b). Qed.
Print Assumptions C01_refines_slice.

(* Sort: the index is copied and the copy permuted by the sorter script; read at L0 the new index is the
   same script over Sort.less / Sort.swap (script_run).  lt is any L0 reading of Sorter.Less that agrees with
   [less] on the cells of the sort columns; the index entries are non-negative (uint32 in Go). *)
Theorem C01_refines_sort env dec t n st qf f names less script lt cols :
  ref_ok dec st qf -> abs1 dec st qf = Some f -> store_fresh t n st ->
  q_err qf = false -> names <> [] ->
  fst (fst (run env t (lookup_cols (q_map qf) names) n st)) = Ok cols ->
  nonneg (seg_of st (q_idx qf)) ->
  (forall a b ca cb, cells_val st cols (Z.of_nat a) = Ok ca -> cells_val st cols (Z.of_nat b) = Ok cb ->
                     less (Z.of_nat a) (Z.of_nat b) ca cb = lt a b) ->
  forall qf' n' st', run env t (op_sort names less script qf) n st = (Ok qf', n', st') ->
    keeps st st' /\ store_fresh t n' st' /\ ref_ok dec st' qf' /\
    exists ids', script_run lt (script (length (Frame.ix f))) (Frame.ix f) = Ok ids' /\
                 abs1 dec st' qf' = Some (Frame.with_ix f ids').
Proof. exact (refines_sort env dec t n st qf f names less script lt cols). Qed.
Print Assumptions C01_refines_sort.

(* ... conversely a heap-level Sort that panics does so only because the SCRIPT leaves the index (then its
   L0 reading panics too) - never because of the copy or of Less - when the rows of the index are rows
   of the sort columns; Fail is impossible. *)
Theorem C01_refines_sort_panic env dec t n st qf f names less script lt cols :
  ref_ok dec st qf -> abs1 dec st qf = Some f -> store_fresh t n st ->
  q_err qf = false -> names <> [] ->
  fst (fst (run env t (lookup_cols (q_map qf) names) n st)) = Ok cols ->
  nonneg (seg_of st (q_idx qf)) ->
  Forall (fun v => exists c, cells_val st cols (as_z v) = Ok c) (seg_of st (q_idx qf)) ->
  (forall a b ca cb, cells_val st cols (Z.of_nat a) = Ok ca -> cells_val st cols (Z.of_nat b) = Ok cb ->
                     less (Z.of_nat a) (Z.of_nat b) ca cb = lt a b) ->
  forall res n' st', run env t (op_sort names less script qf) n st = (res, n', st') ->
    match res with
    | Ok _ => True
    | Panic => script_run lt (script (length (Frame.ix f))) (Frame.ix f) = Panic
    | Fail => False
    end.
Proof. exact (refines_sort_panic env dec t n st qf f names less script lt cols). Qed.
Print Assumptions C01_refines_sort_panic.

(* the script the share engine replays, read at L0, IS insertionSort of Model/Sort.v (internal/sort/sorter.go) *)
Theorem C01_insertion_script_l0 lt n s : script_run lt (insertion_script n) s = Sort.insertion_sort lt 0 n s.
Proof. exact (insertion_script_l0 lt n s). Qed.
Print Assumptions C01_insertion_script_l0.

(* Filter, result construction: ix.Filter(bIx) is Filter.index_filter of the abstractions (panic for panic) *)
Theorem C01_refines_index_filter env t n st ix b :
  store_fresh t n st -> in_bounds st ix -> in_bounds st b ->
  exists res n' st',
    run env t (index_filter ix b) n st = (res, n', st') /\
    keeps st st' /\ store_fresh t n' st' /\
    match res with
    | Ok r => Filter.index_filter (abs_ix st ix) (map as_b (seg_of st b)) = Ok (abs_ix st' r) /\ in_bounds st' r
    | Panic => Filter.index_filter (abs_ix st ix) (map as_b (seg_of st b)) = Panic
    | Fail => False
    end.
Proof. exact (refines_index_filter env t n st ix b). Qed.
Print Assumptions C01_refines_index_filter.

Theorem C01_refines_filter_index env dec t n st qf f b :
  ref_ok dec st qf -> abs1 dec st qf = Some f -> store_fresh t n st -> in_bounds st b ->
  exists res n' st',
    run env t (let? ix := index_filter (q_idx qf) b in Ret (Ok (with_index qf ix))) n st = (res, n', st') /\
    keeps st st' /\ store_fresh t n' st' /\
    match res with
    | Ok qf' => ref_ok dec st' qf' /\
                exists i, Filter.index_filter (Frame.ix f) (map as_b (seg_of st b)) = Ok i /\
                          abs1 dec st' qf' = Some (Frame.with_ix f i)
    | Panic => Filter.index_filter (Frame.ix f) (map as_b (seg_of st b)) = Panic
    | Fail => False
    end.
Proof. exact (refines_filter_index env dec t n st qf f b). Qed.
Print Assumptions C01_refines_filter_index.

(* ... and the index merges of Or and Not clauses *)
Theorem C01_refines_or_frames env dec t n st orig l rhs fo fl fr :
  ref_ok dec st orig -> ref_ok dec st l -> ref_ok dec st rhs ->
  abs1 dec st orig = Some fo -> abs1 dec st l = Some fl -> abs1 dec st rhs = Some fr ->
  nonneg (seg_of st (q_idx orig)) -> nonneg (seg_of st (q_idx l)) -> nonneg (seg_of st (q_idx rhs)) ->
  store_fresh t n st ->
  exists qf' n' st',
    run env t (or_frames orig (Some l) rhs) n st = (Ok qf', n', st') /\
    keeps st st' /\ store_fresh t n' st' /\ ref_ok dec st' qf' /\
    abs1 dec st' qf' = Some (Filter.or_frames fo (Some fl) fr).
Proof. exact (refines_or_frames env dec t n st orig l rhs fo fl fr). Qed.
Print Assumptions C01_refines_or_frames.

Theorem C01_refines_not_index env dec t n st qf nq f fn :
  ref_ok dec st qf -> ref_ok dec st nq ->
  abs1 dec st qf = Some f -> abs1 dec st nq = Some fn ->
  nonneg (seg_of st (q_idx qf)) -> nonneg (seg_of st (q_idx nq)) ->
  store_fresh t n st ->
  exists qf' n' st',
    run env t (not_index qf nq) n st = (Ok qf', n', st') /\
    keeps st st' /\ store_fresh t n' st' /\ ref_ok dec st' qf' /\
    abs1 dec st' qf' = Some (Frame.with_ix f (Filter.not_merge (Frame.ix f) (Frame.ix fn))).
Proof. exact (refines_not_index env dec t n st qf nq f fn). Qed.
Print Assumptions C01_refines_not_index.

(* setColumn (copy of header slice and map, then the write): Ops.set_column, never a panic *)
Theorem C01_refines_set_column env dec t n st qf f name_ok name ty parts d :
  ref_ok dec st qf -> abs1 dec st qf = Some f -> store_fresh t n st ->
  Forall (in_bounds st) parts -> dec ty (map (seg_of st) parts) = Some d ->
  name_ok = Ops.check_name name ->
  exists qf' n' st',
    run env t (set_column name_ok name ty parts qf) n st = (Ok qf', n', st') /\
    keeps st st' /\ store_fresh t n' st' /\ ref_ok dec st' qf' /\
    abs1 dec st' qf' = Some (Ops.set_column f name d).
Proof. exact (refines_set_column env dec t n st qf f name_ok name ty parts d). Qed.
Print Assumptions C01_refines_set_column.

Theorem C01_refines_copy env dec t n st qf f name_ok dst src :
  ref_ok dec st qf -> abs1 dec st qf = Some f -> store_fresh t n st ->
  name_ok = Ops.check_name dst ->
  exists qf' n' st',
    run env t (op_copy name_ok dst src qf) n st = (Ok qf', n', st') /\
    keeps st st' /\ store_fresh t n' st' /\ ref_ok dec st' qf' /\
    abs1 dec st' qf' = Some (Ops.copy f dst src).
Proof. exact (refines_copy env dec t n st qf f name_ok dst src). Qed.
Print Assumptions C01_refines_copy.

Theorem C01_refines_select env dec t n st qf f names :
  ref_ok dec st qf -> abs1 dec st qf = Some f -> store_fresh t n st ->
  exists qf' n' st',
    run env t (op_select names qf) n st = (Ok qf', n', st') /\
    keeps st st' /\ store_fresh t n' st' /\ ref_ok dec st' qf' /\
    abs1 dec st' qf' = Some (Ops.select f names).
Proof. exact (refines_select env dec t n st qf f names). Qed.
Print Assumptions C01_refines_select.

Theorem C01_refines_drop env dec t n st qf f names :
  ref_ok dec st qf -> abs1 dec st qf = Some f -> store_fresh t n st ->
  exists qf' n' st',
    run env t (op_drop names qf) n st = (Ok qf', n', st') /\
    keeps st st' /\ store_fresh t n' st' /\ ref_ok dec st' qf' /\
    abs1 dec st' qf' = Some (Ops.drop f names).
Proof. exact (refines_drop env dec t n st qf f names). Qed.
Print Assumptions C01_refines_drop.

(* An operation that WRITES column data, WithRowNums (apply0 with a counter): fresh array of the physical
   length, zero everywhere, the k-th index entry's row := k, then setColumn = Ops.with_row_nums (panic
   for panic: an index entry beyond the physical length).  The decoder must read an int column as its
   array and give columns the length of their first storage array; dec_std does. *)
Theorem C01_refines_with_row_nums env dec t n st qf f name_ok name :
  (forall arr, dec ty_int [arr] = Some (Frame.ICol (map as_z arr))) ->
  (forall ty parts d, dec ty parts = Some d -> Frame.col_len d = length (hd [] parts)) ->
  ref_ok dec st qf -> abs1 dec st qf = Some f -> store_fresh t n st ->
  name_ok = Ops.check_name name ->
  exists res n' st',
    run env t (op_with_row_nums name_ok name qf) n st = (res, n', st') /\
    keeps st st' /\ store_fresh t n' st' /\
    match res with
    | Ok qf' => ref_ok dec st' qf' /\
                exists f', Ops.with_row_nums f name = Ok f' /\ abs1 dec st' qf' = Some f'
    | Panic => Ops.with_row_nums f name = Panic
    | Fail => False
    end.
Proof. exact (fun Hi Hl => refines_with_row_nums env dec Hi Hl t n st qf f name_ok name). Qed.
Print Assumptions C01_refines_with_row_nums.
Example C01_dec_std_ok :
  (forall arr, dec_std ty_int [arr] = Some (Frame.ICol (map as_z arr))) /\
  (forall ty parts d, dec_std ty parts = Some d -> Frame.col_len d = length (hd [] parts)).
Proof. exact (conj dec_std_int dec_std_len). Qed.
Example C01_refine_row_nums_example :
  let '(r, _, st') := run HeapExamples.env0 1 (op_with_row_nums true [66%N] HeapExamples.qf0) 0 HeapExamples.st0 in
  match r with Ok q => option_map Ok (abs1 dec_std st' q) | _ => None end = Some (Ops.with_row_nums RefineExamples.f0 [66%N]).
Proof. exact RefineExamples.row_nums_example. Qed.

(* The single-operation theorems compose: any finite chain of Slice / Select / Drop / Copy, each applied to
   the result of the previous one, computes at the heap level what the chain of L0 operations computes,
   and the initial frame still reads as before in the final store. *)
Theorem C01_refines_pipeline env dec t rs n st q f :
  ref_ok dec st q -> abs1 dec st q = Some f -> store_fresh t n st ->
  exists q' n' st',
    run env t (for_eachO rs rop_prog q) n st = (Ok q', n', st') /\
    keeps st st' /\ store_fresh t n' st' /\ ref_ok dec st' q' /\
    abs1 dec st' q' = Some (fold_left rop_l0 rs f) /\
    ref_ok dec st' q /\ abs1 dec st' q = Some f.
Proof. exact (refines_pipeline env dec t rs n st q f). Qed.
Print Assumptions C01_refines_pipeline.

(* One operation, directly on [run]: whatever the operation of the quantifier (incl. Aggregate), receiver
   and argument, every well-formed frame reference (receiver, argument, sibling, ancestor ...) reads as
   the same L0 frame after it. *)
Theorem C01_op_abs_stable env dec op recv other t n st q :
  closed_store st -> store_fresh t n st ->
  mem_ok (in_dom st) recv [] -> mem_ok (in_dom st) other [] ->
  ref_ok dec st q ->
  let st' := snd (run env t (lop_prog op recv other) n st) in
  ref_ok dec st' q /\ abs1 dec st' q = abs1 dec st q.
Proof. exact (op_abs_stable env dec op recv other t n st q). Qed.
Print Assumptions C01_op_abs_stable.

(* 7. (wave 2) Persistence AT L0: along every history of ANY operations of the quantifier, every later
      store keeps every earlier store, the family only grows, and every well-formed frame reference reads
      as the same L0 frame (same names, order, types, every cell, index, Err) in every later state.
      No per-operation premise: all operations are safe (C01_all_ops_safe). *)
Theorem C01_history_abs env dec h t st fam :
  hist_inv t st fam ->
  forall j k sj fj sk fk, j <= k ->
    nth_error (history_states env h t st fam) j = Some (sj, fj) ->
    nth_error (history_states env h t st fam) k = Some (sk, fk) ->
    keeps sj sk /\ incl fj fk /\
    forall q, ref_ok dec sj q -> ref_ok dec sk q /\ abs1 dec sk q = abs1 dec sj q.
Proof. exact (history_abs_persistent env dec h t st fam). Qed.
Print Assumptions C01_history_abs.

(* the premises hold for the example frame (decoder dec_std); Sort's premises too; both sides computed *)
Example C01_refine_premises_hold :
  ref_ok dec_std HeapExamples.st0 HeapExamples.qf0 /\
  abs1 dec_std HeapExamples.st0 HeapExamples.qf0 = Some RefineExamples.f0 /\
  store_fresh 1 0 HeapExamples.st0.
Proof. exact (conj RefineExamples.ref_ok_example (conj RefineExamples.abs1_example RefineExamples.fresh_example)). Qed.
Example C01_refine_sort_premises_hold :
  q_err HeapExamples.qf0 = false /\ [HeapExamples.nA] <> [] /\
  fst (fst (run HeapExamples.env0 1 (lookup_cols (q_map HeapExamples.qf0) [HeapExamples.nA]) 0 HeapExamples.st0)) = Ok [HeapExamples.cA] /\
  nonneg (seg_of HeapExamples.st0 (q_idx HeapExamples.qf0)) /\
  (forall a b ca cb, cells_val HeapExamples.st0 [HeapExamples.cA] (Z.of_nat a) = Ok ca ->
                     cells_val HeapExamples.st0 [HeapExamples.cA] (Z.of_nat b) = Ok cb ->
                     HeapExamples.lessA (Z.of_nat a) (Z.of_nat b) ca cb = RefineExamples.ltA a b).
Proof. exact RefineExamples.sort_premises. Qed.
Example C01_refine_sort_rows_hold :
  Forall (fun v => exists c, cells_val HeapExamples.st0 [HeapExamples.cA] (as_z v) = Ok c)
         (seg_of HeapExamples.st0 (q_idx HeapExamples.qf0)).
Proof. exact RefineExamples.sort_rows. Qed.
Example C01_refine_sort_example :
  exists qf' n' st', run HeapExamples.env0 1 (op_sort [HeapExamples.nA] HeapExamples.lessA insertion_script HeapExamples.qf0) 0 HeapExamples.st0 = (Ok qf', n', st') /\
    abs1 dec_std st' qf' = Some (Frame.with_ix RefineExamples.f0 [2; 1; 3; 0]) /\
    script_run RefineExamples.ltA (insertion_script 4) (Frame.ix RefineExamples.f0) = Ok [2; 1; 3; 0] /\
    Sort.sort_ids RefineExamples.ltA (Frame.ix RefineExamples.f0) = Ok [2; 1; 3; 0].
Proof. exact RefineExamples.sort_result. Qed.
Example C01_refine_select_example :
  let '(r, _, st') := run HeapExamples.env0 1 (op_select [HeapExamples.nA; HeapExamples.nA] HeapExamples.qf0) 0 HeapExamples.st0 in
  match r with Ok q => abs1 dec_std st' q | _ => None end = Some (Ops.select RefineExamples.f0 [HeapExamples.nA; HeapExamples.nA]).
Proof. exact RefineExamples.select_example. Qed.
Example C01_refine_set_column_example :
  let '(r, _, st') := run HeapExamples.env0 1 (set_column true [66%N] ty_int [mkSlice (0, 3) 0 4 4] HeapExamples.qf0) 0 HeapExamples.st0 in
  match r with Ok q => abs1 dec_std st' q | _ => None end
  = Some (Ops.set_column RefineExamples.f0 [66%N] (Frame.ICol [30; 10; 5; 20]%Z)).
Proof. exact RefineExamples.set_column_example. Qed.

(* Non-vacuity: a store and frame satisfying the premises; a history (Slice with spare capacity, Sort
   the slice, Filter the parent, Apply on both, GroupBy, QFrames) evaluated with every member
   re-observed; and wrong programs (Sort without the index copy; orFrames appending into lhs.index)
   that the instrumented run rejects. *)
Example C01_premises_hold : hist_inv 1 HeapExamples.st0 [MemF HeapExamples.qf0].
Proof. exact HeapExamples.hist_inv_example. Qed.
Example C01_history_example :
  HeapExamples.obs_at 7 0 = HeapExamples.obs_at 0 0 /\ HeapExamples.obs_at 7 1 = HeapExamples.obs_at 1 1 /\
  HeapExamples.obs_at 7 2 = HeapExamples.obs_at 2 2 /\ HeapExamples.obs_at 7 6 = HeapExamples.obs_at 6 6 /\
  HeapExamples.ob_lens (HeapExamples.obs_at 0 0) = [4%Z] /\ HeapExamples.ob_lens (HeapExamples.obs_at 1 1) = [3%Z] /\
  HeapExamples.obs_at 2 2 <> HeapExamples.obs_at 1 1 /\
  match nth_error HeapExamples.states 7 with Some (_, fam) => length fam = 10 | None => False end.
Proof. exact HeapExamples.history_example. Qed.
Example C01_wrong_sort_rejected :
  run_tr HeapExamples.env0 1 (op_sort_nocopy [HeapExamples.nA] HeapExamples.lessA insertion_script HeapExamples.sl0) 0 HeapExamples.st0 = None /\
  (exists r, run_tr HeapExamples.env0 1 (op_sort [HeapExamples.nA] HeapExamples.lessA insertion_script HeapExamples.sl0) 0 HeapExamples.st0 = Some r).
Proof. exact HeapExamples.wrong_sort_rejected. Qed.
Example C01_wrong_or_frames_rejected :
  run_tr HeapExamples.env0 1 (let? rhs := qf_filter [HeapExamples.lfA] HeapExamples.sl0 in
                              or_frames_bad HeapExamples.sl0 HeapExamples.sl0 rhs) 0 HeapExamples.st0 = None /\
  (exists r, run_tr HeapExamples.env0 1 (let? rhs := qf_filter [HeapExamples.lfA] HeapExamples.sl0 in
                              or_frames HeapExamples.sl0 (Some HeapExamples.sl0) rhs) 0 HeapExamples.st0 = Some r).
Proof. exact HeapExamples.wrong_or_frames_rejected. Qed.
Print Assumptions C01_history_example.
