(* Property C01 — frames are persistent: no operation alters any existing frame, although frames
   derived from one another share column storage and row-index storage.
   Level: heap-level model (Model/Heap.v, Model/HeapOps.v), tied to the code by the engine "share"
   (sharing structure after every step of random histories) and by re-digesting every earlier member
   after every step in Go.  Statements only; the proofs are in Proofs/HeapProofs.v, HeapOpsProofs.v,
   HeapAggregate.v (Aggregate, all operations, negative examples) and HeapRefine.v (refinement to L0). *)
From QF Require Import Base.Prelude Model.Heap Model.HeapOps Model.Conc
     Proofs.HeapProofs Proofs.HeapOpsProofs Proofs.ConcProofs Proofs.HeapAggregate Proofs.HeapRefine.
From QF Require Model.Frame Model.Ops Model.Filter Model.Sort.

(* 1. Soundness of the instrumentation: a run accepted by run_tr (writes only to locations the program
      allocated itself; reads only pre-existing or own locations) is the ordinary run and leaves every
      pre-existing location untouched. *)
Theorem C01_run_tr_sound env A t (p : prog A) n s a n' s' own :
  run_tr env t p n s = Some (a, n', s', own) ->
  run env t p n s = (a, n', s') /\
  (forall l, in_dom s l = true -> lookup s' l = lookup s l).
Proof. exact (run_tr_sound env t p n s a n' s' own). Qed.
Print Assumptions C01_run_tr_sound.

(* 2. Per operation: from valid references the abstract safety logic accepts the L1 program (for every
      context pre/own, every argument, every clause tree, every sorter script, every callback) ... *)
Theorem C01_ops_safe op : lop_proved op = true -> lop_safe op.
Proof. exact (lop_proved_safe op). Qed.
Print Assumptions C01_ops_safe.

(* ... hence: for all closed stores and valid references the instrumented run does not fault. *)
Theorem C01_op_solo_safe env op recv other t n st :
  lop_safe op -> closed_store st -> store_fresh t n st ->
  mem_ok (in_dom st) recv [] -> mem_ok (in_dom st) other [] ->
  run_tr env t (lop_prog op recv other) n st <> None.
Proof. exact (op_solo_safe env op recv other t n st). Qed.
Print Assumptions C01_op_solo_safe.

(* 3. Histories: for any list of operations, each applied to any earlier members of the growing family,
      every earlier member observes the same (Len, names, types, every cell through the index, Err)
      after every later step.  [tobs] only names the allocations the (read-only) observer does not make. *)
Theorem C01_history env h t st fam tobs :
  hist_inv t st fam -> Forall (fun x => lop_safe (snd x)) h -> t + length h <= tobs ->
  forall j k sj fj sk fk, j <= k ->
    nth_error (history_states env h t st fam) j = Some (sj, fj) ->
    nth_error (history_states env h t st fam) k = Some (sk, fk) ->
    forall m, In m fj -> observe env tobs sk m = observe env tobs sj m.
Proof. exact (history_persistent env h t st fam tobs). Qed.
Print Assumptions C01_history.

(* The same for histories made of the operations whose safety is proved (everything except Aggregate). *)
Theorem C01_history_partial env h t st fam tobs :
  hist_inv t st fam -> Forall (fun x => lop_proved (snd x) = true) h -> t + length h <= tobs ->
  forall j k sj fj sk fk, j <= k ->
    nth_error (history_states env h t st fam) j = Some (sj, fj) ->
    nth_error (history_states env h t st fam) k = Some (sk, fk) ->
    forall m, In m fj -> observe env tobs sk m = observe env tobs sj m.
Proof.
  exact (fun Hi Hs => history_persistent env h t st fam tobs Hi
           (Forall_impl _ (fun x Hx => lop_proved_safe (snd x) Hx) Hs)).
Qed.
Print Assumptions C01_history_partial.

(* The full statement: every operation of the quantifier, including Grouper.Aggregate (key-column
   Subset, per-group aggregation with the reusable buffer of subsetWithBuf, result frame construction).
   Proved below as C01_full. *)
Definition C01_full_statement : Prop :=
  forall env h t st fam tobs,
    hist_inv t st fam -> t + length h <= tobs ->
    forall j k sj fj sk fk, j <= k ->
      nth_error (history_states env h t st fam) j = Some (sj, fj) ->
      nth_error (history_states env h t st fam) k = Some (sk, fk) ->
      forall m, In m fj -> observe env tobs sk m = observe env tobs sj m.

(* 4. (wave 2) Aggregate is safe, hence EVERY operation of the quantifier is; the full statement. *)
Theorem C01_aggregate_safe aggs : lop_safe (LAggregate aggs).
Proof. exact (safe_aggregate aggs). Qed.
Print Assumptions C01_aggregate_safe.

Theorem C01_all_ops_safe op : lop_safe op.
Proof. exact (lop_all_safe op). Qed.
Print Assumptions C01_all_ops_safe.

Theorem C01_op_solo_safe_all env op recv other t n st :
  closed_store st -> store_fresh t n st ->
  mem_ok (in_dom st) recv [] -> mem_ok (in_dom st) other [] ->
  run_tr env t (lop_prog op recv other) n st <> None.
Proof. exact (op_solo_safe_all env op recv other t n st). Qed.
Print Assumptions C01_op_solo_safe_all.

Theorem C01_full : C01_full_statement.
Proof. exact history_persistent_all. Qed.
Print Assumptions C01_full.

(* a grouper (made by GroupBy() on the example frame, so that its group shares the frame's index)
   satisfying the premises of C01_op_solo_safe_all for Aggregate *)
Example C01_aggregate_premises_hold :
  closed_store AggExamples.st_g0 /\ store_fresh 2 0 AggExamples.st_g0 /\
  mem_ok (in_dom AggExamples.st_g0) (MemG AggExamples.g0) [].
Proof. exact AggExamples.aggregate_premises. Qed.

(* 5. (wave 2) Negative examples as theorems.  A setColumn that does not copy the header slice is
      rejected by the instrumented run on EVERY store in which the receiver's header slice has spare
      capacity (new column: append in place) or the column exists (overwrite in place). *)
Theorem C01_set_column_nocopy_append_rejected env t n st name ty parts qf :
  s_len (q_cols qf) < s_cap (q_cols qf) ->
  fst (fst (run env t (by_name qf name) n st)) = None ->
  run_tr env t (set_column_nocopy true name ty parts qf) n st = None.
Proof. exact (set_column_nocopy_append_rejected env t n st name ty parts qf). Qed.
Print Assumptions C01_set_column_nocopy_append_rejected.

Theorem C01_set_column_nocopy_overwrite_rejected env t n st name ty parts qf c :
  fst (fst (run env t (by_name qf name) n st)) = Some c ->
  c_pos c < s_len (q_cols qf) ->
  run_tr env t (set_column_nocopy true name ty parts qf) n st = None.
Proof. exact (set_column_nocopy_overwrite_rejected env t n st name ty parts qf c). Qed.
Print Assumptions C01_set_column_nocopy_overwrite_rejected.

Example C01_nocopy_premises_hold :
  s_len (q_cols AggExamples.qf1) < s_cap (q_cols AggExamples.qf1) /\
  fst (fst (run HeapExamples.env0 1 (by_name AggExamples.qf1 AggExamples.nB) 0 AggExamples.st1)) = None /\
  (exists r, run_tr HeapExamples.env0 1 (set_column true AggExamples.nB 0 [mkSlice (0, 3) 0 4 4] AggExamples.qf1) 0 AggExamples.st1 = Some r).
Proof. exact AggExamples.nocopy_premises. Qed.
Example C01_nocopy_overwrite_premises_hold :
  fst (fst (run HeapExamples.env0 1 (by_name AggExamples.qf1 HeapExamples.nA) 0 AggExamples.st1)) = Some HeapExamples.cA /\
  c_pos HeapExamples.cA < s_len (q_cols AggExamples.qf1) /\
  (exists r, run_tr HeapExamples.env0 1 (set_column true HeapExamples.nA 0 [mkSlice (0, 3) 0 4 4] AggExamples.qf1) 0 AggExamples.st1 = Some r).
Proof. exact AggExamples.nocopy_overwrite_premises. Qed.
(* the damage: with the wrong setColumn, deriving a second frame from the receiver changes the column
   names the first derived frame shows; with the real one it does not *)
Example C01_nocopy_damage :
  AggExamples.bad_pair = ([HeapExamples.nA; AggExamples.nB], [HeapExamples.nA; AggExamples.nC]) /\
  AggExamples.good_pair = ([HeapExamples.nA; AggExamples.nB], [HeapExamples.nA; AggExamples.nB]).
Proof. exact AggExamples.nocopy_damage. Qed.

(* An Aggregate that sorts the group's index in place is rejected when the group index is shared with
   the receiver (GroupBy with no columns); the real Aggregate is accepted; without the instrumentation
   the wrong program reorders the receiver's rows. *)
Example C01_group_shares_index :
  fst (fst (run HeapExamples.env0 9 (read_slices (g_indices AggExamples.g0)) 0 AggExamples.st_g0)) = [q_idx HeapExamples.qf0].
Proof. exact AggExamples.group_shares_index. Qed.
Example C01_wrong_aggregate_rejected :
  run_tr HeapExamples.env0 2 (op_aggregate_sorting AggExamples.less_ix insertion_script AggExamples.aggs0 AggExamples.g0) 0 AggExamples.st_g0 = None /\
  (exists r, run_tr HeapExamples.env0 2 (op_aggregate AggExamples.aggs0 AggExamples.g0) 0 AggExamples.st_g0 = Some r) /\
  observe HeapExamples.env0 100 (snd (run HeapExamples.env0 2 (op_aggregate_sorting AggExamples.less_ix insertion_script AggExamples.aggs0 AggExamples.g0) 0 AggExamples.st_g0)) (MemF HeapExamples.qf0)
    <> observe HeapExamples.env0 100 AggExamples.st_g0 (MemF HeapExamples.qf0) /\
  observe HeapExamples.env0 100 (snd (run HeapExamples.env0 2 (op_aggregate AggExamples.aggs0 AggExamples.g0) 0 AggExamples.st_g0)) (MemF HeapExamples.qf0)
    = observe HeapExamples.env0 100 AggExamples.st_g0 (MemF HeapExamples.qf0).
Proof. exact AggExamples.wrong_aggregate_rejected. Qed.
Print Assumptions C01_wrong_aggregate_rejected.

(* 6. (wave 2) REFINEMENT of the heap-level programs to the L0 model (Model/Frame.v, Ops.v, Filter.v, Sort.v).
      abs1 dec st qf reads a frame reference in a store as an L0 frame (header slice -> columns in order,
      index slice -> row index; [dec] decodes the storage arrays of a column - the theorems hold for EVERY
      decoder, dec_std is the one of the encoding wrap_result uses).  ref_ok: the slices lie inside their
      arrays and the by-name map is the L0 reading "last column with that name, at that position".
      keeps st st': every location of st has the same content in st' (what C01_run_tr_sound gives).
      Each theorem: from a well-formed reference whose abstraction is f, the heap program returns a
      well-formed reference whose abstraction is the L0 operation applied to f (so every L0 theorem about
      Ops.slice / Filter.index_filter / Ops.set_column / Ops.copy / Ops.select / Ops.drop / or_merge /
      not_merge is a theorem about what the heap program returns), and the old store is kept. *)
Theorem C01_abs1_stable dec st st' qf :
  keeps st st' -> ref_ok dec st qf -> ref_ok dec st' qf /\ abs1 dec st' qf = abs1 dec st qf.
Proof. exact (fun Hk Ho => conj (ref_ok_keeps dec st st' qf Hk Ho) (abs1_keeps dec st st' qf Hk Ho)). Qed.
Print Assumptions C01_abs1_stable.

(* ref_ok has an executable, decoder-independent sufficient condition (Model/HeapOps.v ref_ok_b: slices
   inside their arrays, distinct map keys, map entry = last header column with the name and pos = its
   position), so that the premise can be evaluated on every member of a replayed history. *)
Theorem C01_ref_ok_b_sound dec st qf : ref_ok_b st qf = true -> ref_ok dec st qf.
Proof. exact (ref_ok_b_sound dec st qf). Qed.
Print Assumptions C01_ref_ok_b_sound.
Example C01_ref_ok_b_holds :
  ref_ok_b HeapExamples.st0 HeapExamples.qf0 = true /\
  match nth_error HeapExamples.states 7 with
  | Some (st, fam) => forallb (fun m => match m with MemF q => ref_ok_b st q | MemG _ => true end) fam
  | None => false
  end = true.
Proof. exact (conj RefineExamples.ref_ok_b_example RefineExamples.ref_ok_b_history). Qed.

(* The frame Grouper.Aggregate returns is a well-formed reference: every column of its result records the
   position it has in the NEW header.  (An aggregated column used to keep the position of its source column in the
   grouped frame; the by-name map of the result then pointed outside the new header or at another column.)
   Concrete instance (Proofs/HeapRefine.v AggregateRefExamples): columns A, B; GroupBy() without key columns;
   Aggregate(fn over B - position 1 -, as C): the result has the one column C, recorded at position 0 in header
   and map, and satisfies ref_ok for every decoder. *)
Example C01_aggregate_positions :
  ref_ok_b AggregateRefExamples.st2 AggregateRefExamples.qf2 = true /\ c_pos AggregateRefExamples.cB2 = 1 /\
  match fst (fst AggregateRefExamples.r2) with
  | Ok q => ref_ok_b (snd AggregateRefExamples.r2) q = true
            /\ map (fun c => (c_name c, c_pos c)) (hdr_of (snd AggregateRefExamples.r2) (q_cols q)) = [(AggExamples.nC, 0)]
            /\ map (fun e => (fst e, c_pos (snd e))) (map_of (snd AggregateRefExamples.r2) (q_map q)) = [(AggExamples.nC, 0)]
  | _ => False
  end.
Proof. exact AggregateRefExamples.aggregate_positions. Qed.
Theorem C01_aggregate_result_ref_ok dec :
  match fst (fst AggregateRefExamples.r2) with Ok q => ref_ok dec (snd AggregateRefExamples.r2) q | _ => False end.
Proof. exact (AggregateRefExamples.aggregate_result_ref_ok dec). Qed.
Print Assumptions C01_aggregate_result_ref_ok.

Theorem C01_refines_slice dec st qf f a b :
  ref_ok dec st qf -> abs1 dec st qf = Some f ->
  exists qf', op_slice a b qf = Ok qf' /\ ref_ok dec st qf' /\ abs1 dec st qf' = Some (Ops.slice f a b).
Proof. exact (refines_slice dec st qf f a b). Qed.
Print Assumptions C01_refines_slice.

(* Sort: the index is copied and the copy permuted by the sorter script; read at L0 the new index is the
   same script over Sort.less / Sort.swap (script_run).  lt is any L0 reading of Sorter.Less that agrees with
   [less] on the cells of the sort columns; the index entries are non-negative (uint32 in Go). *)
Theorem C01_refines_sort env dec t n st qf f names less script lt cols :
  ref_ok dec st qf -> abs1 dec st qf = Some f -> store_fresh t n st ->
  q_err qf = false -> names <> [] ->
  fst (fst (run env t (lookup_cols (q_map qf) names) n st)) = Ok cols ->
  nonneg (seg_of st (q_idx qf)) ->
  (forall a b ca cb, cells_val st cols (Z.of_nat a) = Ok ca -> cells_val st cols (Z.of_nat b) = Ok cb ->
                     less (Z.of_nat a) (Z.of_nat b) ca cb = lt a b) ->
  forall qf' n' st', run env t (op_sort names less script qf) n st = (Ok qf', n', st') ->
    keeps st st' /\ store_fresh t n' st' /\ ref_ok dec st' qf' /\
    exists ids', script_run lt (script (length (Frame.ix f))) (Frame.ix f) = Ok ids' /\
                 abs1 dec st' qf' = Some (Frame.with_ix f ids').
Proof. exact (refines_sort env dec t n st qf f names less script lt cols). Qed.
Print Assumptions C01_refines_sort.

(* ... conversely a heap-level Sort that panics does so only because the SCRIPT leaves the index (then its
   L0 reading panics too) - never because of the copy or of Less - when the rows of the index are rows
   of the sort columns; Fail is impossible. *)
Theorem C01_refines_sort_panic env dec t n st qf f names less script lt cols :
  ref_ok dec st qf -> abs1 dec st qf = Some f -> store_fresh t n st ->
  q_err qf = false -> names <> [] ->
  fst (fst (run env t (lookup_cols (q_map qf) names) n st)) = Ok cols ->
  nonneg (seg_of st (q_idx qf)) ->
  Forall (fun v => exists c, cells_val st cols (as_z v) = Ok c) (seg_of st (q_idx qf)) ->
  (forall a b ca cb, cells_val st cols (Z.of_nat a) = Ok ca -> cells_val st cols (Z.of_nat b) = Ok cb ->
                     less (Z.of_nat a) (Z.of_nat b) ca cb = lt a b) ->
  forall res n' st', run env t (op_sort names less script qf) n st = (res, n', st') ->
    match res with
    | Ok _ => True
    | Panic => script_run lt (script (length (Frame.ix f))) (Frame.ix f) = Panic
    | Fail => False
    end.
Proof. exact (refines_sort_panic env dec t n st qf f names less script lt cols). Qed.
Print Assumptions C01_refines_sort_panic.

(* the script the share engine replays, read at L0, IS insertionSort of Model/Sort.v (internal/sort/sorter.go) *)
Theorem C01_insertion_script_l0 lt n s : script_run lt (insertion_script n) s = Sort.insertion_sort lt 0 n s.
Proof. exact (insertion_script_l0 lt n s). Qed.
Print Assumptions C01_insertion_script_l0.

(* Filter, result construction: ix.Filter(bIx) is Filter.index_filter of the abstractions (panic for panic) *)
Theorem C01_refines_index_filter env t n st ix b :
  store_fresh t n st -> in_bounds st ix -> in_bounds st b ->
  exists res n' st',
    run env t (index_filter ix b) n st = (res, n', st') /\
    keeps st st' /\ store_fresh t n' st' /\
    match res with
    | Ok r => Filter.index_filter (abs_ix st ix) (map as_b (seg_of st b)) = Ok (abs_ix st' r) /\ in_bounds st' r
    | Panic => Filter.index_filter (abs_ix st ix) (map as_b (seg_of st b)) = Panic
    | Fail => False
    end.
Proof. exact (refines_index_filter env t n st ix b). Qed.
Print Assumptions C01_refines_index_filter.

Theorem C01_refines_filter_index env dec t n st qf f b :
  ref_ok dec st qf -> abs1 dec st qf = Some f -> store_fresh t n st -> in_bounds st b ->
  exists res n' st',
    run env t (let? ix := index_filter (q_idx qf) b in Ret (Ok (with_index qf ix))) n st = (res, n', st') /\
    keeps st st' /\ store_fresh t n' st' /\
    match res with
    | Ok qf' => ref_ok dec st' qf' /\
                exists i, Filter.index_filter (Frame.ix f) (map as_b (seg_of st b)) = Ok i /\
                          abs1 dec st' qf' = Some (Frame.with_ix f i)
    | Panic => Filter.index_filter (Frame.ix f) (map as_b (seg_of st b)) = Panic
    | Fail => False
    end.
Proof. exact (refines_filter_index env dec t n st qf f b). Qed.
Print Assumptions C01_refines_filter_index.

(* ... and the index merges of Or and Not clauses *)
Theorem C01_refines_or_frames env dec t n st orig l rhs fo fl fr :
  ref_ok dec st orig -> ref_ok dec st l -> ref_ok dec st rhs ->
  abs1 dec st orig = Some fo -> abs1 dec st l = Some fl -> abs1 dec st rhs = Some fr ->
  nonneg (seg_of st (q_idx orig)) -> nonneg (seg_of st (q_idx l)) -> nonneg (seg_of st (q_idx rhs)) ->
  store_fresh t n st ->
  exists qf' n' st',
    run env t (or_frames orig (Some l) rhs) n st = (Ok qf', n', st') /\
    keeps st st' /\ store_fresh t n' st' /\ ref_ok dec st' qf' /\
    abs1 dec st' qf' = Some (Filter.or_frames fo (Some fl) fr).
Proof. exact (refines_or_frames env dec t n st orig l rhs fo fl fr). Qed.
Print Assumptions C01_refines_or_frames.

Theorem C01_refines_not_index env dec t n st qf nq f fn :
  ref_ok dec st qf -> ref_ok dec st nq ->
  abs1 dec st qf = Some f -> abs1 dec st nq = Some fn ->
  nonneg (seg_of st (q_idx qf)) -> nonneg (seg_of st (q_idx nq)) ->
  store_fresh t n st ->
  exists qf' n' st',
    run env t (not_index qf nq) n st = (Ok qf', n', st') /\
    keeps st st' /\ store_fresh t n' st' /\ ref_ok dec st' qf' /\
    abs1 dec st' qf' = Some (Frame.with_ix f (Filter.not_merge (Frame.ix f) (Frame.ix fn))).
Proof. exact (refines_not_index env dec t n st qf nq f fn). Qed.
Print Assumptions C01_refines_not_index.

(* setColumn (copy of header slice and map, then the write): Ops.set_column, never a panic *)
Theorem C01_refines_set_column env dec t n st qf f name_ok name ty parts d :
  ref_ok dec st qf -> abs1 dec st qf = Some f -> store_fresh t n st ->
  Forall (in_bounds st) parts -> dec ty (map (seg_of st) parts) = Some d ->
  name_ok = Ops.check_name name ->
  exists qf' n' st',
    run env t (set_column name_ok name ty parts qf) n st = (Ok qf', n', st') /\
    keeps st st' /\ store_fresh t n' st' /\ ref_ok dec st' qf' /\
    abs1 dec st' qf' = Some (Ops.set_column f name d).
Proof. exact (refines_set_column env dec t n st qf f name_ok name ty parts d). Qed.
Print Assumptions C01_refines_set_column.

Theorem C01_refines_copy env dec t n st qf f name_ok dst src :
  ref_ok dec st qf -> abs1 dec st qf = Some f -> store_fresh t n st ->
  name_ok = Ops.check_name dst ->
  exists qf' n' st',
    run env t (op_copy name_ok dst src qf) n st = (Ok qf', n', st') /\
    keeps st st' /\ store_fresh t n' st' /\ ref_ok dec st' qf' /\
    abs1 dec st' qf' = Some (Ops.copy f dst src).
Proof. exact (refines_copy env dec t n st qf f name_ok dst src). Qed.
Print Assumptions C01_refines_copy.

Theorem C01_refines_select env dec t n st qf f names :
  ref_ok dec st qf -> abs1 dec st qf = Some f -> store_fresh t n st ->
  exists qf' n' st',
    run env t (op_select names qf) n st = (Ok qf', n', st') /\
    keeps st st' /\ store_fresh t n' st' /\ ref_ok dec st' qf' /\
    abs1 dec st' qf' = Some (Ops.select f names).
Proof. exact (refines_select env dec t n st qf f names). Qed.
Print Assumptions C01_refines_select.

Theorem C01_refines_drop env dec t n st qf f names :
  ref_ok dec st qf -> abs1 dec st qf = Some f -> store_fresh t n st ->
  exists qf' n' st',
    run env t (op_drop names qf) n st = (Ok qf', n', st') /\
    keeps st st' /\ store_fresh t n' st' /\ ref_ok dec st' qf' /\
    abs1 dec st' qf' = Some (Ops.drop f names).
Proof. exact (refines_drop env dec t n st qf f names). Qed.
Print Assumptions C01_refines_drop.

(* An operation that WRITES column data, WithRowNums (apply0 with a counter): fresh array of the physical
   length, zero everywhere, the k-th index entry's row := k, then setColumn = Ops.with_row_nums (panic
   for panic: an index entry beyond the physical length).  The decoder must read an int column as its
   array and give columns the length of their first storage array; dec_std does. *)
Theorem C01_refines_with_row_nums env dec t n st qf f name_ok name :
  (forall arr, dec ty_int [arr] = Some (Frame.ICol (map as_z arr))) ->
  (forall ty parts d, dec ty parts = Some d -> Frame.col_len d = length (hd [] parts)) ->
  ref_ok dec st qf -> abs1 dec st qf = Some f -> store_fresh t n st ->
  name_ok = Ops.check_name name ->
  exists res n' st',
    run env t (op_with_row_nums name_ok name qf) n st = (res, n', st') /\
    keeps st st' /\ store_fresh t n' st' /\
    match res with
    | Ok qf' => ref_ok dec st' qf' /\
                exists f', Ops.with_row_nums f name = Ok f' /\ abs1 dec st' qf' = Some f'
    | Panic => Ops.with_row_nums f name = Panic
    | Fail => False
    end.
Proof. exact (fun Hi Hl => refines_with_row_nums env dec Hi Hl t n st qf f name_ok name). Qed.
Print Assumptions C01_refines_with_row_nums.
Example C01_dec_std_ok :
  (forall arr, dec_std ty_int [arr] = Some (Frame.ICol (map as_z arr))) /\
  (forall ty parts d, dec_std ty parts = Some d -> Frame.col_len d = length (hd [] parts)).
Proof. exact (conj dec_std_int dec_std_len). Qed.
Example C01_refine_row_nums_example :
  let '(r, _, st') := run HeapExamples.env0 1 (op_with_row_nums true [66%N] HeapExamples.qf0) 0 HeapExamples.st0 in
  match r with Ok q => option_map Ok (abs1 dec_std st' q) | _ => None end = Some (Ops.with_row_nums RefineExamples.f0 [66%N]).
Proof. exact RefineExamples.row_nums_example. Qed.

(* The single-operation theorems compose: any finite chain of Slice / Select / Drop / Copy, each applied to
   the result of the previous one, computes at the heap level what the chain of L0 operations computes,
   and the initial frame still reads as before in the final store. *)
Theorem C01_refines_pipeline env dec t rs n st q f :
  ref_ok dec st q -> abs1 dec st q = Some f -> store_fresh t n st ->
  exists q' n' st',
    run env t (for_eachO rs rop_prog q) n st = (Ok q', n', st') /\
    keeps st st' /\ store_fresh t n' st' /\ ref_ok dec st' q' /\
    abs1 dec st' q' = Some (fold_left rop_l0 rs f) /\
    ref_ok dec st' q /\ abs1 dec st' q = Some f.
Proof. exact (refines_pipeline env dec t rs n st q f). Qed.
Print Assumptions C01_refines_pipeline.

(* One operation, directly on [run]: whatever the operation of the quantifier (incl. Aggregate), receiver
   and argument, every well-formed frame reference (receiver, argument, sibling, ancestor ...) reads as
   the same L0 frame after it. *)
Theorem C01_op_abs_stable env dec op recv other t n st q :
  closed_store st -> store_fresh t n st ->
  mem_ok (in_dom st) recv [] -> mem_ok (in_dom st) other [] ->
  ref_ok dec st q ->
  let st' := snd (run env t (lop_prog op recv other) n st) in
  ref_ok dec st' q /\ abs1 dec st' q = abs1 dec st q.
Proof. exact (op_abs_stable env dec op recv other t n st q). Qed.
Print Assumptions C01_op_abs_stable.

(* 7. (wave 2) Persistence AT L0: along every history of ANY operations of the quantifier, every later
      store keeps every earlier store, the family only grows, and every well-formed frame reference reads
      as the same L0 frame (same names, order, types, every cell, index, Err) in every later state.
      No per-operation premise: all operations are safe (C01_all_ops_safe). *)
Theorem C01_history_abs env dec h t st fam :
  hist_inv t st fam ->
  forall j k sj fj sk fk, j <= k ->
    nth_error (history_states env h t st fam) j = Some (sj, fj) ->
    nth_error (history_states env h t st fam) k = Some (sk, fk) ->
    keeps sj sk /\ incl fj fk /\
    forall q, ref_ok dec sj q -> ref_ok dec sk q /\ abs1 dec sk q = abs1 dec sj q.
Proof. exact (history_abs_persistent env dec h t st fam). Qed.
Print Assumptions C01_history_abs.

(* the premises hold for the example frame (decoder dec_std); Sort's premises too; both sides computed *)
Example C01_refine_premises_hold :
  ref_ok dec_std HeapExamples.st0 HeapExamples.qf0 /\
  abs1 dec_std HeapExamples.st0 HeapExamples.qf0 = Some RefineExamples.f0 /\
  store_fresh 1 0 HeapExamples.st0.
Proof. exact (conj RefineExamples.ref_ok_example (conj RefineExamples.abs1_example RefineExamples.fresh_example)). Qed.
Example C01_refine_sort_premises_hold :
  q_err HeapExamples.qf0 = false /\ [HeapExamples.nA] <> [] /\
  fst (fst (run HeapExamples.env0 1 (lookup_cols (q_map HeapExamples.qf0) [HeapExamples.nA]) 0 HeapExamples.st0)) = Ok [HeapExamples.cA] /\
  nonneg (seg_of HeapExamples.st0 (q_idx HeapExamples.qf0)) /\
  (forall a b ca cb, cells_val HeapExamples.st0 [HeapExamples.cA] (Z.of_nat a) = Ok ca ->
                     cells_val HeapExamples.st0 [HeapExamples.cA] (Z.of_nat b) = Ok cb ->
                     HeapExamples.lessA (Z.of_nat a) (Z.of_nat b) ca cb = RefineExamples.ltA a b).
Proof. exact RefineExamples.sort_premises. Qed.
Example C01_refine_sort_rows_hold :
  Forall (fun v => exists c, cells_val HeapExamples.st0 [HeapExamples.cA] (as_z v) = Ok c)
         (seg_of HeapExamples.st0 (q_idx HeapExamples.qf0)).
Proof. exact RefineExamples.sort_rows. Qed.
Example C01_refine_sort_example :
  exists qf' n' st', run HeapExamples.env0 1 (op_sort [HeapExamples.nA] HeapExamples.lessA insertion_script HeapExamples.qf0) 0 HeapExamples.st0 = (Ok qf', n', st') /\
    abs1 dec_std st' qf' = Some (Frame.with_ix RefineExamples.f0 [2; 1; 3; 0]) /\
    script_run RefineExamples.ltA (insertion_script 4) (Frame.ix RefineExamples.f0) = Ok [2; 1; 3; 0] /\
    Sort.sort_ids RefineExamples.ltA (Frame.ix RefineExamples.f0) = Ok [2; 1; 3; 0].
Proof. exact RefineExamples.sort_result. Qed.
Example C01_refine_select_example :
  let '(r, _, st') := run HeapExamples.env0 1 (op_select [HeapExamples.nA; HeapExamples.nA] HeapExamples.qf0) 0 HeapExamples.st0 in
  match r with Ok q => abs1 dec_std st' q | _ => None end = Some (Ops.select RefineExamples.f0 [HeapExamples.nA; HeapExamples.nA]).
Proof. exact RefineExamples.select_example. Qed.
Example C01_refine_set_column_example :
  let '(r, _, st') := run HeapExamples.env0 1 (set_column true [66%N] ty_int [mkSlice (0, 3) 0 4 4] HeapExamples.qf0) 0 HeapExamples.st0 in
  match r with Ok q => abs1 dec_std st' q | _ => None end
  = Some (Ops.set_column RefineExamples.f0 [66%N] (Frame.ICol [30; 10; 5; 20]%Z)).
Proof. exact RefineExamples.set_column_example. Qed.

(* Non-vacuity: a store and frame satisfying the premises; a history (Slice with spare capacity, Sort
   the slice, Filter the parent, Apply on both, GroupBy, QFrames) evaluated with every member
   re-observed; and wrong programs (Sort without the index copy; orFrames appending into lhs.index)
   that the instrumented run rejects. *)
Example C01_premises_hold : hist_inv 1 HeapExamples.st0 [MemF HeapExamples.qf0].
Proof. exact HeapExamples.hist_inv_example. Qed.
Example C01_history_example :
  HeapExamples.obs_at 7 0 = HeapExamples.obs_at 0 0 /\ HeapExamples.obs_at 7 1 = HeapExamples.obs_at 1 1 /\
  HeapExamples.obs_at 7 2 = HeapExamples.obs_at 2 2 /\ HeapExamples.obs_at 7 6 = HeapExamples.obs_at 6 6 /\
  HeapExamples.ob_lens (HeapExamples.obs_at 0 0) = [4%Z] /\ HeapExamples.ob_lens (HeapExamples.obs_at 1 1) = [3%Z] /\
  HeapExamples.obs_at 2 2 <> HeapExamples.obs_at 1 1 /\
  match nth_error HeapExamples.states 7 with Some (_, fam) => length fam = 10 | None => False end.
Proof. exact HeapExamples.history_example. Qed.
Example C01_wrong_sort_rejected :
  run_tr HeapExamples.env0 1 (op_sort_nocopy [HeapExamples.nA] HeapExamples.lessA insertion_script HeapExamples.sl0) 0 HeapExamples.st0 = None /\
  (exists r, run_tr HeapExamples.env0 1 (op_sort [HeapExamples.nA] HeapExamples.lessA insertion_script HeapExamples.sl0) 0 HeapExamples.st0 = Some r).
Proof. exact HeapExamples.wrong_sort_rejected. Qed.
Example C01_wrong_or_frames_rejected :
  run_tr HeapExamples.env0 1 (let? rhs := qf_filter [HeapExamples.lfA] HeapExamples.sl0 in
                              or_frames_bad HeapExamples.sl0 HeapExamples.sl0 rhs) 0 HeapExamples.st0 = None /\
  (exists r, run_tr HeapExamples.env0 1 (let? rhs := qf_filter [HeapExamples.lfA] HeapExamples.sl0 in
                              or_frames HeapExamples.sl0 (Some HeapExamples.sl0) rhs) 0 HeapExamples.st0 = Some r).
Proof. exact HeapExamples.wrong_or_frames_rejected. Qed.
Print Assumptions C01_history_example.

(* 8. (wave 5) REFINEMENT, continued (Proofs/HeapRefine2.v): Apply with user functions, FilteredApply.
      The heap level does not interpret cell values: a user function is a Call node answered by the callback
      oracle [env] of the run (a pure function of the argument values).  The L0 model has function TABLES.
      The link between the two is an explicit premise, stated row by row over the rows of the index
      (link1 / link2 / link0): whenever the heap program reads the cell(s) of row p and calls fn on them, the L0
      column has a cell at p, the table has an entry for it and the entry is the L0 reading [cv tout] of what the
      oracle answers.  [dec_apply_ok dec]: the decoder gives a column the length of its first storage array, reads
      an int / float / bool result array as the column of its values and reads the string encoding of
      wrap_result (lengths or -1, byte blob) as the strings; dec_std does (C01_dec_std_apply_ok).
      Conclusion (panic for panic): the heap run returns a well-formed reference whose abstraction is what
      Ops.apply1 / apply2 / apply0 returns; it panics (an index entry beyond the column) iff the L0 model does. *)
Require Import QF.Proofs.HeapRefine2.

Theorem C01_dec_std_apply_ok : dec_apply_ok dec_std.
Proof. exact dec_std_apply_ok. Qed.
Print Assumptions C01_dec_std_apply_ok.

Theorem C01_refines_apply1 env dec ut t n st qf f a src fn tin tout tbl :
  dec_apply_ok dec ->
  ref_ok dec st qf -> abs1 dec st qf = Some f -> store_fresh t n st ->
  i_fn a = FnCall fn (ty_of tout) -> tout <> Frame.TEnum -> i_name_ok a = Ops.check_name (i_dst a) ->
  (forall c d, map_get (map_of st (q_map qf)) src = Some c -> Frame.lookup_col f src = Some d ->
               Frame.col_ftype d = tin /\ link1 env st c d fn tout tbl (Frame.ix f)) ->
  exists res n' st',
    run env t (apply1 a src qf) n st = (res, n', st') /\ keeps st st' /\ store_fresh t n' st' /\
    match res with
    | Ok qf' => ref_ok dec st' qf' /\
                exists f', Ops.apply1 ut f (Ops.F1 tin tout tbl) (i_dst a) src = Ok f' /\ abs1 dec st' qf' = Some f'
    | Panic => Ops.apply1 ut f (Ops.F1 tin tout tbl) (i_dst a) src = Panic
    | Fail => False
    end.
Proof. exact (fun Hd => refines_apply1 env dec Hd ut t n st qf f a src fn tin tout tbl). Qed.
Print Assumptions C01_refines_apply1.

Theorem C01_refines_apply2 env dec t n st qf f a src1 src2 fn tout tbl :
  dec_apply_ok dec ->
  ref_ok dec st qf -> abs1 dec st qf = Some f -> store_fresh t n st ->
  i_fn a = FnCall fn (ty_of tout) -> i_name_ok a = Ops.check_name (i_dst a) ->
  (forall c1 c2 d1 d2,
      map_get (map_of st (q_map qf)) src1 = Some c1 -> map_get (map_of st (q_map qf)) src2 = Some c2 ->
      Frame.lookup_col f src1 = Some d1 -> Frame.lookup_col f src2 = Some d2 ->
      Frame.col_type d1 = Frame.col_type d2 /\ Frame.col_ftype d1 = tout /\
      link2 env st c1 c2 d1 d2 fn tout tbl (Frame.ix f)) ->
  exists res n' st',
    run env t (apply2 a src1 src2 qf) n st = (res, n', st') /\ keeps st st' /\ store_fresh t n' st' /\
    match res with
    | Ok qf' => ref_ok dec st' qf' /\
                exists f', Ops.apply2 f (Ops.F2 tout tbl) (i_dst a) src1 src2 = Ok f' /\ abs1 dec st' qf' = Some f'
    | Panic => Ops.apply2 f (Ops.F2 tout tbl) (i_dst a) src1 src2 = Panic
    | Fail => False
    end.
Proof. exact (fun Hd => refines_apply2 env dec Hd t n st qf f a src1 src2 fn tout tbl). Qed.
Print Assumptions C01_refines_apply2.

(* func() T: the oracle of the heap run is a pure function of the (empty) argument list, so the theorem covers the
   streams that repeat one value over the rows of the index (link0); a counting closure is WithRowNums, above *)
Theorem C01_refines_apply0 env dec t n st qf f a fn tout vals :
  dec_apply_ok dec ->
  ref_ok dec st qf -> abs1 dec st qf = Some f -> store_fresh t n st ->
  i_fn a = FnCall fn (ty_of tout) -> tout <> Frame.TEnum -> i_name_ok a = Ops.check_name (i_dst a) ->
  link0 env fn tout vals (Frame.ix f) ->
  exists res n' st',
    run env t (apply0 a qf) n st = (res, n', st') /\ keeps st st' /\ store_fresh t n' st' /\
    match res with
    | Ok qf' => ref_ok dec st' qf' /\
                exists f', Ops.apply0 f (Ops.F0Stream tout vals) (i_dst a) = Ok f' /\ abs1 dec st' qf' = Some f'
    | Panic => Ops.apply0 f (Ops.F0Stream tout vals) (i_dst a) = Panic
    | Fail => False
    end.
Proof. exact (fun Hd => refines_apply0 env dec Hd t n st qf f a fn tout vals). Qed.
Print Assumptions C01_refines_apply0.

Theorem C01_refines_apply0_colname env dec t n st qf f a src :
  dec_apply_ok dec ->
  ref_ok dec st qf -> abs1 dec st qf = Some f -> store_fresh t n st ->
  i_fn a = FnColName src -> i_name_ok a = Ops.check_name (i_dst a) ->
  exists qf' n' st',
    run env t (apply0 a qf) n st = (Ok qf', n', st') /\ keeps st st' /\ store_fresh t n' st' /\
    ref_ok dec st' qf' /\
    exists f', Ops.apply0 f (Ops.F0ColName src) (i_dst a) = Ok f' /\ abs1 dec st' qf' = Some f'.
Proof. exact (fun Hd => refines_apply0_colname env dec Hd t n st qf f a src). Qed.
Print Assumptions C01_refines_apply0_colname.

(* the premises hold for the example frame (callback: x + 1; table: its graph on the cells of column A) and
   both sides, computed, agree *)
Example C01_apply1_premises_hold :
  i_fn ApplyExamples.a1 = FnCall 1%N (ty_of Frame.TInt) /\ Frame.TInt <> Frame.TEnum /\
  i_name_ok ApplyExamples.a1 = Ops.check_name (i_dst ApplyExamples.a1) /\
  (forall c d, map_get (map_of HeapExamples.st0 (q_map HeapExamples.qf0)) HeapExamples.nA = Some c ->
               Frame.lookup_col RefineExamples.f0 HeapExamples.nA = Some d ->
               Frame.col_ftype d = Frame.TInt /\
               link1 HeapExamples.env0 HeapExamples.st0 c d 1%N Frame.TInt ApplyExamples.tblA (Frame.ix RefineExamples.f0)).
Proof. exact ApplyExamples.apply1_premises. Qed.
Example C01_apply2_premises_hold :
  i_fn ApplyExamples.a2 = FnCall 1%N (ty_of Frame.TInt) /\ i_name_ok ApplyExamples.a2 = Ops.check_name (i_dst ApplyExamples.a2) /\
  (forall c1 c2 d1 d2,
      map_get (map_of HeapExamples.st0 (q_map HeapExamples.qf0)) HeapExamples.nA = Some c1 ->
      map_get (map_of HeapExamples.st0 (q_map HeapExamples.qf0)) HeapExamples.nA = Some c2 ->
      Frame.lookup_col RefineExamples.f0 HeapExamples.nA = Some d1 -> Frame.lookup_col RefineExamples.f0 HeapExamples.nA = Some d2 ->
      Frame.col_type d1 = Frame.col_type d2 /\ Frame.col_ftype d1 = Frame.TInt /\
      link2 HeapExamples.env0 HeapExamples.st0 c1 c2 d1 d2 1%N Frame.TInt ApplyExamples.tblAA (Frame.ix RefineExamples.f0)).
Proof. exact ApplyExamples.apply2_premises. Qed.
Example C01_apply0_premises_hold :
  link0 HeapExamples.env0 1%N Frame.TInt (repeat (Frame.CInt 7) 4) (Frame.ix RefineExamples.f0).
Proof. exact ApplyExamples.link0_example. Qed.
Example C01_apply1_example :
  let '(r, _, st') := run HeapExamples.env0 1 (apply1 ApplyExamples.a1 HeapExamples.nA HeapExamples.qf0) 0 HeapExamples.st0 in
  match r with Ok q => option_map Ok (abs1 dec_std st' q) | _ => None end
  = Some (Ops.apply1 [] RefineExamples.f0 (Ops.F1 Frame.TInt Frame.TInt ApplyExamples.tblA) [66%N] HeapExamples.nA).
Proof. exact ApplyExamples.apply1_example. Qed.
Example C01_apply1_value :
  Ops.apply1 [] RefineExamples.f0 (Ops.F1 Frame.TInt Frame.TInt ApplyExamples.tblA) [66%N] HeapExamples.nA
  = Ok (Frame.mkFrame [(HeapExamples.nA, ApplyExamples.dA); ([66%N], Frame.ICol [31; 11; 6; 21]%Z)] [0; 1; 3; 2] false).
Proof. exact ApplyExamples.apply1_value. Qed.
Example C01_apply2_example :
  let '(r, _, st') := run HeapExamples.env0 1 (apply2 ApplyExamples.a2 HeapExamples.nA HeapExamples.nA HeapExamples.qf0) 0 HeapExamples.st0 in
  match r with Ok q => option_map Ok (abs1 dec_std st' q) | _ => None end
  = Some (Ops.apply2 RefineExamples.f0 (Ops.F2 Frame.TInt ApplyExamples.tblAA) [66%N] HeapExamples.nA HeapExamples.nA).
Proof. exact ApplyExamples.apply2_example. Qed.
Example C01_apply0_example :
  let '(r, _, st') := run HeapExamples.env0 1 (apply0 ApplyExamples.a0 HeapExamples.qf0) 0 HeapExamples.st0 in
  match r with Ok q => option_map Ok (abs1 dec_std st' q) | _ => None end
  = Some (Ops.apply0 RefineExamples.f0 (Ops.F0Stream Frame.TInt (repeat (Frame.CInt 7) 4)) [66%N]).
Proof. exact ApplyExamples.apply0_example. Qed.

(* FilteredApply: `newQf := qf; newQf.index = filteredQf.index; Apply; newQf.index = qf.index` act on a struct
   COPY (with_index at the heap level, with_ix at L0).  The theorem composes ANY refinement of the Filter step
   with ANY refinement of the Apply step on the copy (premises in the shape of the conclusions of the theorems
   about op_filter and apply0/1/2; C01_swap_index gives the well-formedness and abstraction of the copy the Apply
   theorems need) into the refinement of FilteredApply against Ops.filtered_apply. *)
Theorem C01_swap_index dec st qf fq f ff :
  ref_ok dec st qf -> ref_ok dec st fq -> abs1 dec st qf = Some f -> abs1 dec st fq = Some ff ->
  ref_ok dec st (with_index qf (q_idx fq)) /\
  abs1 dec st (with_index qf (q_idx fq)) = Some (Frame.with_ix f (Frame.ix ff)).
Proof. exact (swap_index dec st qf fq f ff). Qed.
Print Assumptions C01_swap_index.

Theorem C01_refines_filtered_apply env dec mt ut t n st qf f c cl instrs is rf n1 st1 :
  ref_ok dec st qf -> abs1 dec st qf = Some f ->
  run env t (op_filter c qf) n st = (rf, n1, st1) -> keeps st st1 ->
  match rf with
  | Ok fq => ref_ok dec st1 fq /\ exists ff, Filter.frame_filter mt f cl = Ok ff /\ abs1 dec st1 fq = Some ff
  | Panic => Filter.frame_filter mt f cl = Panic
  | Fail => False
  end ->
  (forall fq ff, rf = Ok fq -> abs1 dec st1 fq = Some ff -> q_err fq = false ->
     exists ra n2 st2,
       run env t (op_apply instrs (with_index qf (q_idx fq))) n1 st1 = (ra, n2, st2) /\ keeps st1 st2 /\
       match ra with
       | Ok nq => ref_ok dec st2 nq /\
                  exists r, Ops.apply ut (Frame.with_ix f (Frame.ix ff)) is = Ok r /\ abs1 dec st2 nq = Some r
       | Panic => Ops.apply ut (Frame.with_ix f (Frame.ix ff)) is = Panic
       | Fail => False
       end) ->
  exists res n' st',
    run env t (op_filtered_apply c instrs qf) n st = (res, n', st') /\ keeps st st' /\
    match res with
    | Ok q' => ref_ok dec st' q' /\
               exists r, Ops.filtered_apply mt ut f cl is = Ok r /\ abs1 dec st' q' = Some r
    | Panic => Ops.filtered_apply mt ut f cl is = Panic
    | Fail => False
    end.
Proof. exact (refines_filtered_apply env dec mt ut t n st qf f c cl instrs is rf n1 st1). Qed.
Print Assumptions C01_refines_filtered_apply.

(* 9. (wave 5) QFrame.filter: the shared mask.  A leaf of the heap model carries its row-wise computation as
      parameters (lf_pred / lf_pred_inv) or as a Call node (custom filter function = oracle); the L0 model has
      the generated kernels.  THE LINK for one leaf (leaf_link) has a heap side (leaf_heap_ok: the leaf's
      column(s) resolve in the by-name map, Column.Filter returns no error, no int->float promotion and no
      inversion through a second mask are involved, and the value the kernel writes for physical row r is P (row r)
      for the rows of the index) and an L0 side (l0_realised: on every sub-index of the rows the leaf step of
      Model/Filter.v ORs P into the mask - FilterProofs.leaf_realised, proved for int columns in
      FilterLeafProofs.int_leaf_realised).  Theorem: the bool mask is allocated, every leaf writes only the
      entries that are still false (cf_loop: mask' = mask_or mask (map P index), the matcher buffer lives in
      arrays the filter allocated itself), index.Filter builds the new index: the heap program computes
      Filter.filter_leaves (panic for panic), for any struct copy whose index is a sub-index i0 of the rows. *)
Theorem C01_refines_filter_leaves env dec mt t n st qf f i0 hls ls :
  ref_ok dec st qf -> abs1 dec st qf = Some (Frame.with_ix f i0) -> incl i0 (Frame.ix f) ->
  store_fresh t n st ->
  Forall2 (leaf_link env mt st (q_map qf) f) hls ls ->
  exists res n' st',
    run env t (qf_filter hls qf) n st = (res, n', st') /\ keeps st st' /\ store_fresh t n' st' /\
    match res with
    | Ok qf' => ref_ok dec st' qf' /\
                exists f', Filter.filter_leaves mt (Frame.with_ix f i0) ls = Ok f' /\ abs1 dec st' qf' = Some f'
    | Panic => Filter.filter_leaves mt (Frame.with_ix f i0) ls = Panic
    | Fail => False
    end.
Proof. exact (refines_filter_leaves env dec mt t n st qf f i0 hls ls). Qed.
Print Assumptions C01_refines_filter_leaves.

(* the heap-level kernel loop by itself: Column.Filter ORs the row values into the mask it is given *)
Theorem C01_col_filter_mask env t st0 lb len ix c argc hl use_inv (P : Z -> bool) n st arr :
  lf_bad hl = false -> lookup st0 lb = None -> in_bounds st0 ix -> s_len ix = len ->
  parts_in_bounds st0 c -> (forall a, argc = Some a -> parts_in_bounds st0 a) ->
  keeps st0 st -> store_fresh t n st -> lookup st lb = Some arr -> length arr = len ->
  (forall i, In i (map as_z (seg_of st0 ix)) -> row_val env st0 hl use_inv c argc i = Ok (P i)) ->
  exists n' st' arr',
    run env t (col_filter hl use_inv c argc ix (mkSlice lb 0 len len)) n st = (Ok tt, n', st') /\
    keeps st0 st' /\ store_fresh t n' st' /\ n <= n' /\ lookup st' lb = Some arr' /\ length arr' = len /\
    map as_b arr' = FilterProofs.mask_or (map as_b arr) (map P (map as_z (seg_of st0 ix))).
Proof. exact (col_filter_spec env t st0 lb len ix c argc hl use_inv P n st arr). Qed.
Print Assumptions C01_col_filter_mask.

(* Clause trees, PARTIAL: a leaf, Null, Not of a leaf (inverse flag toggled) and an Or of leaves only (the leaves
   are batched into ONE call of QFrame.filter over the shared mask).  Missing: And chains, Or with non-leaf
   members (flush + orFrames), Not of a non-leaf (not_index) - their index merges are refined
   (C01_refines_or_frames / C01_refines_not_index) but the induction over the tree is not closed: it needs that
   the indexes index.Filter / orFrames / Not return hold non-negative entries, which the existing loop lemmas do
   not state. *)
Definition C01_refines_clause_filter_full_statement : Prop :=
  forall env dec mt t n st qf f c cl,
    ref_ok dec st qf -> abs1 dec st qf = Some f -> store_fresh t n st ->
    nonneg (seg_of st (q_idx qf)) ->
    clause_rel env mt st (q_map qf) f c cl ->
    exists res n' st',
      run env t (op_filter c qf) n st = (res, n', st') /\ keeps st st' /\ store_fresh t n' st' /\
      match res with
      | Ok qf' => ref_ok dec st' qf' /\ exists f', Filter.frame_filter mt f cl = Ok f' /\ abs1 dec st' qf' = Some f'
      | Panic => Filter.frame_filter mt f cl = Panic
      | Fail => False
      end.
(* the proved fragment is an instance of the relation of the full statement *)
Theorem C01_flat_rel_clause_rel env mt st m f c cl : flat_rel env mt st m f c cl -> clause_rel env mt st m f c cl.
Proof. exact (flat_rel_clause_rel env mt st m f c cl). Qed.
Print Assumptions C01_flat_rel_clause_rel.

Theorem C01_refines_clause_filter_partial env dec mt t n st qf f c cl :
  ref_ok dec st qf -> abs1 dec st qf = Some f -> store_fresh t n st ->
  flat_rel env mt st (q_map qf) f c cl ->
  exists res n' st',
    run env t (op_filter c qf) n st = (res, n', st') /\ keeps st st' /\ store_fresh t n' st' /\
    match res with
    | Ok qf' => ref_ok dec st' qf' /\ exists f', Filter.frame_filter mt f cl = Ok f' /\ abs1 dec st' qf' = Some f'
    | Panic => Filter.frame_filter mt f cl = Panic
    | Fail => False
    end.
Proof. exact (refines_clause_filter_partial env dec mt t n st qf f c cl). Qed.
Print Assumptions C01_refines_clause_filter_partial.

(* the link holds for the example leaf "A < 25" (heap: lfA, L0: int_leaf A "<" 25 through the generated kernel
   table), the relation holds for the leaf and for an Or of two leaves; both sides computed; FilteredApply
   (Filter A < 25, then x+1 into B on the filtered rows, index restored) computed on both sides *)
Example C01_leaf_link_holds :
  leaf_link HeapExamples.env0 [] HeapExamples.st0 (q_map HeapExamples.qf0) RefineExamples.f0 HeapExamples.lfA FilterExamples.l0A /\
  map FilterExamples.PA [0; 1; 2; 3] = [false; true; true; true].
Proof. exact (conj FilterExamples.lfA_link FilterExamples.PA_values). Qed.
Example C01_flat_rel_holds :
  flat_rel HeapExamples.env0 [] HeapExamples.st0 (q_map HeapExamples.qf0) RefineExamples.f0
           (CLeaf HeapExamples.lfA) (Filter.CLeaf FilterExamples.l0A) /\
  flat_rel HeapExamples.env0 [] HeapExamples.st0 (q_map HeapExamples.qf0) RefineExamples.f0
           (COr false (map CLeaf [HeapExamples.lfA; HeapExamples.lfA]))
           (Filter.COr (map Filter.CLeaf [FilterExamples.l0A; FilterExamples.l0A])).
Proof. exact FilterExamples.flat_rel_examples. Qed.
Example C01_filter_example :
  (let '(r, _, st') := run HeapExamples.env0 1 (op_filter (CLeaf HeapExamples.lfA) HeapExamples.qf0) 0 HeapExamples.st0 in
   match r with Ok q => option_map Ok (abs1 dec_std st' q) | _ => None end)
  = Some (Filter.frame_filter [] RefineExamples.f0 (Filter.CLeaf FilterExamples.l0A)) /\
  Filter.frame_filter [] RefineExamples.f0 (Filter.CLeaf FilterExamples.l0A) = Ok (Frame.with_ix RefineExamples.f0 [1; 3; 2]).
Proof. exact (conj FilterExamples.filter_example FilterExamples.filter_value). Qed.
Example C01_filtered_apply_example :
  (let '(r, _, st') := run HeapExamples.env0 1 (op_filtered_apply (CLeaf HeapExamples.lfA) [ApplyExamples.a1] HeapExamples.qf0) 0 HeapExamples.st0 in
   match r with Ok q => option_map Ok (abs1 dec_std st' q) | _ => None end)
  = Some (Ops.filtered_apply [] [] RefineExamples.f0 (Filter.CLeaf FilterExamples.l0A) [FilterExamples.i1]) /\
  Ops.filtered_apply [] [] RefineExamples.f0 (Filter.CLeaf FilterExamples.l0A) [FilterExamples.i1]
  = Ok (Frame.mkFrame [(HeapExamples.nA, ApplyExamples.dA); ([66%N], Frame.ICol [0; 11; 6; 21]%Z)] [0; 1; 3; 2] false).
Proof. exact (conj FilterExamples.filtered_apply_example FilterExamples.filtered_apply_value). Qed.

(* 10. (wave 5) Grouper.QFrames: a grouper reference read at L0 (abs_g: headers, key names, the group indexes stored
       in g.indices, Err); the frames QFrames returns share headers, map and group index with the grouper and
       read as Aggregate.qframes of it; Err -> error on both sides. *)
Theorem C01_refines_qframes env dec t n st g G :
  grouper_ok dec st g -> abs_g dec st g = Some G -> store_fresh t n st ->
  exists res n' st',
    run env t (op_qframes g) n st = (res, n', st') /\ keeps st st' /\ store_fresh t n' st' /\
    match res with
    | Ok qs => Forall (ref_ok dec st') qs /\
               exists fs, Aggregate.qframes G = Ok fs /\ map (abs1 dec st') qs = map Some fs
    | Fail => Aggregate.qframes G = Fail
    | Panic => False
    end.
Proof. exact (refines_qframes env dec t n st g G). Qed.
Print Assumptions C01_refines_qframes.
Example C01_qframes_premises_hold :
  grouper_ok dec_std AggExamples.st_g0 AggExamples.g0 /\
  abs_g dec_std AggExamples.st_g0 AggExamples.g0 = Some QFramesExamples.G0 /\
  store_fresh 3 0 AggExamples.st_g0.
Proof. exact (conj QFramesExamples.grouper_ok_example (conj QFramesExamples.abs_g_example QFramesExamples.fresh3)). Qed.
Example C01_qframes_example :
  (let '(r, _, st') := run HeapExamples.env0 3 (op_qframes AggExamples.g0) 0 AggExamples.st_g0 in
   match r with Ok qs => Some (map (abs1 dec_std st') qs) | _ => None end)
  = match Aggregate.qframes QFramesExamples.G0 with Ok fs => Some (map Some fs) | _ => None end.
Proof. exact QFramesExamples.qframes_example. Qed.

(* 11. (wave 6) The WHOLE clause tree of QFrame.Filter (Proofs/HeapRefine3.v).
       (a) The two facts the induction over the tree was missing: the indexes built by index.Filter, orFrames and
           Not hold non-negative entries when their inputs do (the merges compare entries as integers, the L0 model
           compares row numbers), and the link of a leaf is stable when the store grows (the store only gains
           locations; the by-name map and the column arrays of the leaf keep their content). *)
Require Import QF.Proofs.HeapRefine3.

Theorem C01_index_filter_nonneg env t n st ix b res n' st' :
  store_fresh t n st -> in_bounds st ix -> nonneg (seg_of st ix) ->
  run env t (index_filter ix b) n st = (res, n', st') ->
  match res with Ok r => nonneg (seg_of st' r) | _ => True end.
Proof. exact (index_filter_nn env t n st ix b res n' st'). Qed.
Print Assumptions C01_index_filter_nonneg.

Theorem C01_or_frames_nonneg env t n st orig l rhs q' n' st' :
  store_fresh t n st -> in_bounds st (q_idx orig) ->
  nonneg (seg_of st (q_idx orig)) -> nonneg (seg_of st (q_idx l)) -> nonneg (seg_of st (q_idx rhs)) ->
  run env t (or_frames orig (Some l) rhs) n st = (Ok q', n', st') ->
  nonneg (seg_of st' (q_idx q')) /\ (q_map orig = q_map l -> q_map orig = q_map rhs -> q_map q' = q_map orig).
Proof. exact (or_frames_nn env t n st orig l rhs q' n' st'). Qed.
Print Assumptions C01_or_frames_nonneg.

Theorem C01_not_index_nonneg env t n st qf nq q' n' st' :
  store_fresh t n st -> in_bounds st (q_idx qf) -> nonneg (seg_of st (q_idx qf)) ->
  run env t (not_index qf nq) n st = (Ok q', n', st') ->
  nonneg (seg_of st' (q_idx q')) /\ q_map q' = q_map qf.
Proof. exact (not_index_nn env t n st qf nq q' n' st'). Qed.
Print Assumptions C01_not_index_nonneg.

Theorem C01_leaf_link_keeps env mt st0 st m f hl l :
  keeps st0 st -> Forall (fun e => parts_in_bounds st0 (snd e)) (map_of st0 m) ->
  (forall l, m = Some l -> lookup st0 l <> None) ->
  leaf_link env mt st0 m f hl l -> leaf_link env mt st m f hl l.
Proof. exact (leaf_link_keeps env mt st0 st m f hl l). Qed.
Print Assumptions C01_leaf_link_keeps.

(*     (b) The induction over the tree, parametric in the relation LL that links heap leaves to L0 leaves (crel LL is
           clause_rel with the link left abstract).  ALL it asks of the leaves (leaves_ok) is that a batch of linked
           leaves is refined by QFrame.filter on every later store, for every struct copy of the receiver whose index
           is a sub-index of the rows.  And chains narrow the index clause by clause; Or batches consecutive leaves
           into one QFrame.filter call, flushes the batch before every other member and at the end and merges with
           orFrames on the ORIGINAL frame; Not of a leaf toggles the leaf, Not of anything else complements the index;
           a frame that already carries an error is returned unchanged by every clause; empty And / Or set the error. *)
Theorem C01_op_filter_refines env dec mt st0 m f (LL : leaf -> Filter.leaf -> Prop) t n qf c cl :
  Frame.ferr f = false -> leaves_ok env dec mt st0 m f LL ->
  ref_ok dec st0 qf -> abs1 dec st0 qf = Some f -> q_map qf = m -> store_fresh t n st0 ->
  nonneg (seg_of st0 (q_idx qf)) -> crel LL c cl ->
  exists res n' st',
    run env t (op_filter c qf) n st0 = (res, n', st') /\ keeps st0 st' /\ store_fresh t n' st' /\
    match res with
    | Ok qf' => ref_ok dec st' qf' /\ exists f', Filter.frame_filter mt f cl = Ok f' /\ abs1 dec st' qf' = Some f'
    | Panic => Filter.frame_filter mt f cl = Panic
    | Fail => False
    end.
Proof. intros Hferr Hleaves. exact (op_filter_refines env dec mt st0 m f LL Hferr Hleaves t n qf c cl). Qed.
Print Assumptions C01_op_filter_refines.

(*     (c) With the link of wave 5 (leaf_link): the statement left open there is a theorem. *)
Theorem C01_refines_clause_filter : C01_refines_clause_filter_full_statement.
Proof. exact refines_clause_filter. Qed.
Print Assumptions C01_refines_clause_filter.

(*     (d) FilteredApply end to end: no premise about the Filter step is left.  What is asked of the Apply step is
           the conclusion of C01_refines_apply0 / 1 / 2 for the struct copy with the filtered index (the link between
           the callback oracle and the L0 function tables is a premise of those theorems). *)
Theorem C01_refines_filtered_apply_clause env dec mt ut t n st qf f c cl instrs is :
  ref_ok dec st qf -> abs1 dec st qf = Some f -> store_fresh t n st ->
  nonneg (seg_of st (q_idx qf)) ->
  clause_rel env mt st (q_map qf) f c cl ->
  (forall fq ff n1 st1, keeps st st1 -> store_fresh t n1 st1 -> ref_ok dec st1 fq ->
     Filter.frame_filter mt f cl = Ok ff -> abs1 dec st1 fq = Some ff -> q_err fq = false ->
     exists ra n2 st2,
       run env t (op_apply instrs (with_index qf (q_idx fq))) n1 st1 = (ra, n2, st2) /\ keeps st1 st2 /\
       match ra with
       | Ok nq => ref_ok dec st2 nq /\
                  exists r, Ops.apply ut (Frame.with_ix f (Frame.ix ff)) is = Ok r /\ abs1 dec st2 nq = Some r
       | Panic => Ops.apply ut (Frame.with_ix f (Frame.ix ff)) is = Panic
       | Fail => False
       end) ->
  exists res n' st',
    run env t (op_filtered_apply c instrs qf) n st = (res, n', st') /\ keeps st st' /\
    match res with
    | Ok q' => ref_ok dec st' q' /\ exists r, Ops.filtered_apply mt ut f cl is = Ok r /\ abs1 dec st' q' = Some r
    | Panic => Ops.filtered_apply mt ut f cl is = Panic
    | Fail => False
    end.
Proof. exact (refines_filtered_apply_clause env dec mt ut t n st qf f c cl instrs is). Qed.
Print Assumptions C01_refines_filtered_apply_clause.

(* the premises hold for two trees over the example frame: an And chain with a Not of an Or of a Not of an And, and
   an Or whose leaf batches are flushed around a Not; both sides computed *)
Example C01_clause_rel_holds :
  clause_rel HeapExamples.env0 [] HeapExamples.st0 (q_map HeapExamples.qf0) RefineExamples.f0 ClauseExamples.hc1 ClauseExamples.c1 /\
  clause_rel HeapExamples.env0 [] HeapExamples.st0 (q_map HeapExamples.qf0) RefineExamples.f0 ClauseExamples.hc2 ClauseExamples.c2 /\
  nonneg (seg_of HeapExamples.st0 (q_idx HeapExamples.qf0)) /\ store_fresh 1 0 HeapExamples.st0.
Proof. exact (conj ClauseExamples.clause_rel_1 (conj ClauseExamples.clause_rel_2 (conj ClauseExamples.nonneg_0 ClauseExamples.fresh_1))). Qed.
Example C01_clause_example_1 :
  let '(r, _, st') := run HeapExamples.env0 1 (op_filter ClauseExamples.hc1 HeapExamples.qf0) 0 HeapExamples.st0 in
  match r with Ok q => option_map Ok (abs1 dec_std st' q) | _ => None end
  = Some (Filter.frame_filter [] RefineExamples.f0 ClauseExamples.c1).
Proof. exact ClauseExamples.clause_example_1. Qed.
Example C01_clause_value_1 :
  Filter.frame_filter [] RefineExamples.f0 ClauseExamples.c1 = Ok (Frame.with_ix RefineExamples.f0 [1; 3; 2]).
Proof. exact ClauseExamples.clause_value_1. Qed.
Example C01_clause_example_2 :
  let '(r, _, st') := run HeapExamples.env0 1 (op_filter ClauseExamples.hc2 HeapExamples.qf0) 0 HeapExamples.st0 in
  match r with Ok q => option_map Ok (abs1 dec_std st' q) | _ => None end
  = Some (Filter.frame_filter [] RefineExamples.f0 ClauseExamples.c2).
Proof. exact ClauseExamples.clause_example_2. Qed.
Example C01_clause_value_2 :
  Filter.frame_filter [] RefineExamples.f0 ClauseExamples.c2 = Ok (Frame.with_ix RefineExamples.f0 [0; 1; 3; 2]).
Proof. exact ClauseExamples.clause_value_2. Qed.
Example C01_filtered_apply_clause_example :
  let '(r, _, st') := run HeapExamples.env0 1 (op_filtered_apply ClauseExamples.hc1 [ApplyExamples.a1] HeapExamples.qf0) 0 HeapExamples.st0 in
  match r with Ok q => option_map Ok (abs1 dec_std st' q) | _ => None end
  = Some (Ops.filtered_apply [] [] RefineExamples.f0 ClauseExamples.c1 [FilterExamples.i1]).
Proof. exact ClauseExamples.filtered_apply_clause_example. Qed.

(*     (e) Leaves with int->float promotion and leaves inverted through a second mask.  The extended link
           (leaf_link2) keeps the L0 side of leaf_link and replaces the heap side by leaf_heap_ok2: the value ORed
           into the shared mask for physical row r is the kernel value (custom function = oracle, or built-in
           predicate) on the cell of the column - of its fresh float copy fcolumn.New(ic.FloatSlice()) when the
           column is promoted (lf_promote = 1) - and the cell of the argument column - of its float copy when the
           argument is promoted (lf_promote = 2) -, NEGATED when the leaf is inverted and filter.Inverse has no
           usable entry (second_mask: the kernel runs non-inverted into a second, fresh mask and
           `if !x { bIndex[i] = !invIndex[i] }` folds it into the shared one).  leaf_link is the special case. *)
Theorem C01_leaf_link_link2 env mt st0 m f hl l : leaf_link env mt st0 m f hl l -> leaf_link2 env mt st0 m f hl l.
Proof. exact (leaf_link_link2 env mt st0 m f hl l). Qed.
Print Assumptions C01_leaf_link_link2.

(* fcolumn.New(ic.FloatSlice()) allocates ONE fresh array and reads back as the promoted cells; nothing else changes *)
Theorem C01_promote_step env t st0 base lb c n st arr0 :
  keeps st0 base -> keeps base st -> lookup base lb = None -> store_fresh t n st ->
  lookup st lb = Some arr0 -> parts_in_bounds st0 c ->
  exists c' st1 base1,
    run env t (promote c) n st = (c', S n, st1) /\ keeps base base1 /\ keeps base1 st1 /\
    lookup base1 lb = None /\ store_fresh t (S n) st1 /\ lookup st1 lb = Some arr0 /\
    parts_in_bounds base1 c' /\ forall r, cell_val base1 c' r = prom_cell_val st0 c r.
Proof. exact (promote_step env t st0 base lb c n st arr0). Qed.
Print Assumptions C01_promote_step.

(* one leaf step of QFrame.filter (promotion, second mask included): the shared mask gains exactly the rows of P *)
Theorem C01_leaf_step_mask env t st0 qf lb len hl P n st arr0 rows :
  lookup st0 lb = None -> in_bounds st0 (q_idx qf) -> s_len (q_idx qf) = len ->
  Forall (fun e => parts_in_bounds st0 (snd e)) (map_of st0 (q_map qf)) ->
  (forall l, q_map qf = Some l -> lookup st0 l <> None) ->
  incl (abs_ix st0 (q_idx qf)) rows ->
  leaf_heap_ok2 env st0 (q_map qf) rows hl P ->
  keeps st0 st -> store_fresh t n st -> lookup st lb = Some arr0 -> length arr0 = len ->
  exists n' st' arr',
    run env t (leaf_step qf (mkSlice lb 0 len len) hl) n st = (Ok tt, n', st') /\
    keeps st0 st' /\ store_fresh t n' st' /\ n <= n' /\ lookup st' lb = Some arr' /\ length arr' = len /\
    map as_b arr' = FilterProofs.mask_or (map as_b arr0) (map P (abs_ix st0 (q_idx qf))).
Proof. exact (leaf_step_spec2 env t st0 qf lb len hl P n st arr0 rows). Qed.
Print Assumptions C01_leaf_step_mask.

(* QFrame.filter over a batch of such leaves = Filter.filter_leaves; the by-name map is kept, the new index holds
   non-negative entries when the old one does *)
Theorem C01_refines_filter_leaves2 env dec mt t n st qf f i0 hls ls :
  ref_ok dec st qf -> abs1 dec st qf = Some (Frame.with_ix f i0) -> incl i0 (Frame.ix f) ->
  store_fresh t n st ->
  Forall2 (leaf_link2 env mt st (q_map qf) f) hls ls ->
  exists res n' st',
    run env t (qf_filter hls qf) n st = (res, n', st') /\ keeps st st' /\ store_fresh t n' st' /\
    match res with
    | Ok qf' => ref_ok dec st' qf' /\ q_map qf' = q_map qf /\
                (nonneg (seg_of st (q_idx qf)) -> nonneg (seg_of st' (q_idx qf'))) /\
                exists f', Filter.filter_leaves mt (Frame.with_ix f i0) ls = Ok f' /\ abs1 dec st' qf' = Some f'
    | Panic => Filter.filter_leaves mt (Frame.with_ix f i0) ls = Panic
    | Fail => False
    end.
Proof. exact (refines_filter_leaves2 env dec mt t n st qf f i0 hls ls). Qed.
Print Assumptions C01_refines_filter_leaves2.

(* the whole clause tree over such leaves (clause_rel2 = clause_rel with leaf_link2; it contains clause_rel) *)
Theorem C01_clause_rel_rel2 env mt st m f c cl : clause_rel env mt st m f c cl -> clause_rel2 env mt st m f c cl.
Proof. exact (clause_rel_rel2 env mt st m f c cl). Qed.
Print Assumptions C01_clause_rel_rel2.

Theorem C01_refines_clause_filter2 env dec mt t n st qf f c cl :
  ref_ok dec st qf -> abs1 dec st qf = Some f -> store_fresh t n st ->
  nonneg (seg_of st (q_idx qf)) ->
  clause_rel2 env mt st (q_map qf) f c cl ->
  exists res n' st',
    run env t (op_filter c qf) n st = (res, n', st') /\ keeps st st' /\ store_fresh t n' st' /\
    match res with
    | Ok qf' => ref_ok dec st' qf' /\ exists f', Filter.frame_filter mt f cl = Ok f' /\ abs1 dec st' qf' = Some f'
    | Panic => Filter.frame_filter mt f cl = Panic
    | Fail => False
    end.
Proof. exact (refines_clause_filter2 env dec mt t n st qf f c cl). Qed.
Print Assumptions C01_refines_clause_filter2.

(* the extended link holds for NOT (A < 25) as an inverted leaf ("<" is an order comparator: second mask on both
   sides); the relation holds for AND (NOT (A < 25) as a Not clause, NOT (A < 25) as an inverted leaf); computed *)
Example C01_leaf_link2_holds :
  second_mask SecondMaskExamples.lfA_inv = true /\
  leaf_link2 HeapExamples.env0 [] HeapExamples.st0 (q_map HeapExamples.qf0) RefineExamples.f0
             SecondMaskExamples.lfA_inv SecondMaskExamples.l0A_inv /\
  clause_rel2 HeapExamples.env0 [] HeapExamples.st0 (q_map HeapExamples.qf0) RefineExamples.f0
              SecondMaskExamples.hc4 SecondMaskExamples.c4.
Proof.
  exact (conj SecondMaskExamples.second_mask_lfA_inv (conj SecondMaskExamples.lfA_inv_link2 SecondMaskExamples.clause_rel2_4)).
Qed.
Example C01_clause2_example :
  let '(r, _, st') := run HeapExamples.env0 1 (op_filter SecondMaskExamples.hc4 HeapExamples.qf0) 0 HeapExamples.st0 in
  match r with Ok q => option_map Ok (abs1 dec_std st' q) | _ => None end
  = Some (Filter.frame_filter [] RefineExamples.f0 SecondMaskExamples.c4).
Proof. exact SecondMaskExamples.clause_example_4. Qed.
Example C01_clause2_value :
  Filter.frame_filter [] RefineExamples.f0 SecondMaskExamples.c4 = Ok (Frame.with_ix RefineExamples.f0 [0]).
Proof. exact SecondMaskExamples.clause_value_4. Qed.

(*     (f) FilteredApply end to end with the extended link, and instantiated with the Apply refinement for ONE user
           function of one column (C01_refines_apply1): no premise about the Filter step and none about the Apply
           step is left except the row-wise link between the callback oracle and the L0 function table, asked only
           for the rows that survive the filter. *)
Theorem C01_refines_filtered_apply_clause2 env dec mt ut t n st qf f c cl instrs is :
  ref_ok dec st qf -> abs1 dec st qf = Some f -> store_fresh t n st ->
  nonneg (seg_of st (q_idx qf)) ->
  clause_rel2 env mt st (q_map qf) f c cl ->
  (forall fq ff n1 st1, keeps st st1 -> store_fresh t n1 st1 -> ref_ok dec st1 fq ->
     Filter.frame_filter mt f cl = Ok ff -> abs1 dec st1 fq = Some ff -> q_err fq = false ->
     exists ra n2 st2,
       run env t (op_apply instrs (with_index qf (q_idx fq))) n1 st1 = (ra, n2, st2) /\ keeps st1 st2 /\
       match ra with
       | Ok nq => ref_ok dec st2 nq /\
                  exists r, Ops.apply ut (Frame.with_ix f (Frame.ix ff)) is = Ok r /\ abs1 dec st2 nq = Some r
       | Panic => Ops.apply ut (Frame.with_ix f (Frame.ix ff)) is = Panic
       | Fail => False
       end) ->
  exists res n' st',
    run env t (op_filtered_apply c instrs qf) n st = (res, n', st') /\ keeps st st' /\
    match res with
    | Ok q' => ref_ok dec st' q' /\ exists r, Ops.filtered_apply mt ut f cl is = Ok r /\ abs1 dec st' q' = Some r
    | Panic => Ops.filtered_apply mt ut f cl is = Panic
    | Fail => False
    end.
Proof. exact (refines_filtered_apply_clause2 env dec mt ut t n st qf f c cl instrs is). Qed.
Print Assumptions C01_refines_filtered_apply_clause2.

Theorem C01_refines_filtered_apply1 env dec mt ut t n st qf f c cl a src fn tin tout tbl :
  dec_apply_ok dec ->
  ref_ok dec st qf -> abs1 dec st qf = Some f -> store_fresh t n st ->
  nonneg (seg_of st (q_idx qf)) ->
  clause_rel2 env mt st (q_map qf) f c cl ->
  i_src1 a = Some src -> i_src2 a = None -> src <> [] ->
  i_fn a = FnCall fn (ty_of tout) -> tout <> Frame.TEnum -> i_name_ok a = Ops.check_name (i_dst a) ->
  (forall c0 d ff, map_get (map_of st (q_map qf)) src = Some c0 -> Frame.lookup_col f src = Some d ->
                   Filter.frame_filter mt f cl = Ok ff ->
                   Frame.col_ftype d = tin /\ link1 env st c0 d fn tout tbl (Frame.ix ff)) ->
  exists res n' st',
    run env t (op_filtered_apply c [a] qf) n st = (res, n', st') /\ keeps st st' /\
    match res with
    | Ok q' => ref_ok dec st' q' /\
               exists r, Ops.filtered_apply mt ut f cl [Ops.mkInstr (Ops.F1 tin tout tbl) (i_dst a) src []] = Ok r /\
                         abs1 dec st' q' = Some r
    | Panic => Ops.filtered_apply mt ut f cl [Ops.mkInstr (Ops.F1 tin tout tbl) (i_dst a) src []] = Panic
    | Fail => False
    end.
Proof. intro Hdec. exact (refines_filtered_apply1 env dec mt Hdec ut t n st qf f c cl a src fn tin tout tbl). Qed.
Print Assumptions C01_refines_filtered_apply1.

(* its premises hold for the example: Filter hc1 (And / Not / Or tree over A < 25), then x+1 of column A into column B
   on the surviving rows [1; 3; 2] (the computed run is C01_filtered_apply_clause_example) *)
Example C01_filtered_apply1_premises_hold :
  clause_rel2 HeapExamples.env0 [] HeapExamples.st0 (q_map HeapExamples.qf0) RefineExamples.f0 ClauseExamples.hc1 ClauseExamples.c1 /\
  i_src1 ApplyExamples.a1 = Some HeapExamples.nA /\ i_src2 ApplyExamples.a1 = None /\ HeapExamples.nA <> [] /\
  i_fn ApplyExamples.a1 = FnCall 1%N (ty_of Frame.TInt) /\ Frame.TInt <> Frame.TEnum /\
  i_name_ok ApplyExamples.a1 = Ops.check_name (i_dst ApplyExamples.a1) /\
  (forall c0 d ff, map_get (map_of HeapExamples.st0 (q_map HeapExamples.qf0)) HeapExamples.nA = Some c0 ->
                   Frame.lookup_col RefineExamples.f0 HeapExamples.nA = Some d ->
                   Filter.frame_filter [] RefineExamples.f0 ClauseExamples.c1 = Ok ff ->
                   Frame.col_ftype d = Frame.TInt /\
                   link1 HeapExamples.env0 HeapExamples.st0 c0 d 1%N Frame.TInt ApplyExamples.tblA (Frame.ix ff)).
Proof. exact FilteredApplyExamples.filtered_apply1_premises. Qed.

(* heap side of the link for a PROMOTED leaf (column A promoted, argument column A, kernel x + y < 50) and its run:
   mask, float copy and new index are the three allocations, the old arrays are unchanged.  (No L0 leaf is linked
   to it here: qframe promotes only int-vs-float pairs and the example frame has one int column.) *)
Example C01_promoted_leaf_heap_ok :
  leaf_heap_ok2 HeapExamples.env0 HeapExamples.st0 (q_map HeapExamples.qf0) (Frame.ix RefineExamples.f0) PromoteExamples.lfP FilterExamples.PA.
Proof. exact PromoteExamples.lfP_heap_ok. Qed.
Example C01_promoted_leaf_run :
  let '(r, n', st') := run HeapExamples.env0 1 (qf_filter [PromoteExamples.lfP] HeapExamples.qf0) 0 HeapExamples.st0 in
  (match r with Ok q => Some (abs_ix st' (q_idx q)) | _ => None end, n', map (lookup st') [(0, 0); (0, 3); (1, 1)])
  = (Some [1; 3; 2], 3, [lookup HeapExamples.st0 (0, 0); lookup HeapExamples.st0 (0, 3); Some [VZ 30; VZ 10; VZ 5; VZ 20]]).
Proof. exact PromoteExamples.lfP_run. Qed.

(* 12. (wave 7) Proofs/HeapRefine4.v.
       (a) Apply with a LIST of instructions.  op_apply runs the instructions one after the other, each on the frame
           the previous one returned; Ops.apply is the fold of Ops.apply_instr.  The induction over the list is
           parametric in the relation SL that links ONE heap instruction to ONE L0 instruction on a given state
           (store, frame reference, its L0 reading); all it asks of SL is the single-step refinement (step_ok).  The
           premise chain_link says: the head instruction is linked on the current state, and the tail is linked on
           whatever state the head step returns (the run and the L0 step are named in the premise, so that it can be
           discharged by computing them); nothing is asked of the remaining instructions once the frame carries an
           error (CL_err) - an error frame passes through the rest of the chain unchanged on both sides. *)
Require Import QF.Proofs.HeapRefine4.

Theorem C01_refines_apply_chain env dec ut SL t hs is n st qf f :
  step_ok env dec ut SL ->
  ref_ok dec st qf -> abs1 dec st qf = Some f -> store_fresh t n st ->
  chain_link env dec ut SL t n st qf f hs is ->
  exists res n' st', run env t (op_apply hs qf) n st = (res, n', st') /\
                     step_post dec (Ops.apply ut f is) t st res n' st'.
Proof. exact (fun Hs => refines_apply_chain env dec ut SL Hs t hs is n st qf f). Qed.
Print Assumptions C01_refines_apply_chain.

(*     instr_link: one constructor per single-step theorem (C01_refines_apply0: func() T; C01_refines_apply0_colname;
       C01_refines_with_row_nums: the counting closure; C01_refines_apply1; C01_refines_apply2; and the instruction
       whose function has no usable type, which gives an error frame on both sides).  It satisfies step_ok, hence: *)
Theorem C01_instr_link_step_ok env dec ut : dec_apply_ok dec -> step_ok env dec ut (instr_link env).
Proof. exact (instr_link_step_ok env dec ut). Qed.
Print Assumptions C01_instr_link_step_ok.

Theorem C01_refines_apply_list env dec ut t hs is n st qf f :
  dec_apply_ok dec ->
  ref_ok dec st qf -> abs1 dec st qf = Some f -> store_fresh t n st ->
  chain_link env dec ut (instr_link env) t n st qf f hs is ->
  exists res n' st',
    run env t (op_apply hs qf) n st = (res, n', st') /\ keeps st st' /\ store_fresh t n' st' /\
    match res with
    | Ok qf' => ref_ok dec st' qf' /\ exists f', Ops.apply ut f is = Ok f' /\ abs1 dec st' qf' = Some f'
    | Panic => Ops.apply ut f is = Panic
    | Fail => False
    end.
Proof. exact (fun Hd => refines_apply_list env dec ut Hd t hs is n st qf f). Qed.
Print Assumptions C01_refines_apply_list.

(*     FilteredApply with a list of instructions: any clause tree (C01_refines_clause_filter2), then the chain on the
       struct copy that carries the filtered index, index restored. *)
Theorem C01_refines_filtered_apply_list env dec mt ut SL t n st qf f c cl instrs is :
  step_ok env dec ut SL ->
  ref_ok dec st qf -> abs1 dec st qf = Some f -> store_fresh t n st ->
  nonneg (seg_of st (q_idx qf)) ->
  clause_rel2 env mt st (q_map qf) f c cl ->
  (forall fq ff n1 st1, run env t (op_filter c qf) n st = (Ok fq, n1, st1) ->
     keeps st st1 -> store_fresh t n1 st1 -> ref_ok dec st1 fq ->
     Filter.frame_filter mt f cl = Ok ff -> abs1 dec st1 fq = Some ff -> q_err fq = false ->
     chain_link env dec ut SL t n1 st1 (with_index qf (q_idx fq)) (Frame.with_ix f (Frame.ix ff)) instrs is) ->
  exists res n' st',
    run env t (op_filtered_apply c instrs qf) n st = (res, n', st') /\ keeps st st' /\
    match res with
    | Ok q' => ref_ok dec st' q' /\ exists r, Ops.filtered_apply mt ut f cl is = Ok r /\ abs1 dec st' q' = Some r
    | Panic => Ops.filtered_apply mt ut f cl is = Panic
    | Fail => False
    end.
Proof. exact (fun Hs => refines_filtered_apply_chain env dec mt ut SL Hs t n st qf f c cl instrs is). Qed.
Print Assumptions C01_refines_filtered_apply_list.

(*     the premises hold on the example frame for B := fn(A); C := fn(B) (the second instruction reads the column the
       first one made), for a chain whose first instruction names a column that does not exist (error, the rest is
       skipped), and for FilteredApply of the two instructions after the And / Not / Or tree hc1; both sides computed *)
Example C01_chain_link_holds :
  chain_link HeapExamples.env0 dec_std [] (instr_link HeapExamples.env0) 1 0 HeapExamples.st0 HeapExamples.qf0 RefineExamples.f0
             [ApplyExamples.a1; ChainExamples.aB] [ChainExamples.i1; ChainExamples.i2] /\
  chain_link HeapExamples.env0 dec_std [] (instr_link HeapExamples.env0) 1 0 HeapExamples.st0 HeapExamples.qf0 RefineExamples.f0
             [ChainExamples.aZ; ApplyExamples.a1; ChainExamples.aB] [ChainExamples.iZ; ChainExamples.i1; ChainExamples.i2].
Proof. exact (conj ChainExamples.chain_link_12 ChainExamples.chain_link_err). Qed.
Example C01_chain_example :
  (let '(r, _, st') := run HeapExamples.env0 1 (op_apply [ApplyExamples.a1; ChainExamples.aB] HeapExamples.qf0) 0 HeapExamples.st0 in
   match r with Ok q => option_map Ok (abs1 dec_std st' q) | _ => None end)
  = Some (Ops.apply [] RefineExamples.f0 [ChainExamples.i1; ChainExamples.i2]) /\
  Ops.apply [] RefineExamples.f0 [ChainExamples.i1; ChainExamples.i2]
  = Ok (Frame.mkFrame [(HeapExamples.nA, ApplyExamples.dA); (ChainExamples.nB, Frame.ICol [31; 11; 6; 21]%Z);
                       (ChainExamples.nC, Frame.ICol [32; 12; 7; 22]%Z)] [0; 1; 3; 2] false).
Proof. exact ChainExamples.chain_example. Qed.
Example C01_chain_err_example :
  (let '(r, _, st') := run HeapExamples.env0 1 (op_apply [ChainExamples.aZ; ApplyExamples.a1; ChainExamples.aB] HeapExamples.qf0) 0 HeapExamples.st0 in
   match r with Ok q => option_map Ok (abs1 dec_std st' q) | _ => None end)
  = Some (Ops.apply [] RefineExamples.f0 [ChainExamples.iZ; ChainExamples.i1; ChainExamples.i2]) /\
  Ops.apply [] RefineExamples.f0 [ChainExamples.iZ; ChainExamples.i1; ChainExamples.i2] = Ok (Frame.with_err RefineExamples.f0).
Proof. exact ChainExamples.chain_err_example. Qed.
Example C01_filtered_chain_premise_holds :
  forall fq ff n1 st1,
    run HeapExamples.env0 1 (op_filter ClauseExamples.hc1 HeapExamples.qf0) 0 HeapExamples.st0 = (Ok fq, n1, st1) ->
    keeps HeapExamples.st0 st1 -> store_fresh 1 n1 st1 -> ref_ok dec_std st1 fq ->
    Filter.frame_filter [] RefineExamples.f0 ClauseExamples.c1 = Ok ff -> abs1 dec_std st1 fq = Some ff -> q_err fq = false ->
    chain_link HeapExamples.env0 dec_std [] (instr_link HeapExamples.env0) 1 n1 st1 (with_index HeapExamples.qf0 (q_idx fq))
               (Frame.with_ix RefineExamples.f0 (Frame.ix ff)) [ApplyExamples.a1; ChainExamples.aB] [ChainExamples.i1; ChainExamples.i2'].
Proof. exact ChainExamples.filtered_chain_premise. Qed.
Example C01_filtered_chain_example :
  (let '(r, _, st') := run HeapExamples.env0 1 (op_filtered_apply ClauseExamples.hc1 [ApplyExamples.a1; ChainExamples.aB] HeapExamples.qf0) 0 HeapExamples.st0 in
   match r with Ok q => option_map Ok (abs1 dec_std st' q) | _ => None end)
  = Some (Ops.filtered_apply [] [] RefineExamples.f0 ClauseExamples.c1 [ChainExamples.i1; ChainExamples.i2']) /\
  Ops.filtered_apply [] [] RefineExamples.f0 ClauseExamples.c1 [ChainExamples.i1; ChainExamples.i2']
  = Ok (Frame.mkFrame [(HeapExamples.nA, ApplyExamples.dA); (ChainExamples.nB, Frame.ICol [0; 11; 6; 21]%Z);
                       (ChainExamples.nC, Frame.ICol [0; 12; 7; 22]%Z)] [0; 1; 3; 2] false).
Proof. exact ChainExamples.filtered_chain_example. Qed.

(*     (b) Constants.  apply0 with an int / float64 / bool / *string / string constant (qframe.go, apply0): when the
           index covers the column the column is built by New*Const - ONE fresh array of colLen cells, the index is
           not read; otherwise the constant is first converted to a closure `func() T { return t }` and takes the
           func() T path (zero everywhere, the constant at the rows of the index).  The executed heap instruction
           FnConst carries no value (its array holds the zero value of the type): C01_refines_apply0_const_zero.  The
           same program with the cell value v (apply0_constv v; equal to the executed one at v = zero_of rty,
           C01_apply0_constv_zero) refines F0Const (cv tout v): C01_refines_apply0_constv.  The closure conversion IS
           apply0 with a FnCall whose oracle answers the constant: C01_refines_apply0_const_closure (panic - an index
           entry beyond the column - for panic).  Premise length (ix f) = / <> phys_len f: the case split of the code. *)
Theorem C01_apply0_constv_zero a rty qf : i_fn a = FnConst rty -> apply0_constv (zero_of rty) a qf = apply0 a qf.
Proof. exact (apply0_constv_zero a rty qf). Qed.
Print Assumptions C01_apply0_constv_zero.

Theorem C01_refines_apply0_constv env dec t n st qf f a v tout :
  dec_apply_ok dec ->
  ref_ok dec st qf -> abs1 dec st qf = Some f -> store_fresh t n st ->
  i_fn a = FnConst (ty_of tout) -> tout <> Frame.TEnum -> i_name_ok a = Ops.check_name (i_dst a) ->
  length (Frame.ix f) = Frame.phys_len f ->
  exists qf' n' st',
    run env t (apply0_constv v a qf) n st = (Ok qf', n', st') /\ keeps st st' /\ store_fresh t n' st' /\
    ref_ok dec st' qf' /\
    exists f', Ops.apply0 f (Ops.F0Const (cv tout v)) (i_dst a) = Ok f' /\ abs1 dec st' qf' = Some f'.
Proof. exact (fun Hd => refines_apply0_constv env dec Hd t n st qf f a v tout). Qed.
Print Assumptions C01_refines_apply0_constv.

Theorem C01_refines_apply0_const_zero env dec t n st qf f a tout :
  dec_apply_ok dec ->
  ref_ok dec st qf -> abs1 dec st qf = Some f -> store_fresh t n st ->
  i_fn a = FnConst (ty_of tout) -> tout <> Frame.TEnum -> i_name_ok a = Ops.check_name (i_dst a) ->
  length (Frame.ix f) = Frame.phys_len f ->
  exists qf' n' st',
    run env t (apply0 a qf) n st = (Ok qf', n', st') /\ keeps st st' /\ store_fresh t n' st' /\
    ref_ok dec st' qf' /\
    exists f', Ops.apply0 f (Ops.F0Const (Ops.zero_cell tout)) (i_dst a) = Ok f' /\ abs1 dec st' qf' = Some f'.
Proof. exact (fun Hd => refines_apply0_const_zero env dec Hd t n st qf f a tout). Qed.
Print Assumptions C01_refines_apply0_const_zero.

Theorem C01_refines_apply0_const_closure env dec t n st qf f a fn tout c :
  dec_apply_ok dec ->
  ref_ok dec st qf -> abs1 dec st qf = Some f -> store_fresh t n st ->
  i_fn a = FnCall fn (ty_of tout) -> tout <> Frame.TEnum -> i_name_ok a = Ops.check_name (i_dst a) ->
  cv tout (scalar (env fn [])) = c -> length (Frame.ix f) <> Frame.phys_len f ->
  exists res n' st',
    run env t (apply0 a qf) n st = (res, n', st') /\ keeps st st' /\ store_fresh t n' st' /\
    match res with
    | Ok qf' => ref_ok dec st' qf' /\
                exists f', Ops.apply0 f (Ops.F0Const c) (i_dst a) = Ok f' /\ abs1 dec st' qf' = Some f'
    | Panic => Ops.apply0 f (Ops.F0Const c) (i_dst a) = Panic
    | Fail => False
    end.
Proof. exact (fun Hd => refines_apply0_const_closure env dec Hd t n st qf f a fn tout c). Qed.
Print Assumptions C01_refines_apply0_const_closure.

Example C01_const_zero_premises_hold :
  ref_ok dec_std HeapExamples.st0 HeapExamples.qf0 /\ abs1 dec_std HeapExamples.st0 HeapExamples.qf0 = Some RefineExamples.f0 /\
  store_fresh 1 0 HeapExamples.st0 /\
  i_fn ConstExamples.aK = FnConst (ty_of Frame.TInt) /\ Frame.TInt <> Frame.TEnum /\
  i_name_ok ConstExamples.aK = Ops.check_name (i_dst ConstExamples.aK) /\
  length (Frame.ix RefineExamples.f0) = Frame.phys_len RefineExamples.f0.
Proof. exact ConstExamples.const_zero_premises. Qed.
Example C01_const_zero_example :
  (let '(r, _, st') := run HeapExamples.env0 1 (apply0 ConstExamples.aK HeapExamples.qf0) 0 HeapExamples.st0 in
   match r with Ok q => option_map Ok (abs1 dec_std st' q) | _ => None end)
  = Some (Ops.apply0 RefineExamples.f0 (Ops.F0Const (Frame.CInt 0)) ConstExamples.nB) /\
  Ops.apply0 RefineExamples.f0 (Ops.F0Const (Frame.CInt 0)) ConstExamples.nB
  = Ok (Frame.mkFrame [(HeapExamples.nA, ApplyExamples.dA); (ConstExamples.nB, Frame.ICol [0; 0; 0; 0]%Z)] [0; 1; 3; 2] false).
Proof. exact ConstExamples.const_zero_example. Qed.
Example C01_constv_example :
  (let '(r, _, st') := run HeapExamples.env0 1 (apply0_constv (VZ 7) ConstExamples.aK HeapExamples.qf0) 0 HeapExamples.st0 in
   match r with Ok q => option_map Ok (abs1 dec_std st' q) | _ => None end)
  = Some (Ops.apply0 RefineExamples.f0 (Ops.F0Const (Frame.CInt 7)) ConstExamples.nB) /\
  Ops.apply0 RefineExamples.f0 (Ops.F0Const (Frame.CInt 7)) ConstExamples.nB
  = Ok (Frame.mkFrame [(HeapExamples.nA, ApplyExamples.dA); (ConstExamples.nB, Frame.ICol [7; 7; 7; 7]%Z)] [0; 1; 3; 2] false).
Proof. exact ConstExamples.constv_example. Qed.
(* the slice [0, 3) of the example frame has 3 of the 4 rows; the oracle answers 7 on the empty argument list *)
Example C01_const_closure_premises_hold :
  ref_ok dec_std HeapExamples.st0 HeapExamples.sl0 /\ abs1 dec_std HeapExamples.st0 HeapExamples.sl0 = Some ConstExamples.fs /\
  i_fn ConstExamples.aC = FnCall 1%N (ty_of Frame.TInt) /\ Frame.TInt <> Frame.TEnum /\
  i_name_ok ConstExamples.aC = Ops.check_name (i_dst ConstExamples.aC) /\
  cv Frame.TInt (scalar (HeapExamples.env0 1%N [])) = Frame.CInt 7 /\
  length (Frame.ix ConstExamples.fs) <> Frame.phys_len ConstExamples.fs.
Proof. exact ConstExamples.const_closure_premises. Qed.
Example C01_const_closure_example :
  (let '(r, _, st') := run HeapExamples.env0 1 (apply0 ConstExamples.aC HeapExamples.sl0) 0 HeapExamples.st0 in
   match r with Ok q => option_map Ok (abs1 dec_std st' q) | _ => None end)
  = Some (Ops.apply0 ConstExamples.fs (Ops.F0Const (Frame.CInt 7)) ConstExamples.nB) /\
  Ops.apply0 ConstExamples.fs (Ops.F0Const (Frame.CInt 7)) ConstExamples.nB
  = Ok (Frame.mkFrame [(HeapExamples.nA, ApplyExamples.dA); (ConstExamples.nB, Frame.ICol [7; 7; 0; 7]%Z)] [0; 1; 3] false).
Proof. exact ConstExamples.const_closure_example. Qed.

(*     (c) The built-in ToUpper.  scolumn.toUpper allocates the pointer array, the byte array and the upper-casing buffer
           on EVERY call (C01_upper_s_arrays: three fresh arrays; the loop over the index writes pointers[i], appends to
           the byte array - in place or into a larger fresh array - and lets strings.ToUpper write into / replace the
           buffer; nothing else changes: keeps); an empty column is returned as it is.  ecolumn.toUpper rebuilds the
           value table (fresh newValues, fresh oldToNew) and SHARES the rank array with the source column unless two
           values merge, in which case the rank array is copied (C01_upper_e_arrays).  The heap level does not
           interpret strings: how many bytes a row needs, what its upper-cased bytes are and whether values merge are
           parameters of the instruction.  THE LINK (upper_s_link / upper_e_link) is therefore stated on the arrays:
           the L0 column is a string / enum column and the decoder reads the arrays the heap program builds
           (upper_pure: the final pointer and byte arrays) as the column Ops.s_to_upper / Ops.e_to_upper computes from
           the upper-casing table, panic (index entry beyond the column) for panic.  Under it Apply(ToUpper) refines
           Ops.apply1 with FBuiltin "ToUpper". *)
Theorem C01_upper_s_arrays env t n st c need up qf :
  in_bounds st (q_idx qf) -> parts_in_bounds st c -> store_fresh t n st -> col_len c <> 0 ->
  exists res n' st',
    run env t (upper_s need up c qf) n st = (res, n', st') /\ keeps st st' /\ store_fresh t n' st' /\
    match res with
    | Ok w => fst w = ty_string /\ Forall (in_bounds st') (snd w) /\
              exists P D, map (seg_of st') (snd w) = [P; D] /\
                          upper_pure st c up (map as_z (seg_of st (q_idx qf))) (repeat (VZ 0) (col_len c)) [] = Ok (P, D)
    | Panic => upper_pure st c up (map as_z (seg_of st (q_idx qf))) (repeat (VZ 0) (col_len c)) [] = Panic
    | Fail => False
    end.
Proof. exact (upper_s_spec env t n st c need up qf). Qed.
Print Assumptions C01_upper_s_arrays.

Theorem C01_upper_e_arrays env t n st c merged data values :
  c_parts c = [data; values] -> parts_in_bounds st c -> store_fresh t n st ->
  exists w n' st',
    run env t (upper_e merged c) n st = (Ok w, n', st') /\ keeps st st' /\ store_fresh t n' st' /\
    fst w = ty_enum /\ Forall (in_bounds st') (snd w) /\
    map (seg_of st') (snd w) =
    [if merged (seg_of st values) then map VZ (map as_z (seg_of st data)) else seg_of st data;
     map scalar (seg_of st values)].
Proof. exact (upper_e_spec env t n st c merged data values). Qed.
Print Assumptions C01_upper_e_arrays.

Theorem C01_refines_apply1_upper_s env dec ut t n st qf f a src need up :
  dec_apply_ok dec ->
  ref_ok dec st qf -> abs1 dec st qf = Some f -> store_fresh t n st ->
  i_fn a = FnUpperS need up -> i_name_ok a = Ops.check_name (i_dst a) ->
  (forall c d0, map_get (map_of st (q_map qf)) src = Some c -> Frame.lookup_col f src = Some d0 ->
                upper_s_link dec ut st qf f c d0 up) ->
  exists res n' st',
    run env t (apply1 a src qf) n st = (res, n', st') /\ keeps st st' /\ store_fresh t n' st' /\
    match res with
    | Ok qf' => ref_ok dec st' qf' /\
                exists f', Ops.apply1 ut f (Ops.FBuiltin Ops.name_ToUpper) (i_dst a) src = Ok f' /\ abs1 dec st' qf' = Some f'
    | Panic => Ops.apply1 ut f (Ops.FBuiltin Ops.name_ToUpper) (i_dst a) src = Panic
    | Fail => False
    end.
Proof. exact (fun Hd => refines_apply1_upper_s env dec Hd ut t n st qf f a src need up). Qed.
Print Assumptions C01_refines_apply1_upper_s.

Theorem C01_refines_apply1_upper_e env dec ut t n st qf f a src merged :
  ref_ok dec st qf -> abs1 dec st qf = Some f -> store_fresh t n st ->
  i_fn a = FnUpperE merged -> i_name_ok a = Ops.check_name (i_dst a) ->
  (forall c d0, map_get (map_of st (q_map qf)) src = Some c -> Frame.lookup_col f src = Some d0 ->
                upper_e_link dec ut st c d0 merged) ->
  exists qf' n' st',
    run env t (apply1 a src qf) n st = (Ok qf', n', st') /\ keeps st st' /\ store_fresh t n' st' /\
    ref_ok dec st' qf' /\
    exists f', Ops.apply1 ut f (Ops.FBuiltin Ops.name_ToUpper) (i_dst a) src = Ok f' /\ abs1 dec st' qf' = Some f'.
Proof. exact (refines_apply1_upper_e env dec ut t n st qf f a src merged). Qed.
Print Assumptions C01_refines_apply1_upper_e.

(*     instr_link2 = instr_link + the constants + ToUpper; it satisfies step_ok, so C01_refines_apply_chain and
       C01_refines_filtered_apply_list hold for chains over all these instruction kinds *)
Theorem C01_instr_link2_step_ok env dec ut : dec_apply_ok dec -> step_ok env dec ut (instr_link2 env dec ut).
Proof. exact (instr_link2_step_ok env dec ut). Qed.
Print Assumptions C01_instr_link2_step_ok.

(*     the links hold (dec_std) for a string column ["ab"; "c"] and for an enum column over the values ["A"; "B"]; both
       sides computed; the string run makes 6 allocations and leaves every old array as it was; the enum result shares
       the rank array (0, 3) with the source column and has a fresh value table *)
Example C01_upper_s_premises_hold :
  ref_ok dec_std UpperExamples.stS UpperExamples.qfS /\ abs1 dec_std UpperExamples.stS UpperExamples.qfS = Some UpperExamples.fS /\
  store_fresh 1 0 UpperExamples.stS /\
  i_fn UpperExamples.aU = FnUpperS UpperExamples.needS UpperExamples.upS /\
  i_name_ok UpperExamples.aU = Ops.check_name (i_dst UpperExamples.aU) /\
  (forall c d0, map_get (map_of UpperExamples.stS (q_map UpperExamples.qfS)) UpperExamples.nS = Some c ->
                Frame.lookup_col UpperExamples.fS UpperExamples.nS = Some d0 ->
                upper_s_link dec_std UpperExamples.utS UpperExamples.stS UpperExamples.qfS UpperExamples.fS c d0 UpperExamples.upS).
Proof. exact UpperExamples.upper_s_premises. Qed.
Example C01_upper_s_example :
  (let '(r, _, st') := run HeapExamples.env0 1 (apply1 UpperExamples.aU UpperExamples.nS UpperExamples.qfS) 0 UpperExamples.stS in
   match r with Ok q => option_map Ok (abs1 dec_std st' q) | _ => None end)
  = Some (Ops.apply1 UpperExamples.utS UpperExamples.fS (Ops.FBuiltin Ops.name_ToUpper) UpperExamples.nU UpperExamples.nS) /\
  Ops.apply1 UpperExamples.utS UpperExamples.fS (Ops.FBuiltin Ops.name_ToUpper) UpperExamples.nU UpperExamples.nS
  = Ok (Frame.mkFrame [(UpperExamples.nS, Frame.SCol [Some [97%N; 98%N]; Some [99%N]]);
                       (UpperExamples.nU, Frame.SCol [Some [65%N; 66%N]; Some [67%N]])] [0; 1] false).
Proof. exact UpperExamples.upper_s_example. Qed.
Example C01_upper_s_allocations :
  let '(_, n', st') := run HeapExamples.env0 1 (apply1 UpperExamples.aU UpperExamples.nS UpperExamples.qfS) 0 UpperExamples.stS in
  (n', map (lookup st') [(0, 0); (0, 1); (0, 2); (0, 3); (0, 4)])
  = (6, map (lookup UpperExamples.stS) [(0, 0); (0, 1); (0, 2); (0, 3); (0, 4)]).
Proof. exact UpperExamples.upper_s_allocations. Qed.
Example C01_upper_e_premises_hold :
  ref_ok dec_std UpperExamples.stE UpperExamples.qfE /\ abs1 dec_std UpperExamples.stE UpperExamples.qfE = Some UpperExamples.fE /\
  store_fresh 1 0 UpperExamples.stE /\
  i_fn UpperExamples.aE = FnUpperE (fun _ => false) /\ i_name_ok UpperExamples.aE = Ops.check_name (i_dst UpperExamples.aE) /\
  (forall c d0, map_get (map_of UpperExamples.stE (q_map UpperExamples.qfE)) UpperExamples.nE = Some c ->
                Frame.lookup_col UpperExamples.fE UpperExamples.nE = Some d0 ->
                upper_e_link dec_std UpperExamples.utE UpperExamples.stE c d0 (fun _ => false)).
Proof. exact UpperExamples.upper_e_premises. Qed.
Example C01_upper_e_example :
  (let '(r, _, st') := run HeapExamples.env0 1 (apply1 UpperExamples.aE UpperExamples.nE UpperExamples.qfE) 0 UpperExamples.stE in
   match r with Ok q => option_map Ok (abs1 dec_std st' q) | _ => None end)
  = Some (Ops.apply1 UpperExamples.utE UpperExamples.fE (Ops.FBuiltin Ops.name_ToUpper) UpperExamples.nU UpperExamples.nE) /\
  (let '(r, _, st') := run HeapExamples.env0 1 (apply1 UpperExamples.aE UpperExamples.nE UpperExamples.qfE) 0 UpperExamples.stE in
   match r with Ok q => map (fun c => map s_base (c_parts c)) (hdr_of st' (q_cols q)) | _ => [] end)
  = [[(0, 3); (0, 4)]; [(0, 3); (1, 0)]].
Proof. exact UpperExamples.upper_e_example. Qed.

(*     (d) Leaves whose Column.Filter FAILS.  QFrame.filter returns qf.withErr(...) when the column of a leaf is unknown,
           when its argument column is unknown, or when Column.Filter returns an error (unknown comparator, argument of
           the wrong type: the flag lf_bad of the heap leaf; the promotions and the second mask have been allocated by
           then).  The leaves before it in the batch have been evaluated (they may have panicked), the leaves after it
           are not looked at.  leaf_link3 = leaf_link2, or: the heap leaf fails for one of these three reasons
           (leaf_heap_bad) and the leaf step of Model/Filter.v answers with an error on every sub-index of the rows
           (l0_fails).  A batch over such leaves is refined by QFrame.filter (error frame for error frame, panic for
           panic), and so is every clause tree over them (clause_rel3 = the generic crel at leaf_link3; it contains
           clause_rel2 and hence clause_rel); FilteredApply of such a tree followed by a chain of instructions. *)
Theorem C01_leaf_link2_link3 env mt st0 m f hl l : leaf_link2 env mt st0 m f hl l -> leaf_link3 env mt st0 m f hl l.
Proof. exact (leaf_link2_link3 env mt st0 m f hl l). Qed.
Print Assumptions C01_leaf_link2_link3.

(* the heap side alone: a failing leaf makes the leaf step return the error, touching nothing that existed *)
Theorem C01_leaf_step_bad env t st0 qf b hl n st :
  keeps st0 st -> store_fresh t n st -> map_of st (q_map qf) = map_of st0 (q_map qf) ->
  leaf_heap_bad st0 (q_map qf) hl ->
  exists n' st', run env t (leaf_step qf b hl) n st = (Fail, n', st') /\ keeps st0 st' /\ store_fresh t n' st'.
Proof. exact (leaf_step_bad env t st0 qf b hl n st). Qed.
Print Assumptions C01_leaf_step_bad.

Theorem C01_refines_filter_leaves3 env dec mt t n st qf f i0 hls ls :
  ref_ok dec st qf -> abs1 dec st qf = Some (Frame.with_ix f i0) -> incl i0 (Frame.ix f) ->
  store_fresh t n st ->
  Forall2 (leaf_link3 env mt st (q_map qf) f) hls ls ->
  exists res n' st',
    run env t (qf_filter hls qf) n st = (res, n', st') /\ keeps st st' /\ store_fresh t n' st' /\
    match res with
    | Ok qf' => ref_ok dec st' qf' /\ q_map qf' = q_map qf /\
                (nonneg (seg_of st (q_idx qf)) -> nonneg (seg_of st' (q_idx qf'))) /\
                exists f', Filter.filter_leaves mt (Frame.with_ix f i0) ls = Ok f' /\ abs1 dec st' qf' = Some f'
    | Panic => Filter.filter_leaves mt (Frame.with_ix f i0) ls = Panic
    | Fail => False
    end.
Proof. exact (refines_filter_leaves3 env dec mt t n st qf f i0 hls ls). Qed.
Print Assumptions C01_refines_filter_leaves3.

Theorem C01_clause_rel2_rel3 env mt st m f c cl : clause_rel2 env mt st m f c cl -> clause_rel3 env mt st m f c cl.
Proof. exact (clause_rel2_rel3 env mt st m f c cl). Qed.
Print Assumptions C01_clause_rel2_rel3.

Theorem C01_refines_clause_filter3 env dec mt t n st qf f c cl :
  ref_ok dec st qf -> abs1 dec st qf = Some f -> store_fresh t n st ->
  nonneg (seg_of st (q_idx qf)) ->
  clause_rel3 env mt st (q_map qf) f c cl ->
  exists res n' st',
    run env t (op_filter c qf) n st = (res, n', st') /\ keeps st st' /\ store_fresh t n' st' /\
    match res with
    | Ok qf' => ref_ok dec st' qf' /\ exists f', Filter.frame_filter mt f cl = Ok f' /\ abs1 dec st' qf' = Some f'
    | Panic => Filter.frame_filter mt f cl = Panic
    | Fail => False
    end.
Proof. exact (refines_clause_filter3 env dec mt t n st qf f c cl). Qed.
Print Assumptions C01_refines_clause_filter3.

Theorem C01_refines_filtered_apply_list3 env dec mt ut SL t n st qf f c cl instrs is :
  step_ok env dec ut SL ->
  ref_ok dec st qf -> abs1 dec st qf = Some f -> store_fresh t n st ->
  nonneg (seg_of st (q_idx qf)) ->
  clause_rel3 env mt st (q_map qf) f c cl ->
  (forall fq ff n1 st1, run env t (op_filter c qf) n st = (Ok fq, n1, st1) ->
     keeps st st1 -> store_fresh t n1 st1 -> ref_ok dec st1 fq ->
     Filter.frame_filter mt f cl = Ok ff -> abs1 dec st1 fq = Some ff -> q_err fq = false ->
     chain_link env dec ut SL t n1 st1 (with_index qf (q_idx fq)) (Frame.with_ix f (Frame.ix ff)) instrs is) ->
  exists res n' st',
    run env t (op_filtered_apply c instrs qf) n st = (res, n', st') /\ keeps st st' /\
    match res with
    | Ok q' => ref_ok dec st' q' /\ exists r, Ops.filtered_apply mt ut f cl is = Ok r /\ abs1 dec st' q' = Some r
    | Panic => Ops.filtered_apply mt ut f cl is = Panic
    | Fail => False
    end.
Proof. exact (fun Hs => refines_filtered_apply_chain3 env dec mt ut SL Hs t n st qf f c cl instrs is). Qed.
Print Assumptions C01_refines_filtered_apply_list3.

(*     the link holds for a leaf on a column Z that does not exist (and for its toggled twin under Not), for a leaf on
       column A whose comparator is rejected, and for the good leaf A < 25; a batch [good; failing; good]; the trees
       A < 25 AND (A < 25 OR Z < 25) (the Or batch fails on the narrowed frame) and NOT (Z < 25) OR A < 25; FilteredApply
       of the latter: the error frame is returned and no instruction runs; both sides computed *)
Example C01_leaf_link3_holds :
  leaf_link3 HeapExamples.env0 [] HeapExamples.st0 (q_map HeapExamples.qf0) RefineExamples.f0 BadLeafExamples.lfZ BadLeafExamples.lZ /\
  leaf_link3 HeapExamples.env0 [] HeapExamples.st0 (q_map HeapExamples.qf0) RefineExamples.f0
             (toggle BadLeafExamples.lfZ) (Filter.invert_leaf BadLeafExamples.lZ) /\
  leaf_link3 HeapExamples.env0 [] HeapExamples.st0 (q_map HeapExamples.qf0) RefineExamples.f0 BadLeafExamples.lfBad BadLeafExamples.lBad /\
  Forall2 (leaf_link3 HeapExamples.env0 [] HeapExamples.st0 (q_map HeapExamples.qf0) RefineExamples.f0)
          [HeapExamples.lfA; BadLeafExamples.lfBad; HeapExamples.lfA] [FilterExamples.l0A; BadLeafExamples.lBad; FilterExamples.l0A].
Proof.
  exact (conj BadLeafExamples.lfZ_link (conj BadLeafExamples.lfZ_not_link (conj BadLeafExamples.lfBad_link BadLeafExamples.batch_links))).
Qed.
Example C01_bad_batch_example :
  (let '(r, _, st') := run HeapExamples.env0 1 (qf_filter [HeapExamples.lfA; BadLeafExamples.lfBad; HeapExamples.lfA] HeapExamples.qf0) 0 HeapExamples.st0 in
   match r with Ok q => option_map Ok (abs1 dec_std st' q) | _ => None end)
  = Some (Filter.filter_leaves [] RefineExamples.f0 [FilterExamples.l0A; BadLeafExamples.lBad; FilterExamples.l0A]) /\
  Filter.filter_leaves [] RefineExamples.f0 [FilterExamples.l0A; BadLeafExamples.lBad; FilterExamples.l0A]
  = Ok (Frame.with_err RefineExamples.f0).
Proof. exact BadLeafExamples.batch_example. Qed.
Example C01_clause_rel3_holds :
  clause_rel3 HeapExamples.env0 [] HeapExamples.st0 (q_map HeapExamples.qf0) RefineExamples.f0 BadLeafExamples.hc5 BadLeafExamples.c5 /\
  clause_rel3 HeapExamples.env0 [] HeapExamples.st0 (q_map HeapExamples.qf0) RefineExamples.f0 BadLeafExamples.hc6 BadLeafExamples.c6.
Proof. exact (conj BadLeafExamples.clause_rel3_5 BadLeafExamples.clause_rel3_6). Qed.
Example C01_clause3_example_5 :
  (let '(r, _, st') := run HeapExamples.env0 1 (op_filter BadLeafExamples.hc5 HeapExamples.qf0) 0 HeapExamples.st0 in
   match r with Ok q => option_map Ok (abs1 dec_std st' q) | _ => None end)
  = Some (Filter.frame_filter [] RefineExamples.f0 BadLeafExamples.c5) /\
  Filter.frame_filter [] RefineExamples.f0 BadLeafExamples.c5 = Ok (Frame.with_err (Frame.with_ix RefineExamples.f0 [1; 3; 2])).
Proof. exact BadLeafExamples.clause_example_5. Qed.
Example C01_clause3_example_6 :
  (let '(r, _, st') := run HeapExamples.env0 1 (op_filter BadLeafExamples.hc6 HeapExamples.qf0) 0 HeapExamples.st0 in
   match r with Ok q => option_map Ok (abs1 dec_std st' q) | _ => None end)
  = Some (Filter.frame_filter [] RefineExamples.f0 BadLeafExamples.c6) /\
  Filter.frame_filter [] RefineExamples.f0 BadLeafExamples.c6 = Ok (Frame.with_err RefineExamples.f0).
Proof. exact BadLeafExamples.clause_example_6. Qed.
Example C01_filtered_bad_example :
  (let '(r, n', st') := run HeapExamples.env0 1 (op_filtered_apply BadLeafExamples.hc6 [ApplyExamples.a1] HeapExamples.qf0) 0 HeapExamples.st0 in
   match r with Ok q => option_map Ok (abs1 dec_std st' q) | _ => None end)
  = Some (Ops.filtered_apply [] [] RefineExamples.f0 BadLeafExamples.c6 [ChainExamples.i1]) /\
  Ops.filtered_apply [] [] RefineExamples.f0 BadLeafExamples.c6 [ChainExamples.i1] = Ok (Frame.with_err RefineExamples.f0).
Proof. exact BadLeafExamples.filtered_bad_example. Qed.

(*     (e) Distinct.  grouper.Distinct allocates its hash table (and every larger table it grows into) and its result
           index on every call.  The heap program (probe, table_place, grow_table, insert_entry, group_index,
           grouper_distinct of Model/HeapOps.v) is simulated STEP BY STEP by the table of Model/Grouper.v: an entry array
           reads as the list of slots (abs_slot), the first table has the size of newTable (C01_initial_size_pow), the
           load test `len < 2 * count` is `loadFactor > 0.5`, linear probing with wrap-around is `(pos + 1) & mask`,
           grow relocates every slot of the old array (the unoccupied ones too) into a fresh array of twice the size,
           a new group writes ONE slot, an existing group writes nothing, the result index holds firstPos of every
           occupied slot in slot order; fuel exhaustion is a panic on both sides.  THE LINK (premises of the table
           theorem / key_link): every row of the index has its key cells, the hash the heap run uses (gp_hash) is the
           uint32 cast of the L0 hash of the row, its key equality (gp_eq) is the L0 key equality.  Size premise:
           4 * rows < 2^32 (Go computes table sizes in uint32).  Then QFrame.Distinct: error frame, empty index, unknown
           column, all columns when none is named, the key columns looked up by name (C01_refines_distinct_with,
           parametric in the L0 reading dst of grouper.Distinct), and, composed, against the executed
           Aggregate.distinct (C01_refines_distinct).  Not covered: a row of the index outside a key column (both
           sides panic). *)
Theorem C01_initial_size_pow n :
  N.of_nat (initial_size n) = (2 ^ Grouper.calculate_initial_size_exp (N.of_nat n))%N.
Proof. exact (initial_size_pow n). Qed.
Print Assumptions C01_initial_size_pow.

Theorem C01_refines_grouper_distinct env t st0 cols gp eqb hash ixs ix n st :
  Forall (parts_in_bounds st0) cols ->
  (forall i, In i ixs -> exists ci, cells_val st0 cols i = Ok ci) ->
  (forall i ci, In i ixs -> cells_val st0 cols i = Ok ci -> gp_hash gp i ci = Z.of_N (Grouper.u32 (hash (row i)))) ->
  (forall i j ci cj, In i ixs -> In j ixs -> cells_val st0 cols i = Ok ci -> cells_val st0 cols j = Ok cj ->
                     gp_eq gp i j ci cj = eqb (row i) (row j)) ->
  (4 * N.of_nat (length ixs) < 2 ^ 32)%N ->
  in_bounds st0 ix -> map as_z (seg_of st0 ix) = ixs -> keeps st0 st -> store_fresh t n st ->
  exists res n' st',
    run env t (grouper_distinct gp cols ix) n st = (res, n', st') /\ keeps st0 st' /\ store_fresh t n' st' /\
    match Grouper.distinct_ids eqb hash (map row ixs) with
    | Ok d => exists nix, res = Ok nix /\ in_bounds st' nix /\ abs_ix st' nix = d
    | Panic => res = Panic
    | Fail => False
    end.
Proof. exact (fun H1 H2 H3 H4 H5 => refines_grouper_distinct env t st0 cols gp eqb hash ixs H1 H2 H3 H4 H5 ix n st). Qed.
Print Assumptions C01_refines_grouper_distinct.

Theorem C01_refines_distinct_with env dec dst gp t n st qf f names :
  ref_ok dec st qf -> abs1 dec st qf = Some f -> store_fresh t n st ->
  (forall cols kcols,
      run env t (lookup_cols (q_map qf) (match names with [] => Frame.col_names f | _ => names end)) n st = (Ok cols, n, st) ->
      Aggregate.named_cols f (match names with [] => Frame.col_names f | _ => names end) = Ok kcols ->
      Forall (parts_in_bounds st) cols ->
      exists res n' st',
        run env t (grouper_distinct gp cols (q_idx qf)) n st = (res, n', st') /\ keeps st st' /\ store_fresh t n' st' /\
        match dst kcols (Frame.ix f) with
        | Ok d => exists nix, res = Ok nix /\ in_bounds st' nix /\ abs_ix st' nix = d
        | Panic => res = Panic
        | Fail => False
        end) ->
  exists res n' st',
    run env t (op_distinct gp names qf) n st = (res, n', st') /\ keeps st st' /\ store_fresh t n' st' /\
    match res with
    | Ok qf' => ref_ok dec st' qf' /\ exists f', Aggregate.distinct_with dst f names = Ok f' /\ abs1 dec st' qf' = Some f'
    | Panic => Aggregate.distinct_with dst f names = Panic
    | Fail => False
    end.
Proof. exact (refines_distinct_with env dec dst gp t n st qf f names). Qed.
Print Assumptions C01_refines_distinct_with.

Theorem C01_refines_distinct env dec memhash rnd nulleq gp t n st qf f names :
  ref_ok dec st qf -> abs1 dec st qf = Some f -> store_fresh t n st ->
  (4 * N.of_nat (length (Frame.ix f)) < 2 ^ 32)%N ->
  (forall cols kcols,
      run env t (lookup_cols (q_map qf) (match names with [] => Frame.col_names f | _ => names end)) n st = (Ok cols, n, st) ->
      Aggregate.named_cols f (match names with [] => Frame.col_names f | _ => names end) = Ok kcols ->
      key_link st cols kcols gp (Aggregate.key_eqb nulleq kcols) (Aggregate.key_hash memhash rnd nulleq kcols)
               (map as_z (seg_of st (q_idx qf)))) ->
  exists res n' st',
    run env t (op_distinct gp names qf) n st = (res, n', st') /\ keeps st st' /\ store_fresh t n' st' /\
    match res with
    | Ok qf' => ref_ok dec st' qf' /\ exists f', Aggregate.distinct memhash rnd nulleq f names = Ok f' /\ abs1 dec st' qf' = Some f'
    | Panic => Aggregate.distinct memhash rnd nulleq f names = Panic
    | Fail => False
    end.
Proof. exact (refines_distinct env dec memhash rnd nulleq gp t n st qf f names). Qed.
Print Assumptions C01_refines_distinct.

(*     the premises hold for a frame with the int column A = [30; 10; 30; 5; 10] (hash = low byte of the value, equality =
       equality of the values); both sides computed: one row per value, in the slot order 10, 5, 30 of the 8-slot table;
       the run makes 2 allocations (table, result index) and leaves every old array as it was *)
Example C01_distinct_premises_hold :
  ref_ok dec_std DistinctExamples.stD DistinctExamples.qfD /\
  abs1 dec_std DistinctExamples.stD DistinctExamples.qfD = Some DistinctExamples.fD /\ store_fresh 1 0 DistinctExamples.stD /\
  (4 * N.of_nat (length (Frame.ix DistinctExamples.fD)) < 2 ^ 32)%N /\
  (forall cols kcols,
      run HeapExamples.env0 1 (lookup_cols (q_map DistinctExamples.qfD) [HeapExamples.nA]) 0 DistinctExamples.stD
      = (Ok cols, 0, DistinctExamples.stD) ->
      Aggregate.named_cols DistinctExamples.fD [HeapExamples.nA] = Ok kcols ->
      key_link DistinctExamples.stD cols kcols DistinctExamples.gpD (Aggregate.key_eqb false kcols)
               (Aggregate.key_hash DistinctExamples.memhashD DistinctExamples.rndD false kcols)
               (map as_z (seg_of DistinctExamples.stD (q_idx DistinctExamples.qfD)))).
Proof. exact DistinctExamples.distinct_premises. Qed.
Example C01_distinct_example :
  (let '(r, _, st') := run HeapExamples.env0 1 (op_distinct DistinctExamples.gpD [HeapExamples.nA] DistinctExamples.qfD) 0 DistinctExamples.stD in
   match r with Ok q => option_map Ok (abs1 dec_std st' q) | _ => None end)
  = Some (Aggregate.distinct DistinctExamples.memhashD DistinctExamples.rndD false DistinctExamples.fD [HeapExamples.nA]) /\
  Aggregate.distinct DistinctExamples.memhashD DistinctExamples.rndD false DistinctExamples.fD [HeapExamples.nA]
  = Ok (Frame.with_ix DistinctExamples.fD [1; 3; 0]).
Proof. exact DistinctExamples.distinct_example. Qed.
Example C01_distinct_allocations :
  let '(_, n', st') := run HeapExamples.env0 1 (op_distinct DistinctExamples.gpD [HeapExamples.nA] DistinctExamples.qfD) 0 DistinctExamples.stD in
  (n', map (lookup st') [(0, 0); (0, 1); (0, 2); (0, 3)]) = (2, map (lookup DistinctExamples.stD) [(0, 0); (0, 1); (0, 2); (0, 3)]).
Proof. exact DistinctExamples.distinct_allocations. Qed.

(*     (f) GroupBy.  As Distinct, but an occupied slot also owns the index slice of its group: nil while the group has
           one member, index.Int{firstPos, i} (a fresh array) from the second member on, then append (in place or into a
           larger fresh array).  A slot of the heap table therefore reads as an L0 slot THROUGH THE STORE (abs_slot_g);
           the invariant of the simulation says that the group slices live in arrays the call allocated, pairwise
           different and different from the table arrays (arr_inv), so that appending to one group touches neither the
           other groups nor the table.  The result []index.Int holds, in slot order, the slice the slot owns or a
           fresh one-element slice.  The grouper returned by QFrame.GroupBy shares the headers and the by-name map of the
           frame (and, without key columns, its index: one group); it is well-formed (grouper_ok) and reads (abs_g) as
           what Aggregate.group_by returns.  Same link and size premise as for Distinct. *)
Theorem C01_refines_grouper_group_by env t st0 cols gp eqb hash ixs ix n st :
  Forall (parts_in_bounds st0) cols ->
  (forall i, In i ixs -> exists ci, cells_val st0 cols i = Ok ci) ->
  (forall i ci, In i ixs -> cells_val st0 cols i = Ok ci -> gp_hash gp i ci = Z.of_N (Grouper.u32 (hash (row i)))) ->
  (forall i j ci cj, In i ixs -> In j ixs -> cells_val st0 cols i = Ok ci -> cells_val st0 cols j = Ok cj ->
                     gp_eq gp i j ci cj = eqb (row i) (row j)) ->
  (4 * N.of_nat (length ixs) < 2 ^ 32)%N ->
  in_bounds st0 ix -> map as_z (seg_of st0 ix) = ixs -> keeps st0 st -> store_fresh t n st ->
  exists res n' st',
    run env t (grouper_group_by gp cols ix) n st = (res, n', st') /\ keeps st0 st' /\ store_fresh t n' st' /\
    match Grouper.group_ids eqb hash (map row ixs) with
    | Ok gs => exists ind, res = Ok ind /\ in_bounds st' ind /\
                           Forall (in_bounds st') (map as_slice (seg_of st' ind)) /\
                           map (abs_ix st') (map as_slice (seg_of st' ind)) = gs
    | Panic => res = Panic
    | Fail => False
    end.
Proof. exact (fun H1 H2 H3 H4 H5 => refines_grouper_group_by env t st0 cols gp eqb hash ixs H1 H2 H3 H4 H5 ix n st). Qed.
Print Assumptions C01_refines_grouper_group_by.

Theorem C01_refines_group_by_with env dec grp gp t n st qf f names :
  ref_ok dec st qf -> abs1 dec st qf = Some f -> store_fresh t n st ->
  (forall cols kcols,
      run env t (lookup_cols (q_map qf) names) n st = (Ok cols, n, st) ->
      Aggregate.named_cols f names = Ok kcols ->
      Forall (parts_in_bounds st) cols ->
      exists res n' st',
        run env t (grouper_group_by gp cols (q_idx qf)) n st = (res, n', st') /\ keeps st st' /\ store_fresh t n' st' /\
        match grp kcols (Frame.ix f) with
        | Ok gs => exists ind, res = Ok ind /\ in_bounds st' ind /\
                               Forall (in_bounds st') (map as_slice (seg_of st' ind)) /\
                               map (abs_ix st') (map as_slice (seg_of st' ind)) = gs
        | Panic => res = Panic
        | Fail => False
        end) ->
  exists res n' st',
    run env t (op_group_by gp names qf) n st = (res, n', st') /\ keeps st st' /\ store_fresh t n' st' /\
    match res with
    | Ok g => grouper_ok dec st' g /\ exists G, Aggregate.group_by_with grp f names = Ok G /\ abs_g dec st' g = Some G
    | Panic => Aggregate.group_by_with grp f names = Panic
    | Fail => False
    end.
Proof. exact (refines_group_by_with env dec grp gp t n st qf f names). Qed.
Print Assumptions C01_refines_group_by_with.

Theorem C01_refines_group_by env dec memhash rnd nulleq gp t n st qf f names :
  ref_ok dec st qf -> abs1 dec st qf = Some f -> store_fresh t n st ->
  (4 * N.of_nat (length (Frame.ix f)) < 2 ^ 32)%N ->
  (forall cols kcols,
      run env t (lookup_cols (q_map qf) names) n st = (Ok cols, n, st) ->
      Aggregate.named_cols f names = Ok kcols ->
      key_link st cols kcols gp (Aggregate.key_eqb nulleq kcols) (Aggregate.key_hash memhash rnd nulleq kcols)
               (map as_z (seg_of st (q_idx qf)))) ->
  exists res n' st',
    run env t (op_group_by gp names qf) n st = (res, n', st') /\ keeps st st' /\ store_fresh t n' st' /\
    match res with
    | Ok g => grouper_ok dec st' g /\
              exists G, Aggregate.group_by memhash rnd nulleq f names = Ok G /\ abs_g dec st' g = Some G
    | Panic => Aggregate.group_by memhash rnd nulleq f names = Panic
    | Fail => False
    end.
Proof. exact (refines_group_by env dec memhash rnd nulleq gp t n st qf f names). Qed.
Print Assumptions C01_refines_group_by.

(*     on the frame of the Distinct example: the groups, in slot order, are 10 -> rows [1; 4], 5 -> [3], 30 -> [0; 2]; both
       sides computed; without key columns the one group SHARES the index array of the frame *)
Example C01_group_by_premises_hold :
  ref_ok dec_std DistinctExamples.stD DistinctExamples.qfD /\
  abs1 dec_std DistinctExamples.stD DistinctExamples.qfD = Some DistinctExamples.fD /\ store_fresh 1 0 DistinctExamples.stD /\
  (4 * N.of_nat (length (Frame.ix DistinctExamples.fD)) < 2 ^ 32)%N /\
  (forall cols kcols,
      run HeapExamples.env0 1 (lookup_cols (q_map DistinctExamples.qfD) [HeapExamples.nA]) 0 DistinctExamples.stD
      = (Ok cols, 0, DistinctExamples.stD) ->
      Aggregate.named_cols DistinctExamples.fD [HeapExamples.nA] = Ok kcols ->
      key_link DistinctExamples.stD cols kcols DistinctExamples.gpD (Aggregate.key_eqb false kcols)
               (Aggregate.key_hash DistinctExamples.memhashD DistinctExamples.rndD false kcols)
               (map as_z (seg_of DistinctExamples.stD (q_idx DistinctExamples.qfD)))).
Proof. exact GroupByExamples.group_by_premises. Qed.
Example C01_group_by_example :
  (let '(r, _, st') := run HeapExamples.env0 1 (op_group_by DistinctExamples.gpD [HeapExamples.nA] DistinctExamples.qfD) 0 DistinctExamples.stD in
   match r with Ok g => option_map Ok (abs_g dec_std st' g) | _ => None end)
  = Some (Aggregate.group_by DistinctExamples.memhashD DistinctExamples.rndD false DistinctExamples.fD [HeapExamples.nA]) /\
  Aggregate.group_by DistinctExamples.memhashD DistinctExamples.rndD false DistinctExamples.fD [HeapExamples.nA]
  = Ok (Aggregate.mkGrouper [(HeapExamples.nA, Frame.ICol [30; 10; 30; 5; 10]%Z)] [HeapExamples.nA] [[1; 4]; [3]; [0; 2]] false).
Proof. exact GroupByExamples.group_by_example. Qed.
Example C01_group_by_all_example :
  (let '(r, _, st') := run HeapExamples.env0 1 (op_group_by DistinctExamples.gpD [] DistinctExamples.qfD) 0 DistinctExamples.stD in
   match r with Ok g => Some (abs_g dec_std st' g, map s_base (groups_of st' g)) | _ => None end)
  = Some (match Aggregate.group_by DistinctExamples.memhashD DistinctExamples.rndD false DistinctExamples.fD [] with Ok G => Some G | _ => None end,
          [s_base (q_idx DistinctExamples.qfD)]).
Proof. exact GroupByExamples.group_by_all_example. Qed.

(*     (g) A row of the index OUTSIDE a key column.  Distinct and GroupBy hash the rows of the index in order; such a row
           panics when it is hashed - after the rows before it have been inserted and the table has possibly grown -,
           the L0 model tests all rows first: both sides panic.  key_link_oob: the index is pre ++ bad :: rest, the link
           of (e)/(f) holds on pre, the row bad has no key cells on the heap side and the key test of Model/Aggregate.v
           panics. *)
Theorem C01_refines_distinct_oob env dec memhash rnd nulleq gp t n st qf f names :
  ref_ok dec st qf -> abs1 dec st qf = Some f -> store_fresh t n st ->
  (4 * N.of_nat (length (Frame.ix f)) < 2 ^ 32)%N ->
  (forall cols kcols,
      run env t (lookup_cols (q_map qf) (match names with [] => Frame.col_names f | _ => names end)) n st = (Ok cols, n, st) ->
      Aggregate.named_cols f (match names with [] => Frame.col_names f | _ => names end) = Ok kcols ->
      key_link_oob st cols kcols gp (Aggregate.key_eqb nulleq kcols) (Aggregate.key_hash memhash rnd nulleq kcols)
                   (map as_z (seg_of st (q_idx qf)))) ->
  exists res n' st',
    run env t (op_distinct gp names qf) n st = (res, n', st') /\ keeps st st' /\ store_fresh t n' st' /\
    match res with
    | Ok qf' => ref_ok dec st' qf' /\ exists f', Aggregate.distinct memhash rnd nulleq f names = Ok f' /\ abs1 dec st' qf' = Some f'
    | Panic => Aggregate.distinct memhash rnd nulleq f names = Panic
    | Fail => False
    end.
Proof. exact (refines_distinct_oob env dec memhash rnd nulleq gp t n st qf f names). Qed.
Print Assumptions C01_refines_distinct_oob.

Theorem C01_refines_group_by_oob env dec memhash rnd nulleq gp t n st qf f names :
  ref_ok dec st qf -> abs1 dec st qf = Some f -> store_fresh t n st ->
  (4 * N.of_nat (length (Frame.ix f)) < 2 ^ 32)%N ->
  (forall cols kcols,
      run env t (lookup_cols (q_map qf) names) n st = (Ok cols, n, st) ->
      Aggregate.named_cols f names = Ok kcols ->
      key_link_oob st cols kcols gp (Aggregate.key_eqb nulleq kcols) (Aggregate.key_hash memhash rnd nulleq kcols)
                   (map as_z (seg_of st (q_idx qf)))) ->
  exists res n' st',
    run env t (op_group_by gp names qf) n st = (res, n', st') /\ keeps st st' /\ store_fresh t n' st' /\
    match res with
    | Ok g => grouper_ok dec st' g /\
              exists G, Aggregate.group_by memhash rnd nulleq f names = Ok G /\ abs_g dec st' g = Some G
    | Panic => Aggregate.group_by memhash rnd nulleq f names = Panic
    | Fail => False
    end.
Proof. exact (refines_group_by_oob env dec memhash rnd nulleq gp t n st qf f names). Qed.
Print Assumptions C01_refines_group_by_oob.

(*     the premises hold for the index [0; 1; 7; 3] over the 5-row column A; all four computations panic *)
Example C01_oob_premises_hold :
  ref_ok dec_std OobExamples.stO OobExamples.qfO /\ abs1 dec_std OobExamples.stO OobExamples.qfO = Some OobExamples.fO /\
  store_fresh 1 0 OobExamples.stO /\
  (4 * N.of_nat (length (Frame.ix OobExamples.fO)) < 2 ^ 32)%N /\
  (forall cols kcols,
      run HeapExamples.env0 1 (lookup_cols (q_map OobExamples.qfO) [HeapExamples.nA]) 0 OobExamples.stO = (Ok cols, 0, OobExamples.stO) ->
      Aggregate.named_cols OobExamples.fO [HeapExamples.nA] = Ok kcols ->
      key_link_oob OobExamples.stO cols kcols DistinctExamples.gpD (Aggregate.key_eqb false kcols)
                   (Aggregate.key_hash DistinctExamples.memhashD DistinctExamples.rndD false kcols)
                   (map as_z (seg_of OobExamples.stO (q_idx OobExamples.qfO)))).
Proof. exact OobExamples.oob_premises. Qed.
Example C01_oob_example :
  fst (fst (run HeapExamples.env0 1 (op_distinct DistinctExamples.gpD [HeapExamples.nA] OobExamples.qfO) 0 OobExamples.stO)) = Panic /\
  Aggregate.distinct DistinctExamples.memhashD DistinctExamples.rndD false OobExamples.fO [HeapExamples.nA] = Panic /\
  fst (fst (run HeapExamples.env0 1 (op_group_by DistinctExamples.gpD [HeapExamples.nA] OobExamples.qfO) 0 OobExamples.stO)) = Panic /\
  Aggregate.group_by DistinctExamples.memhashD DistinctExamples.rndD false OobExamples.fO [HeapExamples.nA] = Panic.
Proof. exact OobExamples.oob_example. Qed.

(*     growth exercised: 12 rows with 8 different values - the 8-slot table grows to 16 slots at the sixth group, groups
       gain members before and after the move; Distinct and GroupBy computed on both sides; the Distinct run makes 3
       allocations (first table, second table, result index) *)
Example C01_growth_example :
  abs1 dec_std GrowthExamples.stG GrowthExamples.qfG = Some GrowthExamples.fG /\
  (let '(r, _, st') := run HeapExamples.env0 1 (op_distinct DistinctExamples.gpD [HeapExamples.nA] GrowthExamples.qfG) 0 GrowthExamples.stG in
   match r with Ok q => option_map Ok (abs1 dec_std st' q) | _ => None end)
  = Some (Aggregate.distinct DistinctExamples.memhashD DistinctExamples.rndD false GrowthExamples.fG [HeapExamples.nA]) /\
  Aggregate.distinct DistinctExamples.memhashD DistinctExamples.rndD false GrowthExamples.fG [HeapExamples.nA]
  = Ok (Frame.with_ix GrowthExamples.fG [0; 1; 3; 4; 6; 7; 9; 11]) /\
  (let '(r, _, st') := run HeapExamples.env0 1 (op_group_by DistinctExamples.gpD [HeapExamples.nA] GrowthExamples.qfG) 0 GrowthExamples.stG in
   match r with Ok g => option_map Ok (abs_g dec_std st' g) | _ => None end)
  = Some (Aggregate.group_by DistinctExamples.memhashD DistinctExamples.rndD false GrowthExamples.fG [HeapExamples.nA]) /\
  Aggregate.group_by DistinctExamples.memhashD DistinctExamples.rndD false GrowthExamples.fG [HeapExamples.nA]
  = Ok (Aggregate.mkGrouper [(HeapExamples.nA, Frame.ICol [1; 2; 1; 3; 4; 2; 5; 6; 1; 7; 6; 9]%Z)] [HeapExamples.nA]
                            [[0; 2; 8]; [1; 5]; [3]; [4]; [6]; [7; 10]; [9]; [11]] false) /\
  snd (fst (run HeapExamples.env0 1 (op_distinct DistinctExamples.gpD [HeapExamples.nA] GrowthExamples.qfG) 0 GrowthExamples.stG)) = 3.
Proof. exact GrowthExamples.growth_example. Qed.

(*     (h) Aggregate, the loops over the groups (NOT the whole operation: the assembly of the result frame - header slice
           and by-name map built from scratch, the error exits - is not refined).  Column.Aggregate with the reusable
           buffer of subsetWithBuf: for every group the buffer is kept when its capacity suffices and replaced by a
           fresh array otherwise, the group's values are appended to buf[:0] (in place), the aggregation function - a
           Call node - is applied to them and its answer is appended to the result array; buffers and result array are
           allocations of the call, the column arrays and the group slices are only read.  C01_col_aggregate_arrays:
           the result array holds agg_pure = the oracle's answers on the values of every group, in group order; it
           panics iff a row of a group is outside the column.  Column.Subset (the key columns of the result):
           C01_col_subset_arrays - fresh data array with the cells of the rows; string: a fresh copy of the byte
           array as well; enum: the value table is SHARED with the source column. *)
Theorem C01_col_aggregate_arrays env t n st c fn rty gs :
  parts_in_bounds st c -> Forall (in_bounds st) gs -> store_fresh t n st ->
  exists res n' st',
    run env t (col_aggregate c fn rty gs) n st = (res, n', st') /\ keeps st st' /\ store_fresh t n' st' /\
    match agg_pure env st c fn gs with
    | Ok vals => exists d, res = Ok d /\ in_bounds st' d /\ seg_of st' d = vals
    | Panic => res = Panic
    | Fail => False
    end.
Proof. exact (col_aggregate_spec env t n st c fn rty gs). Qed.
Print Assumptions C01_col_aggregate_arrays.

Theorem C01_col_subset_arrays env t n st c ix :
  parts_in_bounds st c -> in_bounds st ix -> store_fresh t n st ->
  exists res n' st',
    run env t (col_subset c ix) n st = (res, n', st') /\ keeps st st' /\ store_fresh t n' st' /\
    match agg_vals_h st c (map as_z (seg_of st ix)) with
    | Ok cells =>
        exists c', res = Ok c' /\ c_name c' = c_name c /\ c_pos c' = c_pos c /\ c_ty c' = c_ty c /\
                   Forall (in_bounds st') (c_parts c') /\
                   map (seg_of st') (c_parts c') =
                   cells :: match c_parts c with
                            | [_; p2] => [if (c_ty c =? ty_string)%N then map san_z (seg_of st p2) else seg_of st p2]
                            | _ => []
                            end
    | Panic => res = Panic
    | Fail => False
    end.
Proof. exact (col_subset_spec env t n st c ix). Qed.
Print Assumptions C01_col_subset_arrays.

(*     two groups (rows [0; 1] and rows [3; 4]) over A = [30; 10; 30; 5; 10], callback = first value + 1: the result array
       holds [31; 6]; 2 allocations (result, ONE buffer: the second group fits the buffer of the first); a Subset of rows
       [1; 2; 3]: one fresh array *)
Example C01_col_aggregate_premises_hold :
  parts_in_bounds DistinctExamples.stD DistinctExamples.cD /\
  Forall (in_bounds DistinctExamples.stD) [AggLoopExamples.g1; AggLoopExamples.g2] /\ store_fresh 1 0 DistinctExamples.stD /\
  agg_pure HeapExamples.env0 DistinctExamples.stD DistinctExamples.cD 1%N [AggLoopExamples.g1; AggLoopExamples.g2] = Ok [VZ 31; VZ 6].
Proof. exact AggLoopExamples.col_aggregate_premises. Qed.
Example C01_col_aggregate_example :
  (let '(r, n', st') := run HeapExamples.env0 1 (col_aggregate DistinctExamples.cD 1%N 0%N [AggLoopExamples.g1; AggLoopExamples.g2]) 0 DistinctExamples.stD in
   (match r with Ok d => Some (seg_of st' d) | _ => None end, n', map (lookup st') [(0, 0); (0, 3)]))
  = (Some [VZ 31; VZ 6], 2, map (lookup DistinctExamples.stD) [(0, 0); (0, 3)]).
Proof. exact AggLoopExamples.col_aggregate_example. Qed.
Example C01_col_subset_example :
  agg_vals_h DistinctExamples.stD DistinctExamples.cD (map as_z (seg_of DistinctExamples.stD (mkSlice (0, 0) 1 3 4))) = Ok [VZ 10; VZ 30; VZ 5] /\
  (let '(r, n', st') := run HeapExamples.env0 1 (col_subset DistinctExamples.cD (mkSlice (0, 0) 1 3 4)) 0 DistinctExamples.stD in
   (match r with Ok c' => Some (map (seg_of st') (c_parts c')) | _ => None end, n'))
  = (Some [[VZ 10; VZ 30; VZ 5]], 1).
Proof. exact AggLoopExamples.col_subset_example. Qed.

(*     (i) Eval, PARTIAL: the sequence of operations.  Expression execution is a sequence of single-instruction Applies on
           temporary columns, Drops of temporaries and error exits, followed by Copy(dst, col) and possibly Drop(col);
           op_eval runs such a sequence, Model/Eval.v runs the same vocabulary (Ops.apply with one instruction, Ops.drop,
           with_err, Ops.copy) while it walks the expression.  Theorem: op_eval of a step list refines the fold of the
           corresponding L0 steps (l0_eval_steps), every step on the state the previous one returned (esteps_link, in
           the style of chain_link; the Apply steps through any SL with step_ok).  NOT shown: that Eval.eval of an
           expression IS such a fold (the names of the temporaries depend on the intermediate frames). *)
Theorem C01_refines_eval_steps_partial env dec ut SL t n st qf f steps ls name_ok dst colname drop_tmp :
  step_ok env dec ut SL ->
  ref_ok dec st qf -> abs1 dec st qf = Some f -> store_fresh t n st ->
  name_ok = Ops.check_name dst ->
  esteps_link env dec ut SL t n st qf f steps ls ->
  exists res n' st',
    run env t (op_eval steps name_ok dst colname drop_tmp qf) n st = (res, n', st') /\
    step_post dec (l0_eval_steps ut f ls dst colname drop_tmp) t st res n' st'.
Proof. exact (fun Hs => refines_eval_steps env dec ut SL Hs t n st qf f steps ls name_ok dst colname drop_tmp). Qed.
Print Assumptions C01_refines_eval_steps_partial.

(*     D := fn(fn(A)) as Eval runs it (temp B := fn(A); temp C := fn(B); drop B; copy C to D; drop C): premise and both
       sides computed *)
Example C01_esteps_link_holds :
  esteps_link HeapExamples.env0 dec_std [] (instr_link HeapExamples.env0) 1 0 HeapExamples.st0 HeapExamples.qf0 RefineExamples.f0
              EvalExamples.hsteps EvalExamples.lsteps.
Proof. exact EvalExamples.esteps_link_example. Qed.
Example C01_eval_steps_example :
  (let '(r, _, st') := run HeapExamples.env0 1 (op_eval EvalExamples.hsteps true EvalExamples.nD ChainExamples.nC true HeapExamples.qf0) 0 HeapExamples.st0 in
   match r with Ok q => option_map Ok (abs1 dec_std st' q) | _ => None end)
  = Some (l0_eval_steps [] RefineExamples.f0 EvalExamples.lsteps EvalExamples.nD ChainExamples.nC true) /\
  l0_eval_steps [] RefineExamples.f0 EvalExamples.lsteps EvalExamples.nD ChainExamples.nC true
  = Ok (Frame.mkFrame [(HeapExamples.nA, ApplyExamples.dA); (EvalExamples.nD, Frame.ICol [32; 12; 7; 22]%Z)] [0; 1; 3; 2] false).
Proof. exact EvalExamples.eval_steps_example. Qed.

(*     (j) Eval end to end.  [compile] is Model/Eval.v's execute instrumented with the L0 steps it performs (Ops.apply with
           one instruction on a temporary column, Ops.drop of temporaries, the error exits of getFunc / errorExpr);
           C01_compile_ok: whenever it succeeds it returns what Eval.execute returns and folding the steps over the frame
           gives the same frame; hence Eval.eval = the fold, then Copy and possibly Drop (C01_eval_as_steps).  Composed
           with (i): the heap program for the steps the expression executes refines Model/Eval.v's eval
           (C01_refines_eval).  Premises: the instrumented execution succeeds (a panic of tempColName or a missing
           function after a passed getFunc is not covered), the heap steps are linked to the L0 steps one after the
           other (esteps_link). *)
Theorem C01_compile_ok ut cx e f s r name :
  compile ut cx e f = Ok (s, r, name) ->
  Eval.execute ut cx e f = Ok (r, name) /\ Filter.ofold (l0_run_step ut) s f = Ok r.
Proof. exact (compile_ok ut cx e f s r name). Qed.
Print Assumptions C01_compile_ok.

Theorem C01_eval_as_steps ut cx f dst e s r name :
  compile ut cx e f = Ok (s, r, name) ->
  Eval.eval ut cx f dst e = l0_eval_steps ut f s dst name (negb (bytes_eqb name dst) && negb (Frame.contains f name)).
Proof. exact (eval_as_steps ut cx f dst e s r name). Qed.
Print Assumptions C01_eval_as_steps.

Theorem C01_refines_eval env dec ut cx SL t n st qf f e dst hs ls r name name_ok :
  step_ok env dec ut SL ->
  ref_ok dec st qf -> abs1 dec st qf = Some f -> store_fresh t n st ->
  compile ut cx e f = Ok (ls, r, name) ->
  name_ok = Ops.check_name dst ->
  esteps_link env dec ut SL t n st qf f hs ls ->
  exists res n' st',
    run env t (op_eval hs name_ok dst name (negb (bytes_eqb name dst) && negb (Frame.contains f name)) qf) n st = (res, n', st') /\
    step_post dec (Eval.eval ut cx f dst e) t st res n' st'.
Proof. exact (fun Hs => refines_eval env dec ut cx SL Hs t n st qf f e dst hs ls r name name_ok). Qed.
Print Assumptions C01_refines_eval.

(*     Eval("D", Expr("f", Expr("f", ColumnName("A")))) with f = x + 1 in the context: the expression compiles to two Applies
       on the temporaries unary-temp-0 / unary-temp-1 and a Drop; premises and both sides computed *)
Example C01_eval_premises_hold :
  compile [] EvalExamples2.cxf EvalExamples2.ex RefineExamples.f0 = Ok (EvalExamples2.ls, EvalExamples2.rD, EvalExamples2.tmp1) /\
  esteps_link HeapExamples.env0 dec_std [] (instr_link HeapExamples.env0) 1 0 HeapExamples.st0 HeapExamples.qf0 RefineExamples.f0
              EvalExamples2.hs EvalExamples2.ls.
Proof. exact (conj EvalExamples2.compile_example EvalExamples2.esteps_link_example). Qed.
Example C01_eval_example :
  (let '(r, _, st') := run HeapExamples.env0 1
       (op_eval EvalExamples2.hs true EvalExamples2.nD EvalExamples2.tmp1
                (negb (bytes_eqb EvalExamples2.tmp1 EvalExamples2.nD) && negb (Frame.contains RefineExamples.f0 EvalExamples2.tmp1))
                HeapExamples.qf0) 0 HeapExamples.st0 in
   match r with Ok q => option_map Ok (abs1 dec_std st' q) | _ => None end)
  = Some (Eval.eval [] EvalExamples2.cxf RefineExamples.f0 EvalExamples2.nD EvalExamples2.ex) /\
  Eval.eval [] EvalExamples2.cxf RefineExamples.f0 EvalExamples2.nD EvalExamples2.ex
  = Ok (Frame.mkFrame [(HeapExamples.nA, ApplyExamples.dA); (EvalExamples2.nD, Frame.ICol [32; 12; 7; 22]%Z)] [0; 1; 3; 2] false).
Proof. exact EvalExamples2.eval_example. Qed.
