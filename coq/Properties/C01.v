(* Property C01 — frames are persistent: no operation alters any existing frame, although frames
   derived from one another share column storage and row-index storage.
   Level: heap-level model (Model/Heap.v, Model/HeapOps.v), tied to the code by the engine "share"
   (sharing structure after every step of random histories) and by re-digesting every earlier member
   after every step in Go.  Statements only; the proofs are in Proofs/HeapProofs.v, HeapOpsProofs.v. *)
From QF Require Import Base.Prelude Model.Heap Model.HeapOps Model.Conc
     Proofs.HeapProofs Proofs.HeapOpsProofs Proofs.ConcProofs.

(* 1. Soundness of the instrumentation: a run accepted by run_tr (writes only to locations the program
      allocated itself; reads only pre-existing or own locations) is the ordinary run and leaves every
      pre-existing location untouched. *)
Theorem C01_run_tr_sound env A t (p : prog A) n s a n' s' own :
  run_tr env t p n s = Some (a, n', s', own) ->
  run env t p n s = (a, n', s') /\
  (forall l, in_dom s l = true -> lookup s' l = lookup s l).
Proof. exact (run_tr_sound env t p n s a n' s' own). Qed.
Print Assumptions C01_run_tr_sound.

(* 2. Per operation: from valid references the abstract safety logic accepts the L1 program (for every
      context pre/own, every argument, every clause tree, every sorter script, every callback) ... *)
Theorem C01_ops_safe op : lop_proved op = true -> lop_safe op.
Proof. exact (lop_proved_safe op). Qed.
Print Assumptions C01_ops_safe.

(* ... hence: for all closed stores and valid references the instrumented run does not fault. *)
Theorem C01_op_solo_safe env op recv other t n st :
  lop_safe op -> closed_store st -> store_fresh t n st ->
  mem_ok (in_dom st) recv [] -> mem_ok (in_dom st) other [] ->
  run_tr env t (lop_prog op recv other) n st <> None.
Proof. exact (op_solo_safe env op recv other t n st). Qed.
Print Assumptions C01_op_solo_safe.

(* 3. Histories: for any list of operations, each applied to any earlier members of the growing family,
      every earlier member observes the same (Len, names, types, every cell through the index, Err)
      after every later step.  [tobs] only names the allocations the (read-only) observer does not make. *)
Theorem C01_history env h t st fam tobs :
  hist_inv t st fam -> Forall (fun x => lop_safe (snd x)) h -> t + length h <= tobs ->
  forall j k sj fj sk fk, j <= k ->
    nth_error (history_states env h t st fam) j = Some (sj, fj) ->
    nth_error (history_states env h t st fam) k = Some (sk, fk) ->
    forall m, In m fj -> observe env tobs sk m = observe env tobs sj m.
Proof. exact (history_persistent env h t st fam tobs). Qed.
Print Assumptions C01_history.

(* The same for histories made of the operations whose safety is proved (everything except Aggregate). *)
Theorem C01_history_partial env h t st fam tobs :
  hist_inv t st fam -> Forall (fun x => lop_proved (snd x) = true) h -> t + length h <= tobs ->
  forall j k sj fj sk fk, j <= k ->
    nth_error (history_states env h t st fam) j = Some (sj, fj) ->
    nth_error (history_states env h t st fam) k = Some (sk, fk) ->
    forall m, In m fj -> observe env tobs sk m = observe env tobs sj m.
Proof.
  exact (fun Hi Hs => history_persistent env h t st fam tobs Hi
           (Forall_impl _ (fun x Hx => lop_proved_safe (snd x) Hx) Hs)).
Qed.
Print Assumptions C01_history_partial.

(* The full statement (every operation of the quantifier, including Grouper.Aggregate whose L1 program
   exists and is exercised by the engine, but whose safety proof is not finished). *)
Definition C01_full_statement : Prop :=
  forall env h t st fam tobs,
    hist_inv t st fam -> t + length h <= tobs ->
    forall j k sj fj sk fk, j <= k ->
      nth_error (history_states env h t st fam) j = Some (sj, fj) ->
      nth_error (history_states env h t st fam) k = Some (sk, fk) ->
      forall m, In m fj -> observe env tobs sk m = observe env tobs sj m.

(* Non-vacuity: a store and frame satisfying the premises; a history (Slice with spare capacity, Sort
   the slice, Filter the parent, Apply on both, GroupBy, QFrames) evaluated with every member
   re-observed; and wrong programs (Sort without the index copy; orFrames appending into lhs.index)
   that the instrumented run rejects. *)
Example C01_premises_hold : hist_inv 1 HeapExamples.st0 [MemF HeapExamples.qf0].
Proof. exact HeapExamples.hist_inv_example. Qed.
Example C01_history_example :
  HeapExamples.obs_at 7 0 = HeapExamples.obs_at 0 0 /\ HeapExamples.obs_at 7 1 = HeapExamples.obs_at 1 1 /\
  HeapExamples.obs_at 7 2 = HeapExamples.obs_at 2 2 /\ HeapExamples.obs_at 7 6 = HeapExamples.obs_at 6 6 /\
  HeapExamples.ob_lens (HeapExamples.obs_at 0 0) = [4%Z] /\ HeapExamples.ob_lens (HeapExamples.obs_at 1 1) = [3%Z] /\
  HeapExamples.obs_at 2 2 <> HeapExamples.obs_at 1 1 /\
  match nth_error HeapExamples.states 7 with Some (_, fam) => length fam = 10 | None => False end.
Proof. exact HeapExamples.history_example. Qed.
Example C01_wrong_sort_rejected :
  run_tr HeapExamples.env0 1 (op_sort_nocopy [HeapExamples.nA] HeapExamples.lessA insertion_script HeapExamples.sl0) 0 HeapExamples.st0 = None /\
  (exists r, run_tr HeapExamples.env0 1 (op_sort [HeapExamples.nA] HeapExamples.lessA insertion_script HeapExamples.sl0) 0 HeapExamples.st0 = Some r).
Proof. exact HeapExamples.wrong_sort_rejected. Qed.
Example C01_wrong_or_frames_rejected :
  run_tr HeapExamples.env0 1 (let? rhs := qf_filter [HeapExamples.lfA] HeapExamples.sl0 in
                              or_frames_bad HeapExamples.sl0 HeapExamples.sl0 rhs) 0 HeapExamples.st0 = None /\
  (exists r, run_tr HeapExamples.env0 1 (let? rhs := qf_filter [HeapExamples.lfA] HeapExamples.sl0 in
                              or_frames HeapExamples.sl0 (Some HeapExamples.sl0) rhs) 0 HeapExamples.st0 = Some r).
Proof. exact HeapExamples.wrong_or_frames_rejected. Qed.
Print Assumptions C01_history_example.
