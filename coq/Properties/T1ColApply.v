(* Properties/T1ColApply.v — tie T1 for the column level of Apply (C06, C07): Column.Apply1 and Column.Apply2 of the five
   column types, translated from internal/icolumn, fcolumn, bcolumn (column_gen.go), internal/scolumn/column.go and
   internal/ecolumn/column.go by tools/qf2coq/colapply.go (Gen/GenColApply.v), equal the hand-written model
   (Model/Ops.v: col_apply1, col_apply2).  Statements only; proofs in Proofs/GenColApplyProofs.v.

   Conventions.  F64 = N (float64 bit patterns, zero 0), a row id is Z.of_nat of the model's position.  A Go function value
   t : A -> outcome B (Panic = the user's function panics) STANDS FOR the model's recorded table tbl when
   tbl1 tbl (inj a) = omapo inj (t a) for every cell a that the index reaches — the premise of every Apply1 / Apply2
   theorem; it is stated on the reached cells only, so the theorems hold for every Go function and every table that
   records it on the rows it is called for.  res1 / res2: the Go answer for a model answer (a raw slice for Apply1, the
   column for Apply2; no error).  Out-of-range rows: both sides are Panic (the equations are between outcomes).
   String columns: the physical column (pointers into one blob) is related to the model column by s_rep (same length,
   the translated accessors stringToPtr(c.stringAt(i)) read the model's cell at every position).
   Enum columns: e_col d vs st, the ranks as uint8.  is_err r: r is an answer with a non-nil error. *)
From QF Require Import Base.Prelude Gen.GenConsts Gen.GenFuncs Gen.GenColApply Gen.GenQFrameOps Model.Frame Model.Filter Model.Ops
  Model.TableSpec Proofs.OpsProofs2 Proofs.GenQFrameOpsProofs Proofs.GenColApplyProofs.
Local Open Scope Z_scope.

(* ------------------------------------------------------------------ the loop *)

(* the loop  for _, i := range ix { result[i] = step(i) }  (tscat) against omap + scatter + col_of_cells of the model *)
Theorem T1_colapply_scatter {B : Type} (inj : B -> cell) (step : nat -> outcome cell) (tstep : Z -> outcome B)
  (K : list cell -> outcome coldata) (K' : list B -> outcome coldata) (index : list nat) :
  (forall p, In p index -> step p = omapo inj (tstep (Z.of_nat p))) ->
  (forall p, In p index -> step p <> Fail) ->
  (forall l, K (map inj l) = K' l) ->
  forall res, mscat step index (map inj res) K = do r <- tscat tstep (map Z.of_nat index) res; K' r.
Proof. exact (mscat_tscat inj step tstep K K' index). Qed.
Print Assumptions T1_colapply_scatter.

(* ------------------------------------------------------------------ internal/icolumn (column_gen.go) *)

Theorem T1_colapply_icolumn_Apply1_int (OTHER OTHERC : Type) ut d (t : Z -> outcome Z) tbl index :
  (forall p a, In p index -> idx d p = Ok a -> tbl1 tbl (CInt a) = omapo CInt (t a)) ->
  gap_icolumn_Column_Apply1 0%N (gap_mk_icolumn_Column d) (gap_dyn_func_int_to_int t) (map Z.of_nat index)
  = res1 (OTHER := OTHER) (col_apply1 ut (ICol d) (F1 TInt TInt tbl) index).
Proof. exact (i_apply1_int ut d t tbl index). Qed.
Print Assumptions T1_colapply_icolumn_Apply1_int.

Theorem T1_colapply_icolumn_Apply1_float64 (OTHER OTHERC : Type) ut d (t : Z -> outcome N) tbl index :
  (forall p a, In p index -> idx d p = Ok a -> tbl1 tbl (CInt a) = omapo CFloat (t a)) ->
  gap_icolumn_Column_Apply1 0%N (gap_mk_icolumn_Column d) (gap_dyn_func_int_to_float64 t) (map Z.of_nat index)
  = res1 (OTHER := OTHER) (col_apply1 ut (ICol d) (F1 TInt TFloat tbl) index).
Proof. exact (i_apply1_float64 ut d t tbl index). Qed.
Print Assumptions T1_colapply_icolumn_Apply1_float64.

Theorem T1_colapply_icolumn_Apply1_bool (OTHER OTHERC : Type) ut d (t : Z -> outcome bool) tbl index :
  (forall p a, In p index -> idx d p = Ok a -> tbl1 tbl (CInt a) = omapo CBool (t a)) ->
  gap_icolumn_Column_Apply1 0%N (gap_mk_icolumn_Column d) (gap_dyn_func_int_to_bool t) (map Z.of_nat index)
  = res1 (OTHER := OTHER) (col_apply1 ut (ICol d) (F1 TInt TBool tbl) index).
Proof. exact (i_apply1_bool ut d t tbl index). Qed.
Print Assumptions T1_colapply_icolumn_Apply1_bool.

Theorem T1_colapply_icolumn_Apply1_ptr_string (OTHER OTHERC : Type) ut d (t : Z -> outcome (option bytes)) tbl index :
  (forall p a, In p index -> idx d p = Ok a -> tbl1 tbl (CInt a) = omapo CStr (t a)) ->
  gap_icolumn_Column_Apply1 0%N (gap_mk_icolumn_Column d) (gap_dyn_func_int_to_ptr_string t) (map Z.of_nat index)
  = res1 (OTHER := OTHER) (col_apply1 ut (ICol d) (F1 TInt TString tbl) index).
Proof. exact (i_apply1_ptr_string ut d t tbl index). Qed.
Print Assumptions T1_colapply_icolumn_Apply1_ptr_string.

(* any other function value: an error *)
Theorem T1_colapply_icolumn_Apply1_other_function (OTHER OTHERC : Type) c (fn : (gap_dyn N OTHER)) ix :
  match fn with
  | gap_dyn_func_int_to_int _ | gap_dyn_func_int_to_float64 _ | gap_dyn_func_int_to_bool _ | gap_dyn_func_int_to_ptr_string _ => False
  | _ => True end ->
  is_err (gap_icolumn_Column_Apply1 0%N c fn ix).
Proof. exact (i_apply1_other_function c fn ix). Qed.
Print Assumptions T1_colapply_icolumn_Apply1_other_function.

Theorem T1_colapply_icolumn_Apply2 (OTHER OTHERC : Type) d d2 (t : Z -> Z -> outcome Z) tbl index :
  (forall p a b, In p index -> idx d p = Ok a -> idx d2 p = Ok b -> tbl2 tbl (CInt a) (CInt b) = omapo CInt (t a b)) ->
  gap_icolumn_Column_Apply2 (gap_mk_icolumn_Column d) (gap_dyn_func_int_int_to_int t : (gap_dyn N OTHER)) (gap_col_icolumn (gap_mk_icolumn_Column d2) : (gap_anycol N OTHERC))
    (map Z.of_nat index)
  = res2 (OTHERC := OTHERC) (col_apply2 (ICol d) (ICol d2) (F2 TInt tbl) index).
Proof. exact (i_apply2 d d2 t tbl index). Qed.
Print Assumptions T1_colapply_icolumn_Apply2.

(* the second column has another type: an error *)
Theorem T1_colapply_icolumn_Apply2_other_column (OTHER OTHERC : Type) c (fn : (gap_dyn N OTHER)) (s2 : (gap_anycol N OTHERC)) ix :
  match s2 with gap_col_icolumn _ => False | gap_col_nil => False | _ => True end ->
  is_err (gap_icolumn_Column_Apply2 c fn s2 ix).
Proof. exact (i_apply2_other_column c fn s2 ix). Qed.
Print Assumptions T1_colapply_icolumn_Apply2_other_column.

(* any other function value: an error *)
Theorem T1_colapply_icolumn_Apply2_other_function (OTHER OTHERC : Type) c (fn : (gap_dyn N OTHER)) c2 ix :
  match fn with gap_dyn_func_int_int_to_int _ => False | _ => True end ->
  is_err (gap_icolumn_Column_Apply2 c fn (gap_col_icolumn c2 : (gap_anycol N OTHERC)) ix).
Proof. exact (i_apply2_other_function c fn c2 ix). Qed.
Print Assumptions T1_colapply_icolumn_Apply2_other_function.

(* non-vacuity: a recorded func(int) int on the rows [2; 0] of a three-row column; row 1 keeps the zero value *)
Example T1_colapply_icolumn_Apply1_example :
  let d := [5; 7; 9] in let index := [2; 0]%nat in let t := (fun x : Z => Ok (x + 1)) in
  let tbl := [(CInt 9, CInt 10); (CInt 5, CInt 6)] in
  (forall p a, In p index -> idx d p = Ok a -> tbl1 tbl (CInt a) = omapo CInt (t a))
  /\ gap_icolumn_Column_Apply1 (OTHER := unit) 0%N (gap_mk_icolumn_Column d) (gap_dyn_func_int_to_int t) (map Z.of_nat index)
     = Ok (gap_dyn_slice_int [6; 0; 10], None)
  /\ col_apply1 [] (ICol d) (F1 TInt TInt tbl) index = Ok (ICol [6; 0; 10])
  /\ gap_icolumn_Column_Apply1 (OTHER := unit) 0%N (gap_mk_icolumn_Column d) (gap_dyn_func_int_to_int t) [3] = Panic.
Proof.
  cbv zeta. split; [|vm_compute; repeat split; reflexivity].
  intros p a [<-|[<-|[]]] H; cbn in H; injection H as <-; reflexivity.
Qed.

(* ------------------------------------------------------------------ internal/fcolumn (column_gen.go) *)

Theorem T1_colapply_fcolumn_Apply1_int (OTHER OTHERC : Type) ut d (t : N -> outcome Z) tbl index :
  (forall p a, In p index -> idx d p = Ok a -> tbl1 tbl (CFloat a) = omapo CInt (t a)) ->
  gap_fcolumn_Column_Apply1 0%N (gap_mk_fcolumn_Column d) (gap_dyn_func_float64_to_int t) (map Z.of_nat index)
  = res1 (OTHER := OTHER) (col_apply1 ut (FCol d) (F1 TFloat TInt tbl) index).
Proof. exact (f_apply1_int ut d t tbl index). Qed.
Print Assumptions T1_colapply_fcolumn_Apply1_int.

Theorem T1_colapply_fcolumn_Apply1_float64 (OTHER OTHERC : Type) ut d (t : N -> outcome N) tbl index :
  (forall p a, In p index -> idx d p = Ok a -> tbl1 tbl (CFloat a) = omapo CFloat (t a)) ->
  gap_fcolumn_Column_Apply1 0%N (gap_mk_fcolumn_Column d) (gap_dyn_func_float64_to_float64 t) (map Z.of_nat index)
  = res1 (OTHER := OTHER) (col_apply1 ut (FCol d) (F1 TFloat TFloat tbl) index).
Proof. exact (f_apply1_float64 ut d t tbl index). Qed.
Print Assumptions T1_colapply_fcolumn_Apply1_float64.

Theorem T1_colapply_fcolumn_Apply1_bool (OTHER OTHERC : Type) ut d (t : N -> outcome bool) tbl index :
  (forall p a, In p index -> idx d p = Ok a -> tbl1 tbl (CFloat a) = omapo CBool (t a)) ->
  gap_fcolumn_Column_Apply1 0%N (gap_mk_fcolumn_Column d) (gap_dyn_func_float64_to_bool t) (map Z.of_nat index)
  = res1 (OTHER := OTHER) (col_apply1 ut (FCol d) (F1 TFloat TBool tbl) index).
Proof. exact (f_apply1_bool ut d t tbl index). Qed.
Print Assumptions T1_colapply_fcolumn_Apply1_bool.

Theorem T1_colapply_fcolumn_Apply1_ptr_string (OTHER OTHERC : Type) ut d (t : N -> outcome (option bytes)) tbl index :
  (forall p a, In p index -> idx d p = Ok a -> tbl1 tbl (CFloat a) = omapo CStr (t a)) ->
  gap_fcolumn_Column_Apply1 0%N (gap_mk_fcolumn_Column d) (gap_dyn_func_float64_to_ptr_string t) (map Z.of_nat index)
  = res1 (OTHER := OTHER) (col_apply1 ut (FCol d) (F1 TFloat TString tbl) index).
Proof. exact (f_apply1_ptr_string ut d t tbl index). Qed.
Print Assumptions T1_colapply_fcolumn_Apply1_ptr_string.

(* any other function value: an error *)
Theorem T1_colapply_fcolumn_Apply1_other_function (OTHER OTHERC : Type) c (fn : (gap_dyn N OTHER)) ix :
  match fn with
  | gap_dyn_func_float64_to_int _ | gap_dyn_func_float64_to_float64 _ | gap_dyn_func_float64_to_bool _ | gap_dyn_func_float64_to_ptr_string _ => False
  | _ => True end ->
  is_err (gap_fcolumn_Column_Apply1 0%N c fn ix).
Proof. exact (f_apply1_other_function c fn ix). Qed.
Print Assumptions T1_colapply_fcolumn_Apply1_other_function.

Theorem T1_colapply_fcolumn_Apply2 (OTHER OTHERC : Type) d d2 (t : N -> N -> outcome N) tbl index :
  (forall p a b, In p index -> idx d p = Ok a -> idx d2 p = Ok b -> tbl2 tbl (CFloat a) (CFloat b) = omapo CFloat (t a b)) ->
  gap_fcolumn_Column_Apply2 0%N (gap_mk_fcolumn_Column d) (gap_dyn_func_float64_float64_to_float64 t : (gap_dyn N OTHER)) (gap_col_fcolumn (gap_mk_fcolumn_Column d2) : (gap_anycol N OTHERC))
    (map Z.of_nat index)
  = res2 (OTHERC := OTHERC) (col_apply2 (FCol d) (FCol d2) (F2 TFloat tbl) index).
Proof. exact (f_apply2 d d2 t tbl index). Qed.
Print Assumptions T1_colapply_fcolumn_Apply2.

(* the second column has another type: an error *)
Theorem T1_colapply_fcolumn_Apply2_other_column (OTHER OTHERC : Type) c (fn : (gap_dyn N OTHER)) (s2 : (gap_anycol N OTHERC)) ix :
  match s2 with gap_col_fcolumn _ => False | gap_col_nil => False | _ => True end ->
  is_err (gap_fcolumn_Column_Apply2 0%N c fn s2 ix).
Proof. exact (f_apply2_other_column c fn s2 ix). Qed.
Print Assumptions T1_colapply_fcolumn_Apply2_other_column.

(* any other function value: an error *)
Theorem T1_colapply_fcolumn_Apply2_other_function (OTHER OTHERC : Type) c (fn : (gap_dyn N OTHER)) c2 ix :
  match fn with gap_dyn_func_float64_float64_to_float64 _ => False | _ => True end ->
  is_err (gap_fcolumn_Column_Apply2 0%N c fn (gap_col_fcolumn c2 : (gap_anycol N OTHERC)) ix).
Proof. exact (f_apply2_other_function c fn c2 ix). Qed.
Print Assumptions T1_colapply_fcolumn_Apply2_other_function.

Example T1_colapply_fcolumn_Apply1_example :
  let d := [1; 2]%N in let index := [1]%nat in let t := (fun x : N => Ok (N.eqb x 2)) in
  let tbl := [(CFloat 2, CBool true)] in
  (forall p a, In p index -> idx d p = Ok a -> tbl1 tbl (CFloat a) = omapo CBool (t a))
  /\ gap_fcolumn_Column_Apply1 (OTHER := unit) 0%N (gap_mk_fcolumn_Column d) (gap_dyn_func_float64_to_bool t) (map Z.of_nat index)
     = Ok (gap_dyn_slice_bool [false; true], None).
Proof.
  cbv zeta. split; [|vm_compute; reflexivity].
  intros p a [<-|[]] H; cbn in H; injection H as <-; reflexivity.
Qed.

(* ------------------------------------------------------------------ internal/bcolumn (column_gen.go) *)

Theorem T1_colapply_bcolumn_Apply1_int (OTHER OTHERC : Type) ut d (t : bool -> outcome Z) tbl index :
  (forall p a, In p index -> idx d p = Ok a -> tbl1 tbl (CBool a) = omapo CInt (t a)) ->
  gap_bcolumn_Column_Apply1 0%N (gap_mk_bcolumn_Column d) (gap_dyn_func_bool_to_int t) (map Z.of_nat index)
  = res1 (OTHER := OTHER) (col_apply1 ut (BCol d) (F1 TBool TInt tbl) index).
Proof. exact (b_apply1_int ut d t tbl index). Qed.
Print Assumptions T1_colapply_bcolumn_Apply1_int.

Theorem T1_colapply_bcolumn_Apply1_float64 (OTHER OTHERC : Type) ut d (t : bool -> outcome N) tbl index :
  (forall p a, In p index -> idx d p = Ok a -> tbl1 tbl (CBool a) = omapo CFloat (t a)) ->
  gap_bcolumn_Column_Apply1 0%N (gap_mk_bcolumn_Column d) (gap_dyn_func_bool_to_float64 t) (map Z.of_nat index)
  = res1 (OTHER := OTHER) (col_apply1 ut (BCol d) (F1 TBool TFloat tbl) index).
Proof. exact (b_apply1_float64 ut d t tbl index). Qed.
Print Assumptions T1_colapply_bcolumn_Apply1_float64.

Theorem T1_colapply_bcolumn_Apply1_bool (OTHER OTHERC : Type) ut d (t : bool -> outcome bool) tbl index :
  (forall p a, In p index -> idx d p = Ok a -> tbl1 tbl (CBool a) = omapo CBool (t a)) ->
  gap_bcolumn_Column_Apply1 0%N (gap_mk_bcolumn_Column d) (gap_dyn_func_bool_to_bool t) (map Z.of_nat index)
  = res1 (OTHER := OTHER) (col_apply1 ut (BCol d) (F1 TBool TBool tbl) index).
Proof. exact (b_apply1_bool ut d t tbl index). Qed.
Print Assumptions T1_colapply_bcolumn_Apply1_bool.

Theorem T1_colapply_bcolumn_Apply1_ptr_string (OTHER OTHERC : Type) ut d (t : bool -> outcome (option bytes)) tbl index :
  (forall p a, In p index -> idx d p = Ok a -> tbl1 tbl (CBool a) = omapo CStr (t a)) ->
  gap_bcolumn_Column_Apply1 0%N (gap_mk_bcolumn_Column d) (gap_dyn_func_bool_to_ptr_string t) (map Z.of_nat index)
  = res1 (OTHER := OTHER) (col_apply1 ut (BCol d) (F1 TBool TString tbl) index).
Proof. exact (b_apply1_ptr_string ut d t tbl index). Qed.
Print Assumptions T1_colapply_bcolumn_Apply1_ptr_string.

(* any other function value: an error *)
Theorem T1_colapply_bcolumn_Apply1_other_function (OTHER OTHERC : Type) c (fn : (gap_dyn N OTHER)) ix :
  match fn with
  | gap_dyn_func_bool_to_int _ | gap_dyn_func_bool_to_float64 _ | gap_dyn_func_bool_to_bool _ | gap_dyn_func_bool_to_ptr_string _ => False
  | _ => True end ->
  is_err (gap_bcolumn_Column_Apply1 0%N c fn ix).
Proof. exact (b_apply1_other_function c fn ix). Qed.
Print Assumptions T1_colapply_bcolumn_Apply1_other_function.

Theorem T1_colapply_bcolumn_Apply2 (OTHER OTHERC : Type) d d2 (t : bool -> bool -> outcome bool) tbl index :
  (forall p a b, In p index -> idx d p = Ok a -> idx d2 p = Ok b -> tbl2 tbl (CBool a) (CBool b) = omapo CBool (t a b)) ->
  gap_bcolumn_Column_Apply2 (gap_mk_bcolumn_Column d) (gap_dyn_func_bool_bool_to_bool t : (gap_dyn N OTHER)) (gap_col_bcolumn (gap_mk_bcolumn_Column d2) : (gap_anycol N OTHERC))
    (map Z.of_nat index)
  = res2 (OTHERC := OTHERC) (col_apply2 (BCol d) (BCol d2) (F2 TBool tbl) index).
Proof. exact (b_apply2 d d2 t tbl index). Qed.
Print Assumptions T1_colapply_bcolumn_Apply2.

(* the second column has another type: an error *)
Theorem T1_colapply_bcolumn_Apply2_other_column (OTHER OTHERC : Type) c (fn : (gap_dyn N OTHER)) (s2 : (gap_anycol N OTHERC)) ix :
  match s2 with gap_col_bcolumn _ => False | gap_col_nil => False | _ => True end ->
  is_err (gap_bcolumn_Column_Apply2 c fn s2 ix).
Proof. exact (b_apply2_other_column c fn s2 ix). Qed.
Print Assumptions T1_colapply_bcolumn_Apply2_other_column.

(* any other function value: an error *)
Theorem T1_colapply_bcolumn_Apply2_other_function (OTHER OTHERC : Type) c (fn : (gap_dyn N OTHER)) c2 ix :
  match fn with gap_dyn_func_bool_bool_to_bool _ => False | _ => True end ->
  is_err (gap_bcolumn_Column_Apply2 c fn (gap_col_bcolumn c2 : (gap_anycol N OTHERC)) ix).
Proof. exact (b_apply2_other_function c fn c2 ix). Qed.
Print Assumptions T1_colapply_bcolumn_Apply2_other_function.

Example T1_colapply_bcolumn_Apply2_example :
  let d := [true; false] in let d2 := [true; true] in let index := [0; 1]%nat in let t := (fun x y : bool => Ok (andb x y)) in
  let tbl := [(CBool true, CBool true, CBool true); (CBool false, CBool true, CBool false)] in
  (forall p a b, In p index -> idx d p = Ok a -> idx d2 p = Ok b -> tbl2 tbl (CBool a) (CBool b) = omapo CBool (t a b))
  /\ gap_bcolumn_Column_Apply2 (F64 := N) (OTHER := unit) (OTHERC := unit) (gap_mk_bcolumn_Column d) (gap_dyn_func_bool_bool_to_bool t)
       (gap_col_bcolumn (gap_mk_bcolumn_Column d2)) (map Z.of_nat index)
     = Ok (gap_col_bcolumn (gap_mk_bcolumn_Column [true; false]), None).
Proof.
  cbv zeta. split; [|vm_compute; reflexivity].
  intros p a b [<-|[<-|[]]] H H2; cbn in H, H2; injection H as <-; injection H2 as <-; reflexivity.
Qed.

(* ------------------------------------------------------------------ internal/scolumn/column.go *)

Theorem T1_colapply_scolumn_Apply1_int (OTHER OTHERC : Type) ut stu se pc d (t : option bytes -> outcome Z) tbl index :
  s_rep pc d ->
  (forall p a, In p index -> idx d p = Ok a -> tbl1 tbl (CStr a) = omapo CInt (t a)) ->
  gap_scolumn_Column_Apply1 0%N stu se pc (gap_dyn_func_ptr_string_to_int t : (gap_dyn N OTHER)) (map Z.of_nat index)
  = res1 (OTHER := OTHER) (col_apply1 ut (SCol d) (F1 TString TInt tbl) index).
Proof. exact (s_apply1_int ut stu se pc d t tbl index). Qed.
Print Assumptions T1_colapply_scolumn_Apply1_int.

Theorem T1_colapply_scolumn_Apply1_float64 (OTHER OTHERC : Type) ut stu se pc d (t : option bytes -> outcome N) tbl index :
  s_rep pc d ->
  (forall p a, In p index -> idx d p = Ok a -> tbl1 tbl (CStr a) = omapo CFloat (t a)) ->
  gap_scolumn_Column_Apply1 0%N stu se pc (gap_dyn_func_ptr_string_to_float64 t : (gap_dyn N OTHER)) (map Z.of_nat index)
  = res1 (OTHER := OTHER) (col_apply1 ut (SCol d) (F1 TString TFloat tbl) index).
Proof. exact (s_apply1_float64 ut stu se pc d t tbl index). Qed.
Print Assumptions T1_colapply_scolumn_Apply1_float64.

Theorem T1_colapply_scolumn_Apply1_bool (OTHER OTHERC : Type) ut stu se pc d (t : option bytes -> outcome bool) tbl index :
  s_rep pc d ->
  (forall p a, In p index -> idx d p = Ok a -> tbl1 tbl (CStr a) = omapo CBool (t a)) ->
  gap_scolumn_Column_Apply1 0%N stu se pc (gap_dyn_func_ptr_string_to_bool t : (gap_dyn N OTHER)) (map Z.of_nat index)
  = res1 (OTHER := OTHER) (col_apply1 ut (SCol d) (F1 TString TBool tbl) index).
Proof. exact (s_apply1_bool ut stu se pc d t tbl index). Qed.
Print Assumptions T1_colapply_scolumn_Apply1_bool.

Theorem T1_colapply_scolumn_Apply1_ptr_string (OTHER OTHERC : Type) ut stu se pc d (t : option bytes -> outcome (option bytes)) tbl index :
  s_rep pc d ->
  (forall p a, In p index -> idx d p = Ok a -> tbl1 tbl (CStr a) = omapo CStr (t a)) ->
  gap_scolumn_Column_Apply1 0%N stu se pc (gap_dyn_func_ptr_string_to_ptr_string t : (gap_dyn N OTHER)) (map Z.of_nat index)
  = res1 (OTHER := OTHER) (col_apply1 ut (SCol d) (F1 TString TString tbl) index).
Proof. exact (s_apply1_ptr_string ut stu se pc d t tbl index). Qed.
Print Assumptions T1_colapply_scolumn_Apply1_ptr_string.

(* any other function value: an error *)
Theorem T1_colapply_scolumn_Apply1_other_function (OTHER OTHERC : Type) stu se c (fn : (gap_dyn N OTHER)) ix :
  match fn with
  | gap_dyn_func_ptr_string_to_int _ | gap_dyn_func_ptr_string_to_float64 _ | gap_dyn_func_ptr_string_to_bool _
  | gap_dyn_func_ptr_string_to_ptr_string _ | gap_dyn_string _ => False
  | _ => True end ->
  is_err (gap_scolumn_Column_Apply1 0%N stu se c fn ix).
Proof. exact (s_apply1_other_function stu se c fn ix). Qed.
Print Assumptions T1_colapply_scolumn_Apply1_other_function.

(* a string names a built-in: looked up in the (translated) table, whose one entry is ToUpper *)
Theorem T1_colapply_scolumn_Apply1_builtin_name (OTHER OTHERC : Type) stu se c (name : bytes) ix :
  gap_scolumn_Column_Apply1 0%N stu se c (gap_dyn_string name : (gap_dyn N OTHER)) ix
  = if bytes_eqb name_ToUpper name then do r <- gap_scolumn_toUpper stu se ix c; Ok (r, None)
    else Ok (gap_dyn_nil, Some (bs 28 0x756e6b6e6f776e206275696c7420696e2066756e6374696f6e202576)).
Proof. exact (s_apply1_builtin_name stu se c name ix). Qed.
Print Assumptions T1_colapply_scolumn_Apply1_builtin_name.

Theorem T1_colapply_scolumn_Apply2 (OTHER OTHERC : Type) pc pc2 d d2 (t : option bytes -> option bytes -> outcome (option bytes)) tbl index :
  s_rep pc d -> s_rep pc2 d2 ->
  (forall p a b, In p index -> idx d p = Ok a -> idx d2 p = Ok b -> tbl2 tbl (CStr a) (CStr b) = omapo CStr (t a b)) ->
  gap_scolumn_Column_Apply2 pc (gap_dyn_func_ptr_string_ptr_string_to_ptr_string t : (gap_dyn N OTHER)) (gap_col_scolumn pc2 : (gap_anycol N OTHERC))
    (map Z.of_nat index)
  = res2s (OTHERC := OTHERC) (col_apply2 (SCol d) (SCol d2) (F2 TString tbl) index).
Proof. exact (s_apply2 pc pc2 d d2 t tbl index). Qed.
Print Assumptions T1_colapply_scolumn_Apply2.

(* the second column has another type: an error *)
Theorem T1_colapply_scolumn_Apply2_other_column (OTHER OTHERC : Type) c (fn : (gap_dyn N OTHER)) (s2 : (gap_anycol N OTHERC)) ix :
  match s2 with gap_col_scolumn _ => False | _ => True end ->
  is_err (gap_scolumn_Column_Apply2 c fn s2 ix).
Proof. exact (s_apply2_other_column c fn s2 ix). Qed.
Print Assumptions T1_colapply_scolumn_Apply2_other_column.

(* any other function value: an error *)
Theorem T1_colapply_scolumn_Apply2_other_function (OTHER OTHERC : Type) c (fn : (gap_dyn N OTHER)) c2 ix :
  match fn with gap_dyn_func_ptr_string_ptr_string_to_ptr_string _ => False | _ => True end ->
  is_err (gap_scolumn_Column_Apply2 c fn (gap_col_scolumn c2 : (gap_anycol N OTHERC)) ix).
Proof. exact (s_apply2_other_function c fn c2 ix). Qed.
Print Assumptions T1_colapply_scolumn_Apply2_other_function.

(* non-vacuity: the physical column that the translated scolumn.New builds for ["ab", nil, ""] represents it *)
Definition ex_sd : list (option bytes) := [Some [97; 98]%N; None; Some []].
Definition ex_spc : gap_scolumn_Column := match gap_scolumn_New ex_sd with Ok pc => pc | _ => gap_mk_scolumn_Column [] [] end.
Example T1_colapply_scolumn_rep_example : s_rep ex_spc ex_sd.
Proof.
  split; [reflexivity|]. intros [|[|[|p]]]; [vm_compute; reflexivity|vm_compute; reflexivity|vm_compute; reflexivity|].
  unfold str_at, gap_scolumn_Column_stringAt. rewrite gap_index_nat.
  set (ps := gap_scolumn_Column_pointers ex_spc). vm_compute in ps. subst ps. destruct p; reflexivity.
Qed.
Example T1_colapply_scolumn_Apply1_example :
  let index := [1; 0]%nat in
  let t := (fun s : option bytes => Ok (match s with Some b => Z.of_nat (length b) | None => (-1) end)) in
  let tbl := [(CStr None, CInt (-1)); (CStr (Some [97; 98]%N), CInt 2)] in
  (forall p a, In p index -> idx ex_sd p = Ok a -> tbl1 tbl (CStr a) = omapo CInt (t a))
  /\ gap_scolumn_Column_Apply1 (OTHER := unit) 0%N (fun b s => Ok (s, b)) (fun _ _ _ => 0) ex_spc (gap_dyn_func_ptr_string_to_int t)
       (map Z.of_nat index) = Ok (gap_dyn_slice_int [2; -1; 0], None).
Proof.
  cbv zeta. split; [|vm_compute; reflexivity].
  intros p a [<-|[<-|[]]] H; cbn in H; injection H as <-; reflexivity.
Qed.

(* ------------------------------------------------------------------ internal/ecolumn/column.go *)

Theorem T1_colapply_ecolumn_Apply1_int (OTHER OTHERC : Type) ut gtu d vs st (t : option bytes -> outcome Z) tbl index :
  (forall p a, In p index -> cell_at (ECol d vs st) p = Ok (CEnum a) -> tbl1 tbl (CEnum a) = omapo CInt (t a)) ->
  gap_ecolumn_Column_Apply1 0%N gtu (e_col d vs st) (gap_dyn_func_ptr_string_to_int t : (gap_dyn N OTHER)) (map Z.of_nat index)
  = res1 (OTHER := OTHER) (col_apply1 ut (ECol d vs st) (F1 TString TInt tbl) index).
Proof. exact (e_apply1_int ut gtu d vs st t tbl index). Qed.
Print Assumptions T1_colapply_ecolumn_Apply1_int.

Theorem T1_colapply_ecolumn_Apply1_float64 (OTHER OTHERC : Type) ut gtu d vs st (t : option bytes -> outcome N) tbl index :
  (forall p a, In p index -> cell_at (ECol d vs st) p = Ok (CEnum a) -> tbl1 tbl (CEnum a) = omapo CFloat (t a)) ->
  gap_ecolumn_Column_Apply1 0%N gtu (e_col d vs st) (gap_dyn_func_ptr_string_to_float64 t : (gap_dyn N OTHER)) (map Z.of_nat index)
  = res1 (OTHER := OTHER) (col_apply1 ut (ECol d vs st) (F1 TString TFloat tbl) index).
Proof. exact (e_apply1_float64 ut gtu d vs st t tbl index). Qed.
Print Assumptions T1_colapply_ecolumn_Apply1_float64.

Theorem T1_colapply_ecolumn_Apply1_bool (OTHER OTHERC : Type) ut gtu d vs st (t : option bytes -> outcome bool) tbl index :
  (forall p a, In p index -> cell_at (ECol d vs st) p = Ok (CEnum a) -> tbl1 tbl (CEnum a) = omapo CBool (t a)) ->
  gap_ecolumn_Column_Apply1 0%N gtu (e_col d vs st) (gap_dyn_func_ptr_string_to_bool t : (gap_dyn N OTHER)) (map Z.of_nat index)
  = res1 (OTHER := OTHER) (col_apply1 ut (ECol d vs st) (F1 TString TBool tbl) index).
Proof. exact (e_apply1_bool ut gtu d vs st t tbl index). Qed.
Print Assumptions T1_colapply_ecolumn_Apply1_bool.

Theorem T1_colapply_ecolumn_Apply1_ptr_string (OTHER OTHERC : Type) ut gtu d vs st (t : option bytes -> outcome (option bytes)) tbl index :
  (forall p a, In p index -> cell_at (ECol d vs st) p = Ok (CEnum a) -> tbl1 tbl (CEnum a) = omapo CStr (t a)) ->
  gap_ecolumn_Column_Apply1 0%N gtu (e_col d vs st) (gap_dyn_func_ptr_string_to_ptr_string t : (gap_dyn N OTHER)) (map Z.of_nat index)
  = res1 (OTHER := OTHER) (col_apply1 ut (ECol d vs st) (F1 TString TString tbl) index).
Proof. exact (e_apply1_ptr_string ut gtu d vs st t tbl index). Qed.
Print Assumptions T1_colapply_ecolumn_Apply1_ptr_string.

(* any other function value: an error *)
Theorem T1_colapply_ecolumn_Apply1_other_function (OTHER OTHERC : Type) gtu c (fn : (gap_dyn N OTHER)) ix :
  match fn with
  | gap_dyn_func_ptr_string_to_int _ | gap_dyn_func_ptr_string_to_float64 _ | gap_dyn_func_ptr_string_to_bool _
  | gap_dyn_func_ptr_string_to_ptr_string _ | gap_dyn_string _ => False
  | _ => True end ->
  is_err (gap_ecolumn_Column_Apply1 0%N gtu c fn ix).
Proof. exact (e_apply1_other_function gtu c fn ix). Qed.
Print Assumptions T1_colapply_ecolumn_Apply1_other_function.

(* a string names a built-in: looked up in the (translated) table, whose one entry is ToUpper *)
Theorem T1_colapply_ecolumn_Apply1_builtin_name (OTHER OTHERC : Type) gtu c (name : bytes) ix :
  gap_ecolumn_Column_Apply1 0%N gtu c (gap_dyn_string name : (gap_dyn N OTHER)) ix
  = if bytes_eqb name_ToUpper name then do r <- gap_ecolumn_toUpper gtu ix c; Ok (r, None)
    else Ok (gap_dyn_nil, Some (bs 28 0x756e6b6e6f776e206275696c7420696e2066756e6374696f6e202573)).
Proof. exact (e_apply1_builtin_name gtu c name ix). Qed.
Print Assumptions T1_colapply_ecolumn_Apply1_builtin_name.

Theorem T1_colapply_ecolumn_Apply2 (OTHER OTHERC : Type) d vs st d2 vs2 st2 (t : option bytes -> option bytes -> outcome (option bytes)) tbl index :
  (forall p a b, In p index -> cell_at (ECol d vs st) p = Ok (CEnum a) -> cell_at (ECol d2 vs2 st2) p = Ok (CEnum b) ->
                 tbl2 tbl (CEnum a) (CEnum b) = omapo CStr (t a b)) ->
  gap_ecolumn_Column_Apply2 (e_col d vs st) (gap_dyn_func_ptr_string_ptr_string_to_ptr_string t : (gap_dyn N OTHER))
    (gap_col_ecolumn (e_col d2 vs2 st2) : (gap_anycol N OTHERC)) (map Z.of_nat index)
  = res2s (OTHERC := OTHERC) (col_apply2 (ECol d vs st) (ECol d2 vs2 st2) (F2 TString tbl) index).
Proof. exact (e_apply2 d vs st d2 vs2 st2 t tbl index). Qed.
Print Assumptions T1_colapply_ecolumn_Apply2.

(* the second column has another type: an error *)
Theorem T1_colapply_ecolumn_Apply2_other_column (OTHER OTHERC : Type) c (fn : (gap_dyn N OTHER)) (s2 : (gap_anycol N OTHERC)) ix :
  match s2 with gap_col_ecolumn _ => False | gap_col_nil => False | _ => True end ->
  is_err (gap_ecolumn_Column_Apply2 c fn s2 ix).
Proof. exact (e_apply2_other_column c fn s2 ix). Qed.
Print Assumptions T1_colapply_ecolumn_Apply2_other_column.

(* any other function value: an error *)
Theorem T1_colapply_ecolumn_Apply2_other_function (OTHER OTHERC : Type) c (fn : (gap_dyn N OTHER)) c2 ix :
  match fn with gap_dyn_func_ptr_string_ptr_string_to_ptr_string _ => False | _ => True end ->
  is_err (gap_ecolumn_Column_Apply2 c fn (gap_col_ecolumn c2 : (gap_anycol N OTHERC)) ix).
Proof. exact (e_apply2_other_function c fn c2 ix). Qed.
Print Assumptions T1_colapply_ecolumn_Apply2_other_function.

Example T1_colapply_ecolumn_Apply1_example :
  let d := [1; 255; 0]%N in let vs := [[97]; [98]]%N in let index := [0; 1]%nat in
  let t := (fun s : option bytes => Ok (match s with Some _ => true | None => false end)) in
  let tbl := [(CStr (Some [98]%N), CBool true); (CStr None, CBool false)] in
  (forall p a, In p index -> cell_at (ECol d vs false) p = Ok (CEnum a) -> tbl1 tbl (CEnum a) = omapo CBool (t a))
  /\ gap_ecolumn_Column_Apply1 (OTHER := unit) 0%N (fun s => s) (e_col d vs false) (gap_dyn_func_ptr_string_to_bool t)
       (map Z.of_nat index) = Ok (gap_dyn_slice_bool [true; false; false], None).
Proof.
  cbv zeta. split; [|vm_compute; reflexivity].
  intros p a [<-|[<-|[]]] H; vm_compute in H; injection H as <-; reflexivity.
Qed.
(* enum x enum -> string: the answer is the column that the translated scolumn.New builds *)
Example T1_colapply_ecolumn_Apply2_example :
  let d := [1; 255]%N in let vs := [[97]; [98]]%N in let index := [0]%nat in
  let t := (fun a b : option bytes => Ok a) in
  let tbl := [(CStr (Some [98]%N), CStr (Some [98]%N), CStr (Some [98]%N))] in
  (forall p a b, In p index -> cell_at (ECol d vs false) p = Ok (CEnum a) -> cell_at (ECol d vs true) p = Ok (CEnum b) ->
                 tbl2 tbl (CEnum a) (CEnum b) = omapo CStr (t a b))
  /\ match gap_ecolumn_Column_Apply2 (F64 := N) (OTHER := unit) (OTHERC := unit) (e_col d vs false)
            (gap_dyn_func_ptr_string_ptr_string_to_ptr_string t) (gap_col_ecolumn (e_col d vs true)) (map Z.of_nat index) with
     | Ok (gap_col_scolumn pc, None) => str_at pc 0 = Ok (Some [98]%N) /\ str_at pc 1 = Ok None
     | _ => False end.
Proof.
  cbv zeta. split; [|vm_compute; split; reflexivity].
  intros p a b [<-|[]] H H2; vm_compute in H, H2; injection H as <-; injection H2 as <-; reflexivity.
Qed.

(* ------------------------------------------------------------------ the physical string column; scolumn.toUpper *)

(* the accessors of internal/strings/pointer.go (GenFuncs translations) read back what NewPointer packed, inside its limits *)
Theorem T1_colapply_pointer_roundtrip (off len : Z) (null : bool) :
  0 <= off < 2 ^ 35 -> 0 <= len < 2 ^ 28 ->
  gf_strings_Pointer_Offset (gf_strings_NewPointer off len null) = off
  /\ gf_strings_Pointer_Len (gf_strings_NewPointer off len null) = len
  /\ gf_strings_Pointer_IsNull (gf_strings_NewPointer off len null) = null.
Proof. exact (ptr_rt off len null). Qed.
Print Assumptions T1_colapply_pointer_roundtrip.

(* scolumn.New never panics and builds s_enc: one pointer per string, the bytes of the non-nil strings in one blob *)
Theorem T1_colapply_scolumn_New l :
  gap_scolumn_New l = Ok (s_enc l).
Proof. exact (New_eq l). Qed.
Print Assumptions T1_colapply_scolumn_New.

(* ... which represents the strings it was given when they fit the pointer limits (s_fits: 2^35 bytes in all, 2^28 per string) *)
Theorem T1_colapply_scolumn_New_rep l :
  s_fits l -> s_rep (s_enc l) l.
Proof. exact (New_rep l). Qed.
Print Assumptions T1_colapply_scolumn_New_rep.

(* Apply2 on string columns: the answer REPRESENTS the model's column (when that fits the pointer limits) *)
Theorem T1_colapply_scolumn_Apply2_rep {OTHER OTHERC : Type} pc pc2 d d2 (t : option bytes -> option bytes -> outcome (option bytes)) tbl index :
  s_rep pc d -> s_rep pc2 d2 ->
  (forall p a b, In p index -> idx d p = Ok a -> idx d2 p = Ok b -> tbl2 tbl (CStr a) (CStr b) = omapo CStr (t a b)) ->
  let r2 := gap_scolumn_Column_Apply2 (F64 := N) (OTHER := OTHER) (OTHERC := OTHERC) pc
              (gap_dyn_func_ptr_string_ptr_string_to_ptr_string t) (gap_col_scolumn pc2) (map Z.of_nat index) in
  match col_apply2 (SCol d) (SCol d2) (F2 TString tbl) index with
  | Ok (SCol r) => s_fits r -> exists pc', r2 = Ok (gap_col_scolumn pc', None) /\ s_rep pc' r
  | Ok _ => False
  | Fail => False
  | Panic => r2 = Panic
  end.
Proof. exact (s_apply2_rep pc pc2 d d2 t tbl index). Qed.
Print Assumptions T1_colapply_scolumn_Apply2_rep.

(* scolumn.toUpper against s_to_upper: the answer is a physical column that represents the model's column (an empty column: the source itself; rows outside the index: the empty string; duplicates in the index: the last write).  Premises: the capacity hint is not negative (make panics otherwise — the model has no capacity), qfstrings.ToUpper answers what the model's table records and "" for "" (tu_ok), the upper-cased strings fit the pointer limits *)
Theorem T1_colapply_scolumn_toUpper {OTHER : Type} ut stu se pc d index :
  s_rep pc d ->
  0 <= se (gap_len (gap_scolumn_Column_data pc)) (Z.of_nat (length index)) (gap_len (gap_scolumn_Column_pointers pc)) ->
  tu_ok ut stu d index ->
  Forall (fun p => tu_out ut d p < 2 ^ 28) index -> zsum (map (tu_out ut d) index) < 2 ^ 35 ->
  match s_to_upper ut d index with
  | Ok (SCol r) => exists pc', gap_scolumn_toUpper (F64 := N) (OTHER := OTHER) stu se (map Z.of_nat index) pc
                               = Ok (gap_dyn_scolumn_Column pc') /\ s_rep pc' r
  | Ok _ => False
  | Fail => False
  | Panic => gap_scolumn_toUpper (F64 := N) (OTHER := OTHER) stu se (map Z.of_nat index) pc = Panic
  end.
Proof. exact (s_toUpper ut stu se pc d index). Qed.
Print Assumptions T1_colapply_scolumn_toUpper.

(* Column.Apply1 of a string column with a built-in name against col_apply1 (FBuiltin name): unknown names are errors *)
Theorem T1_colapply_scolumn_Apply1_builtin {OTHER : Type} ut stu se pc d name index :
  s_rep pc d ->
  0 <= se (gap_len (gap_scolumn_Column_data pc)) (Z.of_nat (length index)) (gap_len (gap_scolumn_Column_pointers pc)) ->
  tu_ok ut stu d index ->
  Forall (fun p => tu_out ut d p < 2 ^ 28) index -> zsum (map (tu_out ut d) index) < 2 ^ 35 ->
  let r1 := gap_scolumn_Column_Apply1 (F64 := N) (OTHER := OTHER) 0%N stu se pc (gap_dyn_string name) (map Z.of_nat index) in
  match col_apply1 ut (SCol d) (FBuiltin name) index with
  | Ok (SCol r) => exists pc', r1 = Ok (gap_dyn_scolumn_Column pc', None) /\ s_rep pc' r
  | Ok _ => False
  | Fail => is_err r1
  | Panic => r1 = Panic
  end.
Proof. exact (s_apply1_builtin ut stu se pc d name index). Qed.
Print Assumptions T1_colapply_scolumn_Apply1_builtin.

(* non-vacuity of the pointer limits and of the premises of scolumn.toUpper: the column ["ab", nil, ""], the rows [0; 1; 0], an
   upper-casing table that covers "ab" and "", qfstrings.ToUpper answering the table; the capacity hint 0 *)
Example T1_colapply_scolumn_fits_example : s_fits ex_sd /\ gap_scolumn_New ex_sd = Ok (s_enc ex_sd) /\ ex_spc = s_enc ex_sd.
Proof. split; [apply s_fitsb_ok; vm_compute; reflexivity|]. split; [apply New_eq|]. unfold ex_spc. rewrite New_eq. reflexivity. Qed.
Definition ex_ut : upper_table := [([97; 98]%N, [65; 66]%N); ([], [])].
Definition ex_stu (buf s : bytes) : outcome (bytes * bytes) := omapo (fun u => (u, buf)) (upper_of ex_ut s).
Example T1_colapply_scolumn_toUpper_example :
  let index := [0; 1; 0]%nat in
  s_rep ex_spc ex_sd
  /\ 0 <= (fun _ _ _ : Z => 0) (gap_len (gap_scolumn_Column_data ex_spc)) (Z.of_nat (length index)) (gap_len (gap_scolumn_Column_pointers ex_spc))
  /\ tu_ok ex_ut ex_stu ex_sd index
  /\ Forall (fun p => tu_out ex_ut ex_sd p < 2 ^ 28) index /\ zsum (map (tu_out ex_ut ex_sd) index) < 2 ^ 35
  /\ s_to_upper ex_ut ex_sd index = Ok (SCol [Some [65; 66]%N; None; Some []])
  /\ match gap_scolumn_toUpper (F64 := N) (OTHER := unit) ex_stu (fun _ _ _ => 0) (map Z.of_nat index) ex_spc with
     | Ok (gap_dyn_scolumn_Column pc') => s_dec pc' = [Some [65; 66]%N; None; Some []]
     | _ => False end.
Proof.
  cbv zeta. split; [exact T1_colapply_scolumn_rep_example|]. split; [lia|]. split.
  { split; [intros buf p s _ _; exists buf; reflexivity|intros buf; exists buf; reflexivity]. }
  split; [repeat constructor|]. split; [vm_compute; reflexivity|]. split; vm_compute; reflexivity.
Qed.

(* ------------------------------------------------------------------ ecolumn.toUpper *)

(* enum x enum -> string: the answer REPRESENTS the model's string column (when that fits the pointer limits) *)
Theorem T1_colapply_ecolumn_Apply2_rep {OTHER OTHERC : Type} d vs st d2 vs2 st2 (t : option bytes -> option bytes -> outcome (option bytes)) tbl index :
  (forall p a b, In p index -> cell_at (ECol d vs st) p = Ok (CEnum a) -> cell_at (ECol d2 vs2 st2) p = Ok (CEnum b) ->
                 tbl2 tbl (CEnum a) (CEnum b) = omapo CStr (t a b)) ->
  let r2 := gap_ecolumn_Column_Apply2 (F64 := N) (OTHER := OTHER) (OTHERC := OTHERC) (e_col d vs st)
              (gap_dyn_func_ptr_string_ptr_string_to_ptr_string t) (gap_col_ecolumn (e_col d2 vs2 st2)) (map Z.of_nat index) in
  match col_apply2 (ECol d vs st) (ECol d2 vs2 st2) (F2 TString tbl) index with
  | Ok (SCol r) => s_fits r -> exists pc', r2 = Ok (gap_col_scolumn pc', None) /\ s_rep pc' r
  | Ok _ => False
  | Fail => False
  | Panic => r2 = Panic
  end.
Proof. exact (e_apply2_rep d vs st d2 vs2 st2 t tbl index). Qed.
Print Assumptions T1_colapply_ecolumn_Apply2_rep.

(* ecolumn.toUpper against e_to_upper: values upper-cased once each, colliding results merged into the first rank, the data remapped only when something was merged.  Premises: strings.ToUpper (gtu) answers what the model's table records for the values of the column; at most 256 values (enumVal(len(newValues)) wraps beyond; ecolumn allows 255) *)
Theorem T1_colapply_ecolumn_toUpper {OTHER : Type} ut gtu ix d vs st :
  (forall v, In v vs -> upper_of ut v = Ok (gtu v)) -> (length vs <= 256)%nat ->
  gap_ecolumn_toUpper (F64 := N) (OTHER := OTHER) gtu ix (e_col d vs st) = omapo dyn_of_ecol (e_to_upper ut d vs).
Proof. exact (e_toUpper ut gtu ix d vs st). Qed.
Print Assumptions T1_colapply_ecolumn_toUpper.

(* Column.Apply1 of an enum column with a built-in name against col_apply1 (FBuiltin name) *)
Theorem T1_colapply_ecolumn_Apply1_builtin {OTHER : Type} ut gtu d vs st name index :
  (forall v, In v vs -> upper_of ut v = Ok (gtu v)) -> (length vs <= 256)%nat ->
  let r1 := gap_ecolumn_Column_Apply1 (F64 := N) (OTHER := OTHER) 0%N gtu (e_col d vs st) (gap_dyn_string name) (map Z.of_nat index) in
  match col_apply1 ut (ECol d vs st) (FBuiltin name) index with
  | Ok r => r1 = Ok (dyn_of_ecol r, None) /\ match r with ECol _ _ _ => True | _ => False end
  | Fail => is_err r1
  | Panic => r1 = Panic
  end.
Proof. exact (e_apply1_builtin ut gtu d vs st name index). Qed.
Print Assumptions T1_colapply_ecolumn_Apply1_builtin.

(* non-vacuity: values "a", "A", "b" (the first two collide), ranks [0; 1; 2; null] *)
Definition ex_eut : upper_table := [([97]%N, [65]%N); ([65]%N, [65]%N); ([98]%N, [66]%N)].
Definition ex_gtu (v : bytes) : bytes := match assocb v ex_eut with Some u => u | None => v end.
Example T1_colapply_ecolumn_toUpper_example :
  let vs := [[97]; [65]; [98]]%N in let d := [0; 1; 2; 255]%N in
  (forall v, In v vs -> upper_of ex_eut v = Ok (ex_gtu v)) /\ (length vs <= 256)%nat
  /\ e_to_upper ex_eut d vs = Ok (ECol [0; 0; 1; 255]%N [[65]; [66]]%N false)
  /\ gap_ecolumn_toUpper (F64 := N) (OTHER := unit) ex_gtu [] (e_col d vs true)
     = Ok (gap_dyn_ecolumn_Column (e_col [0; 0; 1; 255]%N [[65]; [66]]%N false)).
Proof.
  cbv zeta. split; [intros v [<-|[<-|[<-|[]]]]; reflexivity|]. split; [cbn; lia|]. split; vm_compute; reflexivity.
Qed.
Example T1_colapply_Apply2_rep_fits_example : s_fits [Some [98]%N; None].
Proof. apply s_fitsb_ok. vm_compute. reflexivity. Qed.

(* ------------------------------------------------------------------ composition with the translated qframe.go *)

(* The translated Apply dispatch of qframe.go (Properties/T1QFrame.v: T1_qframe_Apply) has Column.Apply1 / Apply2 as its
   boundary (premises apply1_ok / apply2_ok).  ca1_gen / ca2_gen fill the boundary: they dispatch on the column type and
   run the TRANSLATED column functions on the Go function value gfn_of fn of the descriptor whenever guard1 / guard2
   hold — the descriptor is a one- (two-) argument function whose recorded results have the declared type (afn_wf: it
   stands for a Go function); a string column (argument or result) fits the pointer limits (s_fitsb) and is the column
   s_enc d that the translated scolumn.New builds; for a built-in name on an enum column strings.ToUpper (gtu) answers
   what the model's table records for the column's values, at most 256 of them.  Outside the guard (a built-in name on
   a string column: T1_colapply_scolumn_Apply1_builtin has premises that are not decidable; descriptors that stand for
   no Go value; oversized string columns) they answer what the model answers. *)
Theorem T1_colapply_boundary1 (E : Type) (e : E) (ut : upper_table) (stu : bytes -> bytes -> outcome (bytes * bytes))
  (se : Z -> Z -> Z -> Z) (gtu : bytes -> bytes) : apply1_ok ut (ca1_gen e ut stu se gtu).
Proof. exact (ca1_gen_ok e ut stu se gtu). Qed.
Print Assumptions T1_colapply_boundary1.

Theorem T1_colapply_boundary2 (E : Type) (e : E) : apply2_ok (ca2_gen e).
Proof. exact (ca2_gen_ok e). Qed.
Print Assumptions T1_colapply_boundary2.

(* inside the guard the boundary IS the translated function (by computation) *)
Example T1_colapply_boundary_runs_translation (e : unit) (ut : upper_table) stu se (gtu : bytes -> bytes) (d : list Z) tbl i :
  afn_wf (F1 TInt TFloat tbl) = true ->
  ca1_gen e ut stu se gtu (ICol d) (fn_of (F1 TInt TFloat tbl)) i
  = conv1 e (gap_icolumn_Column_Apply1 0%N (gap_mk_icolumn_Column d) (gap_dyn_func_int_to_float64 (f1 CInt p_float tbl)) (map Z.of_nat i)).
Proof. intros H. unfold ca1_gen, guard1. cbn [fn_of]. cbv beta iota. rewrite H. reflexivity. Qed.

(* T1_qframe_Apply with its boundary filled: the translated Apply dispatch over the translated columns equals the model's apply, for every program of well-formed descriptors, every represented frame, every map order *)
Theorem T1_colapply_apply {E CF : Type} (col_nil : coldata) (new_error : bytes -> bytes -> E) (propagate : bytes -> option E -> E)
  (checkname_error : bytes -> E) (unknownCol : bytes -> bytes) (enum_error : E) (ord : forall V : Type, gq_map V -> gq_map V)
  (ut : upper_table) (ncfg : list CF -> outcome gq_Config) (e : E) (stu : bytes -> bytes -> outcome (bytes * bytes)) (se : Z -> Z -> Z -> Z) (gtu : bytes -> bytes)
  (is : list instr) (q : gq_QFrame nat E coldata) (f : frame) :
  perm_order ord -> ncfg_empty ncfg -> forallb instr_wf is = true -> rep q f ->
  sim (m_Apply col_nil new_error propagate checkname_error unknownCol enum_error ord ncfg (ca1_gen e ut stu se gtu) (ca2_gen e)
         q (map ginstr_of is))
      (apply ut f is).
Proof. exact (colapply_apply col_nil new_error propagate checkname_error unknownCol enum_error ord ut ncfg e stu se gtu is q f). Qed.
Print Assumptions T1_colapply_apply.

(* C06_instr on the translated text: one instruction through the translated Apply of qframe.go AND the translated Column.Apply1 / Apply2, against the table-level specification tapply_instr *)
Theorem T1_colapply_instr {E CF : Type} (col_nil : coldata) (new_error : bytes -> bytes -> E) (propagate : bytes -> option E -> E)
  (checkname_error : bytes -> E) (unknownCol : bytes -> bytes) (enum_error : E) (ord : forall V : Type, gq_map V -> gq_map V)
  (ut : upper_table) (ncfg : list CF -> outcome gq_Config) (e : E) (stu : bytes -> bytes -> outcome (bytes * bytes)) (se : Z -> Z -> Z -> Z) (gtu : bytes -> bytes)
  (q : gq_QFrame nat E coldata) (f : frame) (t : table) (i : instr) :
  perm_order ord -> ncfg_empty ncfg -> rep q f ->
  ferr f = false -> fr_ok f -> abs f = Ok t -> afn_wf (ifn i) = true -> instr_wf i = true ->
  let r := m_Apply col_nil new_error propagate checkname_error unknownCol enum_error ord ncfg (ca1_gen e ut stu se gtu) (ca2_gen e)
             q [ginstr_of i] in
  match TableSpec.tapply_instr t i with
  | Some (Some t') =>
      exists q' g, r = Ok q' /\ rep q' g /\ ferr g = false /\ ix g = ix f /\ abs g = Ok t' /\ wf_frame g = true
                   /\ phys_len g = phys_len f
  | Some None => True
  | None => (exists q', r = Ok q' /\ rep q' (with_err f)) \/ (r = Panic /\ check_name (idst i) = false)
  end.
Proof. exact (colapply_instr col_nil new_error propagate checkname_error unknownCol enum_error ord ut ncfg e stu se gtu q f t i). Qed.
Print Assumptions T1_colapply_instr.

(* FilteredApply likewise (QFrame.Filter stays the boundary flt: tied by T1Filter.v) *)
Theorem T1_colapply_filtered_apply {E CF : Type} (col_nil : coldata) (new_error : bytes -> bytes -> E) (propagate : bytes -> option E -> E)
  (checkname_error : bytes -> E) (unknownCol : bytes -> bytes) (enum_error : E) (ord : forall V : Type, gq_map V -> gq_map V)
  (ut : upper_table) (ncfg : list CF -> outcome gq_Config) (e : E) (stu : bytes -> bytes -> outcome (bytes * bytes))
  (se : Z -> Z -> Z -> Z) (gtu : bytes -> bytes)
  (mt : matcher_table) (flt : gq_QFrame nat E coldata -> clause -> outcome (gq_QFrame nat E coldata))
  (c : clause) (is : list instr) (q : gq_QFrame nat E coldata) (f : frame) :
  perm_order ord -> ncfg_empty ncfg -> filter_ok mt flt -> forallb instr_wf is = true -> rep q f ->
  sim (m_FilteredApply col_nil new_error propagate checkname_error unknownCol enum_error ord ncfg (ca1_gen e ut stu se gtu) (ca2_gen e)
         flt q c (map ginstr_of is))
      (filtered_apply mt ut f c is).
Proof. exact (colapply_filtered_apply col_nil new_error propagate checkname_error unknownCol enum_error ord ut ncfg e stu se gtu mt flt c is q f). Qed.
Print Assumptions T1_colapply_filtered_apply.

(* the example program of T1QFrame.v (not(a) through a recorded func(bool) bool on the index [2; 0]) through the translated
   qframe.go AND the translated bcolumn.Apply1 *)
Example T1_colapply_apply_example :
  let is := [mkInstr (F1 TBool TBool [(CBool true, CBool false); (CBool false, CBool true)]) [99]%N [97]%N []] in
  let f := mkFrame [([97]%N, BCol [true; false; true])] [2; 0]%nat false in
  forallb instr_wf is = true
  /\ match m_Apply (CF := unit) (ICol []) (fun _ _ => tt) (fun _ _ => tt) (fun _ => tt) (fun b => b) tt (fun _ m => rev m)
             (fun _ => Ok (gq_mk_Config [] [])) (ca1_gen tt [] (fun b s => Ok (s, b)) (fun _ _ _ => 0) (fun s => s)) (ca2_gen tt) (embed tt f) (map ginstr_of is) with
     | Ok q' => Ok (absq q') | Fail => Fail | Panic => Panic end
     = apply [] f is
  /\ match apply [] f is with Ok f' => lookup_col f' [99]%N = Some (BCol [false; false; false]) | _ => False end.
Proof. vm_compute. repeat split; reflexivity. Qed.
