(* Property C06 — Apply computes each destination cell from the same row and changes nothing else. *)
From QF Require Import Base.Prelude Model.Frame Model.Filter Model.Ops Model.TableSpec Proofs.OpsProofs.
Local Open Scope nat_scope.

(* Apply with a one argument function func(T) U, for EVERY duplicate-free row index over existing positions
   (i.e. however the frame was derived): the destination column has the function's result type, holds
   fn(src[r]) for every row r of the frame in frame order, holds the zero value at every physical position that
   is not a row of the frame (what FilteredApply exposes for the rows that do not match), and is put into the
   frame by setColumn. *)
Theorem C06_apply1 ut f tin tout tbl dst src c vals :
  ferr f = false -> lookup_col f src = Some c ->
  ctype_eqb (col_ftype c) tin = true -> tout <> TEnum ->
  NoDup (ix f) -> Forall (fun p => p < col_len c) (ix f) ->
  omap (fun p => do x <- cell_at c p; tbl1 tbl x) (ix f) = Ok vals ->
  Forall (fun y => cell_type_ok tout y = true) vals ->
  exists r, apply1 ut f (F1 tin tout tbl) dst src = Ok (set_column f dst r)
    /\ col_type r = tout /\ col_len r = col_len c
    /\ omap (cell_at r) (ix f) = Ok vals
    /\ (forall q, q < col_len c -> ~ In q (ix f) -> cell_at r q = Ok (zero_cell tout)).
Proof. exact (apply1_spec ut f tin tout tbl dst src c vals). Qed.
Print Assumptions C06_apply1.

(* setColumn: an existing destination is replaced IN ITS POSITION, a new one is appended LAST; the row index,
   Err, and what every other name resolves to stay as they were. *)
Theorem C06_set_column f name c :
  check_name name = true ->
  let g := set_column f name c in
  ix g = ix f /\ ferr g = ferr f
  /\ lookup_col g name = Some c
  /\ (forall m, bytes_eqb name m = false -> lookup g m = lookup f m)
  /\ (match lookup f name with
      | Some (pos, _) => col_names g = col_names f /\ nth_error (cols g) pos = Some (name, c)
      | None => cols g = cols f ++ [(name, c)]
      end).
Proof. exact (set_column_spec f name c). Qed.
Print Assumptions C06_set_column.

(* the k-th produced value lands at physical position index[k]; reading back through the index returns the
   values in order; positions outside the index are untouched *)
Theorem C06_scatter_read (index : list nat) (base vals arr : list cell) :
  NoDup index -> length vals = length index ->
  scatter base index vals = Ok arr -> map (nth_error arr) index = map Some vals.
Proof. exact (scatter_read index base vals arr). Qed.
Print Assumptions C06_scatter_read.

Theorem C06_scatter_outside (index : list nat) (base vals arr : list cell) q :
  scatter base index vals = Ok arr -> ~ In q index -> nth_error arr q = nth_error base q.
Proof. exact (scatter_outside index base vals arr q). Qed.
Print Assumptions C06_scatter_outside.

(* WithRowNums numbers the rows 0 .. n-1 in frame order, whatever the index *)
Theorem C06_rownums f name :
  ferr f = false -> NoDup (ix f) -> Forall (fun p => p < phys_len f) (ix f) -> check_name name = true ->
  exists r, with_row_nums f name = Ok (set_column f name r)
    /\ omap (cell_at r) (ix f) = Ok (map (fun k => CInt (Z.of_nat k)) (seq 0 (length (ix f)))).
Proof. exact (rownums_spec f name). Qed.
Print Assumptions C06_rownums.

(* Non-vacuity: a frame whose index is a rotated strict subset, a recorded function on all its rows. *)
Example C06_premises_satisfiable :
  let f := mkFrame [([65%N], ICol [10; 20; 30; 40]%Z)] [2; 0; 3] false in
  let tbl := [(CInt 30, CStr (Some [51%N])); (CInt 10, CStr None); (CInt 40, CStr (Some [52%N]))]%Z in
  NoDup (ix f) /\ Forall (fun p => p < 4) (ix f)
  /\ omap (fun p => do x <- cell_at (ICol [10; 20; 30; 40]%Z) p; tbl1 tbl x) (ix f)
     = Ok [CStr (Some [51%N]); CStr None; CStr (Some [52%N])]
  /\ apply1 [] f (F1 TInt TString tbl) [66%N] [65%N]
     = Ok (mkFrame [([65%N], ICol [10; 20; 30; 40]%Z); ([66%N], SCol [None; None; Some [51%N]; Some [52%N]])] [2; 0; 3] false).
Proof. exact apply1_example. Qed.
Print Assumptions C06_premises_satisfiable.
