(* Property C06 — Apply computes each destination cell from the same row and changes nothing else. *)
From QF Require Import Base.Prelude Model.Frame Model.Filter Model.Ops Model.TableSpec Proofs.OpsProofs Proofs.OpsProofs2.
Local Open Scope nat_scope.

(* Apply with a one argument function func(T) U, for EVERY duplicate-free row index over existing positions
   (i.e. however the frame was derived): the destination column has the function's result type, holds
   fn(src[r]) for every row r of the frame in frame order, holds the zero value at every physical position that
   is not a row of the frame (what FilteredApply exposes for the rows that do not match), and is put into the
   frame by setColumn. *)
Theorem C06_apply1 ut f tin tout tbl dst src c vals :
  ferr f = false -> lookup_col f src = Some c ->
  ctype_eqb (col_ftype c) tin = true -> tout <> TEnum ->
  NoDup (ix f) -> Forall (fun p => p < col_len c) (ix f) ->
  omap (fun p => do x <- cell_at c p; tbl1 tbl x) (ix f) = Ok vals ->
  Forall (fun y => cell_type_ok tout y = true) vals ->
  exists r, apply1 ut f (F1 tin tout tbl) dst src = Ok (set_column f dst r)
    /\ col_type r = tout /\ col_len r = col_len c
    /\ omap (cell_at r) (ix f) = Ok vals
    /\ (forall q, q < col_len c -> ~ In q (ix f) -> cell_at r q = Ok (zero_cell tout)).
Proof. exact (apply1_spec ut f tin tout tbl dst src c vals). Qed.
Print Assumptions C06_apply1.

(* setColumn: an existing destination is replaced IN ITS POSITION, a new one is appended LAST; the row index,
   Err, and what every other name resolves to stay as they were. *)
Theorem C06_set_column f name c :
  check_name name = true ->
  let g := set_column f name c in
  ix g = ix f /\ ferr g = ferr f
  /\ lookup_col g name = Some c
  /\ (forall m, bytes_eqb name m = false -> lookup g m = lookup f m)
  /\ (match lookup f name with
      | Some (pos, _) => col_names g = col_names f /\ nth_error (cols g) pos = Some (name, c)
      | None => cols g = cols f ++ [(name, c)]
      end).
Proof. exact (set_column_spec f name c). Qed.
Print Assumptions C06_set_column.

(* the k-th produced value lands at physical position index[k]; reading back through the index returns the
   values in order; positions outside the index are untouched *)
Theorem C06_scatter_read (index : list nat) (base vals arr : list cell) :
  NoDup index -> length vals = length index ->
  scatter base index vals = Ok arr -> map (nth_error arr) index = map Some vals.
Proof. exact (scatter_read index base vals arr). Qed.
Print Assumptions C06_scatter_read.

Theorem C06_scatter_outside (index : list nat) (base vals arr : list cell) q :
  scatter base index vals = Ok arr -> ~ In q index -> nth_error arr q = nth_error base q.
Proof. exact (scatter_outside index base vals arr q). Qed.
Print Assumptions C06_scatter_outside.

(* WithRowNums numbers the rows 0 .. n-1 in frame order, whatever the index *)
Theorem C06_rownums f name :
  ferr f = false -> NoDup (ix f) -> Forall (fun p => p < phys_len f) (ix f) -> check_name name = true ->
  exists r, with_row_nums f name = Ok (set_column f name r)
    /\ omap (cell_at r) (ix f) = Ok (map (fun k => CInt (Z.of_nat k)) (seq 0 (length (ix f)))).
Proof. exact (rownums_spec f name). Qed.
Print Assumptions C06_rownums.

(* Non-vacuity: a frame whose index is a rotated strict subset, a recorded function on all its rows. *)
Example C06_premises_satisfiable :
  let f := mkFrame [([65%N], ICol [10; 20; 30; 40]%Z)] [2; 0; 3] false in
  let tbl := [(CInt 30, CStr (Some [51%N])); (CInt 10, CStr None); (CInt 40, CStr (Some [52%N]))]%Z in
  NoDup (ix f) /\ Forall (fun p => p < 4) (ix f)
  /\ omap (fun p => do x <- cell_at (ICol [10; 20; 30; 40]%Z) p; tbl1 tbl x) (ix f)
     = Ok [CStr (Some [51%N]); CStr None; CStr (Some [52%N])]
  /\ apply1 [] f (F1 TInt TString tbl) [66%N] [65%N]
     = Ok (mkFrame [([65%N], ICol [10; 20; 30; 40]%Z); ([66%N], SCol [None; None; Some [51%N]; Some [52%N]])] [2; 0; 3] false).
Proof. exact apply1_example. Qed.
Print Assumptions C06_premises_satisfiable.

(* ================================================================== wave 2 *)

(* Apply with a two argument function func(T, T) T, for EVERY duplicate-free row index over existing positions:
   the destination column has the function's type, holds fn(src1[r], src2[r]) for every row r of the frame in
   frame order, and the zero value at every physical position that is not a row of the frame. *)
Theorem C06_apply2 f t tbl dst src1 src2 c1 c2 vals :
  ferr f = false -> lookup_col f src1 = Some c1 -> lookup_col f src2 = Some c2 ->
  col_type c1 = col_type c2 -> ctype_eqb (col_ftype c1) t = true ->
  NoDup (ix f) -> Forall (fun p => p < col_len c1) (ix f) ->
  omap (fun p => do x <- cell_at c1 p; do y <- cell_at c2 p; tbl2 tbl x y) (ix f) = Ok vals ->
  Forall (fun y => cell_type_ok t y = true) vals ->
  exists r, apply2 f (F2 t tbl) dst src1 src2 = Ok (set_column f dst r)
    /\ col_type r = t /\ col_len r = col_len c1
    /\ omap (cell_at r) (ix f) = Ok vals
    /\ (forall q, q < col_len c1 -> ~ In q (ix f) -> cell_at r q = Ok (zero_cell t)).
Proof. exact (apply2_spec f t tbl dst src1 src2 c1 c2 vals). Qed.
Print Assumptions C06_apply2.

(* unknown sources, sources of two different types, or a function of another type: Err, and the frame as it was *)
Theorem C06_apply2_rejects f fn dst src1 src2 :
  ferr f = false ->
  (lookup_col f src1 = None \/ lookup_col f src2 = None
   \/ (exists c1 c2, lookup_col f src1 = Some c1 /\ lookup_col f src2 = Some c2
       /\ (col_type c1 <> col_type c2 \/ (forall t tbl, fn = F2 t tbl -> ctype_eqb (col_ftype c1) t = false)))) ->
  apply2 f fn dst src1 src2 = Ok (with_err f).
Proof. exact (apply2_rejects f fn dst src1 src2). Qed.
Print Assumptions C06_apply2_rejects.

(* func() T: the value of the k-th call belongs to the k-th row IN FRAME ORDER (not to physical position k);
   values the function would produce after the last row are not asked for; zero outside the index. *)
Theorem C06_apply0_stream f t vals dst :
  ferr f = false -> t <> TEnum -> NoDup (ix f) -> Forall (fun p => p < phys_len f) (ix f) ->
  length (ix f) <= length vals -> Forall (fun y => cell_type_ok t y = true) vals ->
  exists r, apply0 f (F0Stream t vals) dst = Ok (set_column f dst r)
    /\ col_type r = t /\ col_len r = phys_len f
    /\ omap (cell_at r) (ix f) = Ok (firstn (length (ix f)) vals)
    /\ (forall q, q < phys_len f -> ~ In q (ix f) -> cell_at r q = Ok (zero_cell t)).
Proof. exact (apply0_stream_spec f t vals dst). Qed.
Print Assumptions C06_apply0_stream.

(* a constant (int, float64, bool, *string, string), for every frame whose index entries are positions of its
   columns: every row of the frame holds the constant.  When the index has as many entries as the columns have
   rows (a frame as constructed or read; nothing was filtered out or sliced off), EVERY physical position holds
   it (a constant column).  Otherwise — a filtered or sliced frame, and the sub-frame of the matching rows that
   FilteredApply works on — every position that is NOT a row of the frame holds the ZERO VALUE of the constant's
   type, exactly as for func() T: under FilteredApply the rows that do not match do not get the constant. *)
Theorem C06_apply0_const f c dst :
  ferr f = false -> (forall s, c <> CEnum s) -> Forall (fun p => p < phys_len f) (ix f) ->
  exists r, apply0 f (F0Const c) dst = Ok (set_column f dst r)
    /\ col_type r = const_ctype c /\ col_len r = phys_len f
    /\ (forall q, In q (ix f) -> cell_at r q = Ok c)
    /\ (length (ix f) = phys_len f -> forall q, q < phys_len f -> cell_at r q = Ok c)
    /\ (length (ix f) <> phys_len f ->
        forall q, q < phys_len f -> ~ In q (ix f) -> cell_at r q = Ok (zero_cell (const_ctype c))).
Proof. exact (apply0_const_spec f c dst). Qed.
Print Assumptions C06_apply0_const.

(* the first case needs no premise on the index entries *)
Theorem C06_apply0_const_full f c dst :
  ferr f = false -> (forall s, c <> CEnum s) -> length (ix f) = phys_len f ->
  exists r, apply0 f (F0Const c) dst = Ok (set_column f dst r)
    /\ col_type r = const_ctype c /\ col_len r = phys_len f
    /\ (forall q, q < phys_len f -> cell_at r q = Ok c).
Proof. exact (apply0_const_full_spec f c dst). Qed.
Print Assumptions C06_apply0_const_full.

(* both cases occur: the same constant on a full frame and on the same frame over a sub-index *)
Example C06_apply0_const_examples :
  let cs := [([65%N], ICol [10; 20; 30; 40]%Z)] in
  apply0 (mkFrame cs [3; 1; 0; 2] false) (F0Const (CInt 7)) [66%N]
    = Ok (mkFrame (cs ++ [([66%N], ICol [7; 7; 7; 7]%Z)]) [3; 1; 0; 2] false)
  /\ apply0 (mkFrame cs [2; 0] false) (F0Const (CInt 7)) [66%N]
    = Ok (mkFrame (cs ++ [([66%N], ICol [7; 0; 7; 0]%Z)]) [2; 0] false)
  /\ apply0 (mkFrame cs [2; 0] false) (F0Const (CStr (Some [120%N]))) [66%N]
    = Ok (mkFrame (cs ++ [([66%N], SCol [Some [120%N]; None; Some [120%N]; None])]) [2; 0] false).
Proof. cbv zeta. repeat split; vm_compute; reflexivity. Qed.

(* setColumn on the physical frame IS tset_col on the logical table: replace in position or append last, the
   new column contributing exactly its cells read through the index *)
Theorem C06_set_column_table f t name r cells :
  abs f = Ok t -> check_name name = true -> omap (cell_at r) (ix f) = Ok cells ->
  abs (set_column f name r) = Ok (tset_col t name (col_type r) cells).
Proof. exact (abs_set_column f t name r cells). Qed.
Print Assumptions C06_set_column_table.

(* every well-formed frame (Model/Frame.v wf_frame: what the engine checks on every dumped frame) denotes a table *)
Theorem C06_abs_total f : wf_frame f = true -> exists t, abs f = Ok t.
Proof. exact (abs_total f). Qed.
Print Assumptions C06_abs_total.

(* ONE INSTRUCTION of every kind against the table-level specification tapply_instr (Model/TableSpec.v, the
   oracle of the frameops engine), for every well-formed frame with a duplicate-free index (fr_ok):
   - specification = a table t'  : the model returns a well-formed frame without Err over the SAME index that
                                   denotes t' (constant / copy / k-th stream value / fn(src1[r]) / fn(src1[r], src2[r])
                                   in the destination, replaced in position or appended last, all else as before);
   - specification = invalid     : (unknown source, unsupported signature, type mismatch, enum-typed result,
                                   illegal destination name) the model returns the frame with Err set — the only
                                   other possibility, with an illegal destination name, being a fault of a
                                   recorded function table that does not cover its arguments (not a behaviour
                                   of the implementation);
   - specification = open        : built-in function names, function tables that do not cover the cells, streams
                                   shorter than the frame: nothing is claimed.
   afn_wf: the recorded function's results have the declared (non-enum) type, as Go's static types guarantee. *)
Theorem C06_instr ut f t i :
  ferr f = false -> fr_ok f -> abs f = Ok t -> afn_wf (ifn i) = true ->
  match tapply_instr t i with
  | Some (Some t') =>
      exists g, apply_instr ut f i = Ok g /\ ferr g = false /\ ix g = ix f /\ abs g = Ok t' /\ wf_frame g = true
                /\ phys_len g = phys_len f
  | Some None => True
  | None => apply_instr ut f i = Ok (with_err f) \/ (apply_instr ut f i = Panic /\ check_name (idst i) = false)
  end.
Proof. exact (apply_instr_abs ut f t i). Qed.
Print Assumptions C06_instr.

(* INSTRUCTION LISTS, by induction: Apply(i1 .. in) denotes the left fold of tapply_instr — every instruction
   sees the table left by the earlier ones (overwritten sources included); the first invalid instruction makes
   the whole result Err. tapply_prog is literally the fold the engine's FApply oracle evaluates. *)
Theorem C06_program ut is f t :
  ferr f = false -> fr_ok f -> abs f = Ok t -> forallb (fun i => afn_wf (ifn i)) is = true ->
  match tapply_prog t is with
  | Some (Some t') =>
      exists g, apply ut f is = Ok g /\ ferr g = false /\ ix g = ix f /\ abs g = Ok t' /\ wf_frame g = true
                /\ phys_len g = phys_len f
  | Some None => True
  | None => (exists g, apply ut f is = Ok g /\ ferr g = true /\ ix g = ix f) \/ apply ut f is = Panic
  end.
Proof. exact (apply_prog_abs ut is f t). Qed.
Print Assumptions C06_program.

(* columns no instruction names as destination are the same physical columns in the same positions *)
Theorem C06_program_other_columns ut is f g m :
  apply ut f is = Ok g -> ferr g = false ->
  (forall i, In i is -> bytes_eqb (idst i) m = false) -> lookup g m = lookup f m.
Proof. exact (apply_other_cols ut is f g m). Qed.
Print Assumptions C06_program_other_columns.

(* FILTEREDAPPLY.  Premise: what C02_clause_tree proves about the filter — it returns the frame over the sub-list
   of the index selected by a row predicate keep.  Then, restricted to the matching rows, FilteredApply IS the
   whole Apply program on the table of the matching rows (tkeep), the original row index is put back, the frame
   is well formed; an invalid program gives Err. *)
Theorem C06_filtered_matching mt ut f c is t keep :
  ferr f = false -> fr_ok f -> abs f = Ok t -> forallb (fun i => afn_wf (ifn i)) is = true ->
  frame_filter mt f c = Ok (with_ix f (filter keep (ix f))) ->
  match tapply_prog (tkeep keep (ix f) t) is with
  | Some (Some t') =>
      exists g, filtered_apply mt ut f c is = Ok g /\ ferr g = false /\ ix g = ix f /\ wf_frame g = true
                /\ abs (with_ix g (filter keep (ix f))) = Ok t'
  | Some None => True
  | None => (exists g, filtered_apply mt ut f c is = Ok g /\ ferr g = true) \/ filtered_apply mt ut f c is = Panic
  end.
Proof. exact (filtered_apply_matching mt ut f c is t keep). Qed.
Print Assumptions C06_filtered_matching.

(* ... every column that is not a destination is the same physical column in the same position: all of its rows,
   matching or not, are as they were; the row index is the original one (no premise on the filter) *)
Theorem C06_filtered_other_columns mt ut f c is g m :
  filtered_apply mt ut f c is = Ok g -> ferr g = false ->
  (forall i, In i is -> bytes_eqb (idst i) m = false) ->
  ix g = ix f /\ lookup g m = lookup f m.
Proof. exact (filtered_apply_others mt ut f c is g m). Qed.
Print Assumptions C06_filtered_other_columns.

(* ... and a clause that cannot be evaluated gives the filter's Err frame; no instruction runs *)
Theorem C06_filtered_filter_err mt ut f c is ff :
  frame_filter mt f c = Ok ff -> ferr ff = true -> filtered_apply mt ut f c is = Ok ff.
Proof. exact (filtered_apply_filter_err mt ut f c is ff). Qed.
Print Assumptions C06_filtered_filter_err.

(* ... and THE ROWS THAT DO NOT MATCH: for a program of user functions, constants and copies (no built-in function
   names), in the destination column of every function instruction (func() T, func(T) U, func(T, T) T) AND of every
   constant instruction that no later instruction overwrites, every row of the frame that does not match the clause
   holds the ZERO VALUE of the column's type (0, 0.0, false, null string).  fun_instr i = Some ty: i calls a user
   function with result type ty, or gives a constant of type ty. *)
Theorem C06_filtered_zero mt ut f c is keep g :
  ferr f = false -> fr_ok f ->
  forallb (fun i => afn_wf (ifn i) && no_builtin (ifn i)) is = true ->
  frame_filter mt f c = Ok (with_ix f (filter keep (ix f))) ->
  filtered_apply mt ut f c is = Ok g -> ferr g = false ->
  forall pre i post ty, is = pre ++ i :: post ->
    (forall j, In j post -> bytes_eqb (idst j) (idst i) = false) ->
    fun_instr i = Some ty ->
    exists r, lookup_col g (idst i) = Some r /\ col_type r = ty
              /\ forall q, In q (ix f) -> keep q = false -> cell_at r q = Ok (zero_cell ty).
Proof. exact (filtered_apply_zero mt ut f c is keep g). Qed.
Print Assumptions C06_filtered_zero.

(* the same for Apply itself, as a statement about physical positions outside the row index, together with the
   invariants every instruction keeps (well-formedness, row index, physical length) *)
Theorem C06_program_zero_outside ut is f g :
  apply ut f is = Ok g -> ferr f = false -> ferr g = false -> fr_ok f ->
  forallb (fun i => afn_wf (ifn i) && no_builtin (ifn i)) is = true ->
  (fr_ok g /\ ix g = ix f /\ phys_len g = phys_len f) /\
  forall pre i post ty, is = pre ++ i :: post ->
    (forall j, In j post -> bytes_eqb (idst j) (idst i) = false) ->
    fun_instr i = Some ty -> zero_outside g (ix f) (idst i) ty.
Proof. exact (apply_zero_outside ut is f g). Qed.
Print Assumptions C06_program_zero_outside.

(* Non-vacuity of C06_instr / C06_program / C06_filtered_matching: a frame whose index is a rotated strict subset;
   a program whose first instruction overwrites its own source, whose second reads the overwritten column, with a
   null string constant replacing a column in position, a func() stream with a surplus value and a column copy. *)
Definition ex2_frame : frame :=
  mkFrame [([65%N], ICol [10; 20; 30; 40]%Z); ([66%N], ICol [1; 2; 3; 4]%Z); ([83%N], SCol [Some [120%N]; None; Some []; None])]
          [2; 0; 3] false.
Definition ex2_prog : list instr :=
  [ mkInstr (F2 TInt [((CInt 30, CInt 3), CInt 33); ((CInt 10, CInt 1), CInt 11); ((CInt 40, CInt 4), CInt 44)]%Z) [65%N] [65%N] [66%N];
    mkInstr (F1 TInt TString [(CInt 33, CStr (Some [51%N])); (CInt 11, CStr None); (CInt 44, CStr (Some []))]%Z) [67%N] [65%N] [];
    mkInstr (F0Const (CStr None)) [66%N] [] [];
    mkInstr (F0Stream TInt [CInt 7; CInt 8; CInt 9; CInt 10]%Z) [68%N] [] [];
    mkInstr (F0ColName [67%N]) [69%N] [] [] ].
Definition ex2_table : table :=
  mkTable [[65%N]; [66%N]; [83%N]] [TInt; TInt; TString]
          [[CInt 30; CInt 3; CStr (Some [])]; [CInt 10; CInt 1; CStr (Some [120%N])]; [CInt 40; CInt 4; CStr None]]%Z.

Example C06_program_premises_satisfiable :
  ferr ex2_frame = false /\ fr_ok ex2_frame /\ abs ex2_frame = Ok ex2_table
  /\ forallb (fun i => afn_wf (ifn i)) ex2_prog = true
  /\ tapply_prog ex2_table ex2_prog
     = Some (Some (mkTable [[65%N]; [66%N]; [83%N]; [67%N]; [68%N]; [69%N]]
                           [TInt; TString; TString; TString; TInt; TString]
                           [[CInt 33; CStr None; CStr (Some []); CStr (Some [51%N]); CInt 7; CStr (Some [51%N])];
                            [CInt 11; CStr None; CStr (Some [120%N]); CStr None; CInt 8; CStr None];
                            [CInt 44; CStr None; CStr None; CStr (Some []); CInt 9; CStr (Some [])]]%Z))
  /\ tapply_prog (tkeep (fun p => Nat.eqb p 0 || Nat.eqb p 3) (ix ex2_frame) ex2_table) ex2_prog
     = Some (Some (mkTable [[65%N]; [66%N]; [83%N]; [67%N]; [68%N]; [69%N]]
                           [TInt; TString; TString; TString; TInt; TString]
                           [[CInt 11; CStr None; CStr (Some [120%N]); CStr None; CInt 7; CStr None];
                            [CInt 44; CStr None; CStr None; CStr (Some []); CInt 8; CStr (Some [])]]%Z)).
Proof.
  split; [reflexivity|]. split; [split; [vm_compute; reflexivity|]|].
  - simpl. repeat constructor; simpl; intuition lia.
  - split; [vm_compute; reflexivity|]. split; [vm_compute; reflexivity|]. split; vm_compute; reflexivity.
Qed.
Print Assumptions C06_program_premises_satisfiable.

(* the error side: an unknown source, a signature mismatch and an illegal destination name are all "invalid" *)
Example C06_instr_invalid_examples :
  tapply_instr ex2_table (mkInstr (F1 TInt TInt []) [67%N] [90%N] []) = None
  /\ tapply_instr ex2_table (mkInstr (F1 TString TInt []) [67%N] [65%N] []) = None
  /\ tapply_instr ex2_table (mkInstr (F2 TInt []) [67%N] [65%N] [83%N]) = None
  /\ tapply_instr ex2_table (mkInstr (F0Const (CInt 1)) [36%N; 65%N] [] []) = None
  /\ tapply_instr ex2_table (mkInstr (F0ColName [36%N; 65%N]) [36%N; 65%N] [] []) = None.
Proof. repeat split; vm_compute; reflexivity. Qed.

(* Non-vacuity of the FilteredApply theorems: the clause A < 35 on ex2_frame keeps the rows at positions 2 and 0
   (the premise on the filter holds by computation); the function column gets the null string in the row that
   does not match (position 3) — and the constant column gets the zero value 0 there (and at position 1, which is
   not a row of the frame at all). *)
Definition ex2_clause : clause := CLeaf (mkLeaf [65%N] (CmpName (bs 1 0x3c)) (AInt 35) false).
Definition ex2_fprog : list instr :=
  [ mkInstr (F1 TInt TString [(CInt 10, CStr (Some [51%N])); (CInt 30, CStr (Some []))]%Z) [67%N] [65%N] [];
    mkInstr (F0Const (CInt 7)) [68%N] [] [] ].

Example C06_filtered_premises_satisfiable :
  let keep := fun p => Nat.ltb p 3 in
  frame_filter [] ex2_frame ex2_clause = Ok (with_ix ex2_frame (filter keep (ix ex2_frame)))
  /\ forallb (fun i => afn_wf (ifn i) && no_builtin (ifn i)) ex2_fprog = true
  /\ fun_instr (mkInstr (F1 TInt TString [(CInt 10, CStr (Some [51%N])); (CInt 30, CStr (Some []))]%Z) [67%N] [65%N] [])
     = Some TString
  /\ fun_instr (mkInstr (F0Const (CInt 7)) [68%N] [] []) = Some TInt
  /\ filtered_apply [] [] ex2_frame ex2_clause ex2_fprog
     = Ok (mkFrame [([65%N], ICol [10; 20; 30; 40]%Z); ([66%N], ICol [1; 2; 3; 4]%Z);
                    ([83%N], SCol [Some [120%N]; None; Some []; None]);
                    ([67%N], SCol [Some [51%N]; None; Some []; None]);
                    ([68%N], ICol [7; 0; 7; 0]%Z)] [2; 0; 3] false).
Proof. cbv zeta. repeat split; vm_compute; reflexivity. Qed.

(* NOT PROVED (decided per case by the frameops engine's exact model comparison only): built-in function names.
   The table-level specification leaves them open (tapply_instr = Some None).  The statement for the one built-in
   the model implements, ToUpper on string and enum columns, with the upper-casing itself given by the oracle
   table ut (property C18): *)
Definition upper_cell (ut : upper_table) (x : cell) : outcome cell :=
  match x with
  | CStr (Some s) => do u <- upper_of ut s; Ok (CStr (Some u))
  | CEnum (Some s) => do u <- upper_of ut s; Ok (CEnum (Some u))
  | other => Ok other
  end.
Definition C06_builtin_full_statement : Prop :=
  forall ut f t dst src ty cells out,
    ferr f = false -> fr_ok f -> abs f = Ok t -> check_name dst = true ->
    tcolumn t src = Some (ty, cells) -> (ty = TString \/ ty = TEnum) ->
    omap (upper_cell ut) cells = Ok out ->
    (forall c s, lookup_col f src = Some c -> In s (match c with ECol _ vs _ => vs | _ => [] end) -> upper_of ut s <> Panic) ->
    exists g, apply_instr ut f (mkInstr (FBuiltin name_ToUpper) dst src []) = Ok g /\ ferr g = false
              /\ ix g = ix f /\ abs g = Ok (tset_col t dst ty out).
