(* Property C18 — like / ilike match by the documented wildcard and case rules.
   Statements only; proofs are in Proofs/MatchProofs.v.  The specification side (upper_spec, like_regex,
   like_spec, like_row_spec) is at the end of Model/Match.v.  unicode.ToUpper (up), strings.ToUpper on
   the pattern (su) and the regular expression engine (re) are universally quantified functions. *)
From QF Require Import Base.Prelude Model.Utf8 Model.Bits Model.Match Proofs.Utf8Proofs Proofs.MatchProofs.
Local Open Scope N_scope.

(* ToUpper: for every function up, every buffer bp (any length, any contents) and every valid UTF-8
   string s the result is: decode, apply up, drop negative results, encode (EncodeRune itself turns
   values that are no scalar values into U+FFFD).  The buffer handed to the next call is either the
   old one (nothing changed) or a buffer of at least len(s)+4 bytes that starts with the result. *)
Theorem C18_toupper_ok (up : N -> Z) (bp s : bytes) :
  utf8_valid s = true ->
  exists bp', to_upper up bp s = Ok (upper_spec up s, bp') /\
              (bp' = bp \/
               ((length s + 4 <= length bp')%nat /\
                firstn (length (upper_spec up s)) bp' = upper_spec up s)).
Proof. exact (toupper_ok up bp s). Qed.
Print Assumptions C18_toupper_ok.

Example C18_toupper_premise_example :   (* a, dotless i, U+0080, sharp s, U+0250, U+10428 *)
  utf8_valid (bs 13 0x61C4B1C280C39FC990F09090A8) = true.
Proof. vm_compute. reflexivity. Qed.

(* in particular the result does not depend on the buffer *)
Theorem C18_toupper_buffer_independent (up : N -> Z) (bp1 bp2 s : bytes) :
  utf8_valid s = true ->
  exists b1 b2 res, to_upper up bp1 s = Ok (res, b1) /\ to_upper up bp2 s = Ok (res, b2).
Proof. exact (toupper_buffer_independent up bp1 bp2 s). Qed.
Print Assumptions C18_toupper_buffer_independent.

(* successive calls that reuse the buffer left behind by the previous call *)
Theorem C18_toupper_successive_calls (up : N -> Z) (ss : list bytes) (bp : bytes) :
  Forall (fun s => utf8_valid s = true) ss ->
  to_upper_seq up bp ss = Ok (map (upper_spec up) ss).
Proof. exact (toupper_seq_ok up ss bp). Qed.
Print Assumptions C18_toupper_successive_calls.

(* the one-byte fast path is right exactly below utf8.RuneSelf *)
Theorem C18_fast_path_condition (r : Z) :
  (0 <= r)%Z -> (r < 0x80)%Z -> encode_rune r = [to_byte (Z.to_N r)].
Proof. exact (encode_ascii r). Qed.
Print Assumptions C18_fast_path_condition.

Example C18_fast_path_bound_is_sharp : encode_rune 0x80 <> [to_byte (Z.to_N 0x80)].
Proof. exact fast_path_bound_is_sharp. Qed.

(* NewMatcher + Matches: either the constructed regular expression does not compile and the filter
   fails, or a matcher is returned whose every answer — on every buffer state it may be in — is the
   documented rule like_spec.  Premises: the regular expression oracle fails to compile independently of
   the subject; strings.ToUpper keeps a leading / trailing % of the pattern.  ilike on literal patterns
   needs the cell to be valid UTF-8 (C18 quantifies over those). *)
Theorem C18_matcher_rule (up : N -> Z) (su : bytes -> bytes) (re : bytes -> bytes -> option bool)
        (p : bytes) (cs : bool) :
  (forall pat s1 s2, re pat s1 = None -> re pat s2 = None) ->
  starts_pct (su p) = starts_pct p -> ends_pct (su p) = ends_pct p ->
  (new_matcher su re p cs = Fail /\ forall cell, like_spec up (su p) re p cs cell = None)
  \/
  (exists m, new_matcher su re p cs = Ok m /\
     forall buf cell, (cs = true \/ existsb is_meta p = true \/ utf8_valid cell = true) ->
       exists b buf', matches up re (with_buf m buf) cell = Ok (b, with_buf m buf') /\
                      like_spec up (su p) re p cs cell = Some b).
Proof. exact (matcher_rule up su re p cs). Qed.
Print Assumptions C18_matcher_rule.

Example C18_matcher_premise_example :
  let re : bytes -> bytes -> option bool := fun pat _ => match pat with [] => None | _ => Some true end in
  let su : bytes -> bytes := fun p => p in
  (forall pat s1 s2, re pat s1 = None -> re pat s2 = None) /\
  starts_pct (su (bs 3 0x256125)) = starts_pct (bs 3 0x256125) /\
  ends_pct (su (bs 3 0x256125)) = ends_pct (bs 3 0x256125).
Proof. cbv zeta. split; [intros [|? ?] s1 s2 H; [reflexivity|discriminate]|split; reflexivity]. Qed.

(* the boolean string predicates used by like_spec mean what their names say *)
Theorem C18_has_prefix_spec s p : has_prefix s p = true <-> exists t, s = p ++ t.
Proof. exact (has_prefix_spec s p). Qed.
Theorem C18_has_suffix_spec s p : has_suffix s p = true <-> exists t, s = t ++ p.
Proof. exact (has_suffix_spec s p). Qed.
Theorem C18_contains_spec s p : contains s p = true <-> exists a b, s = a ++ p ++ b.
Proof. exact (contains_spec s p). Qed.
Theorem C18_equal_spec s p : bytes_eqb s p = true <-> s = p.
Proof. exact (bytes_eqb_spec s p). Qed.
Print Assumptions C18_contains_spec.

(* the one-character pattern %: both flags are set by the same character, the literal is empty, and
   every non-null cell matches (like and ilike) *)
Example C18_percent_only (up : N -> Z) (re : bytes -> bytes -> option bool) (cs : bool) (cell : bytes) :
  like_spec up [0x25] re [0x25] cs cell = Some true.
Proof.
  unfold like_spec. cbn. destruct cs; cbn;
    [destruct cell; reflexivity | destruct (upper_spec up cell); reflexivity].
Qed.

(* ---------------------------------------------------------------- filter level
   rows_ok f index col 0 bIndex res: res has one entry per entry of bIndex; an entry that was already
   true stays true, otherwise it is f (the cell of that row), the row being index[i].
   like_row_spec: a null cell never matches; a non-null cell matches by like_spec. *)

Theorem C18_null_never_matches up su re p cs : like_row_spec up (su p) re p cs None = false.
Proof. exact (null_never_matches up su re p cs). Qed.

(* string column (scolumn regexFilter): cells are valid UTF-8, the rows named by the index exist *)
Theorem C18_string_filter (up : N -> Z) (su : bytes -> bytes) (re : bytes -> bytes -> option bool)
        (p : bytes) (cs : bool) (index : list nat) (col : list (option bytes)) (bi : list bool) :
  (forall pat s1 s2, re pat s1 = None -> re pat s2 = None) ->
  starts_pct (su p) = starts_pct p -> ends_pct (su p) = ends_pct p ->
  Forall cell_valid col -> rows_in_range index col 0 (length bi) ->
  (regex_filter up su re index col p bi cs = Fail /\
     forall cell, like_spec up (su p) re p cs cell = None)
  \/
  (exists res, regex_filter up su re index col p bi cs = Ok res /\
               rows_ok (like_row_spec up (su p) re p cs) index col 0 bi res).
Proof. exact (fun Hre Hs He => string_like_filter up su re p cs Hre Hs He index col bi). Qed.
Print Assumptions C18_string_filter.

(* enum column (ecolumn filterLike + filterWithBitset): values = the enum's value list (at most 255),
   data = the rank of every row, 255 = null; the cell of a row is enum_cell values rank *)
Theorem C18_enum_filter (up : N -> Z) (su : bytes -> bytes) (re : bytes -> bytes -> option bool)
        (p : bytes) (cs : bool) (index : list nat) (values : list bytes) (data : list N) (bi : list bool) :
  (forall pat s1 s2, re pat s1 = None -> re pat s2 = None) ->
  starts_pct (su p) = starts_pct p -> ends_pct (su p) = ends_pct p ->
  (length values <= 255)%nat ->
  Forall (fun v => utf8_valid v = true) values ->
  Forall (fun e => e = 255 \/ (N.to_nat e < length values)%nat) data ->
  rows_in_range index data 0 (length bi) ->
  (enum_like_filter up su re index values data p bi cs = Fail /\
     forall cell, like_spec up (su p) re p cs cell = None)
  \/
  (exists res, enum_like_filter up su re index values data p bi cs = Ok res /\
               rows_ok (like_row_spec up (su p) re p cs) index (map (enum_cell values) data) 0 bi res).
Proof. exact (fun Hre Hs He => enum_like_filter_ok up su re p cs Hre Hs He index values data bi). Qed.
Print Assumptions C18_enum_filter.

(* a string column and an enum column holding the same values give the same answer (same error too) *)
Theorem C18_string_enum_agree (up : N -> Z) (su : bytes -> bytes) (re : bytes -> bytes -> option bool)
        (p : bytes) (cs : bool) (index : list nat) (values : list bytes) (data : list N) (bi : list bool) :
  (forall pat s1 s2, re pat s1 = None -> re pat s2 = None) ->
  starts_pct (su p) = starts_pct p -> ends_pct (su p) = ends_pct p ->
  (length values <= 255)%nat ->
  Forall (fun v => utf8_valid v = true) values ->
  Forall (fun e => e = 255 \/ (N.to_nat e < length values)%nat) data ->
  rows_in_range index data 0 (length bi) ->
  regex_filter up su re index (map (enum_cell values) data) p bi cs
  = enum_like_filter up su re index values data p bi cs.
Proof. exact (fun Hre Hs He => string_enum_agree up su re p cs Hre Hs He index values data bi). Qed.
Print Assumptions C18_string_enum_agree.

(* the result relation determines the result *)
Theorem C18_rows_ok_functional f index col i bi r1 r2 :
  rows_ok f index col i bi r1 -> rows_ok f index col i bi r2 -> r1 = r2.
Proof. exact (rows_ok_fun f index col i bi r1 r2). Qed.

(* concrete frame satisfying the premises: values ["ab"; "Ab"], rows = ranks [0; 255; 1], all rows *)
Example C18_filter_premise_example :
  let values := [bs 2 0x6162; bs 2 0x4162] in
  let data := [0; 255; 1] in
  let index := [0%nat; 1%nat; 2%nat] in
  (length values <= 255)%nat /\
  Forall (fun v => utf8_valid v = true) values /\
  Forall (fun e => e = 255 \/ (N.to_nat e < length values)%nat) data /\
  rows_in_range index data 0 3 /\
  enum_like_filter (fun c => if (97 <=? c) && (c <=? 122) then (Z.of_N c - 32)%Z else Z.of_N c)
                   (fun p => bs 3 0x254125) (fun _ _ => Some false)
                   index values data (bs 3 0x256125) [false; false; false] false
  = Ok [true; false; true].
Proof.
  cbv zeta. split; [cbn; lia|]. split; [repeat constructor|]. split.
  - constructor; [right; cbn; lia|]. constructor; [left; reflexivity|].
    constructor; [right; cbn; lia|]. constructor.
  - split; [|vm_compute; reflexivity].
    intros k Hk. destruct k as [|[|[|k]]]; try lia; cbn;
      eexists; eexists; (split; [reflexivity|]); reflexivity.
Qed.
