(* Tie T1, semantic part — not one of the 19 properties, compiled with them.
   Gen/GenFuncs.v is produced by tools/qf2coq/funcs.go from the Go text of small pure functions of the
   library (statement by statement, all integers on Z with explicit wrap-around).  Every theorem below says:
   the definition generated from the Go source equals the hand-written model function that the proofs of the
   properties and the engines use — for all inputs of the Go argument types.  An edit of one of these Go
   functions changes the generated text at the next run and the theorem of that function stops compiling.

   Reading aid: values of uintN are Z in [0, 2^N), of intN in [-2^(N-1), 2^(N-1)); [o2o f] maps the model's
   outcome to the option of the generated function (Ok x -> Some (f x), Panic -> None; the models never
   return Fail: T1_*_no_fail); None on the generated side = the Go function panics (failed assert, index out
   of range, division by zero) or the loop fuel listed in funcs.go is exhausted. *)
From QF Require Import Base.Prelude Gen.GenConsts Gen.GenRyu Gen.GenFuncs Proofs.GenFuncsProofs.
From QF Require Model.Ryu Model.Bits Model.Grouper Model.Sort Model.Frame Model.Ops.
Local Open Scope Z_scope.

(* ------------------------------------------------------------------ internal/ryu *)

Theorem T1_assert (b : bool) : gf_ryu_assert b = o2o (fun u : unit => u) (Ryu.assert_ b).
Proof. exact (assert_eq b). Qed.
Print Assumptions T1_assert.

(* no premise: both sides read e through uint32(e) *)
Theorem T1_log10Pow2 (e : Z) : gf_ryu_log10Pow2 e = o2o Z.of_N (Ryu.log10Pow2 e).
Proof. exact (gf_ryu_log10Pow2_eq e). Qed.
Print Assumptions T1_log10Pow2.

Theorem T1_log10Pow5 (e : Z) : gf_ryu_log10Pow5 e = o2o Z.of_N (Ryu.log10Pow5 e).
Proof. exact (gf_ryu_log10Pow5_eq e). Qed.
Print Assumptions T1_log10Pow5.

Theorem T1_pow5Bits (e : Z) : gf_ryu_pow5Bits e = o2o idZ (Ryu.pow5Bits e).
Proof. exact (gf_ryu_pow5Bits_eq e). Qed.
Print Assumptions T1_pow5Bits.

Theorem T1_boolToInt (b : bool) : gf_ryu_boolToInt b = Z.of_N (Ryu.b2n b).
Proof. exact (gf_ryu_boolToInt_eq b). Qed.
Print Assumptions T1_boolToInt.
Theorem T1_boolToUint32 (b : bool) : gf_ryu_boolToUint32 b = Z.of_N (Ryu.b2n b).
Proof. exact (gf_ryu_boolToUint32_eq b). Qed.
Print Assumptions T1_boolToUint32.
Theorem T1_boolToUint64 (b : bool) : gf_ryu_boolToUint64 b = Z.of_N (Ryu.b2n b).
Proof. exact (gf_ryu_boolToUint64_eq b). Qed.
Print Assumptions T1_boolToUint64.

Theorem T1_decimalLen64 (u : Z) : 0 <= u < 18446744073709551616 ->
  gf_ryu_decimalLen64 u = o2o idZ (Ryu.decimalLen64 (Z.to_N u)).
Proof. exact (gf_ryu_decimalLen64_eq u). Qed.
Print Assumptions T1_decimalLen64.
Example T1_decimalLen64_example : gf_ryu_decimalLen64 12345678901234567 = Some 17.
Proof. vm_compute. reflexivity. Qed.

Theorem T1_shiftRight128 (lo hi shift : Z) : 0 <= lo -> 0 <= hi ->
  gf_ryu_shiftRight128 (lo, hi) shift = o2o Z.of_N (Ryu.shiftRight128 (Z.to_N lo, Z.to_N hi) shift).
Proof. exact (gf_ryu_shiftRight128_eq lo hi shift). Qed.
Print Assumptions T1_shiftRight128.
Example T1_shiftRight128_example : gf_ryu_shiftRight128 (8, 1) 2 = Some 4611686018427387906.
Proof. vm_compute. reflexivity. Qed.

Theorem T1_mulShift64 (m lo hi shift : Z) : 0 <= m -> 0 <= lo -> 0 <= hi ->
  gf_ryu_mulShift64 m (lo, hi) shift = o2o Z.of_N (Ryu.mulShift64 (Z.to_N m) (Z.to_N lo, Z.to_N hi) shift).
Proof. exact (gf_ryu_mulShift64_eq m lo hi shift). Qed.
Print Assumptions T1_mulShift64.
Example T1_mulShift64_example : gf_ryu_mulShift64 12345678901234 (5, 7) 70 = Some 1350308629822.
Proof. vm_compute. reflexivity. Qed.

(* the loop of pow5Factor64, fuel for fuel (64 on both sides; v = 0 never terminates in Go = None/Panic here) *)
Theorem T1_pow5Factor64 (v : Z) : 0 <= v ->
  gf_ryu_pow5Factor64 v = o2o Z.of_N (Ryu.pow5Factor64 (Z.to_N v)).
Proof. exact (gf_ryu_pow5Factor64_eq v). Qed.
Print Assumptions T1_pow5Factor64.
Example T1_pow5Factor64_example : gf_ryu_pow5Factor64 3125 = Some 5 /\ gf_ryu_pow5Factor64 0 = None.
Proof. vm_compute. split; reflexivity. Qed.

Theorem T1_multipleOfPowerOfFive64 (v p : Z) : 0 <= v -> 0 <= p ->
  gf_ryu_multipleOfPowerOfFive64 v p
  = o2o (fun b : bool => b) (Ryu.multipleOfPowerOfFive64 (Z.to_N v) (Z.to_N p)).
Proof. exact (gf_ryu_multipleOfPowerOfFive64_eq v p). Qed.
Print Assumptions T1_multipleOfPowerOfFive64.
Example T1_multipleOfPowerOfFive64_example :
  gf_ryu_multipleOfPowerOfFive64 250 3 = Some true /\ gf_ryu_multipleOfPowerOfFive64 250 4 = Some false.
Proof. vm_compute. split; reflexivity. Qed.

Theorem T1_multipleOfPowerOfTwo64 (v p : Z) : 0 <= v < 18446744073709551616 -> 0 <= p ->
  gf_ryu_multipleOfPowerOfTwo64 v p = Ryu.multipleOfPowerOfTwo64 (Z.to_N v) (Z.to_N p).
Proof. exact (gf_ryu_multipleOfPowerOfTwo64_eq v p). Qed.
Print Assumptions T1_multipleOfPowerOfTwo64.
Example T1_multipleOfPowerOfTwo64_example :
  gf_ryu_multipleOfPowerOfTwo64 48 4 = true /\ gf_ryu_multipleOfPowerOfTwo64 48 5 = false
  /\ gf_ryu_multipleOfPowerOfTwo64 0 64 = true.
Proof. vm_compute. repeat split; reflexivity. Qed.

(* float64ToDecimalExactInt: same answer and same decimal; when the answer is "no" the Go function returns its
   half-built d, which the model does not keep *)
Theorem T1_float64ToDecimalExactInt (mant exp : N) :
  exact_int_rel (gf_ryu_float64ToDecimalExactInt (Z.of_N mant) (Z.of_N exp))
                (Ryu.float64ToDecimalExactInt mant exp).
Proof. exact (gf_ryu_float64ToDecimalExactInt_eq mant exp). Qed.
Print Assumptions T1_float64ToDecimalExactInt.
Example T1_float64ToDecimalExactInt_example :
  gf_ryu_float64ToDecimalExactInt 0 1030 = Some ((128, 0), true)
  /\ gf_ryu_float64ToDecimalExactInt 1 1030 = Some ((128, 0), false).
Proof. vm_compute. split; reflexivity. Qed.

(* float64ToDecimal — steps 2 to 4 of Ryu (interval, 128-bit multiplication by the table entry, both digit
   removal loops): the translation of the ~200 lines of Go equals the model for ALL mant, exp, no premise *)
Theorem T1_float64ToDecimal (mant exp : N) :
  gf_ryu_float64ToDecimal (Z.of_N mant) (Z.of_N exp) = o2o dec_of (Ryu.float64ToDecimal mant exp).
Proof. exact (gf_ryu_float64ToDecimal_eq mant exp). Qed.
Print Assumptions T1_float64ToDecimal.
Example T1_float64ToDecimal_example :     (* 0.3 = 0x3FD3333333333333 *)
  gf_ryu_float64ToDecimal 0x3333333333333 1021 = Some (3, -1).
Proof. vm_compute. reflexivity. Qed.

Theorem T1_float64ToDecimal_no_fail (mant exp : N) : Ryu.float64ToDecimal mant exp <> Fail.
Proof. exact (float64ToDecimal_no_fail mant exp). Qed.
Print Assumptions T1_float64ToDecimal_no_fail.

Theorem T1_ryu_helpers_no_fail :
  (forall e, Ryu.log10Pow2 e <> Fail) /\ (forall e, Ryu.log10Pow5 e <> Fail) /\ (forall e, Ryu.pow5Bits e <> Fail)
  /\ (forall u, Ryu.decimalLen64 u <> Fail) /\ (forall v s, Ryu.shiftRight128 v s <> Fail)
  /\ (forall m mul s, Ryu.mulShift64 m mul s <> Fail) /\ (forall v p, Ryu.multipleOfPowerOfFive64 v p <> Fail)
  /\ (forall v, Ryu.pow5Factor64 v <> Fail).
Proof.
  exact (conj log10Pow2_no_fail (conj log10Pow5_no_fail (conj pow5Bits_no_fail (conj decimalLen64_no_fail
        (conj shiftRight128_no_fail (conj mulShift64_no_fail (conj multipleOfPowerOfFive64_no_fail
        (fun v => pow5Factor64_aux_no_fail 64 v 0%N)))))))).
Qed.
Print Assumptions T1_ryu_helpers_no_fail.

(* ------------------------------------------------------------------ internal/strings/pointer.go *)

Theorem T1_NewPointer (offset length : Z) (isNull : bool) :
  0 <= offset -> 0 <= length < 9223372036854775808 ->
  gf_strings_NewPointer offset length isNull
  = Z.of_N (Bits.new_pointer (Z.to_N offset) (Z.to_N length) isNull).
Proof. exact (gf_strings_NewPointer_eq offset length isNull). Qed.
Print Assumptions T1_NewPointer.
Example T1_NewPointer_example : gf_strings_NewPointer 5 3 true = 9223372038196953091.
Proof. vm_compute. reflexivity. Qed.

Theorem T1_Pointer_Offset (p : Z) : 0 <= p < 18446744073709551616 ->
  gf_strings_Pointer_Offset p = Z.of_N (Bits.ptr_offset (Z.to_N p)).
Proof. exact (gf_strings_Pointer_Offset_eq p). Qed.
Print Assumptions T1_Pointer_Offset.

Theorem T1_Pointer_Len (p : Z) : 0 <= p < 18446744073709551616 ->
  gf_strings_Pointer_Len p = Z.of_N (Bits.ptr_len (Z.to_N p)).
Proof. exact (gf_strings_Pointer_Len_eq p). Qed.
Print Assumptions T1_Pointer_Len.

Theorem T1_Pointer_IsNull (p : Z) : 0 <= p ->
  gf_strings_Pointer_IsNull p = Bits.ptr_isnull (Z.to_N p).
Proof. exact (gf_strings_Pointer_IsNull_eq p). Qed.
Print Assumptions T1_Pointer_IsNull.
Example T1_Pointer_example :
  gf_strings_Pointer_Offset 9223372038196953091 = 5 /\ gf_strings_Pointer_Len 9223372038196953091 = 3
  /\ gf_strings_Pointer_IsNull 9223372038196953091 = true.
Proof. vm_compute. repeat split; reflexivity. Qed.

(* internal/strings/name.go: strings are the lists of their bytes; the error result of CheckName is observed as
   nil (true) / not nil (false) — which qerrors.New message is returned is not part of the translation *)
Theorem T1_isQuoted (s : list N) : gf_strings_isQuoted (map Z.of_N s) = Ops.is_quoted s.
Proof. exact (gf_strings_isQuoted_eq s). Qed.
Print Assumptions T1_isQuoted.

Theorem T1_CheckName (s : list N) : gf_strings_CheckName (map Z.of_N s) = Ops.check_name s.
Proof. exact (gf_strings_CheckName_eq s). Qed.
Print Assumptions T1_CheckName.
Example T1_CheckName_example :   (* "ab" legal; "$a", "'a'" and "" are not *)
  gf_strings_CheckName [97; 98] = true /\ gf_strings_CheckName [36; 97] = false
  /\ gf_strings_CheckName [39; 97; 39] = false /\ gf_strings_CheckName [] = false.
Proof. vm_compute. repeat split; reflexivity. Qed.

(* ------------------------------------------------------------------ internal/ecolumn *)

Theorem T1_bitset_set (s : list N) (v : Z) : length s = 4%nat -> 0 <= v < 256 ->
  gf_ecolumn_bitset_set (map Z.of_N s) v = Some (map Z.of_N (Bits.bitset_set s (Z.to_N v))).
Proof. exact (gf_ecolumn_bitset_set_eq s v). Qed.
Print Assumptions T1_bitset_set.
Example T1_bitset_set_example :
  gf_ecolumn_bitset_set [0; 0; 0; 0] 130 = Some [0; 0; 4; 0].
Proof. vm_compute. reflexivity. Qed.

Theorem T1_bitset_isSet (s : list N) (v : Z) : length s = 4%nat -> 0 <= v < 256 ->
  gf_ecolumn_bitset_isSet (map Z.of_N s) v = Some (Bits.bitset_isset s (Z.to_N v)).
Proof. exact (gf_ecolumn_bitset_isSet_eq s v). Qed.
Print Assumptions T1_bitset_isSet.
Example T1_bitset_isSet_example :
  gf_ecolumn_bitset_isSet [0; 0; 4; 0] 130 = Some true /\ gf_ecolumn_bitset_isSet [0; 0; 4; 0] 131 = Some false.
Proof. vm_compute. split; reflexivity. Qed.

Theorem T1_enumVal_isNull (v : Z) : 0 <= v ->
  gf_ecolumn_enumVal_isNull v = Frame.enum_is_null (Z.to_N v).
Proof. exact (gf_ecolumn_enumVal_isNull_eq v). Qed.
Print Assumptions T1_enumVal_isNull.

Theorem T1_enumVal_compVal (v : Z) : 0 <= v < 256 ->
  gf_ecolumn_enumVal_compVal v
  = if Frame.enum_is_null (Z.to_N v) then - Z.of_N c_compval_null else Z.of_N (Z.to_N v).
Proof. exact (gf_ecolumn_enumVal_compVal_eq v). Qed.
Print Assumptions T1_enumVal_compVal.
Example T1_enumVal_compVal_example : gf_ecolumn_enumVal_compVal 255 = -1 /\ gf_ecolumn_enumVal_compVal 7 = 7.
Proof. vm_compute. split; reflexivity. Qed.

(* ------------------------------------------------------------------ internal/math/integer, internal/grouper, internal/sort *)

Theorem T1_integer_Max (x y : Z) : gf_integer_Max x y = Z.max x y.
Proof. exact (gf_integer_Max_eq x y). Qed.
Print Assumptions T1_integer_Max.
Theorem T1_integer_Min (x y : Z) : gf_integer_Min x y = Z.min x y.
Proof. exact (gf_integer_Min_eq x y). Qed.
Print Assumptions T1_integer_Min.

Theorem T1_calculateInitialSizeExp (n : Z) : 0 <= n < 9223372036854775808 ->
  gf_grouper_calculateInitialSizeExp n = Z.of_N (Grouper.calculate_initial_size_exp (Z.to_N n)).
Proof. exact (gf_grouper_calculateInitialSizeExp_eq n). Qed.
Print Assumptions T1_calculateInitialSizeExp.
Example T1_calculateInitialSizeExp_example : gf_grouper_calculateInitialSizeExp 1000 = 8.
Proof. vm_compute. reflexivity. Qed.

(* the model counts in nat; 2^62 bounds the slice length so that depth*2 cannot wrap *)
Theorem T1_maxDepth (n : nat) : Z.of_nat n < 4611686018427387904 ->
  gf_sort_maxDepth (Z.of_nat n) = o2o Z.of_nat (Sort.max_depth n).
Proof. exact (gf_sort_maxDepth_eq n). Qed.
Print Assumptions T1_maxDepth.
Example T1_maxDepth_example : gf_sort_maxDepth 1000 = Some 20.
Proof. vm_compute. reflexivity. Qed.
Theorem T1_maxDepth_no_fail (n : nat) : Sort.max_depth n <> Fail.
Proof. exact (max_depth_no_fail n). Qed.
Print Assumptions T1_maxDepth_no_fail.

(* ------------------------------------------------------------------ function/int.go, function/bool.go
   (no hand model: the generated definitions ARE the meaning; stated against Prelude.wrap64) *)

Theorem T1_PlusI (x y : Z) : gf_function_PlusI x y = wrap64 (x + y).
Proof. exact (gf_function_PlusI_eq x y). Qed.
Print Assumptions T1_PlusI.
Theorem T1_MinusI (x y : Z) : gf_function_MinusI x y = wrap64 (x - y).
Proof. exact (gf_function_MinusI_eq x y). Qed.
Print Assumptions T1_MinusI.
Theorem T1_MulI (x y : Z) : gf_function_MulI x y = wrap64 (x * y).
Proof. exact (gf_function_MulI_eq x y). Qed.
Print Assumptions T1_MulI.
Theorem T1_PlusI_exact (x y : Z) : int_range (x + y) -> gf_function_PlusI x y = x + y.
Proof. exact (gf_function_PlusI_exact x y). Qed.
Print Assumptions T1_PlusI_exact.
Theorem T1_AbsI (x : Z) : int_range x ->
  (x <> -9223372036854775808 -> gf_function_AbsI x = Z.abs x)
  /\ (x = -9223372036854775808 -> gf_function_AbsI x = x).
Proof. exact (gf_function_AbsI_spec x). Qed.
Print Assumptions T1_AbsI.
Example T1_AbsI_example :
  gf_function_AbsI (-5) = 5 /\ gf_function_AbsI (-9223372036854775808) = -9223372036854775808
  /\ gf_function_PlusI 9223372036854775807 1 = -9223372036854775808.
Proof. vm_compute. repeat split; reflexivity. Qed.
Theorem T1_DivI (x y : Z) : gf_function_DivI x y = if y =? 0 then None else Some (wrap64 (Z.quot x y)).
Proof. exact (gf_function_DivI_eq x y). Qed.
Print Assumptions T1_DivI.
Theorem T1_BoolI (x : Z) : gf_function_BoolI x = negb (x =? 0).
Proof. exact (gf_function_BoolI_eq x). Qed.
Print Assumptions T1_BoolI.
Theorem T1_IntB (b : bool) : gf_function_IntB b = Z.b2z b.
Proof. exact (gf_function_IntB_eq b). Qed.
Print Assumptions T1_IntB.
Theorem T1_NotB (b : bool) : gf_function_NotB b = negb b.
Proof. exact (gf_function_NotB_eq b). Qed.
Print Assumptions T1_NotB.
Theorem T1_AndB (a b : bool) : gf_function_AndB a b = andb a b.
Proof. exact (gf_function_AndB_eq a b). Qed.
Print Assumptions T1_AndB.
Theorem T1_OrB (a b : bool) : gf_function_OrB a b = orb a b.
Proof. exact (gf_function_OrB_eq a b). Qed.
Print Assumptions T1_OrB.
Theorem T1_XorB (a b : bool) : gf_function_XorB a b = xorb a b.
Proof. exact (gf_function_XorB_eq a b). Qed.
Print Assumptions T1_XorB.
Theorem T1_NandB (a b : bool) : gf_function_NandB a b = negb (andb a b).
Proof. exact (gf_function_NandB_eq a b). Qed.
Print Assumptions T1_NandB.

(* ================================================================== internal/sort/sorter.go, translated *)
(* Gen/GenSorter.v is produced by tools/qf2coq/sorter.go from the Go text of internal/sort/sorter.go: every
   function becomes a state-passing definition gs_<name> over s : list nat (the row index behind `data`) with
   Less(i, j) = lt s[i] s[j] for an arbitrary lt, integers on Z, every loop a Fixpoint over its own counter.
   Each theorem says: the generated definition IS the function of Model/Sort.v (the one the theorems of C03 and
   the sort engine use) for every lt, every list, every range, and every fuel from the stated bound on.
   Fuel: gs_f fuel = (O => Panic | S fuel' => body whose loops and calls all get fuel'). *)
From QF Require Import Gen.GenSorter Proofs.GenSorterProofs.

Theorem T1_sorter_insertionSort (lt : nat -> nat -> bool) (fuel a b : nat) (s : list nat) :
  (b - a + 2 <= fuel)%nat ->
  gs_insertionSort lt fuel (Z.of_nat a) (Z.of_nat b) s = Sort.insertion_sort lt a b s.
Proof. exact (gs_insertionSort_eq lt fuel a b s). Qed.
Print Assumptions T1_sorter_insertionSort.
Example T1_sorter_insertionSort_example :
  gs_insertionSort Nat.ltb 6 1 5 [9; 4; 3; 2; 1; 0]%nat = Ok [9; 1; 2; 3; 4; 0]%nat.
Proof. vm_compute. reflexivity. Qed.

(* generated fuel = model fuel + 1, for every fuel (an insufficient one included) *)
Theorem T1_sorter_siftDown (lt : nat -> nat -> bool) (f lo hi first : nat) (s : list nat) :
  gs_siftDown lt (S f) (Z.of_nat lo) (Z.of_nat hi) (Z.of_nat first) s = Sort.sift_down lt f lo hi first s.
Proof. exact (gs_siftDown_eq lt f lo hi first s). Qed.
Print Assumptions T1_sorter_siftDown.
(* and the model's fuel does not matter above hi - root *)
Theorem T1_sorter_siftDown_fuel (lt : nat -> nat -> bool) (f1 f2 root hi first : nat) (s : list nat) :
  (hi - root < f1)%nat -> (hi - root < f2)%nat ->
  Sort.sift_down lt f1 root hi first s = Sort.sift_down lt f2 root hi first s.
Proof. exact (sift_down_fuel lt f1 f2 root hi first s). Qed.
Print Assumptions T1_sorter_siftDown_fuel.

Theorem T1_sorter_heapSort (lt : nat -> nat -> bool) (fuel a b : nat) (s : list nat) :
  (b - a + 4 <= fuel)%nat ->
  gs_heapSort lt fuel (Z.of_nat a) (Z.of_nat b) s = Sort.heap_sort lt a b s.
Proof. exact (gs_heapSort_eq lt fuel a b s). Qed.
Print Assumptions T1_sorter_heapSort.
Example T1_sorter_heapSort_example :
  gs_heapSort Nat.ltb 8 1 5 [9; 4; 3; 2; 1; 0]%nat = Ok [9; 1; 2; 3; 4; 0]%nat.
Proof. vm_compute. reflexivity. Qed.

Theorem T1_sorter_medianOfThree (lt : nat -> nat -> bool) (f m1 m0 m2 : nat) (s : list nat) :
  gs_medianOfThree lt (S f) (Z.of_nat m1) (Z.of_nat m0) (Z.of_nat m2) s = Sort.median_of_three lt m1 m0 m2 s.
Proof. exact (gs_medianOfThree_eq lt f m1 m0 m2 s). Qed.
Print Assumptions T1_sorter_medianOfThree.

Theorem T1_sorter_maxDepth (fuel n : nat) : (n + 2 <= fuel)%nat ->
  gs_maxDepth fuel (Z.of_nat n) = ofmap Z.of_nat (Sort.max_depth n).
Proof. exact (gs_maxDepth_eq fuel n). Qed.
Print Assumptions T1_sorter_maxDepth.
Example T1_sorter_maxDepth_example : gs_maxDepth 1002 1000 = Ok 20.
Proof. vm_compute. reflexivity. Qed.

(* doPivot.  Premises: the range is not empty (for hi = 0 Go computes hi-1 = -1 and panics where the model's
   nat subtraction reads position 0: T1_sorter_doPivot_premise_needed; quickSort only calls it with
   hi - lo > 12) and hi is a Go int (m := int(uint(lo+hi) >> 1) is translated with the 64-bit wraps). *)
Theorem T1_sorter_doPivot (lt : nat -> nat -> bool) (fuel lo hi : nat) (s : list nat) :
  (lo < hi)%nat -> Z.of_nat hi < 9223372036854775808 -> (hi - lo + 3 <= fuel)%nat ->
  gs_doPivot lt fuel (Z.of_nat lo) (Z.of_nat hi) s = ofmap zpair (Sort.do_pivot lt lo hi s).
Proof. exact (gs_doPivot_eq lt fuel lo hi s). Qed.
Print Assumptions T1_sorter_doPivot.
Example T1_sorter_doPivot_example :
  let s := [7; 3; 9; 1; 8; 2; 6; 0; 5; 4; 11; 10; 13; 12; 15; 14]%nat in
  gs_doPivot Nat.ltb 19 0 16 s = ofmap zpair (Sort.do_pivot Nat.ltb 0 16 s)
  /\ exists mlo mhi s', gs_doPivot Nat.ltb 19 0 16 s = Ok (mlo, mhi, s').
Proof. vm_compute. split; [reflexivity|]. do 3 eexists. reflexivity. Qed.
Example T1_sorter_doPivot_premise_needed :
  gs_doPivot Nat.ltb 5 0 0 [5%nat] = Panic /\ Sort.do_pivot Nat.ltb 0 0 [5%nat] = Ok (0, 0, [5])%nat.
Proof. vm_compute. split; reflexivity. Qed.

(* an Ok answer of the model's doPivot lies inside the range — for every list and every lt *)
Theorem T1_sorter_doPivot_range (lt : nat -> nat -> bool) (lo hi : nat) (s : list nat) mlo mhi s' :
  (12 < hi - lo)%nat -> Sort.do_pivot lt lo hi s = Ok (mlo, mhi, s') ->
  (lo <= mlo < hi)%nat /\ (lo < mhi <= hi)%nat.
Proof. exact (do_pivot_ok_range lt lo hi s mlo mhi s'). Qed.
Print Assumptions T1_sorter_doPivot_range.

(* quickSort: any generated fuel >= b - a + 5 against any model fuel > b - a (Sort.sort_ids uses S n) *)
Theorem T1_sorter_quickSort (lt : nat -> nat -> bool) (fuel a b d : nat) (s : list nat) (fm : nat) :
  (b - a + 5 <= fuel)%nat -> (b - a < fm)%nat -> Z.of_nat b < 9223372036854775808 ->
  gs_quickSort lt fuel (Z.of_nat a) (Z.of_nat b) (Z.of_nat d) s = Sort.quick_sort lt fm a b d s.
Proof. exact (gs_quickSort_eq lt fuel a b d s fm). Qed.
Print Assumptions T1_sorter_quickSort.
Example T1_sorter_quickSort_example :
  let s := [7; 3; 9; 1; 8; 2; 6; 0; 5; 4; 11; 10; 13; 12; 15; 14]%nat in
  gs_quickSort Nat.ltb 21 0 16 10 s = Ok (seq 0 16) /\ gs_quickSort Nat.ltb 21 0 16 0 s = Ok (seq 0 16).
Proof. vm_compute. split; reflexivity. Qed.

Theorem T1_sorter_quickSort_model_fuel (lt : nat -> nat -> bool) (a b d : nat) (s : list nat) (f1 f2 : nat) :
  (b - a < f1)%nat -> (b - a < f2)%nat -> Z.of_nat b < 9223372036854775808 ->
  Sort.quick_sort lt f1 a b d s = Sort.quick_sort lt f2 a b d s.
Proof. exact (quick_sort_fuel lt a b d s f1 f2). Qed.
Print Assumptions T1_sorter_quickSort_model_fuel.

(* Sorter.Sort() *)
Theorem T1_sorter_Sort (lt : nat -> nat -> bool) (fuel : nat) (ids : list nat) :
  (length ids + 6 <= fuel)%nat -> Z.of_nat (length ids) < 9223372036854775808 ->
  gs_Sort lt fuel ids = Sort.sort_ids lt ids.
Proof. exact (gs_Sort_eq lt fuel ids). Qed.
Print Assumptions T1_sorter_Sort.
Example T1_sorter_Sort_example :
  gs_Sort Nat.ltb 22 [7; 3; 9; 1; 8; 2; 6; 0; 5; 4; 11; 10; 13; 12; 15; 14]%nat = Ok (seq 0 16).
Proof. vm_compute. reflexivity. Qed.

(* what the tie buys: the theorems of C03 about the model hold of the translated Go text *)
Theorem T1_sorter_Sort_correct (lt : nat -> nat -> bool) (fuel : nat) (ids : list nat) :
  SortProofs.strict_weak_order lt -> (length ids + 6 <= fuel)%nat -> Z.of_nat (length ids) < 9223372036854775808 ->
  exists out, gs_Sort lt fuel ids = Ok out /\ Permutation out ids /\
    forall i j a b, (i < j)%nat -> nth_error out i = Some a -> nth_error out j = Some b -> lt b a = false.
Proof. exact (gs_Sort_correct lt fuel ids). Qed.
Print Assumptions T1_sorter_Sort_correct.
Theorem T1_sorter_Sort_no_panic (lt : nat -> nat -> bool) (fuel : nat) (ids : list nat) :
  (length ids + 6 <= fuel)%nat -> Z.of_nat (length ids) < 9223372036854775808 ->
  exists out, gs_Sort lt fuel ids = Ok out /\ length out = length ids.
Proof. exact (gs_Sort_no_panic lt fuel ids). Qed.
Print Assumptions T1_sorter_Sort_no_panic.

(* ================================================================== internal/grouper/grouper.go, translated *)
(* Gen/GenGrouper.v is produced by tools/qf2coq/grouper.go from the Go text of the hash table of
   internal/grouper/grouper.go: the structs tableEntry / GroupStats / table become records, every function a
   state-passing definition gg_<name> over the table (integers on Z with the uint32 / uint64 wraps, a *tableEntry
   as an index into t.entries, float64 loadFactor as an exact fraction, every for loop a Fixpoint over its own
   counter, every range loop a Fixpoint over the slice); row ids are an ABSTRACT type A with zero value id0,
   equals(t.comparables, i, j) is an arbitrary eqb, the uint64 fold of c.Hash an arbitrary hash.
   Each theorem says: the generated definition IS the function of Model/Grouper.v (the one the theorems of C04 /
   C05 and the grouper engine use) on every model table (injected by rep_table: None = the zero tableEntry),
   for every A, id0, eqb, hash and EVERY fuel from the stated bound on — faults included.
   Fuel: gg_f fuel = (O => Panic | S fuel' => body whose for loops and calls all get fuel'). *)
From QF Require Import Gen.GenGrouper Proofs.GenGrouperProofs.

(* the model's probing loop does not depend on its fuel from the table length on (a probe that has not stopped
   after [length es] slots never stops) — this is what lets every larger generated fuel agree with the model *)
Theorem T1_grouper_probe_fuel {A : Type} (stop : Grouper.entry A -> bool) (es : list (option (Grouper.entry A)))
        (mask : N) (f1 f2 : nat) (p c : N) :
  (length es <= f1)%nat -> (f1 <= f2)%nat ->
  Grouper.probe stop f2 es mask p c = Grouper.probe stop f1 es mask p c.
Proof. exact (probe_fuel_ge stop es mask f1 f2 p c). Qed.
Print Assumptions T1_grouper_probe_fuel.

(* table.grow(): no premise on the table; fuel above the new length uint32(2 * len) *)
Theorem T1_grouper_grow {A : Type} (id0 : A) (collectIx : bool) (t : Grouper.table A) (f : nat) :
  (N.to_nat (grow_newlen t) <= f)%nat ->
  gg_grow id0 (S f) (rep_table id0 collectIx t) = ofmap (rep_table id0 collectIx) (Grouper.grow t).
Proof. exact (gg_grow_eq id0 (fun _ _ => true) (fun _ => 0%N) collectIx t f). Qed.
Print Assumptions T1_grouper_grow.
Example T1_grouper_grow_example :
  let t := Grouper.mkTable [Some (Grouper.mkEntry 7%N 1%nat []); None; Some (Grouper.mkEntry 3%N 2%nat [2; 5]%nat); None]
                           3%N 4%N 2%N 0%N 0%N 0%N in
  (N.to_nat (grow_newlen t) <= 8)%nat /\
  gg_grow 0%nat 9 (rep_table 0%nat true t) = ofmap (rep_table 0%nat true) (Grouper.grow t) /\
  exists t', Grouper.grow t = Ok t' /\ length (Grouper.entries t') = 8%nat.
Proof. vm_compute. split; [lia|split; [reflexivity|]]. eexists. split; reflexivity. Qed.

(* table.insertEntry(i).  Premises: the length of t.entries is a Go int (bitMask := uint64(len - 1)); the fuel
   covers the table before and after a growth *)
Theorem T1_grouper_insertEntry {A : Type} (id0 : A) (eqb : A -> A -> bool) (hash : A -> N) (collectIx : bool)
        (t : Grouper.table A) (i : A) (f : nat) :
  Z.of_nat (length (Grouper.entries t)) < 2 ^ 63 ->
  (N.to_nat (grow_newlen t) + 2 <= f)%nat -> (length (Grouper.entries t) + 2 <= f)%nat ->
  gg_insertEntry id0 eqb hash f (rep_table id0 collectIx t) i
  = ofmap (rep_table id0 collectIx) (Grouper.insert_entry eqb hash collectIx t i).
Proof. exact (gg_insertEntry_eq id0 eqb hash collectIx t i f). Qed.
Print Assumptions T1_grouper_insertEntry.
Example T1_grouper_insertEntry_example :   (* a second member joins the group of row 2 after one collision *)
  let t := Grouper.mkTable [Some (Grouper.mkEntry 4%N 1%nat []); Some (Grouper.mkEntry 4%N 2%nat []); None; None]
                           2%N 4%N 2%N 0%N 0%N 0%N in
  let eqb a b := Nat.eqb (a mod 2) (b mod 2) in
  Z.of_nat (length (Grouper.entries t)) < 2 ^ 63 /\ (N.to_nat (grow_newlen t) + 2 <= 10)%nat /\
  (length (Grouper.entries t) + 2 <= 10)%nat /\
  Grouper.insert_entry eqb (fun _ => 4%N) true t 6%nat
  = Ok (Grouper.mkTable [Some (Grouper.mkEntry 4%N 1%nat []); Some (Grouper.mkEntry 4%N 2%nat [2; 6]%nat); None; None]
                        2%N 4%N 2%N 0%N 0%N 1%N) /\
  gg_insertEntry 0%nat eqb (fun _ => 4%N) 10 (rep_table 0%nat true t) 6%nat
  = ofmap (rep_table 0%nat true) (Grouper.insert_entry eqb (fun _ => 4%N) true t 6%nat).
Proof. vm_compute. split; [reflexivity|]. split; [lia|]. split; [lia|]. split; reflexivity. Qed.

Theorem T1_grouper_newTable {A : Type} (id0 : A) (collectIx : bool) (e : N) (f : nat) :
  gg_newTable id0 (S f) (Z.of_N e) collectIx = Ok (rep_table id0 collectIx (Grouper.new_table e)).
Proof. exact (gg_newTable_eq id0 (fun _ _ => true) (fun _ => 0%N) collectIx e f). Qed.
Print Assumptions T1_grouper_newTable.

(* groupIndex: the entries and the GroupStats it returns ([stats_of]: the three counters, groupCount, the load
   factor).  The fuel bound 2^32 + 3 is uniform: from the first growth on a table length is a uint32. *)
Theorem T1_grouper_groupIndex {A : Type} (id0 : A) (eqb : A -> A -> bool) (hash : A -> N) (collectIx : bool)
        (ids : list A) (f : nat) :
  Z.of_nat (length ids) < 2 ^ 63 -> 2 ^ 32 + 3 <= Z.of_nat f -> (length ids + 11 <= f)%nat ->
  gg_groupIndex id0 eqb hash f ids collectIx
  = ofmap (fun t => (rep_entries id0 (Grouper.entries t), stats_of t)) (Grouper.group_index eqb hash collectIx ids).
Proof. exact (gg_groupIndex_eq id0 eqb hash collectIx ids f). Qed.
Print Assumptions T1_grouper_groupIndex.
Example T1_grouper_fuel_premises_example :
  exists f, 2 ^ 32 + 4 <= Z.of_nat f /\ (length [5; 0; 4; 3; 2; 1]%nat + 12 <= f)%nat.
Proof. exists (Z.to_nat (2 ^ 32 + 18)). cbn [length]. split; lia. Qed.

(* GroupBy: the groups (slot order, members in index order) and the statistics *)
Theorem T1_grouper_GroupBy {A : Type} (id0 : A) (eqb : A -> A -> bool) (hash : A -> N) (ids : list A) (f : nat) :
  Z.of_nat (length ids) < 2 ^ 63 -> 2 ^ 32 + 4 <= Z.of_nat f -> (length ids + 12 <= f)%nat ->
  gg_GroupBy id0 eqb hash f ids
  = ofmap (fun t => (map Grouper.members (Grouper.occ (Grouper.entries t)), stats_of t))
          (Grouper.group_index eqb hash true ids).
Proof. exact (gg_GroupBy_eq id0 eqb hash ids f). Qed.
Print Assumptions T1_grouper_GroupBy.
Theorem T1_grouper_GroupBy_groups {A : Type} (id0 : A) (eqb : A -> A -> bool) (hash : A -> N) (ids : list A) (f : nat) :
  Z.of_nat (length ids) < 2 ^ 63 -> 2 ^ 32 + 4 <= Z.of_nat f -> (length ids + 12 <= f)%nat ->
  ofmap fst (gg_GroupBy id0 eqb hash f ids) = Grouper.group_ids_gen eqb hash ids.
Proof. exact (gg_GroupBy_groups id0 eqb hash ids f). Qed.
Print Assumptions T1_grouper_GroupBy_groups.
Theorem T1_grouper_GroupBy_stats {A : Type} (id0 : A) (eqb : A -> A -> bool) (hash : A -> N) (ids : list A) (f : nat) :
  Z.of_nat (length ids) < 2 ^ 63 -> 2 ^ 32 + 4 <= Z.of_nat f -> (length ids + 12 <= f)%nat ->
  ofmap (fun r => stats_tuple (snd r)) (gg_GroupBy id0 eqb hash f ids)
  = ofmap ztuple (Grouper.group_stats_gen eqb hash true ids).
Proof. exact (gg_GroupBy_stats id0 eqb hash ids f). Qed.
Print Assumptions T1_grouper_GroupBy_stats.

Theorem T1_grouper_Distinct {A : Type} (id0 : A) (eqb : A -> A -> bool) (hash : A -> N) (ids : list A) (f : nat) :
  Z.of_nat (length ids) < 2 ^ 63 -> 2 ^ 32 + 4 <= Z.of_nat f -> (length ids + 12 <= f)%nat ->
  gg_Distinct id0 eqb hash f ids = Grouper.distinct_ids_gen eqb hash ids.
Proof. exact (gg_Distinct_eq id0 eqb hash ids f). Qed.
Print Assumptions T1_grouper_Distinct.

(* the run of C04_example_run / its Distinct on the translated text (a fuel that is enough for this input;
   all six rows collide after the uint32 truncation of the hash, probing wraps around to slot 0) *)
Example T1_grouper_GroupBy_example :
  let eqb a b := (Nat.eqb (a mod 3) (b mod 3) && Nat.ltb (a mod 3) 2)%bool in
  ofmap fst (gg_GroupBy 0%nat eqb (fun _ => 4294967301%N) 30 [5; 0; 4; 3; 2; 1]%nat)
    = Ok [[2]; [5]; [0; 3]; [4; 1]]%nat
  /\ ofmap fst (gg_GroupBy 0%nat eqb (fun _ => 4294967301%N) 30 [5; 0; 4; 3; 2; 1]%nat)
    = Grouper.group_ids eqb (fun _ => 4294967301%N) [5; 0; 4; 3; 2; 1]%nat
  /\ gg_Distinct 0%nat eqb (fun _ => 4294967301%N) 30 [5; 0; 4; 3; 2; 1]%nat = Ok [2; 5; 0; 4]%nat
  /\ ofmap (fun r => stats_tuple (snd r)) (gg_GroupBy 0%nat Nat.eqb N.of_nat 40 (seq 0 12))   (* two growths *)
    = ofmap ztuple (Grouper.group_stats_gen Nat.eqb N.of_nat true (seq 0 12)).
Proof. vm_compute. repeat split; reflexivity. Qed.

(* what the tie buys: C04_partition and C05_distinct hold of the translated Go text *)
Theorem T1_grouper_partition {A : Type} (id0 : A) (eqb : A -> A -> bool) (hash : A -> N) (ids : list A) (f : nat) :
  NoDup ids -> Grouper.per_on eqb ids -> Grouper.hash_respects eqb hash ids ->
  (N.of_nat (length ids) <= 2 ^ 30)%N -> 2 ^ 32 + 4 <= Z.of_nat f ->
  exists gs st, gg_GroupBy id0 eqb hash f ids = Ok (gs, st) /\ Grouper.partition_ok eqb ids gs.
Proof. exact (gg_GroupBy_partition id0 eqb hash ids f). Qed.
Print Assumptions T1_grouper_partition.
Theorem T1_grouper_distinct {A : Type} (id0 : A) (eqb : A -> A -> bool) (hash : A -> N) (ids : list A) (f : nat) :
  NoDup ids -> Grouper.per_on eqb ids -> Grouper.hash_respects eqb hash ids ->
  (N.of_nat (length ids) <= 2 ^ 30)%N -> 2 ^ 32 + 4 <= Z.of_nat f ->
  exists d, gg_Distinct id0 eqb hash f ids = Ok d /\ Grouper.distinct_ok eqb ids d.
Proof. exact (gg_Distinct_distinct id0 eqb hash ids f). Qed.
Print Assumptions T1_grouper_distinct.
(* premises: the example of Properties/C04.v (C04_example_premises) with any fuel of T1_grouper_fuel_premises_example *)

(* the float64 load factor: every value the code stores is groupCount / 2^k (halved at most 32 times) with
   groupCount a uint32, i.e. m * 2^e with |m| < 2^53 and e in the normal exponent range of binary64 — so the
   translation of the two float divisions and of the comparison with 0.5 as exact fractions loses nothing *)
Theorem T1_grouper_load_factor_representable (gc k halvings : Z) :
  0 <= gc < 2 ^ 32 -> 0 <= k <= 32 -> 0 <= halvings <= 32 ->
  exists m e : Z, Z.abs m < 2 ^ 53 /\ -1074 <= e <= 971 /\
    m * 2 ^ (e + (k + halvings + 1074)) = gc * 2 ^ 1074.
Proof. exact (gg_load_factor_representable gc k halvings). Qed.
Print Assumptions T1_grouper_load_factor_representable.

(* the premises of the theorems above on concrete inputs *)
Example T1_grouper_probe_fuel_example :   (* a full table of two slots: the probe cycles, whatever the fuel *)
  let es := [Some (Grouper.mkEntry 1%N 1%nat []); Some (Grouper.mkEntry 2%N 2%nat [])] in
  (length es <= 2)%nat /\ (2 <= 7)%nat /\
  Grouper.probe (fun _ => false) 7 es 1%N 0%N 0%N = Panic /\ Grouper.probe (fun _ => false) 2 es 1%N 0%N 0%N = Panic.
Proof. vm_compute. repeat split; lia. Qed.
Example T1_grouper_partition_premises_example :
  let ids := [5; 0; 4; 7]%nat in
  NoDup ids /\ Grouper.per_on Nat.eqb ids /\ Grouper.hash_respects Nat.eqb N.of_nat ids /\
  (N.of_nat (length ids) <= 2 ^ 30)%N /\ exists f, 2 ^ 32 + 4 <= Z.of_nat f.
Proof.
  cbv zeta. split; [|split; [|split; [|split]]].
  - repeat constructor; cbn [In]; intuition discriminate.
  - split.
    + intros a b _ _ H. apply Nat.eqb_eq in H. subst. apply Nat.eqb_refl.
    + intros a b c _ _ _ H1 H2. apply Nat.eqb_eq in H1, H2. subst. apply Nat.eqb_refl.
  - intros a b _ _ H. apply Nat.eqb_eq in H. subst. reflexivity.
  - cbn [length]. lia.
  - exists (Z.to_nat (2 ^ 32 + 4)). lia.
Qed.
Example T1_grouper_load_factor_example : 0 <= 3 < 2 ^ 32 /\ 0 <= 3 <= 32 /\ 0 <= 1 <= 32.
Proof. lia. Qed.
