(* Property C16 — floats are rendered as the shortest decimal that round-trips (internal/ryu.AppendFloat64f).
   Proved for all inputs: table contents, logarithm formulas, absence of panics for all 2^64 bit patterns,
   independence of the buffer state, the exact-integer path, the positional formatter, soundness of the
   certificate checker that the engine "ryu" applies to every sampled output.
   Interval search (items 7-12): the fixed-point multiplications are exact for all exponents and mantissas
   except two (proved, with the exceptions exhibited); step 3's flags and vp adjustment satisfy the hand-over
   conditions in all eight branches (item 11); all of step 4 is correct relative to them (item 8); the change
   of scale to the checker is proved (item 9); the two exceptional floats are evaluated (item 10).
   RESULT (item 14): C16_shortest_full_statement IS A THEOREM (C16_shortest): for every finite non-zero float,
   every buffer and allocator behaviour the appended text renders a pair (m, e) accepted by the checker, i.e.
   m 10^e lies in the rounding interval, no shorter decimal does, and it is the closest of its length. *)
From QF Require Import Base.Prelude Gen.GenConsts Gen.GenRyu Model.Ryu.
From QF Require Import Proofs.RyuTables Proofs.RyuArith Proofs.RyuAppendF Proofs.RyuExactInt Proofs.RyuNoPanic
                       Proofs.RyuShortest Proofs.RyuIntervalFrac Proofs.RyuIntervalMul
                       Proofs.RyuIntervalFinal Proofs.RyuIntervalLoops Proofs.RyuInterval
                       Proofs.RyuHandover Proofs.RyuHandoverStep3 Proofs.RyuHandoverFinal Proofs.RyuHandoverText
                       Proofs.RyuHandoverUnique.
From QF Require Model.JsonRead Proofs.RyuHandoverJson.
Local Open Scope N_scope.

(* 1. every entry of the two 128-bit tables and of powersOf10 is the number the algorithm needs *)
Theorem C16_ryu_tables_ok :
  length g_pow5Split64 = 326%nat /\ length g_pow5InvSplit64 = 292%nat /\
  (forall i, (i < 326)%nat ->
     exists lo hi, nth_error g_pow5Split64 i = Some (lo, hi) /\ lo < 2 ^ 64 /\ hi < 2 ^ 64 /\
                   hi * 2 ^ 64 + lo = pow5split_spec (N.of_nat i)) /\
  (forall q, (q < 292)%nat ->
     exists lo hi, nth_error g_pow5InvSplit64 q = Some (lo, hi) /\ lo < 2 ^ 64 /\ hi < 2 ^ 64 /\
                   hi * 2 ^ 64 + lo = pow5inv_spec (N.of_nat q)) /\
  g_powersOf10 = map (fun i => 10 ^ N.of_nat i) (seq 0 18).
Proof. exact ryu_tables_ok. Qed.
Print Assumptions C16_ryu_tables_ok.

(* 2. the multiply-shift logarithms on their whole asserted domains *)
Theorem C16_log10Pow2_ok (e : N) :
  e <= 1650 -> exists r, log10Pow2 (Z.of_N e) = Ok r /\ 10 ^ r <= 2 ^ e /\ 2 ^ e < 10 ^ (r + 1).
Proof. exact (log10Pow2_ok e). Qed.
Print Assumptions C16_log10Pow2_ok.
Example C16_log10Pow2_example : log10Pow2 1650 = Ok 496 /\ 10 ^ 496 <= 2 ^ 1650 /\ 2 ^ 1650 < 10 ^ 497.
Proof. vm_compute. repeat split; discriminate || reflexivity. Qed.

Theorem C16_log10Pow5_ok (e : N) :
  e <= 2620 -> exists r, log10Pow5 (Z.of_N e) = Ok r /\ 10 ^ r <= 5 ^ e /\ 5 ^ e < 10 ^ (r + 1).
Proof. exact (log10Pow5_ok e). Qed.
Print Assumptions C16_log10Pow5_ok.

Theorem C16_pow5Bits_ok (e : N) :
  e <= 3528 ->
  exists b, pow5Bits (Z.of_N e) = Ok (Z.of_N b) /\ 1 <= b /\ 2 ^ (b - 1) <= 5 ^ e /\ 5 ^ e < 2 ^ b.
Proof. exact (pow5Bits_ok e). Qed.
Print Assumptions C16_pow5Bits_ok.

(* 3. indices, asserts and shifts for all 2047 biased exponents; no panic for any bit pattern *)
Theorem C16_ryu_indices_ok (exp : N) :
  exp <= 2046 ->
  exists pl, plan_of exp = Ok pl /\ plan_good pl = true /\ (50 <= p_sh pl - 64 <= 58)%Z.
Proof. exact (ryu_indices_ok exp). Qed.
Print Assumptions C16_ryu_indices_ok.

Theorem C16_float64ToDecimal_total (mant exp : N) :
  mant < 2 ^ 52 -> exp <= 2046 -> ~ (exp = 0 /\ mant = 0) ->
  exists out e, float64ToDecimal mant exp = Ok (out, e) /\ 0 < out /\ out < 2 ^ 59.
Proof. exact (float64ToDecimal_total mant exp). Qed.
Print Assumptions C16_float64ToDecimal_total.
Example C16_float64ToDecimal_example : float64ToDecimal 0x999999999999A 1019 = Ok (1, (-1)%Z).
Proof. vm_compute. reflexivity. Qed.

(* for every bit pattern, buffer and allocator behaviour: no panic, old contents kept, and the appended
   text is a function of the bit pattern alone *)
Theorem C16_AppendFloat64f_total (g : nat -> bytes) (b : buf) (bits : N) :
  bits < 2 ^ 64 ->
  exists sp, AppendFloat64f g b bits = Ok {| bdata := bdata b ++ ryu_text bits; bspare := sp |}.
Proof. exact (AppendFloat64f_total g b bits). Qed.
Print Assumptions C16_AppendFloat64f_total.
Example C16_AppendFloat64f_example :
  ryu_text 0xC00921FB54442D18 = bs 18 0x2d332e313431353932363533353839373933.   (* "-3.141592653589793" *)
Proof. vm_compute. reflexivity. Qed.

(* 4. the exact-integer path *)
Theorem C16_exact_int_ok (mant exp : N) :
  mant < 2 ^ 52 -> exp < 2048 ->
  let M := 2 ^ 52 + mant in
  match float64ToDecimalExactInt mant exp with
  | Ok (Some (m, e)) =>
      1023 <= exp <= 1075 /\ (0 <= e)%Z /\ m * 10 ^ Z.to_N e * 2 ^ (1075 - exp) = M /\ m mod 10 <> 0 /\ 0 < m
  | Ok None => ~ (1023 <= exp <= 1075 /\ M mod 2 ^ (1075 - exp) = 0)
  | _ => False
  end.
Proof. exact (exact_int_ok mant exp). Qed.
Print Assumptions C16_exact_int_ok.
Example C16_exact_int_example :      (* 1500.0 = 0x4097700000000000 *)
  float64ToDecimalExactInt 0x7700000000000 1033 = Ok (Some (15, 2%Z)).
Proof. vm_compute. reflexivity. Qed.

(* 5. the positional formatter *)
Theorem C16_decimalLen64_ok (u : N) :
  0 < u -> u < 10 ^ 17 -> decimalLen64 u = Ok (Z.of_nat (ndig u)).
Proof. exact (decimalLen64_ok u). Qed.
Print Assumptions C16_decimalLen64_ok.

Theorem C16_appendF_ok (g : nat -> bytes) (b : buf) (m : N) (e : Z) (neg : bool) :
  0 < m -> m < 10 ^ 17 ->
  exists sp, appendF g b m e neg = Ok {| bdata := bdata b ++ render_f neg m e; bspare := sp |}.
Proof. exact (appendF_ok g b m e neg). Qed.
Print Assumptions C16_appendF_ok.
Example C16_appendF_example :        (* stale digits in the spare capacity do not leak *)
  appendF (fun _ => []) {| bdata := [91]; bspare := [57; 57; 57; 57; 57; 57; 57; 57; 57] |} 1234 (-2)%Z true
  = Ok {| bdata := bs 7 0x5b2d31322e3334; bspare := [57; 57; 57] |}.
Proof. vm_compute. reflexivity. Qed.

Theorem C16_positional_value (m : N) (e : Z) :
  0 < m ->
  dec_parse (positional m e) = Some (if (0 <=? e)%Z then (m * 10 ^ Z.to_N e, 0%Z) else (m, (- e)%Z)).
Proof. exact (positional_value m e). Qed.
Print Assumptions C16_positional_value.

Theorem C16_digits_no_leading_zero (m : N) : 0 < m -> exists d r, digits m = d :: r /\ 49 <= d <= 57.
Proof. exact (digits_head m). Qed.
Print Assumptions C16_digits_no_leading_zero.

Theorem C16_digits_no_trailing_zero (m : N) :
  0 < m -> m mod 10 <> 0 -> exists r d, digits m = r ++ [d] /\ 49 <= d <= 57.
Proof. exact (digits_last m). Qed.
Print Assumptions C16_digits_no_trailing_zero.

(* 6. soundness of the certificate checker (the property oracle of engine "ryu"), at the common integer
   scale of the decimal grid 10^k and the binary grid 2^e2 (scale_dec y = image of y * 10^k, scale_flt x =
   image of x * 2^e2, see Model/Ryu.v): the certified decimal is inside the rounding interval, no multiple
   of 10^(k+1) — hence no decimal on any coarser grid, hence none with fewer digits — is, and no other
   decimal of the grid inside the interval is closer to the exact value; ties only with m even. *)
Theorem C16_shortest_b_sound_partial (bits m : N) (k : Z) :
  shortest_b bits m k = true ->
  exists f, decode_float bits = Some f /\ 0 < m /\
    sc_in f k m = true /\
    (forall T, sc_in f k (10 * T) = false) /\
    (forall m', sc_in f k m' = true ->
       ndist (scale_dec k (f_e2 f) m) (sc_v f k) <= ndist (scale_dec k (f_e2 f) m') (sc_v f k)) /\
    (forall m', m' <> m -> sc_in f k m' = true ->
       ndist (scale_dec k (f_e2 f) m) (sc_v f k) = ndist (scale_dec k (f_e2 f) m') (sc_v f k) ->
       N.even m = true).
Proof. exact (shortest_b_sound_scaled bits m k). Qed.
Print Assumptions C16_shortest_b_sound_partial.
Example C16_shortest_b_example :     (* 0.1 = 0x3FB999999999999A *)
  shortest_b 0x3FB999999999999A 1 (-1) = true /\ shortest_b 0x3FB999999999999A 10 (-2) = false /\
  shortest_b 0x3FB999999999999A 2 (-1) = false /\
  shortest_b 0x3FB999999999999A 1000000000000000055511151231257827 (-34) = false.
Proof. vm_compute. repeat split. Qed.

(* 7. Stage 1 of the interval search: the 128-bit fixed-point multiplications.  For every biased exponent
   of a finite float (plan_of exp = the exponent-only part of step 3: table entry p_mul, shift p_sh, digit
   count p_q) and every 1 <= x <= 4 (2^53 - 1) + 2, mulShift64 returns floor (x * A / B) for the exact scale
   A / B = 2^(e2-q) / 5^q (e2 >= 0) resp. 5^(-e2-q) / 2^q (e2 < 0) — with exactly two exceptions, where the
   result is off by one (the table entries are a bit short; both x are values of mv only). *)
Theorem C16_mulShift64_exact (exp : N) (pl : plan) (x : N) :
  exp <= 2046 -> plan_of exp = Ok pl -> 1 <= x <= mp_max -> mul_exception exp x = false ->
  mulShift64 x (p_mul pl) (p_sh pl)
  = Ok (x * fst (ratio pl (e2_of exp)) / snd (ratio pl (e2_of exp))).
Proof. exact (mulShift64_exact exp pl x). Qed.
Print Assumptions C16_mulShift64_exact.
Example C16_mulShift64_exact_example :      (* exp = 1019 (0.1 lives there): e2 = -58, q = 39, A/B = 5^19 / 2^39 *)
  match plan_of 1019 with
  | Ok pl => ratio pl (e2_of 1019) = (5 ^ 19, 2 ^ 39) /\ mul_exception 1019 28823037615171176 = false /\
             mulShift64 28823037615171176 (p_mul pl) (p_sh pl) = Ok (28823037615171176 * 5 ^ 19 / 2 ^ 39)
  | _ => False
  end.
Proof. vm_compute. repeat split. Qed.

(* the two exceptions are real *)
Theorem C16_mulShift64_off_by_one :
  (exists pl, plan_of 472 = Ok pl /\
     mulShift64 28933731341339864 (p_mul pl) (p_sh pl) = Ok 2178999185345151730 /\
     28933731341339864 * fst (ratio pl (e2_of 472)) / snd (ratio pl (e2_of 472)) = 2178999185345151731) /\
  (exists pl, plan_of 1797 = Ok pl /\
     mulShift64 33542060588139028 (p_mul pl) (p_sh pl) = Ok 1850063423920730049 /\
     33542060588139028 * fst (ratio pl (e2_of 1797)) / snd (ratio pl (e2_of 1797)) = 1850063423920730048).
Proof. exact mulShift64_off_by_one. Qed.
Print Assumptions C16_mulShift64_off_by_one.

(* 8. Stage 3 of the interval search: ALL of step 4 (f2d_step4: general loops, common loops, rounding) is
   correct relative to step 3.  For a float unit A and decimal unit B (exact scaled values x A / B), mv = 4 m2,
   mp = mv + 2, mm = mv - 1 or mv - 2: if the step-3 record satisfies the hand-over conditions [handover]
   (vr, vm exact floors; vp/10 the exact floor of the upper bound one digit up; the two trailing-zero flags
   sound, and complete one digit up — deliberately weak at level 0, where the Go flags are not always exact),
   then step 4 returns (out, e10 + n) such that out is accepted by the certificate checker body at the scale
   A : B 10^n, i.e. out * 10^n * B lies in the rounding interval [mm A, mp A] (bounds included iff ab), no
   multiple of 10 does, and no neighbour in the interval is closer to mv A (ties: out even).
   PARTIAL: the connection of this scale with shortest_b and the hand-over conditions for the output of
   f2d_step3 are in the items below / in the remaining statement. *)
Theorem C16_step4_shortest_partial (ab : bool) (mv mm mp A B : N) (st : step3) :
  0 < A -> 0 < B -> 0 < mm -> (mv = mm + 1 \/ mv = mm + 2) -> mp = mv + 2 ->
  handover ab mv mm mp A B st ->
  (B = 1 \/ 10 * B <= A) ->
  s_vp st < 2 ^ 64 -> s_vr st < 2 ^ 63 -> (-1000 <= s_e10 st <= 1000)%Z ->
  (forall out e, f2d_step4 st ab = Ok (out, e) -> 0 < out) ->
  exists (n : nat) (out : N),
    (n < 100)%nat /\ f2d_step4 st ab = Ok (out, (s_e10 st + Z.of_nat n)%Z) /\
    cert ab (mm * A) (mv * A) (mp * A) (B * 10 ^ N.of_nat n) out = true.
Proof. exact (step4_certified ab mv mm mp A B st). Qed.
Print Assumptions C16_step4_shortest_partial.
Example C16_step4_example :          (* 0.1: the premises hold for what the model's step 3 returns *)
  let mant := 0x999999999999A in let mv := 4 * (2 ^ 52 + mant) in
  match f2d_step3 mant 1019, plan_of 1019 with
  | Ok (st, ab), Ok pl =>
      let '(A, B) := ratio_c pl (e2_of 1019) in
      handover_b ab mv (mv - 2) (mv + 2) A B st = true /\ 10 * B <= A /\ s_vp st < 2 ^ 64 /\ s_vr st < 2 ^ 63 /\
      f2d_step4 st ab = Ok (1, (s_e10 st + 18)%Z) /\
      cert ab ((mv - 2) * A) (mv * A) ((mv + 2) * A) (B * 10 ^ 18) 1 = true
  | _, _ => False
  end.
Proof. vm_compute. repeat split; discriminate || reflexivity. Qed.

(* 9. From step 3 to the checker: if what f2d_step3 returns satisfies the hand-over conditions at the scale
   of its exponent (and acceptBounds is the parity of the mantissa, s_e10 the planned exponent), then
   float64ToDecimal returns a pair accepted by shortest_b for the bit pattern exp * 2^52 + mant — through ALL
   of step 4 and the change of scale between the algorithm (A : B 10^n) and the checker (scale_dec/scale_flt).
   PARTIAL: the premise is proved nowhere for all inputs yet (it is what stage 2 has to deliver: the meaning
   of the trailing-zero flags and of the vp adjustment, branch by branch); handover_b evaluates it, and it
   holds on every sampled float except the two of item 7, where vr is off by one. *)
Theorem C16_shortest_from_handover_partial (mant exp : N) :
  mant < 2 ^ 52 -> exp <= 2046 -> ~ (exp = 0 /\ mant = 0) ->
  let m2 := if exp =? 0 then mant else 2 ^ 52 + mant in
  let mv := 4 * m2 in
  let mm := mv - (if (mant =? 0) && (1 <? exp) then 1 else 2) in
  (forall pl st ab, plan_of exp = Ok pl -> f2d_step3 mant exp = Ok (st, ab) ->
     ab = N.even m2 /\ s_e10 st = p_e10 pl /\
     handover ab mv mm (mv + 2) (fst (ratio pl (e2_of exp))) (snd (ratio pl (e2_of exp))) st) ->
  exists m e, float64ToDecimal mant exp = Ok (m, e) /\ shortest_b (exp * 2 ^ 52 + mant) m e = true.
Proof. exact (f2d_shortest_from_handover mant exp). Qed.
Print Assumptions C16_shortest_from_handover_partial.
Example C16_shortest_from_handover_example :      (* the premise holds for 0.1, so the theorem applies *)
  exists m e, float64ToDecimal 0x999999999999A 1019 = Ok (m, e) /\
              shortest_b (1019 * 2 ^ 52 + 0x999999999999A) m e = true.
Proof.
  apply C16_shortest_from_handover_partial; [reflexivity|discriminate|intros [K _]; discriminate K|].
  intros pl st ab E1 E2.
  assert (E1' : Ok pl = plan_of 1019) by (symmetry; exact E1). vm_compute in E1'. inversion E1'; subst pl. clear E1 E1'.
  assert (E2' : Ok (st, ab) = f2d_step3 0x999999999999A 1019) by (symmetry; exact E2).
  vm_compute in E2'. inversion E2'; subst st ab. clear E2 E2'.
  split; [reflexivity|]. split; [reflexivity|].
  apply handover_b_sound. vm_compute. reflexivity.
Qed.

(* 10. The two floats of item 7 (vr off by one; 0x1D89B2C4D2A82336 = 2.1789991853451517e-166 and
   0x705DCA94E3990085 = 1.85006342392073e+233, and their negatives) still get a certified shortest decimal:
   the wrong last digit of vr is removed before it can matter. *)
Theorem C16_off_by_one_floats_ok :
  f2d_certified_b (7233432835334966 - 2 ^ 52) 472 = true /\
  f2d_certified_b (8385515147034757 - 2 ^ 52) 1797 = true.
Proof. exact exception_floats_ok. Qed.
Print Assumptions C16_off_by_one_floats_ok.

(* The full statement (proved below, item 14: C16_shortest): for every finite non-zero float the pair found by
   the interval search or the exact-integer path is accepted by the checker, i.e. the text is the shortest
   closest decimal.  The engine still checks this on every sampled float (code 2) against the real
   implementation and compares with strconv.FormatFloat. *)
Definition C16_shortest_full_statement : Prop :=
  forall (g : nat -> bytes) (b : buf) (bits : N),
    bits < 2 ^ 64 ->
    let exp := (bits / 2 ^ 52) mod 2048 in
    let mant := bits mod 2 ^ 52 in
    exp <> 2047 -> ~ (exp = 0 /\ mant = 0) ->
    exists m e sp,
      AppendFloat64f g b bits
      = Ok {| bdata := bdata b ++ render_f (2 ^ 63 <=? bits) m e; bspare := sp |} /\
      shortest_b bits m e = true.

(* 11. Stage 2 of the interval search: the hand-over conditions hold for what the model's step 3 returns, for
   EVERY finite non-zero float other than the two of item 7 (premise mul_exception = false: the multiplier mv
   is not one of the two exhibited pairs; mp and mm never are).  All eight branches of f2d_step3: the meaning
   of pow5Factor64 / multipleOfPowerOfFive64 / multipleOfPowerOfTwo64, Gauss's lemma for 2^i and 5^j, the vp--
   adjustments, 5^23 dividing none of mv, mp, mm for the parity at hand (q >= 22), and the "q - 1 bits" test
   of the branch 1 < q < 63, which is sound only through the alternative in [handover]. *)
Theorem C16_step3_handover (mant exp : N) (pl : plan) (st : step3) (ab : bool) :
  mant < 2 ^ 52 -> exp <= 2046 -> ~ (exp = 0 /\ mant = 0) ->
  let m2 := if exp =? 0 then mant else 2 ^ 52 + mant in
  let mv := 4 * m2 in
  let mm := mv - (if (mant =? 0) && (1 <? exp) then 1 else 2) in
  mul_exception exp mv = false ->
  plan_of exp = Ok pl -> f2d_step3 mant exp = Ok (st, ab) ->
  ab = N.even m2 /\ s_e10 st = p_e10 pl /\
  handover ab mv mm (mv + 2) (fst (ratio pl (e2_of exp))) (snd (ratio pl (e2_of exp))) st.
Proof. exact (step3_handover mant exp pl st ab). Qed.
Print Assumptions C16_step3_handover.
Example C16_step3_handover_example :      (* 0.1 and 5e-324 satisfy the premises *)
  mul_exception 1019 (4 * (2 ^ 52 + 0x999999999999A)) = false /\ mul_exception 0 (4 * 1) = false /\
  (exists pl st ab, plan_of 0 = Ok pl /\ f2d_step3 1 0 = Ok (st, ab)).
Proof. split; [reflexivity|]. split; [reflexivity|]. vm_compute. eauto. Qed.

(* the arithmetic helpers of step 3 decide divisibility *)
Theorem C16_multipleOfPowerOfFive64_ok (v p : N) :
  v <> 0 -> v < 2 ^ 64 -> multipleOfPowerOfFive64 v p = Ok (v mod 5 ^ p =? 0).
Proof. exact (multipleOfPowerOfFive64_spec v p). Qed.
Print Assumptions C16_multipleOfPowerOfFive64_ok.
Theorem C16_multipleOfPowerOfTwo64_ok (v p : N) :
  v <> 0 -> multipleOfPowerOfTwo64 v p = (v mod 2 ^ p =? 0).
Proof. exact (multipleOfPowerOfTwo64_spec v p). Qed.
Print Assumptions C16_multipleOfPowerOfTwo64_ok.

(* 12. The interval search, closed: for EVERY finite non-zero float (all 2046 * 2^52 + 2^52 - 1 of them per
   sign) float64ToDecimal returns a pair accepted by the certificate checker.  Items 7, 8, 9, 11 combined; the
   two floats of item 7 by evaluation (item 10). *)
Theorem C16_float64ToDecimal_shortest (mant exp : N) :
  mant < 2 ^ 52 -> exp <= 2046 -> ~ (exp = 0 /\ mant = 0) ->
  exists m e, float64ToDecimal mant exp = Ok (m, e) /\ shortest_b (exp * 2 ^ 52 + mant) m e = true.
Proof. exact (float64ToDecimal_shortest mant exp). Qed.
Print Assumptions C16_float64ToDecimal_shortest.
Example C16_float64ToDecimal_shortest_example :   (* the smallest subnormal: 5e-324 *)
  float64ToDecimal 1 0 = Ok (5, (-324)%Z) /\ shortest_b (0 * 2 ^ 52 + 1) 5 (-324) = true.
Proof. vm_compute. split; reflexivity. Qed.

(* 13. The exact-integer path returns a pair accepted by the checker (the value is m 10^e exactly; every other
   candidate of the grid and of the next coarser grid is a whole grid step >= 1 ulp away). *)
Theorem C16_exact_int_shortest (mant exp m : N) (e : Z) :
  mant < 2 ^ 52 -> exp < 2048 ->
  float64ToDecimalExactInt mant exp = Ok (Some (m, e)) ->
  shortest_b (exp * 2 ^ 52 + mant) m e = true.
Proof. exact (exact_int_shortest mant exp m e). Qed.
Print Assumptions C16_exact_int_shortest.
Example C16_exact_int_shortest_example :      (* 1500.0 *)
  float64ToDecimalExactInt 0x7700000000000 1033 = Ok (Some (15, 2%Z)) /\
  shortest_b (1033 * 2 ^ 52 + 0x7700000000000) 15 2 = true.
Proof. vm_compute. split; reflexivity. Qed.

(* 14. THE FULL STATEMENT is a theorem: for every bit pattern of a finite non-zero float64, every buffer
   (contents, spare capacity, stale bytes) and every behaviour of the allocator, AppendFloat64f appends the
   positional rendering of a pair (m, e) accepted by the certificate checker — by item 6: m 10^e lies in the
   rounding interval of the float (so a correctly rounding parser returns the identical float), no decimal with
   fewer digits does, and no other decimal of that length in the interval is closer (ties: m even). *)
Theorem C16_shortest : C16_shortest_full_statement.
Proof. exact AppendFloat64f_shortest. Qed.
Print Assumptions C16_shortest.
Example C16_shortest_example :        (* -pi satisfies the premises; its pair is (3141592653589793, -15) *)
  let bits := 0xC00921FB54442D18 in
  bits < 2 ^ 64 /\ (bits / 2 ^ 52) mod 2048 <> 2047 /\ ~ ((bits / 2 ^ 52) mod 2048 = 0 /\ bits mod 2 ^ 52 = 0) /\
  ryu_text bits = render_f (2 ^ 63 <=? bits) 3141592653589793 (-15) /\
  shortest_b bits 3141592653589793 (-15) = true.
Proof. vm_compute. repeat split; try discriminate. intros [K _]. discriminate K. Qed.

(* 15. What C14 (JSON read-back) needs of C16, in the very form of Proofs/JsonDocProofs.ryu_in_interval: the
   decimal that Model/JsonRead.float_decimal computes for a bit pattern lies in the rounding interval of the
   float (so a correctly rounding ParseFloat reads the JSON text back as the identical float64). *)
Theorem C16_ryu_in_interval :
  forall bits m e fd, bits < 2 ^ 64 -> decode_float bits = Some fd -> JsonRead.float_decimal bits = Ok (m, e) ->
    RyuShortest.sc_in fd e m = true.
Proof. exact RyuHandoverJson.ryu_in_interval_holds. Qed.
Print Assumptions C16_ryu_in_interval.
Example C16_ryu_in_interval_example :      (* 0.1 *)
  exists fd, decode_float 0x3FB999999999999A = Some fd /\
             JsonRead.float_decimal 0x3FB999999999999A = Ok (1, (-1)%Z) /\ RyuShortest.sc_in fd (-1) 1 = true.
Proof. eexists. split; [vm_compute; reflexivity|]. split; vm_compute; reflexivity. Qed.

(* 16. The text level.  parse_f (the reader of the engine's oracle) inverts the positional rendering of every
   (sign, m, e) with m free of trailing zeros; an accepted m has none. *)
Theorem C16_parse_render (neg : bool) (m : N) (e : Z) :
  0 < m -> m mod 10 <> 0 -> parse_f (render_f neg m e) = Some (neg, m, e).
Proof. exact (parse_render neg m e). Qed.
Print Assumptions C16_parse_render.
Example C16_parse_render_example :
  parse_f (render_f true 15 2) = Some (true, 15, 2%Z) /\ parse_f (render_f false 1234 (-6)) = Some (false, 1234, (-6)%Z).
Proof. vm_compute. split; reflexivity. Qed.

Theorem C16_shortest_no_trailing_zero (bits m : N) (k : Z) :
  shortest_b bits m k = true -> 0 < m /\ m mod 10 <> 0.
Proof. exact (shortest_b_no_trailing_zero bits m k). Qed.
Print Assumptions C16_shortest_no_trailing_zero.

(* 17. The STRONGER full statement — the whole property text at the level of the model: for every one of the
   2^64 bit patterns other than NaN (both infinities, both zeros, subnormals, normals), every buffer and every
   allocator behaviour, AppendFloat64f keeps the old contents and appends a text that the property oracle of
   the engine accepts (oracle_f: "+Inf" / "-Inf" / "0" / "-0" literally; otherwise the text parses to
   (sign, m, e), is the canonical positional rendering of it — no exponent notation, no superfluous zeros —
   and (m, e) passes the certificate checker of item 6: in the rounding interval, shortest, closest). *)
Definition C16_text_full_statement : Prop :=
  forall (g : nat -> bytes) (b : buf) (bits : N),
    bits < 2 ^ 64 ->
    ~ ((bits / 2 ^ 52) mod 2048 = 2047 /\ bits mod 2 ^ 52 <> 0) ->
    exists text sp,
      AppendFloat64f g b bits = Ok {| bdata := bdata b ++ text; bspare := sp |} /\
      oracle_f bits text = true.
Theorem C16_text : C16_text_full_statement.
Proof. exact AppendFloat64f_oracle. Qed.
Print Assumptions C16_text.
Example C16_text_example :       (* -Inf, -0 and 1e23 satisfy the premises *)
  oracle_f 0xFFF0000000000000 (ryu_text 0xFFF0000000000000) = true /\
  oracle_f 0x8000000000000000 (ryu_text 0x8000000000000000) = true /\
  ryu_text 0x44B52D02C7E14AF6 = bs 24 0x313030303030303030303030303030303030303030303030 /\
  oracle_f 0x44B52D02C7E14AF6 (ryu_text 0x44B52D02C7E14AF6) = true.
Proof. vm_compute. repeat split. Qed.

(* 18. The specification determines the text.  The certificate checker accepts AT MOST ONE pair per float (the
   interval test is independent of the decimal grid; a candidate on a coarser grid would be a multiple of 10 on
   the finer one; on one grid two equally close candidates would be adjacent and both even).  Hence a text that
   the oracle accepts for a bit pattern IS the text the model writes: any other printer that meets the same
   specification (shortest, closest, ties to even, positional, canonical) — strconv.FormatFloat(f,'f',-1,64)
   is specified that way — produces the same bytes.  (That strconv meets it is compared by the engine.) *)
Theorem C16_shortest_unique (bits m m' : N) (k k' : Z) :
  shortest_b bits m k = true -> shortest_b bits m' k' = true -> m = m' /\ k = k'.
Proof. exact (shortest_b_unique bits m m' k k'). Qed.
Print Assumptions C16_shortest_unique.
Example C16_shortest_unique_example :      (* 0.3 = 0x3FD3333333333333: accepted (3, -1); (30, -2), (2, -1) are not *)
  shortest_b 0x3FD3333333333333 3 (-1) = true /\ shortest_b 0x3FD3333333333333 30 (-2) = false /\
  shortest_b 0x3FD3333333333333 2 (-1) = false /\ shortest_b 0x3FD3333333333333 29999999999999999 (-17) = false.
Proof. vm_compute. repeat split. Qed.

Theorem C16_oracle_unique (bits : N) (text : bytes) :
  bits < 2 ^ 64 ->
  ~ ((bits / 2 ^ 52) mod 2048 = 2047 /\ bits mod 2 ^ 52 <> 0) ->
  oracle_f bits text = true -> text = ryu_text bits.
Proof. exact (oracle_f_unique bits text). Qed.
Print Assumptions C16_oracle_unique.
Example C16_oracle_unique_example :        (* "0.3" is accepted for 0.3, "0.30" and "0.29999999999999999" are not *)
  oracle_f 0x3FD3333333333333 (bs 3 0x302e33) = true /\ oracle_f 0x3FD3333333333333 (bs 4 0x302e3330) = false /\
  oracle_f 0x3FD3333333333333 (bs 19 0x302e3239393939393939393939393939393939) = false.
Proof. vm_compute. repeat split. Qed.
