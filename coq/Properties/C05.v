(* Property C05 — Distinct keeps exactly one row per distinct key (the hash table part:
   grouper.Distinct = groupIndex with collectIx = false).  Statements only; proofs in Proofs/Grouper*.v.
   Premises as in Properties/C04.v. *)
From QF Require Import Base.Prelude Model.Grouper.
From QF Require Import Proofs.GrouperProofs Proofs.GrouperInv Proofs.GrouperMain Proofs.GrouperCheck Proofs.GrouperHash.
Local Open Scope N_scope.

(* 3. Distinct never panics; it returns, in the same (slot) order, the first member of every group that
   GroupBy returns; the result has no duplicates, only rows of the index, members with pairwise unequal
   keys, and every row of the index is in it or has a key equal to a member's *)
Theorem C05_distinct (eqb : nat -> nat -> bool) (hash : nat -> N) (ids : list nat) :
  NoDup ids -> per_on eqb ids -> hash_respects eqb hash ids -> N.of_nat (length ids) <= 2 ^ 30 ->
  exists gs, group_ids eqb hash ids = Ok gs /\ partition_ok eqb ids gs /\
             distinct_ids eqb hash ids = Ok (heads gs) /\ distinct_ok eqb ids (heads gs).
Proof. exact (distinct_ids_heads eqb hash ids). Qed.
Print Assumptions C05_distinct.

Theorem C05_distinct_gen {A : Type} (eqb : A -> A -> bool) (hash : A -> N) (ids : list A) :
  NoDup ids -> per_on eqb ids -> hash_respects eqb hash ids -> N.of_nat (length ids) <= 2 ^ 30 ->
  exists gs, group_ids_gen eqb hash ids = Ok gs /\ partition_ok eqb ids gs /\
             distinct_ids_gen eqb hash ids = Ok (heads gs) /\ distinct_ok eqb ids (heads gs).
Proof. exact (distinct_ids_heads eqb hash ids). Qed.
Print Assumptions C05_distinct_gen.

(* any choice of one representative per group of any partition is a correct Distinct result *)
Theorem C05_heads_of_partition {A : Type} (eqb : A -> A -> bool) (ids : list A) (gs : list (list A)) :
  NoDup ids -> partition_ok eqb ids gs -> distinct_ok eqb ids (heads gs).
Proof. exact (distinct_of_partition eqb ids gs). Qed.
Print Assumptions C05_heads_of_partition.

(* Distinct on a frame given by its key cells, any memhash, any random source *)
Theorem C05_frame (cells : nat -> list cell) (nulleq : bool) (memhash : bytes -> N -> N)
        (rnd : nat -> nat -> N) (ids : list nat) :
  NoDup ids -> (forall i, In i ids -> Forall cell_wf (cells i)) -> N.of_nat (length ids) <= 2 ^ 30 ->
  exists d, distinct_ids (frame_eqb cells nulleq) (frame_hash cells nulleq memhash rnd) ids = Ok d /\
            distinct_ok (frame_eqb cells nulleq) ids d.
Proof.
  exact (fun ND W B =>
           match distinct_ids_heads _ _ ids ND (frame_per cells nulleq ids)
                   (frame_hash_respects cells nulleq memhash rnd ids W) B with
           | ex_intro _ gs (conj _ (conj _ (conj Hd Hok))) => ex_intro _ (heads gs) (conj Hd Hok)
           end).
Qed.
Print Assumptions C05_frame.

(* 5. the checker applied to the implementation's output decides the specification predicate *)
Theorem C05_distinct_b_correct {A : Type} (aeq eqb : A -> A -> bool) (ids d : list A) :
  (forall x y, aeq x y = true <-> x = y) -> per_on eqb ids ->
  (distinct_b aeq eqb ids d = true <-> distinct_ok eqb ids d).
Proof.
  exact (fun Haeq Hper => conj (distinct_b_sound aeq eqb Haeq ids d Hper)
                               (distinct_b_complete aeq eqb Haeq ids d)).
Qed.
Print Assumptions C05_distinct_b_correct.

(* the premises are satisfiable: the example of Properties/C04.v (keys 0 1 2 0 1 2, key 2 equal to nothing,
   all hashes colliding) *)
Definition ex_eqb (a b : nat) : bool := (Nat.eqb (a mod 3) (b mod 3) && Nat.ltb (a mod 3) 2)%bool.
Example C05_example_run :
  distinct_ids ex_eqb (fun _ => 4294967301) [5; 0; 4; 3; 2; 1]%nat = Ok [2; 5; 0; 4]%nat.
Proof. vm_compute. reflexivity. Qed.

Example C05_example_checker :
  distinct_b Nat.eqb ex_eqb [5; 0; 4; 3; 2; 1]%nat [2; 5; 0; 4]%nat = true /\
  distinct_b Nat.eqb ex_eqb [5; 0; 4; 3; 2; 1]%nat [2; 5; 0; 3; 4]%nat = false /\   (* two rows of one key *)
  distinct_b Nat.eqb ex_eqb [5; 0; 4; 3; 2; 1]%nat [5; 0; 4]%nat = false.          (* null-keyed row 2 lost *)
Proof. vm_compute. auto. Qed.
