(* Property C05 — Distinct keeps exactly one row per distinct key (the hash table part:
   grouper.Distinct = groupIndex with collectIx = false).  Statements only; proofs in Proofs/Grouper*.v.
   Premises as in Properties/C04.v. *)
From QF Require Import Base.Prelude Model.Grouper.
From QF Require Import Proofs.GrouperProofs Proofs.GrouperInv Proofs.GrouperMain Proofs.GrouperCheck Proofs.GrouperHash.
Local Open Scope N_scope.

(* 3. Distinct never panics; it returns, in the same (slot) order, the first member of every group that
   GroupBy returns; the result has no duplicates, only rows of the index, members with pairwise unequal
   keys, and every row of the index is in it or has a key equal to a member's *)
Theorem C05_distinct (eqb : nat -> nat -> bool) (hash : nat -> N) (ids : list nat) :
  NoDup ids -> per_on eqb ids -> hash_respects eqb hash ids -> N.of_nat (length ids) <= 2 ^ 30 ->
  exists gs, group_ids eqb hash ids = Ok gs /\ partition_ok eqb ids gs /\
             distinct_ids eqb hash ids = Ok (heads gs) /\ distinct_ok eqb ids (heads gs).
Proof. exact (distinct_ids_heads eqb hash ids). Qed.
Print Assumptions C05_distinct.

Theorem C05_distinct_gen {A : Type} (eqb : A -> A -> bool) (hash : A -> N) (ids : list A) :
  NoDup ids -> per_on eqb ids -> hash_respects eqb hash ids -> N.of_nat (length ids) <= 2 ^ 30 ->
  exists gs, group_ids_gen eqb hash ids = Ok gs /\ partition_ok eqb ids gs /\
             distinct_ids_gen eqb hash ids = Ok (heads gs) /\ distinct_ok eqb ids (heads gs).
Proof. exact (distinct_ids_heads eqb hash ids). Qed.
Print Assumptions C05_distinct_gen.

(* any choice of one representative per group of any partition is a correct Distinct result *)
Theorem C05_heads_of_partition {A : Type} (eqb : A -> A -> bool) (ids : list A) (gs : list (list A)) :
  NoDup ids -> partition_ok eqb ids gs -> distinct_ok eqb ids (heads gs).
Proof. exact (distinct_of_partition eqb ids gs). Qed.
Print Assumptions C05_heads_of_partition.

(* Distinct on a frame given by its key cells, any memhash, any random source *)
Theorem C05_frame (cells : nat -> list cell) (nulleq : bool) (memhash : bytes -> N -> N)
        (rnd : nat -> nat -> N) (ids : list nat) :
  NoDup ids -> (forall i, In i ids -> Forall cell_wf (cells i)) -> N.of_nat (length ids) <= 2 ^ 30 ->
  exists d, distinct_ids (frame_eqb cells nulleq) (frame_hash cells nulleq memhash rnd) ids = Ok d /\
            distinct_ok (frame_eqb cells nulleq) ids d.
Proof.
  exact (fun ND W B =>
           match distinct_ids_heads _ _ ids ND (frame_per cells nulleq ids)
                   (frame_hash_respects cells nulleq memhash rnd ids W) B with
           | ex_intro _ gs (conj _ (conj _ (conj Hd Hok))) => ex_intro _ (heads gs) (conj Hd Hok)
           end).
Qed.
Print Assumptions C05_frame.

(* 5. the checker applied to the implementation's output decides the specification predicate *)
Theorem C05_distinct_b_correct {A : Type} (aeq eqb : A -> A -> bool) (ids d : list A) :
  (forall x y, aeq x y = true <-> x = y) -> per_on eqb ids ->
  (distinct_b aeq eqb ids d = true <-> distinct_ok eqb ids d).
Proof.
  exact (fun Haeq Hper => conj (distinct_b_sound aeq eqb Haeq ids d Hper)
                               (distinct_b_complete aeq eqb Haeq ids d)).
Qed.
Print Assumptions C05_distinct_b_correct.

(* the premises are satisfiable: the example of Properties/C04.v (keys 0 1 2 0 1 2, key 2 equal to nothing,
   all hashes colliding) *)
Definition ex_eqb (a b : nat) : bool := (Nat.eqb (a mod 3) (b mod 3) && Nat.ltb (a mod 3) 2)%bool.
Example C05_example_run :
  distinct_ids ex_eqb (fun _ => 4294967301) [5; 0; 4; 3; 2; 1]%nat = Ok [2; 5; 0; 4]%nat.
Proof. vm_compute. reflexivity. Qed.

Example C05_example_checker :
  distinct_b Nat.eqb ex_eqb [5; 0; 4; 3; 2; 1]%nat [2; 5; 0; 4]%nat = true /\
  distinct_b Nat.eqb ex_eqb [5; 0; 4; 3; 2; 1]%nat [2; 5; 0; 3; 4]%nat = false /\   (* two rows of one key *)
  distinct_b Nat.eqb ex_eqb [5; 0; 4; 3; 2; 1]%nat [5; 0; 4]%nat = false.          (* null-keyed row 2 lost *)
Proof. vm_compute. auto. Qed.

(* ================================================================================================
   The frame level: QFrame.Distinct (Model/Aggregate.v; proofs in Proofs/AggregateProofs.v).  From here on
   [cell], [ix], ... are those of Model/Frame.v.  [distinct_with dst] is Distinct with any function [dst] in
   the place of grouper.Distinct; [distinct memhash rnd nulleq] is the instance with the hash table of
   Model/Grouper.v.  [frame_ok f]: no error, columns of equal physical length with valid enum ranks, index
   duplicate-free, inside the columns and at most 2^30 long. *)
From QF Require Import Model.Frame Model.Filter Model.Ops Model.Aggregate Proofs.AggregateProofs.

(* 6. every returned row is an unmodified input row: Distinct never touches the columns, whatever it returns *)
Theorem C05_distinct_cols (dst : list coldata -> list nat -> outcome (list nat)) (f : frame)
        (columns : list bytes) (out : frame) :
  distinct_with dst f columns = Ok out -> cols out = cols f.
Proof. exact (distinct_cols dst f columns out). Qed.
Print Assumptions C05_distinct_cols.

(* ... so a sub-index shows a sub-multiset of the input's rows under the same names and types *)
Theorem C05_rows_unmodified (f : frame) (d : list nat) (t t' : table) :
  incl d (ix f) -> abs f = Ok t -> abs (with_ix f d) = Ok t' ->
  tnames t' = tnames t /\ ttypes t' = ttypes t /\ incl (trows t') (trows t).
Proof. exact (with_ix_rows f d t t'). Qed.
Print Assumptions C05_rows_unmodified.

(* 7. zero rows: identity (NB even when a column is unknown: the length test comes first in the Go code);
   error: passed on; unknown column on a frame with rows: Err; no columns given: all columns are keys *)
Theorem C05_distinct_no_rows (dst : list coldata -> list nat -> outcome (list nat)) (f : frame) (columns : list bytes) :
  ix f = [] -> distinct_with dst f columns = Ok f.
Proof. exact (distinct_no_rows dst f columns). Qed.
Print Assumptions C05_distinct_no_rows.

Theorem C05_distinct_sticky (dst : list coldata -> list nat -> outcome (list nat)) (f : frame) (columns : list bytes) :
  ferr f = true -> distinct_with dst f columns = Ok f.
Proof. exact (distinct_sticky dst f columns). Qed.
Print Assumptions C05_distinct_sticky.

Theorem C05_distinct_unknown_column (dst : list coldata -> list nat -> outcome (list nat)) (f : frame)
        (columns : list bytes) :
  ferr f = false -> ix f <> [] -> forallb (contains f) columns = false ->
  distinct_with dst f columns = Ok (with_err f).
Proof. exact (distinct_unknown_column dst f columns). Qed.
Print Assumptions C05_distinct_unknown_column.

Theorem C05_distinct_all_columns (dst : list coldata -> list nat -> outcome (list nat)) (f : frame) :
  distinct_with dst f [] = distinct_with dst f (col_names f).
Proof. exact (distinct_all_columns dst f). Qed.
Print Assumptions C05_distinct_all_columns.

(* 8. the statement of the property on the model: Distinct(columns) on a well-formed frame, for every memhash and
   every random source: no fault, no error, the input's columns, an index that is a correct choice of one row
   per distinct key (distinct_ok: duplicate-free, rows of the input, pairwise unequal keys, every input row
   represented), and every row of the result's table is a row of the input's table *)
Definition C05_full_statement : Prop :=
  forall (memhash : bytes -> N -> N) (rnd : nat -> nat -> N) (nulleq : bool) (f : frame) (columns : list bytes),
  frame_ok f -> forallb (contains f) columns = true ->
  (forall i, In i (ix f) -> Forall cell_wf (key_cells (key_columns f (distinct_columns f columns)) i)) ->
  exists d, distinct memhash rnd nulleq f columns = Ok (with_ix f d) /\
            distinct_ok (key_eqb nulleq (key_columns f (distinct_columns f columns))) (ix f) d /\
            forall t t', abs f = Ok t -> abs (with_ix f d) = Ok t' ->
                         tnames t' = tnames t /\ ttypes t' = ttypes t /\ incl (trows t') (trows t).

Theorem C05_distinct_frame : C05_full_statement.
Proof. exact distinct_frame_rows. Qed.
Print Assumptions C05_distinct_frame.

(* ---------------------------------------------------------------- the premises are satisfiable *)

(* five rows (index 4 0 1 2 3): int key "k" = 1 2 1 2 1, and an enum "s" with a null *)
Definition ex5_k : bytes := bs 1 0x6b.
Definition ex5_s : bytes := bs 1 0x73.
Definition ex5_f : frame := mkFrame
  [ (ex5_k, ICol [1; 2; 1; 2; 1]%Z);
    (ex5_s, ECol [0; 1; 0; 255; 1] [bs 1 0x78; bs 1 0x79] true) ] [4; 0; 1; 2; 3]%nat false.
Definition ex5_memhash (b : bytes) (seed : N) : N :=
  fold_left (fun acc x => N.land (acc * 33 + x + 1) 0xFFFFFFFFFFFF) b (seed + 5381).
Definition ex5_rnd (_ _ : nat) : N := 0.

Example C05_example_frame_premises :
  frame_ok ex5_f /\ forallb (contains ex5_f) [ex5_k] = true /\
  (forall i, In i (ix ex5_f) ->
     Forall cell_wf (key_cells (key_columns ex5_f (distinct_columns ex5_f [ex5_k])) i)).
Proof.
  split; [|split].
  - split; [reflexivity|]. split; [reflexivity|]. split; [|vm_compute; discriminate].
    repeat constructor; simpl; intuition discriminate.
  - reflexivity.
  - intros i Hi. simpl in Hi.
    repeat (destruct Hi as [<-|Hi];
            [match goal with |- Forall cell_wf ?t => let v := eval vm_compute in t in change t with v end;
             repeat constructor|]).
    contradiction.
Qed.

(* by "k": one row per key value; by all columns: rows 0 and 2 (k = 1, s = "x") share a key, 4 of 5 rows
   remain (the row with the null enum among them); unknown column "z"; zero rows with an unknown column *)
Example C05_example_distinct :
  distinct ex5_memhash ex5_rnd false ex5_f [ex5_k] = Ok (with_ix ex5_f [4; 1]%nat) /\
  (do o <- distinct ex5_memhash ex5_rnd false ex5_f []; Ok (length (ix o))) = Ok 4%nat /\
  distinct ex5_memhash ex5_rnd false ex5_f [bs 1 0x7a] = Ok (with_err ex5_f) /\
  distinct ex5_memhash ex5_rnd false (with_ix ex5_f []) [bs 1 0x7a] = Ok (with_ix ex5_f []).
Proof. vm_compute. repeat split. Qed.
