(* Tie T1, semantic part, for the TEXT ASSEMBLY of the float64 'f' printer (properties C16, C14) — not one of the
   19 properties, compiled with them.
   Gen/GenRyuText.v is produced by tools/qf2coq/ryutext.go from the Go text of internal/ryu: ryu64.go sizeSlice
   and dec64.appendF, ryu.go appendSpecialf, AppendFloat64f (bit-field extraction, special cases, exact-integer
   attempt, call of float64ToDecimal) and FormatFloat64f, statement by statement; the digit generation is called
   in ITS translated form (gf_ryu_decimalLen64, gf_ryu_float64ToDecimalExactInt, gf_ryu_float64ToDecimal of
   Gen/GenFuncs.v, tied by Properties/T1.v), so grt_AppendFloat64f is translated text on the whole path from the
   64 bits of the float to the bytes appended.  Every theorem below says: the definition generated from the Go
   source equals the hand-written model function of Model/Ryu.v — the one the engine "ryu" executes and
   C16_AppendFloat64f_total / C16_text / C14 speak about — for ALL buffers (contents and spare capacity with its
   stale bytes), ALL allocator behaviours g, ALL arguments, and all sufficient fuel.  An edit of one of these Go
   functions changes the generated text at the next run and the theorem of that function stops compiling.

   Reading aid: a []byte is grt_buf {| grt_data; grt_spare |} on the generated side and Ryu.buf on the model
   side, [to_g] copies one into the other field by field, [o_g] maps an outcome through to_g; Go int is an exact
   Z, uint64 a Z in [0, 2^64) (the model: N), a float64 its bit pattern.  Panic on the generated side = the Go
   function panics (slice index / slice bound out of range, make with a negative length, failed assert of the
   digit generation) OR the loop fuel is used up; the fuel premise of each theorem excludes the second case
   (T1_ryutext_fuel_matters shows that the premise is not idle). *)
From QF Require Import Base.Prelude Gen.GenConsts Gen.GenRyu Gen.GenFuncs Gen.GenRyuText Model.Ryu.
From QF Require Import Proofs.GenFuncsProofs Proofs.RyuNoPanic Proofs.RyuHandoverText Proofs.GenRyuTextProofs.
From QF Require Import Model.Json Model.Frame Model.JsonRead Proofs.JsonProofs.
Local Open Scope Z_scope.

(* ------------------------------------------------------------------ ryu64.go: sizeSlice *)

(* all buffers, all allocators, all bufLen (negative ones included: b[:len+bufLen] shrinks or panics) *)
Theorem T1_ryutext_sizeSlice (g : nat -> bytes) (b : buf) (bufLen : Z) :
  grt_sizeSlice g (to_g b) bufLen = o_g (sizeSlice g b bufLen).
Proof. exact (grt_sizeSlice_eq g b bufLen). Qed.
Print Assumptions T1_ryutext_sizeSlice.
Example T1_ryutext_sizeSlice_example :     (* in place: two stale bytes become visible; too small: reallocation *)
  grt_sizeSlice (fun _ => [7%N]) (to_g {| bdata := [1%N]; bspare := [8%N; 9%N; 5%N] |}) 2
  = Ok (to_g {| bdata := [1%N; 8%N; 9%N]; bspare := [5%N] |})
  /\ grt_sizeSlice (fun _ => [7%N]) (to_g {| bdata := [1%N]; bspare := [8%N] |}) 2
     = Ok (to_g {| bdata := [1%N; 0%N; 0%N]; bspare := [7%N] |})
  /\ grt_sizeSlice (fun _ => [7%N]) (to_g {| bdata := [1%N]; bspare := [8%N] |}) (-2) = Panic.
Proof. vm_compute. repeat split; reflexivity. Qed.

(* ------------------------------------------------------------------ ryu.go: appendSpecialf *)

Theorem T1_ryutext_appendSpecialf (g : nat -> bytes) (b : buf) (neg expZero mantZero : bool) :
  grt_appendSpecialf g (to_g b) neg expZero mantZero = to_g (appendSpecialf g b neg expZero mantZero).
Proof. exact (grt_appendSpecialf_eq g b neg expZero mantZero). Qed.
Print Assumptions T1_ryutext_appendSpecialf.
Example T1_ryutext_appendSpecialf_example :     (* "-0" and "+Inf" *)
  grt_appendSpecialf (fun _ => []) (to_g {| bdata := []; bspare := [] |}) true true true
  = to_g {| bdata := [45%N; 48%N]; bspare := [] |}
  /\ grt_appendSpecialf (fun _ => []) (to_g {| bdata := []; bspare := [] |}) false false true
     = to_g {| bdata := [43%N; 73%N; 110%N; 102%N]; bspare := [] |}.
Proof. vm_compute. split; reflexivity. Qed.

(* ------------------------------------------------------------------ ryu64.go: dec64.appendF *)

(* The three layouts with their five loops.  m is any uint64, e ANY integer (also outside int32), the buffer
   and the allocator arbitrary; panics of the Go code (a store outside the slice) are panics of the model at
   the same place.  Fuel: every loop runs at most max(|e|, 19) + 1 times. *)
Theorem T1_ryutext_appendF (g : nat -> bytes) (fuel : nat) (b : buf) (m : N) (e : Z) (neg : bool) :
  (m < 2 ^ 64)%N -> Z.abs e + 20 < Z.of_nat fuel ->
  grt_appendF g fuel (Z.of_N m, e) (to_g b) neg = o_g (appendF g b m e neg).
Proof. exact (grt_appendF_eq g fuel b m e neg). Qed.
Print Assumptions T1_ryutext_appendF.
Example T1_ryutext_appendF_example :      (* the premises hold; stale digits in the spare capacity do not leak *)
  (1234 < 2 ^ 64)%N /\ Z.abs (-2) + 20 < Z.of_nat 23
  /\ grt_appendF (fun _ => []) 23 (Z.of_N 1234, -2)
       (to_g {| bdata := [91%N]; bspare := [57; 57; 57; 57; 57; 57; 57; 57; 57]%N |}) true
     = Ok (to_g {| bdata := bs 7 0x5b2d31322e3334; bspare := [57; 57; 57]%N |}).
Proof. vm_compute. repeat split; reflexivity. Qed.

(* the loops one by one (the shapes the main theorem is assembled from): trip count k < fuel *)
Theorem T1_ryutext_appendF_loops (sp : bytes) (k fuel : nat) (d : bytes) (out : N) :
  (k < fuel)%nat ->
  (forall outLen dE n i, k = Z.to_nat (dE + n - i) ->
     grt_appendF_loop1 fuel (mk d sp) outLen dE n i = liftd sp (write_zeros d (outLen + i) k))
  /\ (forall n i, k = Z.to_nat (i - n + 1) ->
     grt_appendF_loop2 fuel (mk d sp) (Z.of_N out) n i = liftw sp (write_digits d i out k))
  /\ (forall n i, k = Z.to_nat (i - n + 1) ->
     grt_appendF_loop3 fuel (mk d sp) (Z.of_N out) n i = liftw sp (write_digits d i out k))
  /\ (forall ePos i, k = Z.to_nat ePos ->
     grt_appendF_loop4 fuel (mk d sp) (Z.of_N out) ePos i = liftw4 sp ePos (write_digits d i out k))
  /\ (forall end_ i, k = Z.to_nat (i - end_ + 1) ->
     grt_appendF_loop5 fuel (mk d sp) (Z.of_N out) i end_ = liftw5 sp (write_digits d i out k)).
Proof.
  exact (fun Hk => conj (fun outLen dE n i E => loop1_eq sp outLen dE n k fuel d i Hk E)
                  (conj (fun n i E => loop2_eq sp n k fuel d out i Hk E)
                  (conj (fun n i E => loop3_eq sp n k fuel d out i Hk E)
                  (conj (fun ePos i E => loop4_eq sp k fuel d out ePos i Hk E)
                        (fun end_ i E => loop5_eq sp end_ k fuel d out i Hk E))))).
Qed.
Print Assumptions T1_ryutext_appendF_loops.
Example T1_ryutext_appendF_loops_example :     (* k = 3 digits written right to left, fuel 4 *)
  (3 < 4)%nat /\ 3%nat = Z.to_nat (2 - 0 + 1)
  /\ grt_appendF_loop2 4 (mk [0; 0; 0]%N []) (Z.of_N 789) 0 2 = Ok (mk [55; 56; 57]%N [], 0).
Proof. vm_compute. repeat split; reflexivity. Qed.

(* ------------------------------------------------------------------ ryu.go: AppendFloat64f *)

(* The decimal exponents the digit generation hands to appendF (the reason why 400 is enough fuel):
   an exponent-only sweep over the 2047 biased exponents bounds e10, the removal loops add at most 72. *)
Theorem T1_ryutext_exponent_range (mant exp m : N) (e : Z) :
  (exp <= 2046)%N -> float64ToDecimal mant exp = Ok (m, e) -> -325 <= e <= 362.
Proof. exact (float64ToDecimal_exponent mant exp m e). Qed.
Print Assumptions T1_ryutext_exponent_range.
Example T1_ryutext_exponent_range_example :     (* the smallest subnormal reaches -324 *)
  (0 <= 2046)%N /\ float64ToDecimal 1 0 = Ok (5%N, -324).
Proof. vm_compute. split; [discriminate|reflexivity]. Qed.

(* ALL bit patterns (no premise on bits at all), all buffers, all allocators: sign / mantissa / exponent
   extraction, NaN / Inf / zero, the exact-integer attempt, float64ToDecimal, appendF.  The generated function
   calls the TRANSLATED digit generation gf_ryu_*; the equalities T1_float64ToDecimalExactInt and
   T1_float64ToDecimal of Properties/T1.v are composed here. *)
Theorem T1_ryutext_AppendFloat64f (g : nat -> bytes) (fuel : nat) (b : buf) (bits : N) :
  (400 <= fuel)%nat ->
  grt_AppendFloat64f g fuel (to_g b) (Z.of_N bits) = o_g (AppendFloat64f g b bits).
Proof. exact (grt_AppendFloat64f_eq g fuel b bits). Qed.
Print Assumptions T1_ryutext_AppendFloat64f.
Example T1_ryutext_AppendFloat64f_example :     (* -pi into a buffer with one byte and stale spare capacity *)
  (400 <= 400)%nat
  /\ grt_AppendFloat64f (fun _ => [1%N]) 400 (to_g {| bdata := [91%N]; bspare := [57; 57; 57]%N |})
       (Z.of_N 0xC00921FB54442D18)
     = Ok (to_g {| bdata := bs 19 0x5b2d332e313431353932363533353839373933; bspare := [1%N] |}).
Proof. split; [apply Nat.le_refl|vm_compute; reflexivity]. Qed.

(* the fuel premise is not idle: 5e-324 needs 324 leading zeros, with fuel 300 the translation gives up *)
Example T1_ryutext_fuel_matters :
  grt_AppendFloat64f (fun _ => []) 300 (to_g {| bdata := []; bspare := [] |}) 1 = Panic
  /\ exists r, grt_AppendFloat64f (fun _ => []) 400 (to_g {| bdata := []; bspare := [] |}) 1 = Ok r
               /\ length (grt_data r) = 326%nat.
Proof. split; [vm_compute; reflexivity|]. eexists. split; vm_compute; reflexivity. Qed.

(* ------------------------------------------------------------------ C16 / C14 on the translated text *)

(* C16_AppendFloat64f_total restated on the translation: for every bit pattern, buffer and allocator the
   translated Go text does not panic, keeps the old contents and appends a text that depends on the bits only *)
Theorem T1_ryutext_total (g : nat -> bytes) (fuel : nat) (b : buf) (bits : N) :
  (400 <= fuel)%nat -> (bits < 2 ^ 64)%N ->
  exists sp, grt_AppendFloat64f g fuel (to_g b) (Z.of_N bits)
             = Ok (to_g {| bdata := bdata b ++ ryu_text bits; bspare := sp |}).
Proof. exact (grt_AppendFloat64f_total g fuel b bits). Qed.
Print Assumptions T1_ryutext_total.
Example T1_ryutext_total_example :      (* 0.1 satisfies the premises; its text *)
  (400 <= 400)%nat /\ (0x3FB999999999999A < 2 ^ 64)%N /\ ryu_text 0x3FB999999999999A = [48%N; 46%N; 49%N].
Proof. split; [apply Nat.le_refl|vm_compute; split; reflexivity]. Qed.

(* C16_text (the whole property text of C16 at the level of the model) restated on the translation: for every
   one of the 2^64 bit patterns other than NaN, every buffer, every allocator, the translated Go text keeps the
   old contents and appends a text the property oracle accepts ("+Inf" / "-Inf" / "0" / "-0" literally;
   otherwise the canonical positional rendering of a pair (m, e) that passes the certificate checker: in the
   rounding interval, shortest, closest). *)
Definition T1_ryutext_text_statement : Prop :=
  forall (g : nat -> bytes) (fuel : nat) (b : buf) (bits : N),
    (400 <= fuel)%nat -> (bits < 2 ^ 64)%N ->
    ~ (((bits / 2 ^ 52) mod 2048 = 2047 /\ bits mod 2 ^ 52 <> 0)%N) ->
    exists text sp,
      grt_AppendFloat64f g fuel (to_g b) (Z.of_N bits)
      = Ok (to_g {| bdata := bdata b ++ text; bspare := sp |}) /\
      oracle_f bits text = true.
Theorem T1_ryutext_text : T1_ryutext_text_statement.
Proof. exact grt_AppendFloat64f_oracle. Qed.
Print Assumptions T1_ryutext_text.
Example T1_ryutext_text_example :       (* -Inf, -0 and 1e23 satisfy the premises; the oracle accepts what the translation writes *)
  let run bits := match grt_AppendFloat64f (fun _ => []) 400 (to_g {| bdata := []; bspare := [] |}) (Z.of_N bits) with
                  | Ok r => oracle_f bits (grt_data r) | _ => false end in
  (0xFFF0000000000000 < 2 ^ 64)%N /\ run 0xFFF0000000000000%N = true /\ run 0x8000000000000000%N = true
  /\ run 0x44B52D02C7E14AF6%N = true.
Proof. vm_compute. repeat split; reflexivity. Qed.

(* C14_float_token + C14_float_text_any_buffer restated on the translation (the float cells of ToJSON are
   written by fcolumn through ryu.AppendFloat64f): for every finite float, every buffer, every allocator, what
   the translated Go text appends is an RFC 8259 number token that denotes exactly sign * m * 10^e for the
   decimal (m, e) of the digit generation *)
Theorem T1_ryutext_json_float_token (g : nat -> bytes) (fuel : nat) (b : buf) (bits : N) :
  (400 <= fuel)%nat -> (bits < 2 ^ 64)%N -> f_isnan bits = false -> f_isinf bits = false ->
  exists text m e sp,
    grt_AppendFloat64f g fuel (to_g b) (Z.of_N bits) = Ok (to_g {| bdata := bdata b ++ text; bspare := sp |}) /\
    float_decimal bits = Ok (m, e) /\
    value_denotes text (JNum text) /\
    jnum_value text = Some (negb (bits / 2 ^ 63 =? 0)%N, (m * 10 ^ Z.to_N (e - Z.min e 0))%N, Z.min e 0).
Proof. exact (grt_json_float_token g fuel b bits). Qed.
Print Assumptions T1_ryutext_json_float_token.
Example T1_ryutext_json_float_token_example :      (* -pi and the smallest subnormal satisfy the premises *)
  ((0xC00921FB54442D18 < 2 ^ 64)%N /\ f_isnan 0xC00921FB54442D18 = false /\ f_isinf 0xC00921FB54442D18 = false /\
   float_decimal 0xC00921FB54442D18 = Ok (3141592653589793%N, -15)) /\
  (f_isnan 1 = false /\ f_isinf 1 = false /\ float_decimal 1 = Ok (5%N, -324)).
Proof. vm_compute. repeat split. Qed.

(* ------------------------------------------------------------------ ryu.go: FormatFloat64f *)

(* make([]byte, 0, 24), AppendFloat64f, byteSliceToString: the string is the text of the model *)
Theorem T1_ryutext_FormatFloat64f (g : nat -> bytes) (fuel : nat) (bits : N) :
  (400 <= fuel)%nat -> (bits < 2 ^ 64)%N ->
  grt_FormatFloat64f g fuel (Z.of_N bits) = Ok (ryu_text bits).
Proof. exact (grt_FormatFloat64f_eq g fuel bits). Qed.
Print Assumptions T1_ryutext_FormatFloat64f.
Example T1_ryutext_FormatFloat64f_example :     (* 0.3 = 0x3FD3333333333333, longer than nothing, shorter than 24 *)
  (0x3FD3333333333333 < 2 ^ 64)%N
  /\ grt_FormatFloat64f (fun _ => []) 400 (Z.of_N 0x3FD3333333333333) = Ok [48%N; 46%N; 51%N].
Proof. vm_compute. split; reflexivity. Qed.
