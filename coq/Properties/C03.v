(* Property C03 — Sort returns a permutation of the rows ordered by the given keys. *)
From QF Require Import Base.Prelude Model.Sort Proofs.SortProofs Proofs.SortSafe Proofs.SortSorted.
From QF Require Import Corr.SortCorr Proofs.SortKeyProofs.
From QF Require Import Proofs.SortQuick Proofs.SortQuickSorted Proofs.SortQuickRange.

(* 1. The sorter only permutes: for ANY Less (even an inconsistent one), any length, any thresholds. *)
Theorem C03_perm (lt : nat -> nat -> bool) (ids out : list nat) :
  sort_ids lt ids = Ok out -> Permutation out ids.
Proof. exact (sort_ids_perm lt ids out). Qed.
Print Assumptions C03_perm.

Example C03_perm_example :
  sort_ids (fun a b => a mod 3 <? b mod 3) [5; 4; 3; 2; 1; 0; 11; 10; 9; 8; 7; 6; 13; 12]
  = Ok [0; 9; 3; 12; 6; 10; 1; 13; 4; 7; 8; 11; 2; 5].
Proof. vm_compute. reflexivity. Qed.

(* 3a. compare_order: with the table built by Comparable(reverse, false, nullLast), Compare answers
   LessThan / GreaterThan / a tie exactly when the order of the property text (natural order of the
   values, null smaller than every value resp. larger with NullLast, Reverse inverting the complete
   order) says smaller / larger / neither.  Premise: the value order is asymmetric on non-null rows. *)
Theorem C03_compare_order (rev nl : bool) (isnull : nat -> bool) (vlt : nat -> nat -> bool) (a b : nat) :
  asym_on (nonnull isnull) vlt ->
  cmp3 (compare_rows (mk_cmpcfg rev false nl) isnull vlt a b)
  = cmp_of_lt (key_lt_spec rev nl isnull vlt) a b.
Proof. exact (compare_rows_spec rev nl isnull vlt a b). Qed.
Print Assumptions C03_compare_order.

(* the order of the property text, clause by clause *)
Theorem C03_key_order_values (nl : bool) isnull vlt a b :
  isnull a = false -> isnull b = false -> key_lt_spec false nl isnull vlt a b = vlt a b.
Proof. exact (key_lt_spec_values nl isnull vlt a b). Qed.
Print Assumptions C03_key_order_values.

Theorem C03_key_order_null (nl : bool) isnull vlt a b :
  isnull a = true -> isnull b = false ->
  key_lt_spec false nl isnull vlt a b = negb nl /\ key_lt_spec false nl isnull vlt b a = nl.
Proof. exact (key_lt_spec_null nl isnull vlt a b). Qed.
Print Assumptions C03_key_order_null.

Theorem C03_key_order_null_null (rev nl : bool) isnull vlt a b :
  isnull a = true -> isnull b = true -> key_lt_spec rev nl isnull vlt a b = false.
Proof. exact (key_lt_spec_null_null rev nl isnull vlt a b). Qed.
Print Assumptions C03_key_order_null_null.

Theorem C03_key_order_reverse (nl : bool) isnull vlt a b :
  key_lt_spec true nl isnull vlt a b = key_lt_spec false nl isnull vlt b a.
Proof. exact (key_lt_spec_reverse nl isnull vlt a b). Qed.
Print Assumptions C03_key_order_reverse.

(* the per-type Compare methods are this Compare (fcolumn tests the values first, bcolumn has its own
   shape, icolumn has no nulls) *)
Theorem C03_compare_float cfg isnan vlt a b :
  (forall x y, isnan x = true \/ isnan y = true -> vlt x y = false) ->
  compare_rows_float cfg isnan vlt a b = compare_rows cfg isnan vlt a b.
Proof. exact (compare_rows_float_eq cfg isnan vlt a b). Qed.
Print Assumptions C03_compare_float.

Theorem C03_compare_bool cfg v a b :
  compare_rows_bool cfg v a b
  = compare_rows cfg (fun _ => false) (fun i j => negb (v i) && v j) a b.
Proof. exact (compare_rows_bool_eq cfg v a b). Qed.
Print Assumptions C03_compare_bool.

(* 3b. Sorter.Less over the keys is the lexicographic order of the property text ... *)
Theorem C03_less_is_lexicographic (ks : list keydesc) (a b : nat) :
  Forall (fun k => asym_on (nonnull (kd_isnull k)) (kd_vlt k)) ks ->
  less_keys (map kd_compare ks) a b = lex_lt_spec (map kd_spec ks) a b.
Proof. exact (less_keys_spec ks a b). Qed.
Print Assumptions C03_less_is_lexicographic.

(* ... and a strict weak order (irreflexive, transitive, incomparability transitive) *)
Theorem C03_less_lex_swo (ks : list keydesc) :
  Forall (fun k => strict_weak_order_on (nonnull (kd_isnull k)) (kd_vlt k)) ks ->
  strict_weak_order (less_keys (map kd_compare ks)).
Proof. exact (less_keys_swo ks). Qed.
Print Assumptions C03_less_lex_swo.

Example C03_less_lex_swo_example :
  let ranks := [3; 1; 4; 1; 5; 9; 2; 6]%N in
  let k := {| kd_isnull := fun i => N.eqb (nth i ranks 0%N) 1;
              kd_vlt := fun a b => N.ltb (nth a ranks 0%N) (nth b ranks 0%N);
              kd_rev := true; kd_nl := true |} in
  Forall (fun k => strict_weak_order_on (nonnull (kd_isnull k)) (kd_vlt k)) [k; k].
Proof.
  intros ranks k. repeat apply Forall_cons; try apply Forall_nil;
    apply (swo_of_rank _ (fun a => nth a ranks 0%N)).
Qed.

(* 4. The boolean checker run on the implementation's output (the property oracle of engine "sort"). *)
Theorem sorted_perm_b_correct (lt : nat -> nat -> bool) (input output : list nat) :
  sorted_perm_b lt input output = true <->
  Permutation output input /\
  (forall i a b, nth_error output i = Some a -> nth_error output (S i) = Some b -> lt b a = false).
Proof. exact (sorted_perm_b_correct' lt input output). Qed.
Print Assumptions sorted_perm_b_correct.

(* for a strict weak order, no adjacent inversion means no inversion at all: rows never decrease *)
Theorem C03_adjacent_is_global (lt : nat -> nat -> bool) (l : list nat) :
  strict_weak_order lt ->
  (forall i a b, nth_error l i = Some a -> nth_error l (S i) = Some b -> lt b a = false) ->
  forall i j a b, i < j -> nth_error l i = Some a -> nth_error l j = Some b -> lt b a = false.
Proof. exact (no_adjacent_inversion_all lt l). Qed.
Print Assumptions C03_adjacent_is_global.

(* 2. No panic: for ANY Less (even an inconsistent one) every data[i] of the sorter is in range and
   the fuel of every loop of the model suffices. *)
Theorem C03_no_panic (lt : nat -> nat -> bool) (ids : list nat) :
  exists out, sort_ids lt ids = Ok out /\ length out = length ids.
Proof. exact (sort_ids_safe lt ids). Qed.
Print Assumptions C03_no_panic.

Theorem C03_no_panic' (lt : nat -> nat -> bool) (ids : list nat) :
  sort_ids lt ids <> Panic /\ sort_ids lt ids <> Fail.
Proof. exact (sort_ids_no_panic lt ids). Qed.
Print Assumptions C03_no_panic'.

(* the positions returned by doPivot stay inside the range and make both sub-ranges strictly
   smaller, so the truncated subtractions of the model are the exact Go values *)
Theorem C03_do_pivot_range (lt : nat -> nat -> bool) (lo hi : nat) (s : list nat) :
  12 < hi - lo -> hi <= length s ->
  exists mlo mhi s', do_pivot lt lo hi s = Ok (mlo, mhi, s') /\ length s' = length s /\
    lo <= mlo < hi /\ lo < mhi <= hi.
Proof. exact (do_pivot_safe lt lo hi s). Qed.
Print Assumptions C03_do_pivot_range.

(* 3c. The five concrete column types (int, float on IEEE bit patterns with NaN = null and -0 = +0,
   bool, string bytewise, enum by declared rank) as the engine decodes them: Sorter.Less as modelled
   (model_lt, drives the exact replay) IS the order worded by the property (spec_lt, drives the
   oracle), for every list of keys and every Reverse / NullLast; and it is a strict weak order. *)
Theorem C03_model_lt_is_spec (keys : list keyspec) (a b : nat) : model_lt keys a b = spec_lt keys a b.
Proof. exact (model_lt_spec keys a b). Qed.
Print Assumptions C03_model_lt_is_spec.

Theorem C03_model_lt_swo (keys : list keyspec) : strict_weak_order (model_lt keys).
Proof. exact (model_lt_swo keys). Qed.
Print Assumptions C03_model_lt_swo.

(* 5. Second wave: sortedness of the insertion sort and of the heap sort, for any strict weak order.
   [sorted_range lt s a b]: no inversion between any two positions of [a, b). *)
Theorem C03_insertion_sorted (lt : nat -> nat -> bool) (a b : nat) (s : list nat) :
  strict_weak_order lt -> b <= length s ->
  exists s', insertion_sort lt a b s = Ok s' /\ length s' = length s /\
    (forall i j, a <= i -> i < j -> j < b -> lt (nth j s' 0) (nth i s' 0) = false).
Proof. exact (fun W => insertion_sort_sorted lt W a b s). Qed.
Print Assumptions C03_insertion_sorted.

Theorem C03_heap_sorted (lt : nat -> nat -> bool) (a b : nat) (s : list nat) :
  strict_weak_order lt -> a <= b -> b <= length s ->
  exists s', heap_sort lt a b s = Ok s' /\ length s' = length s /\
    (forall i j, a <= i -> i < j -> j < b -> lt (nth j s' 0) (nth i s' 0) = false) /\
    frame a s s' (b - a).
Proof. exact (fun W => heap_sort_sorted' lt W a b s). Qed.
Print Assumptions C03_heap_sorted.

(* the heapsort fallback of quickSort (maxDepth exhausted on a range of more than 12 elements):
   the range ends up sorted, the slice is permuted, everything outside the range is untouched *)
Theorem C03_sorted_heap_fallback (lt : nat -> nat -> bool) (fuel a b : nat) (s : list nat) :
  strict_weak_order lt -> a <= b -> b <= length s -> 12 < b - a ->
  exists s', quick_sort lt (S fuel) a b 0 s = Ok s' /\ length s' = length s /\
    (forall i j, a <= i -> i < j -> j < b -> lt (nth j s' 0) (nth i s' 0) = false) /\
    Permutation s' s /\ (forall q, q < a \/ b <= q -> nth q s' 0 = nth q s 0).
Proof. exact (fun W => quick_sort_heap_fallback lt W fuel a b s). Qed.
Print Assumptions C03_sorted_heap_fallback.

(* Sort on at most 12 rows (shell pass + insertion sort): the output has no inversion *)
Theorem C03_sorted_partial_small (lt : nat -> nat -> bool) (ids out : list nat) :
  strict_weak_order lt -> length ids <= 12 -> sort_ids lt ids = Ok out ->
  forall i j a b, i < j -> nth_error out i = Some a -> nth_error out j = Some b -> lt b a = false.
Proof. exact (fun W => sort_ids_sorted_small lt W ids out). Qed.
Print Assumptions C03_sorted_partial_small.

Example C03_sorted_small_example :
  strict_weak_order (rank_lt [3; 1; 2; 1; 0]%N) /\ length [4; 3; 2; 1; 0] <= 12.
Proof. split; [apply (swo_of_rank _ (fun a => nthd [3; 1; 2; 1; 0]%N 0%N a))|cbn; lia]. Qed.

(* 6. Third wave: the quicksort regime (13 rows and more), for any strict weak order.
   6a. The partition post-condition of doPivot (loop invariants of sorter.go): on a range [lo, hi) of
   more than 12 elements doPivot answers (midlo, midhi) with lo <= midlo < midhi <= hi and, with
   pivot = data[midlo] afterwards,
     data[lo, midlo) <= pivot,  data[midlo, midhi) neither smaller nor larger than pivot,
     data[midhi, hi) >= pivot;
   nothing outside [lo, hi) moves and every value of the range was a value of the range before. *)
Theorem C03_do_pivot_partition (lt : nat -> nat -> bool) (lo hi : nat) (s : list nat) :
  strict_weak_order lt -> 12 < hi - lo -> hi <= length s ->
  exists mlo mhi s', do_pivot lt lo hi s = Ok (mlo, mhi, s') /\
    (length s' = length s /\
     (forall q, q < lo \/ hi <= q -> nth q s' 0 = nth q s 0) /\
     (forall p, lo <= p -> p < hi -> exists p', lo <= p' /\ p' < hi /\ nth p s' 0 = nth p' s 0)) /\
    lo <= mlo /\ mlo < mhi /\ mhi <= hi /\
    (forall i, lo <= i -> i < mlo -> lt (nth mlo s' 0) (nth i s' 0) = false) /\
    (forall i, mlo <= i -> i < mhi ->
       lt (nth mlo s' 0) (nth i s' 0) = false /\ lt (nth i s' 0) (nth mlo s' 0) = false) /\
    (forall i, mhi <= i -> i < hi -> lt (nth i s' 0) (nth mlo s' 0) = false).
Proof. exact (fun W => do_pivot_partition lt W lo hi s). Qed.
Print Assumptions C03_do_pivot_partition.

Example C03_do_pivot_partition_example :
  let ranks := [0; 7; 4; 1; 8; 5; 2; 9; 6; 3; 0; 7; 4; 1; 8; 5; 2; 9; 6; 3; 0; 7]%N in
  let s := [21; 20; 19; 18; 17; 16; 15; 14; 13; 12; 11; 10; 9; 8; 7; 6; 5; 4; 3; 2; 1; 0] in
  strict_weak_order (rank_lt ranks) /\ 12 < 20 - 2 /\ 20 <= length s /\
  do_pivot (rank_lt ranks) 2 20 s
  = Ok (8, 9, [21; 20; 13; 3; 6; 16; 9; 10; 19; 12; 11; 14; 15; 8; 7; 17; 5; 4; 18; 2; 1; 0]).
Proof.
  intros ranks s. split; [apply (swo_of_rank _ (fun a => nthd ranks 0%N a))|].
  split; [cbn; lia|]. split; [cbn; lia|]. vm_compute. reflexivity.
Qed.

(* 6b. quickSort on any range, with any maxDepth and any fuel above the range length: the range ends
   up without inversion, nothing outside moves, every value of the range was there before. *)
Theorem C03_quick_sort_sorted (lt : nat -> nat -> bool) (fuel a b d : nat) (s : list nat) :
  strict_weak_order lt -> a <= b -> b <= length s -> b - a < fuel ->
  exists s', quick_sort lt fuel a b d s = Ok s' /\
    (length s' = length s /\
     (forall q, q < a \/ b <= q -> nth q s' 0 = nth q s 0) /\
     (forall p, a <= p -> p < b -> exists p', a <= p' /\ p' < b /\ nth p s' 0 = nth p' s 0)) /\
    (forall i j, a <= i -> i < j -> j < b -> lt (nth j s' 0) (nth i s' 0) = false).
Proof. exact (fun W => quick_sort_sorted lt W fuel a b d s). Qed.
Print Assumptions C03_quick_sort_sorted.

(* both only permute their range: data[lo:hi] afterwards is a permutation of data[lo:hi] before *)
Theorem C03_do_pivot_range_perm (lt : nat -> nat -> bool) (lo hi : nat) (s : list nat) mlo mhi s' :
  strict_weak_order lt -> 12 < hi - lo -> hi <= length s -> do_pivot lt lo hi s = Ok (mlo, mhi, s') ->
  Permutation (firstn (hi - lo) (skipn lo s')) (firstn (hi - lo) (skipn lo s)).
Proof. exact (fun W => do_pivot_range_perm lt W lo hi s mlo mhi s'). Qed.
Print Assumptions C03_do_pivot_range_perm.

Theorem C03_quick_sort_range_perm (lt : nat -> nat -> bool) (fuel a b d : nat) (s s' : list nat) :
  strict_weak_order lt -> a <= b -> b <= length s -> b - a < fuel ->
  quick_sort lt fuel a b d s = Ok s' ->
  Permutation (firstn (b - a) (skipn a s')) (firstn (b - a) (skipn a s)).
Proof. exact (fun W => quick_sort_range_perm lt W fuel a b d s s'). Qed.
Print Assumptions C03_quick_sort_range_perm.

(* 6c. Sort(): for every strict weak order Less, every index of every length (all regimes of the
   sorter: insertion sort, median of three, ninther, heapsort fallback) the output has no inversion. *)
Definition C03_sorted_full_statement : Prop :=
  forall (lt : nat -> nat -> bool) (ids out : list nat),
    strict_weak_order lt -> sort_ids lt ids = Ok out ->
    forall i j a b, i < j -> nth_error out i = Some a -> nth_error out j = Some b -> lt b a = false.

Theorem C03_sorted : C03_sorted_full_statement.
Proof. exact (fun lt ids out W => sort_ids_sorted lt W ids out). Qed.
Print Assumptions C03_sorted.

Example C03_sorted_example :
  let ranks := [0; 7; 4; 1; 8; 5; 2; 9; 6; 3; 0; 7; 4; 1; 8; 5; 2; 9; 6; 3; 0; 7; 4; 1; 8;
                5; 2; 9; 6; 3; 0; 7; 4; 1; 8; 5; 2; 9; 6; 3; 0; 7; 4; 1; 8; 5; 2; 9; 6; 3]%N in
  strict_weak_order (rank_lt ranks) /\
  sort_ids (rank_lt ranks) (seq 0 50)
  = Ok [10; 30; 20; 40; 0; 43; 23; 13; 33; 3; 6; 36; 16; 46; 26; 9; 29; 39; 19; 49; 12; 22; 2; 42; 32;
        45; 15; 5; 35; 25; 18; 28; 8; 48; 38; 31; 1; 21; 41; 11; 14; 24; 4; 44; 34; 37; 7; 27; 47; 17].
Proof.
  intros ranks. split; [apply (swo_of_rank _ (fun a => nthd ranks 0%N a))|]. vm_compute. reflexivity.
Qed.

(* total form: Sort() answers (no panic), the answer is a permutation of the index and has no inversion *)
Theorem C03_sort_correct (lt : nat -> nat -> bool) (ids : list nat) :
  strict_weak_order lt ->
  exists out, sort_ids lt ids = Ok out /\ Permutation out ids /\
    forall i j a b, i < j -> nth_error out i = Some a -> nth_error out j = Some b -> lt b a = false.
Proof. exact (fun W => sort_ids_correct lt W ids). Qed.
Print Assumptions C03_sort_correct.

(* 7. The statement of the property on the modelled sorter, without any premise: for every list of
   keys over the five column types with every Reverse / NullLast (the Comparables as Sorter.Less
   consults them, model_lt), for every index: Sort() answers, returns every row id of the index
   exactly once, and no row is followed by a row that is smaller in the order worded by the property
   (spec_lt: lexicographic; natural order per type; null/NaN smallest, largest with NullLast; Reverse
   inverting the complete order of the key). *)
Definition C03_full_statement : Prop :=
  forall (keys : list keyspec) (ids : list nat),
    exists out, sort_ids (model_lt keys) ids = Ok out /\ Permutation out ids /\
      forall i j a b, i < j -> nth_error out i = Some a -> nth_error out j = Some b ->
                      spec_lt keys b a = false.

Theorem C03_sort_by_keys : C03_full_statement.
Proof. exact sort_ids_by_keys. Qed.
Print Assumptions C03_sort_by_keys.

(* 8. Model and oracle are consistent: the verified checker accepts the model's own output, so an
   implementation output that passes the exact comparison with the model (no code 1) can never be
   rejected by the property oracle (code 2). *)
Theorem C03_checker_accepts_model (lt : nat -> nat -> bool) (ids out : list nat) :
  strict_weak_order lt -> sort_ids lt ids = Ok out -> sorted_perm_b lt ids out = true.
Proof. exact (sort_ids_checker_accepts lt ids out). Qed.
Print Assumptions C03_checker_accepts_model.

Theorem C03_checker_accepts_model_keys (keys : list keyspec) (ids out : list nat) :
  sort_ids (model_lt keys) ids = Ok out -> sorted_perm_b (spec_lt keys) ids out = true.
Proof. exact (sort_ids_checker_accepts_keys keys ids out). Qed.
Print Assumptions C03_checker_accepts_model_keys.

Example C03_checker_accepts_model_keys_example :
  let keys := [(KBool [true; false; true; false; true; false; true; false; true; false; true; false;
                       true; false; true; false], (true, false));
               (KStr [Some [3]; None; Some [1; 2]; Some [1]; None; Some [2]; Some []; Some [3];
                      Some [1]; None; Some [2; 0]; Some [2]; Some [9]; Some [0]; None; Some [1; 2]]%N,
                (false, true))] in
  sort_ids (model_lt keys) (seq 0 16) = Ok [6; 8; 2; 10; 0; 12; 14; 4; 13; 3; 15; 5; 11; 7; 1; 9].
Proof. vm_compute. reflexivity. Qed.

(* the premise of 6c is needed: with an inconsistent Less (1 < 0 and 0 < 1) every output has an inversion *)
Example C03_sorted_needs_order_example :
  let lt := fun a b : nat => negb (a =? b) in
  sort_ids lt [0; 1] = Ok [1; 0] /\ lt 0 1 = true /\ lt 1 0 = true.
Proof. vm_compute. repeat split; reflexivity. Qed.

(* ================================================================================================
   9. Frame level: QFrame.Sort itself (qframe.go) on the physical model of a frame — Model/SortFrame.v
   [sort_frame], the function the sort engine replays on every dumped frame (family SFrame of
   Corr/SortCorr.v).  A frame is its column slice with the physical data arrays, its row index (ANY list of
   row ids in range: permuted, a subset, with repeats) and its error flag; [abs] reads the logical table. *)
From Coq Require Import Uint63.
From QF Require Import Model.Ops Model.SortFrame Proofs.SortFrameProofs.
(* Model.Frame and Corr.SortCorr both define f_isnan / f_lt; below they are always qualified *)
From QF Require Import Model.Frame.

(* 9a. The statement of the property for Sort on frames.  [orders_known]: every Order names a column of the
   frame.  [row_lt f orders p q]: the lexicographic comparison of the physical rows p and q on the sort
   cells of the order columns (C03_frame_sort_cell_order below: natural order per type, null / NaN smallest,
   largest with NullLast, Reverse inverting the complete order of the key). *)
Definition C03_frame_full_statement : Prop :=
  forall (f : frame) (orders : list order),
    wf_frame f = true -> ferr f = false -> orders_known f orders = true ->
    exists g t t', sort_frame f orders = Ok g /\
      (* the columns are physically untouched, no error, the index holds the same row ids as often as before *)
      cols g = cols f /\ ferr g = false /\ Permutation (ix g) (ix f) /\
      (* the logical tables: same names and types, the rows rearranged *)
      abs f = Ok t /\ abs g = Ok t' /\ tnames t' = tnames t /\ ttypes t' = ttypes t /\
      Permutation (trows t') (trows t) /\
      (* rows stay whole: the i-th row of the result is the receiver's row at the i-th row id of the new index *)
      (forall i a, nth_error (ix g) i = Some a ->
         exists row, row_at f a = Ok row /\ nth_error (trows t') i = Some row) /\
      (* no row is followed, at any distance, by a row that is smaller *)
      (forall i j a b, i < j -> nth_error (ix g) i = Some a -> nth_error (ix g) j = Some b ->
         row_lt f orders b a = Ok false).

Theorem C03_frame_sort : C03_frame_full_statement.
Proof. exact frame_sort_full. Qed.
Print Assumptions C03_frame_sort.

(* a frame with a column of every type (NaN, signalling NaN, -0, +0, -Inf; null strings; enum with declared
   order z, a, m and a null) and an index with a repeated row id satisfies the premises *)
Definition C03_example_frame : frame :=
  mkFrame [(bs 1 0x69, ICol [3; -1; 3; 0; 7; -1]%Z);
           (bs 1 0x66, FCol [0x7ff8000000000001; 0x8000000000000000; 0x0; 0x3ff0000000000000;
                              0xfff0000000000000; 0x7ff0000000000001]%N);
           (bs 1 0x62, BCol [true; false; true; true; false; false]);
           (bs 1 0x73, SCol [Some (bs 1 0x62); None; Some (bs 0 0x0); Some (bs 2 0x6162); None; Some (bs 1 0x61)]);
           (bs 1 0x65, ECol [1; 255; 0; 2; 0; 1]%N [bs 1 0x7a; bs 1 0x61; bs 1 0x6d] false)]
          [5; 0; 3; 3; 1; 4; 2] false.

Example C03_frame_sort_example :
  let orders := [(bs 1 0x65, true, true); (bs 1 0x66, false, false)] in
  wf_frame C03_example_frame = true /\ ferr C03_example_frame = false /\
  orders_known C03_example_frame orders = true /\
  sort_frame C03_example_frame orders = Ok (with_ix C03_example_frame [1; 3; 3; 5; 0; 4; 2]).
Proof. vm_compute. repeat split; reflexivity. Qed.

(* 9b. The same with the order given by the key list of the sorter theorems (spec_lt over frame_keys): the
   columns the orders name, decoded as Corr/SortCorr.v decodes the cells the harness sends. *)
Theorem C03_frame_sort_keys (f : frame) (orders : list order) (keys : list keyspec) :
  wf_frame f = true -> ferr f = false -> frame_keys f orders = Some keys ->
  exists g, sort_frame f orders = Ok g /\
    cols g = cols f /\ ferr g = false /\ Permutation (ix g) (ix f) /\ wf_frame g = true /\
    forall i j a b, i < j -> nth_error (ix g) i = Some a -> nth_error (ix g) j = Some b ->
                    spec_lt keys b a = false.
Proof. exact (frame_sort_ok f orders keys). Qed.
Print Assumptions C03_frame_sort_keys.

Theorem C03_frame_keys_known (f : frame) (orders : list order) :
  orders_known f orders = true <-> exists keys, frame_keys f orders = Some keys.
Proof. exact (frame_keys_known f orders). Qed.
Print Assumptions C03_frame_keys_known.

(* 9c. Rows stay whole: whatever frames the model returns, the multiset of logical rows is unchanged *)
Theorem C03_frame_sort_rows (f : frame) (orders : list order) (keys : list keyspec) (g : frame) (t t' : table) :
  wf_frame f = true -> ferr f = false -> frame_keys f orders = Some keys ->
  sort_frame f orders = Ok g -> abs f = Ok t -> abs g = Ok t' ->
  Permutation (trows t') (trows t) /\ tnames t' = tnames t /\ ttypes t' = ttypes t.
Proof. exact (frame_sort_rows f orders keys g t t'). Qed.
Print Assumptions C03_frame_sort_rows.

(* 9d. Errors.  A failed receiver is returned as it is (sticky); an order that names no column gives Err
   whatever else is asked; without any order the receiver itself is returned. *)
Theorem C03_frame_sort_err_sticky (f : frame) (orders : list order) :
  ferr f = true -> sort_frame f orders = Ok f.
Proof. exact (frame_sort_sticky f orders). Qed.
Print Assumptions C03_frame_sort_err_sticky.

Theorem C03_frame_sort_err_unknown (f : frame) (orders : list order) :
  ferr f = false -> orders_known f orders = false -> sort_frame f orders = Ok (with_err f).
Proof. exact (frame_sort_unknown f orders). Qed.
Print Assumptions C03_frame_sort_err_unknown.

Example C03_frame_sort_err_example :
  let orders := [(bs 1 0x65, true, true); (bs 1 0x45, false, false)] in
  ferr C03_example_frame = false /\ orders_known C03_example_frame orders = false /\
  ferr (with_err C03_example_frame) = true /\
  orders_known (with_err C03_example_frame) [(bs 1 0x65, true, true)] = true.
Proof. vm_compute. repeat split; reflexivity. Qed.

Theorem C03_frame_sort_no_orders (f : frame) : sort_frame f [] = Ok f.
Proof. exact (frame_sort_no_orders f). Qed.
Print Assumptions C03_frame_sort_no_orders.

(* 9e. No panic: on every well-formed frame (whatever its error flag, its index and the orders) Sort
   answers with a well-formed frame; it carries an error exactly when the receiver did or an order names no
   column.  In particular every c.data[i] of every Compare is in range and the sorter's loops terminate. *)
Theorem C03_frame_sort_no_panic (f : frame) (orders : list order) :
  wf_frame f = true ->
  exists g, sort_frame f orders = Ok g /\ wf_frame g = true /\
    ferr g = ferr f || negb (orders_known f orders).
Proof. exact (frame_sort_no_panic f orders). Qed.
Print Assumptions C03_frame_sort_no_panic.

(* the premise is needed: a row id outside a key column is a Go panic in Compare (the model's range check) *)
Example C03_frame_sort_needs_wf_example :
  let f := mkFrame [(bs 1 0x69, ICol [3; -1]%Z)] [0; 2] false in
  wf_frame f = false /\ sort_frame f [(bs 1 0x69, false, false)] = Panic.
Proof. vm_compute. split; reflexivity. Qed.

(* 9f. What the order is.  Sorter.Less over the Comparables of the order columns is model_lt over the keys
   of the frame, hence (C03_model_lt_is_spec) the order worded by the property ... *)
Theorem C03_frame_less_is_model_lt (f : frame) (orders : list order) (keys : list keyspec) :
  frame_keys f orders = Some keys ->
  exists cs, comparables f orders = Some cs /\
    (forall a b, less_keys (map snd cs) a b = model_lt keys a b) /\
    Forall (fun c => exists name, lookup_col f name = Some c) (map fst cs).
Proof. exact (frame_keys_some_comparables f orders keys). Qed.
Print Assumptions C03_frame_less_is_model_lt.

Theorem C03_frame_comparable_is_key_compare (c : coldata) (rev nl : bool) (a b : nat) :
  col_comparable c rev nl a b = key_compare (col_key c, (rev, nl)) a b.
Proof. exact (col_comparable_key c rev nl a b). Qed.
Print Assumptions C03_frame_comparable_is_key_compare.

(* ... and, on the cells: comparing two row ids under one key is comparing the two sort cells the rows hold
   in the column ([skey_lt]: [skey_vlt] = numeric / IEEE with -0 = +0 / false < true / byte-wise / declared
   position; null or NaN smallest, largest with NullLast; two nulls tie; Reverse swaps the arguments) *)
Theorem C03_frame_sort_cell_order (c : coldata) (rev nl : bool) (p q : nat) (x y : skey) :
  skey_at c p = Ok x -> skey_at c q = Ok y ->
  key_spec (col_key c, (rev, nl)) p q = skey_lt rev nl x y.
Proof. exact (key_spec_cells c rev nl p q x y). Qed.
Print Assumptions C03_frame_sort_cell_order.

Example C03_frame_sort_cell_order_example :
  skey_at (ECol [1; 255; 0]%N [bs 1 0x7a; bs 1 0x61] false) 0 = Ok (SKEnum (Some 1%N)) /\
  skey_at (ECol [1; 255; 0]%N [bs 1 0x7a; bs 1 0x61] false) 1 = Ok (SKEnum None) /\
  skey_lt true true (SKEnum None) (SKEnum (Some 1%N)) = true.
Proof. vm_compute. repeat split; reflexivity. Qed.

(* a sort cell is the logical cell of the typed views; an enum cell is the string at its declared position *)
Theorem C03_frame_sort_cell_is_cell (c : coldata) (p : nat) :
  cell_at c p = do k <- skey_at c p; skey_cell (col_values c) k.
Proof. exact (cell_at_skey c p). Qed.
Print Assumptions C03_frame_sort_cell_is_cell.

(* the lexicographic comparison of two rows on their sort cells is spec_lt over the keys of the frame *)
Theorem C03_frame_row_order (f : frame) (orders : list order) (keys : list keyspec) (p q : nat) :
  wf_frame f = true -> (p < phys_len f)%nat -> (q < phys_len f)%nat ->
  frame_keys f orders = Some keys -> row_lt f orders p q = Ok (spec_lt keys p q).
Proof. exact (frame_row_lt f orders keys p q). Qed.
Print Assumptions C03_frame_row_order.

(* 9f'. The ordering clause on the LOGICAL rows of the result table alone.  [trow_lt f orders r1 r2]: the
   lexicographic comparison of two rows of cells; the cell of an order column is taken at the position the
   by-name map gives; [cell_lt]: numeric / IEEE (-0 = +0) / false < true / byte-wise / position of the string in
   the declared values; null or NaN smallest, largest with NullLast; Reverse swaps the arguments.
   Premise [enum_values_nodup]: the declared values of every enum column are duplicate-free (what the enum
   factory builds: C17); without it the declared position of a string is not determined by the string. *)
Definition C03_frame_logical_statement : Prop :=
  forall (f : frame) (orders : list order),
    wf_frame f = true -> ferr f = false -> orders_known f orders = true -> enum_values_nodup f ->
    exists g t t', sort_frame f orders = Ok g /\ abs f = Ok t /\ abs g = Ok t' /\
      tnames t' = tnames t /\ ttypes t' = ttypes t /\ Permutation (trows t') (trows t) /\
      forall i j ri rj, i < j -> nth_error (trows t') i = Some ri -> nth_error (trows t') j = Some rj ->
                        trow_lt f orders rj ri = Some false.

Theorem C03_frame_sort_logical : C03_frame_logical_statement.
Proof. exact frame_sort_logical. Qed.
Print Assumptions C03_frame_sort_logical.

Example C03_frame_sort_logical_example : enum_values_nodup C03_example_frame.
Proof.
  intros n c H. cbn [C03_example_frame cols In] in H.
  destruct H as [H|[H|[H|[H|[H|[]]]]]]; inversion H; subst; cbn [col_values]; try constructor.
  all: try (intro HH; vm_compute in HH; intuition discriminate).
  repeat constructor; intro HH; vm_compute in HH; intuition discriminate.
Qed.

Theorem C03_frame_cell_order (values : list bytes) (rev nl : bool) (x y : skey) (a b : cell) :
  NoDup values -> skey_cell values x = Ok a -> skey_cell values y = Ok b ->
  skey_lt rev nl x y = cell_lt values rev nl a b.
Proof. exact (skey_lt_cells values rev nl x y a b). Qed.
Print Assumptions C03_frame_cell_order.

(* the premise is needed: with a value declared twice two equal strings are ordered by Sort *)
Example C03_frame_cell_order_needs_nodup_example :
  let values := [bs 1 0x7a; bs 1 0x7a] in
  skey_cell values (SKEnum (Some 0%N)) = Ok (CEnum (Some (bs 1 0x7a))) /\
  skey_cell values (SKEnum (Some 1%N)) = Ok (CEnum (Some (bs 1 0x7a))) /\
  skey_lt false false (SKEnum (Some 0%N)) (SKEnum (Some 1%N)) = true /\
  cell_lt values false false (CEnum (Some (bs 1 0x7a))) (CEnum (Some (bs 1 0x7a))) = false.
Proof. vm_compute. repeat split; reflexivity. Qed.

(* the two readings of float64 bit patterns (Model/Frame.v and Corr/SortCorr.v) are the same functions *)
Theorem C03_float_readings_agree (a b : N) :
  Frame.f_isnan a = SortCorr.f_isnan a /\ Frame.f_lt a b = SortCorr.f_lt a b.
Proof. exact (conj (f_isnan_eq a) (f_lt_eq a b)). Qed.
Print Assumptions C03_float_readings_agree.

(* 9g. The oracle the engine runs on every dumped result (code 2) is sound, and it accepts the model's own
   result, so a result that passes the exact comparison can never be rejected by it. *)
Theorem C03_frame_oracle_sound (f : frame) (orders : list order) (keys : list keyspec) (out : frame) :
  ferr f = false -> frame_keys f orders = Some keys -> sort_frame_oracle f orders out = true ->
  ferr out = false /\ cols_obs_eqb (cols f) (cols out) = true /\
  Permutation (ix out) (ix f) /\
  (forall i j a b, i < j -> nth_error (ix out) i = Some a -> nth_error (ix out) j = Some b ->
     spec_lt keys b a = false) /\
  rows_whole_b f out = true.
Proof. exact (sort_frame_oracle_sound f orders keys out). Qed.
Print Assumptions C03_frame_oracle_sound.

Theorem C03_frame_oracle_sound_err (f : frame) (orders : list order) (out : frame) :
  (ferr f = true \/ orders_known f orders = false) -> sort_frame_oracle f orders out = true -> ferr out = true.
Proof. exact (sort_frame_oracle_sound_err f orders out). Qed.
Print Assumptions C03_frame_oracle_sound_err.

Theorem C03_frame_oracle_accepts_model (f : frame) (orders : list order) (g : frame) :
  wf_frame f = true -> sort_frame f orders = Ok g -> sort_frame_oracle f orders g = true.
Proof. exact (sort_frame_oracle_accepts_model f orders g). Qed.
Print Assumptions C03_frame_oracle_accepts_model.

(* the check function of the engine on the example: the model's result passes (0); an index with an
   inversion, a lost row or a modified column is rejected by the oracle (2); another arrangement of tied rows
   is accepted by the oracle and reported as a difference from the model (1) *)
Example C03_frame_check_example :
  let cs := cols C03_example_frame in
  let fin := (cs, [5; 0; 3; 3; 1; 4; 2]%uint63, false) in
  let orders := [(bs 1 0x65, true, true); (bs 1 0x66, false, false)] in
  check_sframe true fin orders (cs, [1; 3; 3; 5; 0; 4; 2]%uint63, false) = 0%N /\
  check_sframe true fin orders (cs, [1; 3; 3; 0; 5; 4; 2]%uint63, false) = 1%N /\
  check_sframe true fin orders (cs, [1; 3; 3; 5; 0; 2; 4]%uint63, false) = 2%N /\
  check_sframe true fin orders (cs, [1; 3; 5; 5; 0; 4; 2]%uint63, false) = 2%N /\
  check_sframe true fin orders (tl cs, [1; 3; 3; 5; 0; 4; 2]%uint63, false) = 2%N /\
  check_sframe true fin orders (cs, [1; 3; 3; 5; 0; 4; 2]%uint63, true) = 2%N.
Proof. vm_compute. repeat split; reflexivity. Qed.
